"""
C11 — date, time and duration values follow the proleptic Gregorian timeline.

 prove     : EPV.Props.C11 (dfce = sum of year lengths, todelta = instant, fromdelta/todelta round
             trips, ± dayTimeDuration, ± yearMonthDuration, comparison = order of instants,
             adjust-dateTime-to-timezone, lexical year numbering) over unbounded Int years
 correspond: generated values/durations (boundary years of both eras, leap/century years, first and
             last days, 24:00:00, fractions, all timezone shapes) run through the real classes
             (DateTime/DateTime10/Date/Date10, Duration classes) *and* through XPath expressions,
             against the Lean model (must equal the implementation) and the Lean spec (must equal
             both, except inside the trigger predicate of a listed finding, flag `inK`)
 validate  : CPython's datetime (trusted component) against the spec in the same run (op=pyord)
 search    : dense enumeration around every year boundary against the spec
"""
from __future__ import annotations

import datetime
import json
import sys
from decimal import Decimal
from pathlib import Path

sys.path.insert(0, str(Path(__file__).resolve().parent.parent))
from harness.common import (Run, Disagreement, cli, DriverError)  # noqa: E402

PROP = 'C11'
US = 86400 * 10 ** 6
UM = 60 * 10 ** 6
TD_MAX_DAYS = 999999999


# ------------------------------------------------------------------ python-side reference
# Used only to *generate* interesting inputs (durations that land on chosen targets) and as the
# fallback oracle of `search` when the Lean driver itself cannot be built.  Never used as `spec`.
def isleap(a):
    return a % 4 == 0 and (a % 100 != 0 or a % 400 == 0)


def mlen(a, m):
    return [31, 29 if isleap(a) else 28, 31, 30, 31, 30, 31, 31, 30, 31, 30, 31][m - 1]


def dby(a):
    b = a - 1
    return b * 365 + b // 4 - b // 100 + b // 400


def daynum(a, m, d):
    return dby(a) + sum(mlen(a, k) for k in range(1, m)) + d - 1


def civil(n):
    a = n * 400 // 146097 + 1
    while dby(a + 1) <= n:
        a += 1
    while dby(a) > n:
        a -= 1
    r, m = n - dby(a), 1
    while r >= mlen(a, m):
        r -= mlen(a, m)
        m += 1
    return a, m, r + 1


def astro(y):
    return y if y > 0 else y + 1


def internal(a):
    return a if a > 0 else a - 1


def local_us(v):
    y, m, d, us, tz = v
    return daynum(astro(y), m, d) * US + us


def instant_us(v):
    return local_us(v) - (v[4] or 0) * UM


def of_local(t, tz):
    n, us = divmod(t, US)
    a, m, d = civil(n)
    return (internal(a), m, d, us, tz)


# ------------------------------------------------------------------------- implementation
def classes():
    from elementpath.datatypes import DateTime, DateTime10, Date, Date10
    return {'dt10': DateTime10, 'dt11': DateTime, 'd10': Date10, 'd11': Date}


def tzobj(tz):
    from elementpath.datatypes import Timezone
    return None if tz is None else Timezone(datetime.timedelta(minutes=tz))


def err_text(e: BaseException) -> str:
    code = getattr(e, 'code', None)
    if code:
        code = str(code).split(':')[-1]
        return {'FODT0001': 'ERR:OverflowError', 'FORG0001': 'ERR:ValueError', 'FODT0002': 'ERR:FODT0002',
                'XPTY0004': 'ERR:TypeError'}.get(code, 'ERR:' + code)
    if isinstance(e, ZeroDivisionError) or type(e).__name__ == 'DivisionByZero':
        return 'ERR:ZeroDivisionError'
    if isinstance(e, (ValueError, OverflowError, TypeError)) and type(e).__module__ == 'builtins':
        return 'ERR:' + type(e).__name__
    return 'ERR:OTHER:' + type(e).__name__


def vstr(v) -> str:
    y, m, d, us, tz = v
    return f'{y}:{m}:{d}:{us}:{"n" if tz is None else tz}'


def canon(x, want_cls=None) -> str:
    """canonical text of an AbstractDateTime"""
    tz = x.tzinfo
    if tz is None:
        tzm = 'n'
    else:
        off = tz.utcoffset(None)
        tot = off.days * 86400 + off.seconds
        tzm = str(tot // 60) if tot % 60 == 0 and off.microseconds == 0 else f'?{off!r}'
    us = ((x.hour * 60 + x.minute) * 60 + x.second) * 10 ** 6 + x.microsecond
    s = f'{x.year}:{x.month}:{x.day}:{us}:{tzm}'
    if want_cls is not None and type(x) is not want_cls:
        s += f'!cls={type(x).__name__}'
    return s


def build(cls_key, v):
    cls = classes()[cls_key]
    y, m, d, us, tz = v
    if cls_key[0] == 'd' and cls_key[1] != 't':
        return cls(y, m, d, tzobj(tz))
    s, u = divmod(us, 10 ** 6)
    return cls(y, m, d, s // 3600, s // 60 % 60, s % 60, u, tzobj(tz))


def is_date(cls_key):
    return cls_key in ('d10', 'd11')


def lex_year(cls_key, y) -> str:
    """lexical year of the internal year number in the class' XSD version"""
    n = y + 1 if (cls_key.endswith('11') and y < 0) else y
    return ('-' if n < 0 else '') + '%04d' % abs(n)


def tz_lex(tz) -> str:
    if tz is None:
        return ''
    if tz == 0:
        return 'Z'
    return ('-' if tz < 0 else '+') + '%02d:%02d' % (abs(tz) // 60, abs(tz) % 60)


def lexical(cls_key, v) -> str:
    y, m, d, us, tz = v
    s = '%s-%02d-%02d' % (lex_year(cls_key, y), m, d)
    if not is_date(cls_key):
        sec, u = divmod(us, 10 ** 6)
        s += 'T%02d:%02d:%02d' % (sec // 3600, sec // 60 % 60, sec % 60)
        if u:
            s += ('.%06d' % u).rstrip('0')
    return s + tz_lex(tz)


def dur_lex(us: int) -> str:
    sign = '-' if us < 0 else ''
    sec, u = divmod(abs(us), 10 ** 6)
    days, sec = divmod(sec, 86400)
    frac = ('.%06d' % u).rstrip('0') if u else ''
    return f"{sign}P{days}DT{sec}{frac}S"


def ym_lex(months: int) -> str:
    return ('-' if months < 0 else '') + f'P{abs(months)}M'


_PARSERS = {}


def xpath_eval(version: str, expr: str):
    from elementpath import XPath2Parser
    p = _PARSERS.get(version)
    if p is None:
        p = _PARSERS[version] = XPath2Parser(xsd_version=version)
    return p.parse(expr).evaluate()


def xs_ctor(cls_key, v) -> str:
    return "xs:%s('%s')" % ('date' if is_date(cls_key) else 'dateTime', lexical(cls_key, v))


def version_of(cls_key):
    return '1.1' if cls_key.endswith('11') else '1.0'


def dur_us(d) -> int:
    return int(d.seconds * 10 ** 6)


G_KINDS = {'gYear': 'GregorianYear', 'gYearMonth': 'GregorianYearMonth', 'gMonth': 'GregorianMonth',
           'gMonthDay': 'GregorianMonthDay', 'gDay': 'GregorianDay'}


def g_class(kind, ver):
    import elementpath.datatypes as dtm
    name = G_KINDS[kind]
    if ver == '1.0' and kind in ('gYear', 'gYearMonth'):
        name += '10'
    return getattr(dtm, name)


def g_lexical(kind, ver, f) -> str:
    """lexical form of a g-value from (lexical year number, month, day, tz)"""
    y, mo, d, tz = f
    ys = ('-' if y < 0 else '') + '%04d' % abs(y)
    body = {'gYear': ys, 'gYearMonth': '%s-%02d' % (ys, mo), 'gMonth': '--%02d' % mo,
            'gMonthDay': '--%02d-%02d' % (mo, d), 'gDay': '---%02d' % d}[kind]
    return body + tz_lex(tz)


def time_lexical(v) -> str:
    us, tz = v[3], v[4]
    sec, u = divmod(us, 10 ** 6)
    return '%02d:%02d:%02d' % (sec // 3600, sec // 60 % 60, sec % 60) + (('.%06d' % u).rstrip('0') if u else '') + tz_lex(tz)


def ctx_eval(ver: str, expr: str, itz=None, variables=None):
    r = hist_eval(ver, expr, variables, itz)
    return r


def run_impl_ext(case: dict):
    """xs:time and gYear..gDay operations; None if the op is not one of them"""
    from elementpath.datatypes import Time, DayTimeDuration, AbstractDateTime
    op, via, ver = case['op'], case.get('via', 'api'), case.get('ver', '1.0')
    if op == 'tmk':
        h, mi, s, us, tz = case['f']
        text = '%02d:%02d:%02d' % (h, mi, s) + (('.%06d' % us) if us else '') + tz_lex(tz)
        x = ctx_eval(ver, "xs:time('%s')" % text)[0] if via == 'xpath' else Time.fromstring(text)
        return canon(x, Time)
    if op in ('tadd', 'tsub'):
        a, dur = case['a'], case['dur']
        if via == 'xpath':
            x = ctx_eval(ver, "xs:time('%s') %s xs:dayTimeDuration('%s')" % (time_lexical(a), '+' if op == 'tadd' else '-', dur_lex(dur)))[0]
        else:
            t = build_obj('t', a)
            d = DayTimeDuration(seconds=Decimal(dur) / 10 ** 6)
            x = t + d if op == 'tadd' else t - d
        return canon(x, Time)
    if op == 'tdiff':
        a, b = case['a'], case['b']
        r = ctx_eval(ver, "xs:time('%s') - xs:time('%s')" % (time_lexical(a), time_lexical(b)), case.get('itz'))[0] if via == 'xpath' \
            else build_obj('t', a) - build_obj('t', b)
        return str(dur_us(r)) if type(r) is DayTimeDuration else f'?{type(r).__name__}'
    if op == 'tcmp':
        ea, eb = "xs:time('%s')" % time_lexical(case['a']), "xs:time('%s')" % time_lexical(case['b'])
        return ''.join('1' if ctx_eval(ver, f'{ea} {o} {eb}', case.get('itz'))[0] else '0' for o in ('lt', 'le', 'eq', 'gt', 'ge'))
    if op == 'tadjust':
        tz2 = case['tz2']
        arg = '()' if tz2 is None else "xs:dayTimeDuration('%s')" % dur_lex(tz2 * UM)
        return canon(ctx_eval(ver, "adjust-time-to-timezone(xs:time('%s'), %s)" % (time_lexical(case['a']), arg))[0], Time)
    if op == 'gmk':
        kind = case['k']
        text = g_lexical(kind, ver, case['f'])
        cls = g_class(kind, ver)
        x = ctx_eval(ver, "xs:%s('%s')" % (kind, text))[0] if via == 'xpath' else cls.fromstring(text)
        if not isinstance(x, AbstractDateTime):
            return '?' + repr(x)
        # the string form must be the canonical lexical form of the stored fields
        back = (x.year + 1 if (ver == '1.1' and x.year < 0) else x.year, x.month, x.day, None if x.tzinfo is None else
                (x.tzinfo.offset.days * 86400 + x.tzinfo.offset.seconds) // 60)
        if str(x) != g_lexical(kind, ver, back):
            return canon(x, cls) + '!str=' + str(x)
        return canon(x, cls)
    if op == 'gcast':
        kind, ck, a = case['k'], case['cls'], case['a']
        x = ctx_eval(version_of(ck), "xs:%s(%s)" % (kind, xs_ctor(ck, a)))[0]
        return canon(x, g_class(kind, version_of(ck)))
    if op == 'gcmp':
        kind = case['k']
        ea = "xs:%s('%s')" % (kind, g_lexical(kind, ver, case['fa']))
        eb = "xs:%s('%s')" % (kind, g_lexical(kind, ver, case['fb']))
        eq = ctx_eval(ver, f'{ea} eq {eb}', case.get('itz'))[0]
        ne = ctx_eval(ver, f'{ea} ne {eb}', case.get('itz'))[0]
        return ('1' if eq else '0') + ('1' if ne else '0')
    if op == 'tzlex':
        # Timezone.fromstring on arbitrary text (directly, or through the timezone= argument of XPathContext) + str()
        from elementpath.datatypes import Timezone
        text = case['s']
        if via == 'ctx':
            import elementpath
            tzv = elementpath.XPathContext(root=None, item=1, timezone=text).timezone
        else:
            tzv = Timezone.fromstring(text)
        off = tzv.offset
        mins = off.days * 1440 + off.seconds // 60
        if off.microseconds or off.seconds % 60:
            return 'ERR:OTHER:offset-not-minutes'
        return '%d|%s' % (mins, ','.join(str(ord(c)) for c in str(tzv)))
    if op == 'lexdt':
        kind, text = case['k'], case['s']
        if kind in G_KINDS:
            cls = g_class(kind, ver)
        else:
            cls = Time if kind == 'time' else classes()[('dt' if kind == 'dateTime' else 'd') + ('11' if ver == '1.1' else '10')]
        if via == 'xpath' and "'" not in text:
            x = ctx_eval(ver, "xs:%s('%s')" % (kind, text))[0]
        else:
            x = cls.fromstring(text)
        return canon(x, cls) + '|' + ','.join(str(ord(c)) for c in str(x))
    if op == 'durop':
        from fractions import Fraction
        from elementpath.datatypes import YearMonthDuration, Duration
        k, x = case['k'], case['x']
        ym = k.startswith('ym')
        left = "xs:yearMonthDuration('%s')" % ym_lex(x) if ym else "xs:dayTimeDuration('%s')" % dur_lex(x)
        if k[2:] in ('add', 'sub'):
            y = case['y']
            right = "xs:yearMonthDuration('%s')" % ym_lex(y) if ym else "xs:dayTimeDuration('%s')" % dur_lex(y)
            sym = '+' if k[2:] == 'add' else '-'
            if via == 'xpath':
                r = ctx_eval(ver, f'{left} {sym} {right}')[0]
            else:
                mk_ = (lambda v: YearMonthDuration(months=v)) if ym else (lambda v: DayTimeDuration(seconds=Decimal(v) / 10 ** 6))
                r = mk_(x) + mk_(y) if sym == '+' else mk_(x) - mk_(y)
        else:
            kind, val = case['num']
            lit = {'int': str, 'dec': str, 'dbl': lambda v: "xs:double('%s')" % repr(v)}[kind](val)
            sym = '*' if k[2:] == 'mul' else 'div'
            if via == 'xpath':
                expr = f'{lit} * {left}' if (sym == '*' and case.get('swap')) else f'{left} {sym} {lit}'
                r = ctx_eval(ver, expr)[0]
            else:
                num = int(val) if kind == 'int' else Decimal(val) if kind == 'dec' else float(val)
                d = YearMonthDuration(months=x) if ym else DayTimeDuration(seconds=Decimal(x) / 10 ** 6)
                r = d * num if sym == '*' else d / num
        if not isinstance(r, Duration):
            return '?' + repr(r)
        return f'{r.months};{dur_us(r)}'
    if op == 'dcast':
        ck, a, to = case['cls'], case['a'], case['to']
        x = ctx_eval(version_of(ck), "xs:%s(%s)" % (to, xs_ctor(ck, a)))[0]
        tk = ('d' if to == 'date' else 'dt') + ck[-2:]
        return canon(x, classes()[tk])
    if op == 'fmtcomp':
        # component extraction through a picture string: fn:format-dateTime / format-date / format-time
        ck, a = case['cls'], case['a']
        if ck == 't':
            expr = "format-time(xs:time('%s'), '[H]|[m]|[s]|[f000001]|[Z]')" % time_lexical(a)
            vv = '1.0'
        else:
            pic = '[Y]|[E]|[M]|[D]|[Z]' if is_date(ck) else '[Y]|[E]|[M]|[D]|[H]|[m]|[s]|[f000001]|[Z]'
            expr = "format-%s(%s, '%s')" % ('date' if is_date(ck) else 'dateTime', xs_ctor(ck, a), pic)
            vv = version_of(ck)
        out = hist_eval(vv, expr, None, None, xp3=True)[0]
        parts = out.split('|')
        zs = parts[-1]
        tzv = 'n' if zs == '' else str((1 if zs[0] == '+' else -1) * (int(zs[1:3]) * 60 + int(zs[4:6]))) if len(zs) == 6 and zs[0] in '+-' and zs[3] == ':' else '?' + zs
        if ck == 't':
            h_, mi_, s_, f_ = parts[:4]
            nums = [2000, 1, 1, int(h_), int(mi_), int(s_) * 10 ** 6 + int(f_)]
        else:
            y_ = int(parts[0]) * (-1 if parts[1].lower() in ('bc', 'bce') else 1)
            if is_date(ck):
                nums = [y_, int(parts[2]), int(parts[3]), 0, 0, 0]
            else:
                nums = [y_, int(parts[2]), int(parts[3]), int(parts[4]), int(parts[5]), int(parts[6]) * 10 ** 6 + int(parts[7])]
        return ';'.join(map(str, nums)) + ';' + tzv
    if op == 'xcls':
        # comparison / subtraction of two date/time values of DIFFERENT Python classes under an implicit timezone
        from elementpath.datatypes import DateTime, DateTimeStamp, Date
        a, b, itz, form = case['a'], case['b'], case.get('itz'), case['form']
        variables = None
        if form == 'stamp':            # XSD 1.1 parser: xs:dateTimeStamp literal against an xs:dateTime literal
            left = "xs:dateTimeStamp('%s')" % lexical('dt11', a)
            right, pv, xp3 = xs_ctor('dt11', b), '1.1', True
        elif form == 'var11':          # default (XSD 1.0) parser, literals are DateTime10/Date10; the variable holds a 1.1-class object
            left, right, pv, xp3 = '$d', xs_ctor(case['cls'][:-2] + '10', b), '1.0', False
            variables = {'d': build(case['cls'][:-2] + '11', a)}
        else:                          # 'varstamp': a DateTimeStamp object in a variable against an XSD 1.1 literal
            left, right, pv, xp3 = '$d', xs_ctor('dt11', b), '1.1', False
            s_, u_ = divmod(a[3], 10 ** 6)
            variables = {'d': DateTimeStamp(a[0], a[1], a[2], s_ // 3600, s_ // 60 % 60, s_ % 60, u_, tzobj(a[4]))}
        if case.get('swap'):
            left, right = right, left
        if case['k'] == 'cmp':
            return ''.join('1' if hist_eval(pv, f'{left} {o} {right}', variables, itz, xp3=xp3)[0] else '0'
                           for o in (('<', '<=', '=', '>', '>=') if case.get('general') else ('lt', 'le', 'eq', 'gt', 'ge')))
        r = hist_eval(pv, f'{left} - {right}', variables, itz, xp3=xp3)[0]
        return str(dur_us(r))
    if op == 'seqfn':
        # two-element sequences through fn:max/min/distinct-values/index-of/deep-equal/sort (XPath 3.1 parser)
        ck, fn = case['cls'], case['fn']
        ea, eb = xs_ctor(ck, case['a']), xs_ctor(ck, case['b'])
        expr = {'max': f'max(({ea}, {eb}))', 'min': f'min(({ea}, {eb}))', 'distinct': f'count(distinct-values(({ea}, {eb})))',
                'index-of': f'count(index-of(({ea}), {eb}))', 'deep-equal': f'deep-equal({ea}, {eb})', 'sort': f'sort(({ea}, {eb}))[1]'}[fn]
        r = hist_eval(version_of(ck), expr, None, case.get('itz'), xp3=True)[0]
        if fn in ('max', 'min', 'sort'):
            return canon(r, classes()[ck])
        return str(int(r)) if not isinstance(r, bool) else ('1' if r else '0')
    if op == 'durdiv':
        from fractions import Fraction
        k, x, y = case['k'], case['x'], case['y']
        mkd = (lambda v: "xs:yearMonthDuration('%s')" % ym_lex(v)) if k == 'ym' else (lambda v: "xs:dayTimeDuration('%s')" % dur_lex(v))
        r = ctx_eval(ver, f'{mkd(x)} div {mkd(y)}')[0]
        if type(r) is not Decimal:
            return '?' + type(r).__name__ + ':' + repr(r)
        sign, digits, exp = r.normalize().as_tuple()
        if not any(digits):
            return '0E0'     # xs:decimal has one zero
        return f'{"-" if sign else ""}{"".join(map(str, digits))}E{exp}'
    if op == 'cmpctx':
        ck = case['cls']
        ea, eb = xs_ctor(ck, case['a']), xs_ctor(ck, case['b'])
        o2 = {'lt': '<', 'le': '<=', 'eq': '=', 'gt': '>', 'ge': '>='}
        return ''.join('1' if ctx_eval(version_of(ck), '%s %s %s' % (ea, o2[o] if case.get('general') else o, eb), case.get('itz'))[0] else '0'
                       for o in ('lt', 'le', 'eq', 'gt', 'ge'))
    return None


def run_impl(case: dict) -> str:
    """the real code on one case, canonical text (same shape as the driver's `model=` field)"""
    from elementpath.datatypes import DayTimeDuration, YearMonthDuration, Duration
    op, ck, via = case['op'], case.get('cls', 'dt10'), case.get('via', 'api')
    if op in ('tmk', 'tadd', 'tsub', 'tdiff', 'tcmp', 'tadjust', 'gmk', 'gcast', 'gcmp', 'cmpctx', 'durop', 'dcast', 'lexdt', 'seqfn', 'durdiv', 'fmtcomp', 'xcls', 'tzlex'):
        try:
            return run_impl_ext(case)
        except Exception as e:
            return err_text(e)
    cls = classes()[ck]
    ver = version_of(ck)
    try:
        if op == 'mk':
            y, mo, d, h, mi, s, us, tz = case['f']
            n = abs(y)
            text = ('-' if case.get('neg', y < 0) else '') + '%04d-%02d-%02d' % (n, mo, d)
            if not is_date(ck):
                text += 'T%02d:%02d:%02d' % (h, mi, s) + (('.%06d' % us) if us else '')
            text += tz_lex(tz)
            if via == 'xpath':
                x = xpath_eval(ver, "xs:%s('%s')" % ('date' if is_date(ck) else 'dateTime', text))
            else:
                x = cls.fromstring(text)
            return canon(x, cls)
        if op == 'lex':
            y = case['y']
            text = ('-' if y < 0 else '') + '%04d-06-15' % abs(y) + ('' if is_date(ck) else 'T12:00:00')
            x = cls.fromstring(text)
            sy = str(x)
            sy = sy[:sy.index('-', 1)]
            fn = 'year-from-date(xs:date' if is_date(ck) else 'year-from-dateTime(xs:dateTime'
            yf = xpath_eval(ver, "%s('%s'))" % (fn, text))
            if not (len(sy.lstrip('-')) >= 4 and (len(sy.lstrip('-')) == 4 or sy.lstrip('-')[0] != '0')):
                return f'{x.year};?{sy};{yf}'
            return f'{x.year};{int(sy)};{yf}'
        if op == 'pyord':
            dte = datetime.date.fromordinal(case['n'])
            return f'{dte.year}:{dte.month}:{dte.day};{dte.toordinal()}'
        if op == 'durcmp':
            import operator
            m1, s1, m2, s2 = case['d']
            if via == 'xpath' and ((s1 == 0 and s2 == 0) or (m1 == 0 and m2 == 0)):
                t = 'yearMonthDuration' if s1 == 0 and s2 == 0 else 'dayTimeDuration'
                a = ym_lex(m1) if t[0] == 'y' else dur_lex(s1)
                b = ym_lex(m2) if t[0] == 'y' else dur_lex(s2)
                bits = ''
                for o in ('lt', 'le', 'gt', 'ge'):
                    bits += '1' if xpath_eval(ver, f"xs:{t}('{a}') {o} xs:{t}('{b}')") else '0'
                return bits
            a = Duration(months=m1, seconds=Decimal(s1) / 10 ** 6)
            b = Duration(months=m2, seconds=Decimal(s2) / 10 ** 6)
            return ''.join('1' if f(a, b) else '0' for f in (operator.lt, operator.le, operator.gt, operator.ge))
        a = case.get('a')
        if op == 'todelta':
            td = build(ck, a).todelta()
            return str((td.days * 86400 + td.seconds) * 10 ** 6 + td.microseconds)
        if op == 'rt':
            x = build(ck, a)
            return canon(cls.fromdelta(x.todelta()), cls)
        if op == 'fromdelta':
            return canon(cls.fromdelta(datetime.timedelta(microseconds=case['t'])), cls)
        if op in ('add', 'sub'):
            dur = case['dur']
            if via == 'xpath':
                x = xpath_eval(ver, "%s %s xs:dayTimeDuration('%s')" % (xs_ctor(ck, a), '+' if op == 'add' else '-', dur_lex(dur)))
            else:
                x = build(ck, a)
                d = DayTimeDuration(seconds=Decimal(dur) / 10 ** 6)
                x = x + d if op == 'add' else x - d
            return canon(x, cls)
        if op == 'addym':
            ms = case['months']
            if via == 'xpath':
                x = xpath_eval(ver, "%s %s xs:yearMonthDuration('%s')" % (xs_ctor(ck, a), '+' if ms >= 0 else '-', ym_lex(abs(ms))))
            else:
                x = build(ck, a)
                x = x + YearMonthDuration(months=ms) if case.get('plus', True) else x - YearMonthDuration(months=-ms)
            return canon(x, cls)
        b = case.get('b')
        if op == 'diff':
            if via == 'xpath':
                r = xpath_eval(ver, "%s - %s" % (xs_ctor(ck, a), xs_ctor(ck, b)))
            else:
                r = build(ck, a) - build(ck, b)
            if type(r) is not DayTimeDuration:
                return f'?{type(r).__name__}'
            return str(dur_us(r))
        if op == 'cmp':
            import operator
            if via == 'xpath':
                ea, eb = xs_ctor(ck, a), xs_ctor(ck, b)
                return ''.join('1' if xpath_eval(ver, f'{ea} {o} {eb}') else '0' for o in ('lt', 'le', 'eq', 'gt', 'ge'))
            x, y = build(ck, a), build(ck, b)
            return ''.join('1' if f(x, y) else '0' for f in (operator.lt, operator.le, operator.eq, operator.gt, operator.ge))
        if op == 'adjust':
            tz2 = case['tz2']
            arg = '()' if tz2 is None else "xs:dayTimeDuration('%s')" % dur_lex(tz2 * UM)
            fn = 'adjust-date-to-timezone' if is_date(ck) else 'adjust-dateTime-to-timezone'
            x = xpath_eval(ver, "%s(%s, %s)" % (fn, xs_ctor(ck, a), arg))
            return canon(x, cls)
        return 'ERR:harness-unknown-op'
    except Exception as e:  # every exception of the implementation is part of its behaviour
        return err_text(e)


# ------------------------------------------------------------------------- protocol lines
def line_of(case: dict) -> str:
    op, ck = case['op'], case.get('cls', 'dt10')
    date = ' DATE=1' if is_date(ck) else ''
    v = '11' if ck.endswith('11') else '10'
    if op == 'mk':
        y, mo, d, h, mi, s, us, tz = case['f']
        if is_date(ck):
            h = mi = s = us = 0
        return f'op=mk V={v} Y={y} MO={mo} D={d} H={h} MI={mi} S={s} US={us} TZ={"n" if tz is None else tz}{date}'
    if op == 'lex':
        return f'op=lex V={v} Y={case["y"]}'
    if op == 'comp':
        return f'op=comp A={vstr(case["a"])} V={v}'
    tzs = lambda z: 'n' if z is None else z
    if op == 'tmk':
        h, mi, s_, us, tz = case['f']
        return f'op=tmk H={h} MI={mi} S={s_} US={us} TZ={tzs(tz)}'
    if op in ('tadd', 'tsub'):
        return f'op={op} A={vstr(case["a"])} DUR={case["dur"]}'
    if op == 'tdiff':
        itz = case.get('itz')
        return f'op=tdiff A={vstr(fill_tz(tuple(case["a"]), itz))} B={vstr(fill_tz(tuple(case["b"]), itz))}'
    if op == 'fmtcomp':
        return f'op=comp A={vstr(case["a"])} V=10 PIC=1'     # era year = the internal year number
    if op == 'durdiv':
        return 'op=pyord N=1'      # the quotient is checked against an exact-rational oracle in compare()
    if op == 'xcls':
        a, b = (tuple(case['b']), tuple(case['a'])) if case.get('swap') else (tuple(case['a']), tuple(case['b']))
        if case['k'] == 'cmp':
            itz = f' ITZ={case["itz"]}' if case.get('itz') is not None else ''
            return f'op=cmp A={vstr(a)} B={vstr(b)}{itz}'
        return f'op=diff A={vstr(fill_tz(a, case.get("itz")))} B={vstr(fill_tz(b, case.get("itz")))}'
    if op in ('tcmp', 'cmpctx', 'seqfn'):
        itz = f' ITZ={case["itz"]}' if case.get('itz') is not None else ''
        return f'op={"tcmp" if op == "tcmp" else "cmp"} A={vstr(case["a"])} B={vstr(case["b"])}{itz}'
    if op == 'tadjust':
        return f'op=tadjust A={vstr(case["a"])} TZ={tzs(case["tz2"])}'
    if op == 'gmk':
        y, mo, d, tz = case['f']
        vv = '11' if case.get('ver') == '1.1' else '10'
        return f'op=gmk K={case["k"]} V={vv} Y={y} MO={mo} D={d} TZ={tzs(tz)}'
    if op == 'gcast':
        y, mo, d, us_, tz = case['a']
        ly = y + 1 if (ck.endswith('11') and y < 0) else y
        return f'op=gmk K={case["k"]} V={v} Y={ly} MO={mo} D={d} TZ={tzs(tz)}'
    if op == 'tzlex':
        return 'op=tzlex S=' + ','.join(str(ord(c)) for c in case['s'])
    if op == 'lexdt':
        vv = '11' if case.get('ver') == '1.1' else '10'
        return f'op=lexdt K={case["k"]} V={vv} S=' + ','.join(str(ord(c)) for c in case['s'])
    if op == 'durop':
        from fractions import Fraction
        kk = case['k']
        if 'num' in case:
            kind, val = case['num']
            fr = Fraction(int(val)) if kind == 'int' else Fraction(Decimal(val)) if kind == 'dec' else Fraction(float(val))
            if kind == 'dbl' and kk in ('ymmul', 'ymdiv') and case['x'] != 0 and float(val) != 0 and case.get('via', 'api') == 'api':
                # datatypes API with a float operand: `self.months * other` / `self.months / other` is IEEE binary64 arithmetic
                # (trusted component), the rounding rule is then applied to that double.  Through XPath the double operand is
                # first converted to its exact Decimal (get_operands), so the arithmetic is exact there.
                p_ = float(case['x']) * float(val) if kk == 'ymmul' else case['x'] / float(val)
                fr = Fraction(p_) / case['x']
                kk = 'ymmul'
            n, d = fr.numerator, fr.denominator
        else:
            n, d = 0, 1
        return f'op=durop K={kk} X={case["x"]} Y={case.get("y", 0)} N={n} D={d}'
    if op == 'dcast':
        y, mo, d, us_, tz = case['a']
        ly = y + 1 if (ck.endswith('11') and y < 0) else y
        if case['to'] == 'date' or is_date(ck):
            us_ = 0
        sec, u = divmod(us_, 10 ** 6)
        return (f'op=mk V={v} Y={ly} MO={mo} D={d} H={sec // 3600} MI={sec // 60 % 60} S={sec % 60} US={u} TZ={tzs(tz)}'
                + (' DATE=1' if case['to'] == 'date' else ''))
    if op == 'gcmp':
        def dflt(f):
            y, mo, d, tz = f
            k = case['k']
            yi = (y - 1 if (case.get('ver') == '1.1' and y <= 0) else y) if k in ('gYear', 'gYearMonth') else 2000
            return (yi, mo if k in ('gYearMonth', 'gMonth', 'gMonthDay') else 1, d if k in ('gMonthDay', 'gDay') else 1, 0, tz)
        itz = f' ITZ={case["itz"]}' if case.get('itz') is not None else ''
        return f'op=cmp A={vstr(dflt(case["fa"]))} B={vstr(dflt(case["fb"]))}{itz}'
    if op == 'pyord':
        return f'op=pyord N={case["n"]}'
    if op == 'durcmp':
        m1, s1, m2, s2 = case['d']
        return f'op=durcmp M1={m1} S1={s1} M2={m2} S2={s2}'
    a = vstr(case['a']) if 'a' in case else ''
    if op in ('todelta', 'rt'):
        return f'op={op} A={a}{date}'
    if op == 'fromdelta':
        return f'op=fromdelta T={case["t"]}{date}'
    if op in ('add', 'sub'):
        return f'op={op} A={a} DUR={case["dur"]}{date}'
    if op == 'addym':
        return f'op=addym A={a} MONTHS={case["months"]}{date}'
    if op in ('diff', 'cmp'):
        itz = f' ITZ={case["itz"]}' if op == 'cmp' and case.get('itz') is not None else ''
        return f'op={op} A={a} B={vstr(case["b"])}{itz}'
    if op == 'adjust':
        return f'op={"adjustdate" if is_date(ck) else "adjust"} A={a} TZ={"n" if case["tz2"] is None else case["tz2"]}'
    raise ValueError(op)


def parse_answer(ans: str):
    parts = dict(p.split('=', 1) for p in ans.split(' ') if '=' in p)
    return parts.get('model'), parts.get('spec'), parts.get('inK') == '1'


def finding_tags(ans: str) -> list:
    """ids of the listed findings whose trigger predicate (computed by the driver from the input) holds"""
    parts = dict(p.split('=', 1) for p in ans.split(' ') if '=' in p)
    return (['F11d'] if parts.get('inK') == '1' else []) + (['F11z'] if parts.get('inZ') == '1' else [])


def answer_field(ans: str, key: str):
    return dict(p.split('=', 1) for p in ans.split(' ') if '=' in p).get(key)


# ------------------------------------------------------------------------------ generator
BOUNDARY_YEARS = [1, 2, 3, 4, 5, 8, 99, 100, 101, 399, 400, 401, 1582, 1600, 1900, 2000, 2024, 9996, 9998, 9999,
                  10000, 10001, 10003, 10004, 10100, 12000, 99999, 400000]
TD_EDGE_YEARS = [2737906, 2737907, 2737908, 2737909, 2737910, 3000000]   # 999999999 days ≈ year 2737908
TZS = [None, None, 0, 840, -840, 330, -300, 60, -1, 839]
TIMES = [0, 0, 1, 999999, 10 ** 6, 45015 * 10 ** 6, 45015 * 10 ** 6 + 123456, US - 10 ** 6, US - 1]


def gen_year(rng, allow_huge=True):
    r = rng.random()
    if r < 0.55:
        y = rng.choice(BOUNDARY_YEARS)
    elif r < 0.60 and allow_huge:
        y = rng.choice(TD_EDGE_YEARS)
    elif r < 0.85:
        y = rng.randint(1, 12000)
    else:
        y = rng.randint(1, 2700000)
    return y if rng.random() < 0.55 else -y


def gen_value(rng, cls_key, allow_huge=True):
    y = gen_year(rng, allow_huge)
    a = astro(y)
    m = rng.choice([1, 1, 2, 2, 2, 3, 6, 12, 12, rng.randint(1, 12)])
    ml = mlen(a, m)
    d = rng.choice([1, 1, 2, 28, ml, ml, rng.randint(1, ml)])
    d = min(d, ml)
    us = 0 if is_date(cls_key) else rng.choice(TIMES + [rng.randrange(US)])
    tz = rng.choice(TZS + [rng.randint(-840, 840)])
    return (y, m, d, us, tz)


def gen_target_near(rng, v, cls_key):
    """a second value chosen relative to `v`: same year boundary, neighbouring days, other era ..."""
    t = local_us(v)
    r = rng.random()
    if r < 0.3:
        t2 = t + rng.choice([-1, 1]) * rng.randrange(0, 30 * 3600 * 10 ** 6)
    elif r < 0.5:
        # first / last instant of a year close to v
        a = astro(v[0]) + rng.choice([-1, 0, 1, 2])
        t2 = dby(a) * US + rng.choice([0, 1, -1, 43200 * 10 ** 6, -US, US - 1, 59 * US, 60 * US - 1])
    elif r < 0.7:
        w = gen_value(rng, cls_key, allow_huge=False)
        t2 = local_us(w)
    else:
        t2 = t + rng.choice([-1, 1]) * rng.choice([0, 1, US, 365 * US, 366 * US, 146097 * US, rng.randrange(0, 4000 * 366 * US)])
    w = of_local(t2, rng.choice(TZS + [v[4], v[4]]))
    if is_date(cls_key):
        w = w[:3] + (0,) + w[4:]
    return w


def gen_cases(rng, n, quick):
    cases = []
    keys = ['dt10', 'dt11', 'd10', 'd11']
    for _ in range(n):
        ck = rng.choice(['dt10', 'dt11', 'dt10', 'dt11', 'd10', 'd11'])
        via = 'xpath' if rng.random() < 0.3 else 'api'
        r = rng.random()
        v = gen_value(rng, ck)
        if abs(v[0]) > 2 ** 31 - 1:
            v = (v[0] // 2,) + v[1:]
        if r < 0.08:
            cases.append({'op': 'todelta', 'cls': ck, 'a': v})
        elif r < 0.18:
            cases.append({'op': 'rt', 'cls': ck, 'a': v})
        elif r < 0.26:
            t = instant_us(gen_target_near(rng, v, ck)) if rng.random() < 0.8 else rng.choice([-1, 1]) * rng.randrange(TD_MAX_DAYS * US)
            t = max(-TD_MAX_DAYS * US, min(t, TD_MAX_DAYS * US + US - 1))
            cases.append({'op': 'fromdelta', 'cls': ck, 't': t})
        elif r < 0.50:
            w = gen_target_near(rng, v, ck)
            dur = local_us(w) - local_us(v)
            if rng.random() < 0.15:
                dur = rng.choice([0, 1, -1, US, -US, 59 * US, 10 ** 6, rng.randrange(-10 ** 15, 10 ** 15)])
            op = rng.choice(['add', 'sub'])
            if op == 'sub':
                dur = -dur
            if abs(dur) // US >= TD_MAX_DAYS and via == 'xpath':
                via = 'api'
            if abs(dur) >= 2 ** 62 * 10 ** 6:
                dur = 0
            cases.append({'op': op, 'cls': ck, 'via': via, 'a': v, 'dur': dur})
        elif r < 0.62:
            a = astro(v[0])
            ms = rng.choice([0, 1, -1, 11, 12, -12, 13, 25, -25, 1200, -4800, rng.randint(-30000, 30000),
                             -12 * a, -12 * a + 1, -12 * a - 1, -12 * a + 13, 12 * (10000 - a), 12 * (9999 - a) + 11,
                             rng.randint(-3 * 10 ** 7, 3 * 10 ** 7)])
            c = {'op': 'addym', 'cls': ck, 'via': via, 'a': v, 'months': ms}
            if via == 'api':
                c['plus'] = rng.random() < 0.5
            cases.append(c)
        elif r < 0.74:
            w = gen_target_near(rng, v, ck)
            cases.append({'op': 'diff', 'cls': ck, 'via': via, 'a': v, 'b': w})
        elif r < 0.90:
            w = gen_target_near(rng, v, ck) if rng.random() < 0.9 else v
            cases.append({'op': 'cmp', 'cls': ck, 'via': via, 'a': v, 'b': w})
        elif r < 0.95:
            cases.append({'op': 'adjust', 'cls': ck, 'a': v, 'tz2': rng.choice([None, 0, 840, -840, 840, -840, 330, -300, rng.randint(-840, 840)])})
        else:
            # lexical forms: valid and invalid fields, 24:00:00, year 0
            y = rng.choice([0, 0, 1, -1, -4, -5, 4, 9999, 10000, -10000, -9999, 10004, 2 ** 31 - 1, -(2 ** 31 - 1), gen_year(rng)])
            if abs(y) >= 2 ** 31:
                y = y // 2
            mo = rng.choice([0, 1, 2, 2, 12, 12, 13, rng.randint(1, 12)])
            d = rng.choice([0, 1, 28, 29, 29, 30, 31, 31, 32])
            h = rng.choice([0, 23, 24, 24, 24, 25, rng.randint(0, 23)])
            mi = rng.choice([0, 0, 0, 59, 60, rng.randint(0, 59)])
            s = rng.choice([0, 0, 0, 59, 60, rng.randint(0, 59)])
            us = rng.choice([0, 0, 0, 1, 999999])
            tz = rng.choice(TZS)
            cases.append({'op': 'mk', 'cls': ck, 'via': via, 'f': [y, mo, d, h, mi, s, us, tz], 'neg': y < 0 or (y == 0 and rng.random() < 0.3)})
    # small fixed-size groups
    for _ in range(max(40, n // 60)):
        ck = rng.choice(keys)
        y = rng.choice([0, 1, -1, -2, -9999, -10000, -10001, 9999, 10000, 123456, -123456, gen_year(rng)])
        if abs(y) >= 2 ** 31:
            y //= 2
        cases.append({'op': 'lex', 'cls': ck, 'y': y})
        cases.append({'op': 'pyord', 'n': rng.choice([1, 2, 365, 366, 1461, 1462, 36524, 36525, 146097, 146098, 3652059,
                                                       rng.randint(1, 3652059), rng.randint(1, 3652059)])})
        kind = rng.random()
        big = 10 ** 7
        if kind < 0.4:
            d = [rng.randint(-400, 400), 0, rng.randint(-400, 400), 0]
        elif kind < 0.7:
            d = [0, rng.randint(-10 ** 13, 10 ** 13), 0, rng.randint(-10 ** 13, 10 ** 13)]
        else:
            m1 = rng.choice([0, 1, -1, 12, rng.randint(-big, big)])
            m2 = rng.choice([0, 1, 2, -1, 12, 13, m1, rng.randint(-big, big)])
            sg1 = 1 if m1 >= 0 else -1
            sg2 = 1 if m2 >= 0 else -1
            d = [m1, sg1 * rng.choice([0, 28 * US, 29 * US, 30 * US, 31 * US, 365 * US, 366 * US, rng.randrange(10 ** 13)]),
                 m2, sg2 * rng.choice([0, 28 * US, 30 * US, 31 * US, 59 * US, 60 * US, 61 * US, 62 * US, rng.randrange(10 ** 13)])]
        cases.append({'op': 'durcmp', 'via': rng.choice(['api', 'xpath']), 'd': d})
    return cases


def gen_time(rng):
    us = rng.choice(TIMES + [0, 3600 * 10 ** 6, 82800 * 10 ** 6, rng.randrange(US)])
    return (2000, 1, 1, us, rng.choice(TZS + [rng.randint(-840, 840)]))


def gen_ext_cases(rng, n):
    """xs:time, gYear..gDay and context-dependent comparisons"""
    cases = []
    for _ in range(n):
        r = rng.random()
        via = 'xpath' if rng.random() < 0.5 else 'api'
        ver = rng.choice(['1.0', '1.1'])
        if r < 0.08:
            cases.append({'op': 'tmk', 'via': via, 'ver': ver,
                          'f': [rng.choice([0, 23, 24, 24, 25, rng.randint(0, 23)]), rng.choice([0, 0, 59, 60, rng.randint(0, 59)]),
                                rng.choice([0, 0, 59, 60, rng.randint(0, 59)]), rng.choice([0, 0, 1, 999999]), rng.choice(TZS)]})
        elif r < 0.22:
            t = gen_time(rng)
            dur = rng.choice([0, 1, -1, US, -US, US - 1, 3600 * 10 ** 6, -3600 * 10 ** 6, US - t[3], -t[3], -t[3] - 1,
                              rng.randrange(-3 * US, 3 * US), rng.randrange(-10 ** 17, 10 ** 17),
                              (MAXORD_PY - 730120) * US, (MAXORD_PY - 730119) * US - t[3] - 1, (MAXORD_PY - 730119) * US - t[3],
                              -730119 * US - t[3], -730119 * US - t[3] - 1, rng.randrange(-4 * 10 ** 20, 4 * 10 ** 20)])
            op = rng.choice(['tadd', 'tsub'])
            if op == 'tsub':
                dur = -dur
            if abs(dur) // US >= TD_MAX_DAYS:
                via = 'api'
            cases.append({'op': op, 'via': via, 'ver': ver, 'a': t, 'dur': dur})
        elif r < 0.30:
            itz = rng.choice([None, None, 0, 840, -300]) if via == 'xpath' else None
            cases.append({'op': 'tdiff', 'via': via, 'ver': ver, 'a': gen_time(rng), 'b': gen_time(rng), 'itz': itz})
        elif r < 0.40:
            a = gen_time(rng)
            b = gen_time(rng) if rng.random() < 0.6 else (2000, 1, 1, (a[3] - (a[4] or 0) * UM + (rng.choice(TZS) or 0) * UM) % US, rng.choice(TZS))
            cases.append({'op': 'tcmp', 'ver': ver, 'a': a, 'b': b, 'itz': rng.choice([None, None, 0, 840, -300, 330])})
        elif r < 0.47:
            cases.append({'op': 'tadjust', 'ver': ver, 'a': gen_time(rng), 'tz2': rng.choice([None, 0, 840, -840, 330, -300, rng.randint(-840, 840)])})
        elif r < 0.62:
            kind = rng.choice(list(G_KINDS))
            y = rng.choice([0, 1, -1, -4, -5, 4, 2000, 9999, 10000, -10000, 12345678, gen_year(rng, False)])
            cases.append({'op': 'gmk', 'via': via, 'ver': ver, 'k': kind,
                          'f': [y, rng.choice([0, 1, 2, 2, 12, 13, rng.randint(1, 12)]), rng.choice([0, 1, 28, 29, 30, 31, 32]), rng.choice(TZS)]})
        elif r < 0.69:
            ck = rng.choice(['dt10', 'dt11', 'd10', 'd11'])
            v = gen_value(rng, ck, allow_huge=False)
            cases.append({'op': 'gcast', 'k': rng.choice(list(G_KINDS)), 'cls': ck, 'a': v})
        elif r < 0.75:
            kind = rng.choice(list(G_KINDS))
            fa = [rng.choice([1, -1, 2000, 2001, -5, 10000]), rng.choice([1, 2, 3, 12]), rng.choice([1, 2, 28, 29]), rng.choice(TZS)]
            fb = list(fa) if rng.random() < 0.5 else [rng.choice([1, -1, 2000, 2001, -5, 10000]), rng.choice([1, 2, 3, 12]), rng.choice([1, 2, 28, 29]), None]
            fb[3] = rng.choice(TZS + [fa[3]])
            if fa[1] == 2 and fa[2] == 29 and kind == 'gMonthDay':
                pass
            cases.append({'op': 'gcmp', 'ver': ver, 'k': kind, 'fa': fa, 'fb': fb, 'itz': rng.choice([None, None, 0, 840, -300])})
        elif r < 0.81:
            ck = rng.choice(['dt10', 'dt11', 'd10', 'd11'])
            v = gen_value(rng, ck, allow_huge=False)
            w = gen_target_near(rng, v, ck) if rng.random() < 0.7 else of_local(local_us(v) - ((v[4] or 0) - (rng.choice(TZS) or 0)) * UM, rng.choice(TZS))
            if is_date(ck):
                w = w[:3] + (0,) + w[4:]
            cases.append({'op': 'seqfn', 'cls': ck, 'fn': rng.choice(['max', 'min', 'distinct', 'index-of', 'deep-equal', 'sort']),
                          'a': v, 'b': w, 'itz': rng.choice([None, 0, 840, -840, -300, 330])})
        elif r < 0.85:
            ck = rng.choice(['dt10', 'dt11', 'd10', 'd11', 't'])
            v = gen_time(rng) if ck == 't' else gen_value(rng, ck, allow_huge=False)
            cases.append({'op': 'fmtcomp', 'cls': ck, 'a': v})
        elif r < 0.90:
            form = rng.choice(['stamp', 'var11', 'var11', 'varstamp'])
            ck = 'dt11' if form != 'var11' else rng.choice(['dt11', 'd11'])
            v = gen_value(rng, ck, allow_huge=False)
            if not 1 <= v[0] <= 9999:
                v = (rng.randint(1, 9999), 1, 28) + v[3:]
            if form != 'var11' and v[4] is None:
                v = v[:4] + (rng.choice([0, 300, -420]),)          # a dateTimeStamp has a timezone
            w = gen_target_near(rng, v, ck)
            w = w[:4] + (rng.choice([None, None, w[4]]),)
            if is_date(ck):
                w = w[:3] + (0,) + w[4:]
            k = 'diff' if form == 'varstamp' else rng.choice(['cmp', 'cmp', 'diff'])
            cases.append({'op': 'xcls', 'form': form, 'cls': ck, 'k': k, 'a': v, 'b': w, 'itz': rng.choice([None, 300, 840, -300, 330, 0]),
                          'swap': rng.random() < 0.5,
                          'general': rng.random() < 0.4})
        elif r < 0.93:
            ck = rng.choice(['dt10', 'dt11', 'd10', 'd11'])
            cases.append({'op': 'dcast', 'cls': ck, 'to': rng.choice(['date', 'dateTime']), 'a': gen_value(rng, ck, allow_huge=False)})
        else:
            ck = rng.choice(['dt10', 'dt11', 'd10', 'd11'])
            v = gen_value(rng, ck, allow_huge=False)
            w = gen_target_near(rng, v, ck)
            cases.append({'op': 'cmpctx', 'cls': ck, 'a': v, 'b': w, 'itz': rng.choice([None, 0, 840, -840, -300, 330]),
                          'general': rng.random() < 0.5})
    return cases


MAXORD_PY = 3652059


def xsd_lexical(kind: str, text: str):
    """oracle for the lexical space, written from the XSD 1.1 grammar (dateTimeLexicalRep, dateLexicalRep,
    timeLexicalRep: yearFrag, monthFrag, dayFrag, hourFrag, minuteFrag, secondFrag, endOfDayFrag, timezoneFrag), after
    whiteSpace collapse.  Returns the fields (neg, year, month, day, h, mi, s, us, tz) or None.  Day-of-month validity
    and the year numbering are left to the value mapping (the driver's spec)."""
    t = text.strip(' \t\n\r')
    D = '0123456789'
    if kind in G_KINDS:
        return xsd_lexical_g(kind, t)

    def num(st, lo, hi):
        if len(st) == 2 and st[0] in D and st[1] in D and lo <= int(st) <= hi:
            return int(st)
        return None
    tz = None
    if t.endswith('Z'):
        tz, t = 0, t[:-1]
    elif len(t) >= 6 and t[-6] in '+-' and t[-3] == ':':
        hh, mm = num(t[-5:-3], 0, 14), num(t[-2:], 0, 59)
        if hh is None or mm is None or (hh == 14 and mm != 0):
            return None
        tz = (hh * 60 + mm) * (-1 if t[-6] == '-' else 1)
        t = t[:-6]
    dpart = tpart = None
    if kind == 'dateTime':
        if t.count('T') != 1:
            return None
        dpart, tpart = t.split('T')
    elif kind == 'date':
        dpart = t
    else:
        tpart = t
    neg = year = mo = d = None
    if dpart is not None:
        neg = dpart.startswith('-')
        body = dpart[1:] if neg else dpart
        parts = body.split('-')
        if len(parts) != 3:
            return None
        ys = parts[0]
        if len(ys) < 4 or any(c not in D for c in ys) or (len(ys) > 4 and ys[0] == '0'):
            return None
        year, mo, d = int(ys), num(parts[1], 1, 12), num(parts[2], 1, 31)
        if mo is None or d is None:
            return None
    h = mi = sec = us = 0
    if tpart is not None:
        fr = ''
        if '.' in tpart:
            tpart, fr = tpart.split('.', 1)
            if not fr or any(c not in D for c in fr):
                return None
        if len(tpart) != 8 or tpart[2] != ':' or tpart[5] != ':':
            return None
        if tpart == '24:00:00':
            if fr.strip('0'):
                return None
            h, mi, sec = 24, 0, 0
        else:
            h, mi, sec = num(tpart[0:2], 0, 23), num(tpart[3:5], 0, 59), num(tpart[6:8], 0, 59)
            if h is None or mi is None or sec is None:
                return None
        us = int((fr + '000000')[:6]) if fr else 0
    return (neg, year, mo, d, h, mi, sec, us, tz)


def xsd_lexical_g(kind: str, t: str):
    """gYearLexicalRep ::= yearFrag timezoneFrag?, gYearMonth ::= yearFrag '-' monthFrag tz?, gMonth ::= '--' monthFrag tz?,
    gMonthDay ::= '--' monthFrag '-' dayFrag tz?, gDay ::= '---' dayFrag tz?  (XSD 1.1 §3.3.11-15); returns (year, month, day, tz)
    with the lexical year number, or None"""
    D = '0123456789'

    def num(st, lo, hi):
        return int(st) if len(st) == 2 and st[0] in D and st[1] in D and lo <= int(st) <= hi else None
    tz = None
    if t.endswith('Z'):
        tz, t = 0, t[:-1]
    elif len(t) >= 6 and t[-6] in '+-' and t[-3] == ':':
        hh, mm = num(t[-5:-3], 0, 14), num(t[-2:], 0, 59)
        if hh is None or mm is None or (hh == 14 and mm != 0):
            return None
        tz = (hh * 60 + mm) * (-1 if t[-6] == '-' else 1)
        t = t[:-6]

    def year(ys):
        neg = ys.startswith('-')
        b = ys[1:] if neg else ys
        if len(b) < 4 or any(c not in D for c in b) or (len(b) > 4 and b[0] == '0'):
            return None
        return -int(b) if neg else int(b), neg
    if kind == 'gYear':
        y = year(t)
        return None if y is None else (y[0], 0, 0, tz, y[1])
    if kind == 'gYearMonth':
        if len(t) < 3 or t[-3] != '-':
            return None
        y, mo = year(t[:-3]), num(t[-2:], 1, 12)
        return None if y is None or mo is None else (y[0], mo, 0, tz, y[1])
    if kind == 'gMonth':
        mo = num(t[2:], 1, 12) if t.startswith('--') and len(t) == 4 else None
        return None if mo is None else (0, mo, 0, tz, False)
    if kind == 'gMonthDay':
        if not (t.startswith('--') and len(t) == 7 and t[4] == '-'):
            return None
        mo, d = num(t[2:4], 1, 12), num(t[5:7], 1, 31)
        return None if mo is None or d is None else (0, mo, d, tz, False)
    d = num(t[3:], 1, 31) if t.startswith('---') and len(t) == 5 else None
    return None if d is None else (0, 0, d, tz, False)


PY_SPACES = [' ', '\t', '\n', '\r', '\x0b', '\x0c', '\x1c', '\x1f', '\x85', '\xa0', '\u2003', '\u3000']


def gen_lex_cases(rng, n):
    """strings inside and outside the lexical spaces of xs:dateTime / xs:date / xs:time; `intent` is the companion
    single-operation case (constructor from fields) whose *spec* answer is the expected value, or None = reject"""
    cases = []
    for _ in range(n):
        kind = rng.choice(['dateTime', 'dateTime', 'date', 'time'])
        ver = rng.choice(['1.0', '1.1'])
        y = rng.choice([0, 1, -1, -4, 4, 9999, 10000, -10000, 2000, 2024, 123456, gen_year(rng, False)])
        ly = abs(y)
        neg = y < 0 or (y == 0 and rng.random() < 0.3)
        mo = rng.choice([1, 2, 2, 12, rng.randint(1, 12), 0, 13])
        d = rng.choice([1, 28, 29, 30, 31, rng.randint(1, 28), 0, 32])
        h = rng.choice([0, 12, 23, 24, 24, rng.randint(0, 23), 25])
        mi = rng.choice([0, 0, 30, 59, rng.randint(0, 59), 60])
        sec = rng.choice([0, 0, 15, 59, rng.randint(0, 59), 60])
        frac = rng.choice(['', '', '', '.5', '.500', '.000001', '.0000001', '.9999999', '.123456789', '.0', '.' + str(rng.randint(0, 999999))])
        tz = rng.choice(TZS + [rng.randint(-840, 840)])
        ydig = '%04d' % ly
        us = int((frac[1:] + '000000')[:6]) if frac else 0
        dpart = ('-' if neg else '') + ydig + '-%02d-%02d' % (mo, d)
        tpart = '%02d:%02d:%02d' % (h, mi, sec) + frac
        text = {'dateTime': dpart + 'T' + tpart, 'date': dpart, 'time': tpart}[kind] + tz_lex(tz)
        ck = ('dt' if kind == 'dateTime' else 'd') + ('11' if ver == '1.1' else '10')
        if kind == 'time':
            intent = {'op': 'tmk', 'f': [h, mi, sec, us, tz]}
        else:
            intent = {'op': 'mk', 'cls': ck, 'f': [(-ly if neg else ly), mo, d, h, mi, sec, us, tz], 'neg': neg}
            if kind == 'date':
                intent['f'][3:7] = [0, 0, 0, 0]
        r = rng.random()
        if r < 0.55:
            pass
        elif r < 0.65:
            text = rng.choice(PY_SPACES) * rng.randint(0, 2) + text + rng.choice(PY_SPACES) * rng.randint(0, 2)
        else:
            # leave the lexical space
            m = rng.random()
            if m < 0.12 and kind != 'time' and ly < 100000:
                text = ('-' if neg else '') + '0' + text.lstrip('-')          # leading zero on a year of more than 4 digits
                if len(ydig) < 4 + 0:
                    pass
            elif m < 0.24:
                i = rng.randrange(len(text))
                text = text[:i] + text[i + 1:]                                # drop one character
            elif m < 0.36:
                i = rng.randrange(len(text) + 1)
                text = text[:i] + rng.choice(['0', ' ', '-', ':', 'T', 'Z', '.', '+', 'x', '\u0663', '\uff11']) + text[i:]   # insert one
            elif m < 0.48:
                text = text.replace('T', rng.choice(['t', ' ', '']), 1) if 'T' in text else text + 'T'
            elif m < 0.60:
                text = text[:-1] + rng.choice(['z', '+14:01', '+15:00', '-14:30', '+1:00', '+01:0', '+0100', 'ZZ', '+24:00', '-00:60']) if tz is not None else \
                    text + rng.choice(['z', '+14:01', '+15:00', '+1:00', '+0100', ' Z', '+24:00', '-00:60'])
            elif m < 0.72:
                digits = [i for i, c in enumerate(text) if c.isdigit()]
                i = rng.choice(digits)
                text = text[:i] + rng.choice(['\u0663', '\uff11', '\u0967', 'a', ' ']) + text[i + 1:]   # non-ASCII digit etc.
            elif m < 0.84 and kind != 'time':
                text = ('+' if not neg else '--') + text.lstrip('-')
            else:
                text = text.replace('.', rng.choice(['.', ',', '..', '. ']), 1) + ('.' if rng.random() < 0.3 else '')
            intent = '?'     # decided below: still valid only if the mutation happened to give the same/another valid literal
        cases.append({'op': 'lexdt', 'via': rng.choice(['api', 'xpath']), 'ver': ver, 'k': kind, 's': text, 'intent': intent})
    for _ in range(n // 3):
        kind = rng.choice(list(G_KINDS))
        ver = rng.choice(['1.0', '1.1'])
        y = rng.choice([0, 1, -1, -4, 45, 2000, 9999, 10000, -10000, 123456, gen_year(rng, False)])
        f = [y, rng.choice([1, 2, 12, 0, 13, rng.randint(1, 12)]), rng.choice([1, 28, 29, 30, 31, 0, 32]), rng.choice(TZS + [rng.randint(-840, 840)])]
        text = g_lexical(kind, ver, f)
        r = rng.random()
        if r < 0.5:
            pass
        elif r < 0.6:
            text = rng.choice(PY_SPACES) * rng.randint(0, 2) + text + rng.choice(PY_SPACES) * rng.randint(0, 2)
        else:
            m = rng.random()
            if m < 0.3:
                i = rng.randrange(len(text))
                text = text[:i] + text[i + 1:]
            elif m < 0.6:
                i = rng.randrange(len(text) + 1)
                text = text[:i] + rng.choice(['0', '-', ':', 'Z', '+', ' ', '\u0663', 'x']) + text[i:]
            elif m < 0.8:
                text = text + rng.choice(['z', '+14:01', '+15:00', '+1:00', 'ZZ', '-00:60', '-05:00'])
            else:
                text = ('0' + text) if text[0].isdigit() else text.replace('-', '+', 1)
        cases.append({'op': 'lexdt', 'via': rng.choice(['api', 'xpath']), 'ver': ver, 'k': kind, 's': text})
    return cases


TZ_CORPUS = ['00:00', '-0:0', ' 00:00\n', '\t-0:0 ', '0:0', '+0:0', '-0:00', '-00:0', '000:00', '00:00\xa0', '+00:00\n\n', 'Z', '+00:00', '-00:00', '-00:30', '+00:30', '-00:01', '+14:00', '-14:00', '+14:01', '-14:01', '+13:59', '-13:59',
             '+13:60', '5:3', '-1:-30', '-0:30', '+0:-30', ' Z ', '\tZ\n', 'Z\xa0', '\x1cZ', 'z', '', ':', '::', '1:2:3', '05:30', '+05:30',
             ' +05:30 ', '+5 : 30', '+5\x1c:30', '+ 5:30', '+05:3_0', '+0_5:30', '_5:30', '5_:30', '5__0:0', '++5:30', '--5:30', '+-5:30',
             '\u0665:\u0663', '-\uff10\uff15:\uff13\uff10', '+05:30Z', 'Z+05:30', '+05.0:30', '+0x5:30', '+05:30:', '+24:00', '-00:840',
             '+00:841', '+00:-841', '-0:-840', '99999999999999:0', '-99999999999999:0', '23999999999:0', '23999999976:0', '-23999999976:0',
             '-23999999977:0', '0:1439999998560', '0:1439999999999', '0:1440000000000', '-0:1439999998560', '-0:1439999998561',
             '9' * 4300 + ':0', '9' * 4301 + ':0', '0' * 5000 + '5:30', '+05:\x0030', '\x7f5:30', '+05:30\x85', '\u20285:30',
             '+\u00b25:30', '+\u0be75:00', '-00:00 ', '+00:0', '+1:0', '-13:60', '+12:120', '−05:30', '+05：30']


def gen_tz_cases(rng, n):
    """texts for Timezone.fromstring: (a) the XSD canonical/lexical forms of every kind of offset, (b) edits of such
    forms (sign, digit, separator, white space of the three classes, underscores, Unicode digits, extra/missing
    fields), (c) `int()`-level shapes around the range and the timedelta limits, (d) random short strings over a
    small alphabet"""
    out = [{'op': 'tzlex', 's': t, 'via': 'api'} for t in TZ_CORPUS]
    alphabet = list('0123456789') * 3 + list('+-:: Z_') * 2 + ['\t', '\n', '\r', '\x0b', '\x0c', '\x1c', '\x1f', '\x85', '\xa0', '\u2003',
                '\u3000', '\u0660', '\u0669', '\uff11', '\U0001d7d8', 'z', 'T', '.', 'x', 'e', '\x00', '\x7f', '\u2212', '\xb2', '\u00bd']
    spaces = [' ', '\t', '\n', '\r', '\x0b', '\x0c', '\x1c', '\x1d', '\x1e', '\x1f', '\x85', '\xa0', '\u1680', '\u2000', '\u200a', '\u2028',
              '\u2029', '\u202f', '\u205f', '\u3000', '\u200b', '\ufeff']
    def lit(m):
        if m == 0:
            return rng.choice(['Z', '+00:00', '-00:00', '00:00', '-0:0'])
        return '%s%02d:%02d' % ('-' if m < 0 else '+', abs(m) // 60, abs(m) % 60)
    def udigits(t):
        z = rng.choice([0x660, 0x6f0, 0x966, 0xff10, 0x1d7ce, 0x1e950])
        return ''.join(chr(z + ord(c) - 48) if c.isdigit() and rng.random() < 0.6 else c for c in t)
    for _ in range(n):
        r = rng.random()
        m = rng.choice([0, 1, -1, 30, -30, 59, -59, 60, -60, 599, 600, 839, -839, 840, -840, rng.randint(-840, 840), rng.randint(-840, 840)])
        if r < 0.25:
            t = lit(m)
        elif r < 0.65:
            t = lit(m)
            for _k in range(rng.choice([1, 1, 1, 2, 3])):
                e = rng.randrange(12)
                i = rng.randrange(len(t) + 1)
                if e == 0:
                    t = rng.choice(spaces) * rng.randint(1, 2) + t
                elif e == 1:
                    t = t + rng.choice(spaces) * rng.randint(1, 2)
                elif e == 2:
                    t = t[:i] + rng.choice(spaces) + t[i:]
                elif e == 3:
                    t = t[:i] + '_' + t[i:]
                elif e == 4:
                    t = udigits(t)
                elif e == 5 and t:
                    i = rng.randrange(len(t)); t = t[:i] + t[i + 1:]
                elif e == 6:
                    t = t[:i] + rng.choice(alphabet) + t[i:]
                elif e == 7 and t:
                    i = rng.randrange(len(t)); t = t[:i] + rng.choice(alphabet) + t[i + 1:]
                elif e == 8:
                    t = t.replace(':', rng.choice([':-', ':+', '::', '', ' : ', ':0', ':00']), 1)
                elif e == 9 and t[:1] in '+-':
                    t = rng.choice(['', '+', '-', '+-', '--', ' +']) + t[1:]
                elif e == 10 and ':' in t:
                    h, mi = t.split(':', 1)
                    t = h + ':' + str(rng.choice([60, 61, 99, 100, 839, 840, 841, 1440])) if rng.random() < 0.5 else \
                        h[:1] + str(rng.choice([14, 15, 23, 24, 99, 140])) + ':' + mi
                else:
                    t = t.lstrip('+') if rng.random() < 0.5 else t.replace('0', '', 1)
        elif r < 0.85:
            h = rng.choice([0, 0, 1, 5, 13, 14, 15, -0, -1, -13, -14, -15, rng.randint(-20, 20), 23999999975, 23999999976, 23999999977,
                            -23999999976, -23999999977, 10 ** rng.randint(2, 30)])
            mi = rng.choice([0, 0, 1, 30, 59, 60, 61, -1, -30, -60, 839, 840, 841, -840, -841, rng.randint(-900, 900), 1439999998560 + rng.randint(-2, 1441)])
            hs = rng.choice(['%d', '%+d', '%02d', '%+03d', '-%d', '%d ', '%03d']) % h
            ms = rng.choice(['%d', '%02d', '%+d', '%03d', ' %d', '%d ']) % mi
            t = hs + ':' + ms
        else:
            t = ''.join(rng.choice(alphabet) for _ in range(rng.choice([1, 2, 3, 4, 5, 6, 6, 6, 7, 8])))
        if rng.random() < 0.1:
            t = rng.choice([' ', '\n', '\t ', '\r\n', '\xa0', '\x0b', '\x1c']) + t + rng.choice(['', ' ', '\n', '\x85', '\u3000'])
        out.append({'op': 'tzlex', 's': t, 'via': 'ctx' if rng.random() < 0.2 else 'api'})
    return out


def check_tz_tables(run: Run) -> None:
    """the two CPython tables the `int()` / `strip()` model uses (white space, Unicode decimal digits) against the live interpreter,
    over every code point"""
    ans = run.driver('C11', ['op=tztab'])[0]
    model = (answer_field(ans, 'model') or '|').split('|')
    ws = ','.join(str(c) for c in range(0x110000) if chr(c).isspace() and (' ' + chr(c) + ' ').strip() == '')
    zeros, ok = [], True
    for c in range(0x110000):
        try:
            v = int(chr(c))
        except ValueError:
            continue
        if v == 0:
            zeros.append(c)
        elif not zeros or zeros[-1] + v != c:
            ok = False
    live = [ws, ','.join(map(str, zeros))]
    run.stats.count('tzlex:tables-checked')
    if model != live or not ok:
        run.disagree(Disagreement({'op': 'tztab'}, '|'.join(live), '|'.join(model), None, what='tztab-model',
                                  site='str.isspace / int() decimal digits of the running interpreter'))


def gen_dur_cases(rng, n):
    """arithmetic on durations: ± duration, × ÷ integer / decimal / double"""
    cases = []
    for _ in range(n):
        ym = rng.random() < 0.5
        via = rng.choice(['api', 'xpath'])
        if ym:
            x = rng.choice([0, 1, -1, 5, -5, 7, 12, 35, -35, 2 ** 31, -2 ** 31, 2 ** 31 - 1, rng.randint(-10 ** 6, 10 ** 6), rng.randint(-2 ** 31, 2 ** 31)])
        else:
            x = rng.choice([0, 1, -1, 10 ** 6, -10 ** 6, 2 * 10 ** 6, US, -US, 500000, 1500000, 2500000, rng.randint(-10 ** 15, 10 ** 15)])
        r = rng.random()
        if r < 0.08:
            y = rng.choice([0, 1, -1, 3, -16, 7, x, 12, rng.randint(-10 ** 6, 10 ** 6)]) if ym else \
                rng.choice([0, 10 ** 6, 7 * 10 ** 6, -3, x, US, rng.randint(-10 ** 15, 10 ** 15)])
            cases.append({'op': 'durdiv', 'k': 'ym' if ym else 'dt', 'x': x, 'y': y})
            continue
        if r < 0.25:
            y = rng.choice([0, 1, -1, x, -x, 13, 2 ** 31, -2 ** 31, rng.randint(-10 ** 6, 10 ** 6)]) if ym else \
                rng.choice([0, 1, -1, x, -x, US, 10 ** 6 - 1, rng.randint(-10 ** 15, 10 ** 15)])
            cases.append({'op': 'durop', 'via': via, 'k': ('ym' if ym else 'dt') + rng.choice(['add', 'sub']), 'x': x, 'y': y})
            continue
        opk = rng.choice(['mul', 'div'])
        kind = rng.choice(['int', 'dec', 'dbl'])
        if kind == 'int':
            val = rng.choice([0, 1, -1, 2, -2, 3, -3, 4, 7, 10, 12, 1000, -1000, rng.randint(-10 ** 6, 10 ** 6)])
        elif kind == 'dec':
            val = rng.choice(['0.5', '-0.5', '1.5', '2.5', '0.1', '2.3', '-2.3', '1.0000005', '1.0000015', '0.000001', '0.0000005', '0.0',
                              '%d.%06d' % (rng.randint(0, 1000), rng.randint(0, 999999)), '-%d.%03d' % (rng.randint(0, 1000), rng.randint(0, 999))])
        else:
            # doubles: dyadic with a small denominator for dayTimeDurations (the Decimal product must stay within 28 digits);
            # any finite double for yearMonthDurations
            val = rng.choice([0.5, -0.5, 1.5, 2.5, -2.5, 0.25, 3.0, 1024.0, 0.0009765625, rng.randint(-10 ** 6, 10 ** 6) / 1024.0])
            if ym and rng.random() < 0.6:
                val = rng.choice([0.1, 2.3, -2.3, 1e-3, 1e10, 1e-30, rng.uniform(-100, 100), rng.uniform(-1e-3, 1e-3), 0.0])
        if opk == 'div' and kind == 'dbl' and val == 0 and via == 'api':
            via = 'xpath'
        if kind == 'int' and val == 0 and opk == 'div':
            via = 'xpath'    # the zero test belongs to the XPath `div` operator
        if kind == 'dec' and Decimal(val) == 0 and opk == 'div':
            via = 'xpath'
        c = {'op': 'durop', 'via': via, 'k': ('ym' if ym else 'dt') + opk, 'x': x, 'num': [kind, val]}
        if via == 'xpath' and opk == 'mul' and rng.random() < 0.3:
            c['swap'] = True
        cases.append(c)
    return cases


CORPUS = [
    # F11a (fixed): BCE 1st of January with a time part
    {'op': 'add', 'cls': 'dt10', 'via': 'xpath', 'a': (-820, 1, 1, 45015 * 10 ** 6, None), 'dur': 0},
    {'op': 'add', 'cls': 'd10', 'via': 'xpath', 'a': (-2, 1, 1, 0, None), 'dur': 10 ** 6},
    {'op': 'adjust', 'cls': 'dt10', 'a': (-2, 1, 1, 0, -420), 'tz2': 600},
    # F11c (fixed): leap years after 9999, XSD 1.1
    {'op': 'add', 'cls': 'dt11', 'via': 'xpath', 'a': (10000, 2, 28, 0, None), 'dur': US},
    {'op': 'mk', 'cls': 'dt11', 'f': [10000, 2, 29, 0, 0, 0, 0, None]},
    {'op': 'mk', 'cls': 'dt11', 'f': [10003, 2, 29, 0, 0, 0, 0, None]},
    # F11e (fixed): XSD 1.0 BCE leap years
    {'op': 'mk', 'cls': 'dt10', 'f': [-1, 2, 29, 0, 0, 0, 0, None], 'neg': True},
    {'op': 'mk', 'cls': 'dt10', 'f': [-4, 2, 29, 0, 0, 0, 0, None], 'neg': True},
    {'op': 'add', 'cls': 'd10', 'via': 'xpath', 'a': (-1, 2, 28, 0, None), 'dur': US},
    # F11f (fixed): 24:00:00 on the 31st of December
    {'op': 'mk', 'cls': 'dt10', 'via': 'xpath', 'f': [-1, 12, 31, 24, 0, 0, 0, None], 'neg': True},
    {'op': 'mk', 'cls': 'dt11', 'f': [10000, 12, 31, 24, 0, 0, 0, None]},
    {'op': 'mk', 'cls': 'dt11', 'f': [9999, 12, 31, 24, 0, 0, 0, 0]},
    # F11g (fixed): yearMonthDuration outside 1..9999
    {'op': 'addym', 'cls': 'dt11', 'via': 'xpath', 'a': (-1, 1, 31, 0, None), 'months': 1},
    {'op': 'addym', 'cls': 'd10', 'via': 'xpath', 'a': (-1, 1, 1, 0, None), 'months': 25},
    {'op': 'addym', 'cls': 'd10', 'via': 'xpath', 'a': (1, 1, 31, 0, None), 'months': -1},
    {'op': 'addym', 'cls': 'd11', 'via': 'xpath', 'a': (10000, 1, 1, 0, None), 'months': 1},
    # F11b (fixed): ordering across a year boundary
    {'op': 'cmp', 'cls': 'dt10', 'via': 'xpath', 'a': (2000, 12, 31, 82800 * 10 ** 6, -300), 'b': (2001, 1, 1, 3600 * 10 ** 6, 300)},
    {'op': 'cmp', 'cls': 'dt10', 'a': (1, 1, 1, 1, 840), 'b': (-1, 12, 31, 68719893183, 330)},
    # F11i (fixed): negative differences with a fraction
    {'op': 'diff', 'cls': 'dt10', 'via': 'xpath', 'a': (2000, 1, 1, 0, None), 'b': (2000, 1, 1, 500000, None)},
    # F11j (fixed): adjust-date-to-timezone with offsets 24 hours or more apart
    {'op': 'adjust', 'cls': 'd10', 'a': (9999, 2, 28, 0, -840), 'tz2': 840},
    {'op': 'adjust', 'cls': 'd10', 'a': (-5, 2, 28, 0, 840), 'tz2': -840},
    {'op': 'adjust', 'cls': 'd11', 'a': (2002, 3, 7, 0, -420), 'tz2': -600},
    {'op': 'adjust', 'cls': 'd11', 'a': (10000, 1, 1, 0, 840), 'tz2': 345},
    # F11k / F11l (fixed): XSD 1.1 year numbering in string() and year-from-*
    {'op': 'lex', 'cls': 'dt11', 'y': -10000}, {'op': 'lex', 'cls': 'dt11', 'y': -1}, {'op': 'lex', 'cls': 'dt11', 'y': 0},
    {'op': 'lex', 'cls': 'd11', 'y': -2}, {'op': 'lex', 'cls': 'dt10', 'y': -10000}, {'op': 'lex', 'cls': 'dt10', 'y': 0},
    # F11d (known finding): beyond the timedelta range
    {'op': 'todelta', 'cls': 'dt10', 'a': (-2147483647, 1, 1, 0, None)},
    {'op': 'add', 'cls': 'dt10', 'via': 'xpath', 'a': (2800000, 1, 1, 0, None), 'dur': US},
    {'op': 'todelta', 'cls': 'dt11', 'a': (2737908, 11, 27, 0, None)},
    {'op': 'todelta', 'cls': 'dt11', 'a': (2737908, 11, 28, 0, None)},
    {'op': 'durcmp', 'via': 'xpath', 'd': [12, 0, 13, 0]}, {'op': 'durcmp', 'd': [1, 0, 0, 30 * US]},
    {'op': 'durcmp', 'd': [1, 0, 0, 28 * US]}, {'op': 'durcmp', 'd': [1, 0, 0, 31 * US]},
]


EXT_CORPUS = [
    {'op': 'tadd', 'via': 'xpath', 'a': (2000, 1, 1, 82800 * 10 ** 6, None), 'dur': 7200 * 10 ** 6},
    {'op': 'tsub', 'via': 'xpath', 'a': (2000, 1, 1, 3600 * 10 ** 6, 300), 'dur': 7200 * 10 ** 6},
    {'op': 'tadd', 'via': 'xpath', 'a': (2000, 1, 1, 82800 * 10 ** 6, None), 'dur': 3000000 * US},      # F11o
    {'op': 'tsub', 'via': 'xpath', 'a': (2000, 1, 1, 82800 * 10 ** 6, None), 'dur': 731000 * US},       # F11o
    {'op': 'tadjust', 'a': (2000, 1, 1, 79200 * 10 ** 6, -420), 'tz2': 600},
    {'op': 'tcmp', 'a': (2000, 1, 1, 36000 * 10 ** 6, None), 'b': (2000, 1, 1, 72000 * 10 ** 6, -240), 'itz': 840},
    {'op': 'tdiff', 'via': 'xpath', 'a': (2000, 1, 1, 0, None), 'b': (2000, 1, 1, 500000, None)},
    {'op': 'tmk', 'via': 'xpath', 'f': [24, 0, 0, 0, None]}, {'op': 'tmk', 'f': [24, 0, 1, 0, None]},
    {'op': 'gmk', 'ver': '1.0', 'k': 'gMonthDay', 'f': [0, 2, 29, None]}, {'op': 'gmk', 'ver': '1.0', 'k': 'gMonthDay', 'f': [0, 2, 30, None]},
    {'op': 'gmk', 'ver': '1.1', 'k': 'gYear', 'f': [0, 0, 0, 60]}, {'op': 'gmk', 'ver': '1.0', 'k': 'gYear', 'f': [0, 0, 0, None]},
    {'op': 'gmk', 'ver': '1.1', 'k': 'gYear', 'via': 'xpath', 'f': [-10000, 0, 0, None]}, {'op': 'gmk', 'ver': '1.0', 'k': 'gMonth', 'f': [0, 13, 0, None]},
    {'op': 'gmk', 'ver': '1.1', 'k': 'gYearMonth', 'f': [-4, 2, 0, -840]}, {'op': 'gmk', 'ver': '1.0', 'k': 'gDay', 'f': [0, 0, 31, 840]},
    {'op': 'gcast', 'k': 'gYear', 'cls': 'dt10', 'a': (-2, 3, 4, 0, None)}, {'op': 'gcast', 'k': 'gYearMonth', 'cls': 'd11', 'a': (-2, 3, 4, 0, 60)},
    {'op': 'gcast', 'k': 'gMonthDay', 'cls': 'dt11', 'a': (1999, 2, 28, 0, 0)},
    {'op': 'gcmp', 'ver': '1.0', 'k': 'gDay', 'fa': [1, 1, 1, 840], 'fb': [1, 1, 1, -600], 'itz': None},
    {'op': 'gcmp', 'ver': '1.0', 'k': 'gDay', 'fa': [1, 1, 31, None], 'fb': [1, 1, 31, 0], 'itz': 840},
    {'op': 'cmpctx', 'cls': 'dt10', 'a': (2002, 2, 1, 0, None), 'b': (2002, 1, 31, 74220 * 10 ** 6, 0), 'itz': 840},   # F11n (fixed)
    {'op': 'seqfn', 'cls': 'dt10', 'fn': 'max', 'a': (2002, 2, 1, 0, None), 'b': (2002, 1, 31, 74220 * 10 ** 6, 0), 'itz': 840},   # F11t
    {'op': 'seqfn', 'cls': 'dt10', 'fn': 'distinct', 'a': (2002, 2, 1, 0, None), 'b': (2002, 1, 31, 36000 * 10 ** 6, 0), 'itz': 840},
    {'op': 'xcls', 'form': 'stamp', 'cls': 'dt11', 'k': 'cmp', 'a': (2000, 1, 1, 43200 * 10 ** 6, 0), 'b': (2000, 1, 1, 61200 * 10 ** 6, None), 'itz': 300},
    {'op': 'xcls', 'form': 'var11', 'cls': 'dt11', 'k': 'cmp', 'a': (2000, 1, 1, 43200 * 10 ** 6, 0), 'b': (2000, 1, 1, 61200 * 10 ** 6, None), 'itz': 300, 'swap': True},
    {'op': 'xcls', 'form': 'var11', 'cls': 'd11', 'k': 'diff', 'a': (2000, 1, 1, 0, None), 'b': (2000, 1, 1, 0, 0), 'itz': 300},
    {'op': 'xcls', 'form': 'varstamp', 'cls': 'dt11', 'k': 'diff', 'a': (2000, 1, 1, 43200 * 10 ** 6, 0), 'b': (2000, 1, 1, 61200 * 10 ** 6, None), 'itz': 300},
    {'op': 'fmtcomp', 'cls': 'dt11', 'a': (-820, 3, 7, 32703250000, 330)}, {'op': 'fmtcomp', 'cls': 'd10', 'a': (-1, 3, 7, 0, None)},
    {'op': 'fmtcomp', 'cls': 't', 'a': (2000, 1, 1, 1, 0)},
    {'op': 'durdiv', 'k': 'dt', 'x': 0, 'y': 0}, {'op': 'durdiv', 'k': 'ym', 'x': 0, 'y': 0}, {'op': 'durdiv', 'k': 'ym', 'x': 1, 'y': 3}, {'op': 'durdiv', 'k': 'ym', 'x': 40, 'y': -16}, {'op': 'durdiv', 'k': 'dt', 'x': US, 'y': 7 * 10 ** 6},
    {'op': 'tadd', 'via': 'xpath', 'a': (2000, 1, 1, 82800 * 10 ** 6, None), 'dur': 3000000 * US + 7200 * 10 ** 6},   # F11o (fixed)
    {'op': 'cmpctx', 'cls': 'd11', 'a': (2002, 2, 1, 0, None), 'b': (2002, 2, 1, 0, 0), 'itz': 840, 'general': True},
]


# ----------------------------------------------------------------------- correspondence
SITES = {'tzlex': 'Timezone.fromstring / Timezone.__str__ (datetime.py:57-70, 93-115)', 'xcls': 'implicit_timezone_operands / comparison and minus operators on operands of different classes',
         'fmtcomp': 'fn:format-dateTime/date/time numeric components [Y][E][M][D][H][m][s][f][Z]',
         'seqfn': 'fn:max/min/distinct-values/index-of/deep-equal/sort on date/time values', 'durdiv': 'duration div duration',
         'lexdt': 'AbstractDateTime.fromstring (pattern, year/microsecond handling) + __str__',
         'durop': 'YearMonthDuration/DayTimeDuration __add__ __sub__ __mul__ __truediv__', 'dcast': 'DateTime.make / Date.make',
         'tmk': 'Time.__init__', 'tadd': 'Time.__add__', 'tsub': 'Time.__sub__', 'tdiff': 'Time.__sub__(Time)', 'tcmp': '_compare (xs:time)',
         'tadjust': 'adjust_datetime (Time)', 'gmk': 'Gregorian*.__init__/fromstring/__str__', 'gcast': 'Gregorian*.make', 'gcmp': '_compare (g-types)',
         'cmpctx': 'value/general comparison operators + implicit timezone', 'comp': 'year/month/day/hours/minutes/seconds/timezone-from-*', 'adjustdate': 'XPathToken.adjust_datetime (Date)', 'mk': 'AbstractDateTime.__init__/fromstring', 'lex': 'fromstring/iso_year/year-from-*',
         'todelta': 'AbstractDateTime.todelta', 'rt': 'fromdelta(todelta())', 'fromdelta': 'AbstractDateTime.fromdelta',
         'add': '_operation DayTimeDuration', 'sub': '_operation DayTimeDuration', 'addym': '_operation YearMonthDuration',
         'diff': '_operation AbstractDateTime', 'cmp': 'AbstractDateTime._compare', 'adjust': 'XPathToken.adjust_datetime',
         'pyord': 'CPython datetime (trusted component)', 'durcmp': 'Duration._compare_durations'}


def year_class(y):
    if y is None:
        return 'na'
    a = abs(y)
    era = 'bce' if y < 0 else 'ce'
    if 1 <= y <= 9999:
        return 'ce:1..9999'
    if a <= 9999:
        return 'bce:1..9999'
    if a <= 2737000:
        return era + ':10^4..2.7M'
    return era + ':beyond-timedelta'


def resolve_lex_intents(run: Run, cases: list) -> None:
    """lexdt: `_spec` = the specification's value for the string: the XSD-grammar oracle decides membership and
    extracts the fields, the driver's *spec* side of the constructor (`mk` / `tmk`) gives the value"""
    todo = []
    for c in cases:
        if c.get('op') == 'lexdt' and '_spec' not in c:
            f = xsd_lexical(c['k'], c['s'])
            if f is None:
                c['_spec'] = 'ERR:ValueError'
                continue
            if c['k'] in G_KINDS:
                y_, mo_, d_, tz_, neg_ = f
                if y_ == 0 and neg_:
                    y_ = 0
                todo.append((c, {'op': 'gmk', 'ver': c.get('ver', '1.0'), 'k': c['k'], 'f': [y_, mo_, d_, tz_]}))
                continue
            neg, year, mo, d, h, mi, sec, us, tz = f
            if c['k'] == 'time':
                todo.append((c, {'op': 'tmk', 'f': [h, mi, sec, us, tz]}))
            else:
                ck = ('dt' if c['k'] == 'dateTime' else 'd') + ('11' if c.get('ver') == '1.1' else '10')
                todo.append((c, {'op': 'mk', 'cls': ck, 'f': [(-year if neg else year), mo, d, h, mi, sec, us, tz], 'neg': neg}))
    if todo:
        for (c, _), ans in zip(todo, run.driver('C11', [line_of(i) for _, i in todo])):
            c['_spec'] = parse_answer(ans)[1]


def compare(run: Run, cases: list, record=True) -> list:
    resolve_lex_intents(run, cases)
    lines = [line_of(c) for c in cases]
    answers = run.driver('C11', lines)
    out = []
    st = run.stats
    for case, line, ans in zip(cases, lines, answers):
        impl = run_impl(case)
        if not ans.startswith('model='):
            d = Disagreement(case, 'driver:' + ans, what='protocol')
            run.disagree(d)
            out.append(d)
            continue
        model, spec, ink = parse_answer(ans)
        if record:
            st.case(line, nontrivial=True)
            op = case['op']
            st.count('op:' + op)
            st.count('via:' + case.get('via', 'api'))
            if 'cls' in case:
                st.count('class:' + case['cls'])
            if 'a' in case:
                st.count('year:' + year_class(case['a'][0]))
                st.count('tz:' + ('none' if case['a'][4] is None else 'Z' if case['a'][4] == 0 else 'offset'))
            if impl.startswith('ERR'):
                st.count('impl:' + impl)
            for tg in finding_tags(ans):
                st.count('in-trigger(%s)' % tg)
            if op in ('add', 'sub', 'rt', 'fromdelta', 'addym') and not spec.startswith('ERR'):
                ry = int(spec.split(':')[0])
                st.count('result-year:' + year_class(ry))
                if spec.split(':')[1:3] == ['1', '1'] and ry < 0 and spec.split(':')[3] != '0':
                    st.count('result:bce-jan-1-with-time')
                if spec.split(':')[1:3] == ['2', '29']:
                    st.count('result:feb-29')
            if op == 'cmp' and case['a'][0] != case['b'][0] and abs(case['a'][0] - case['b'][0]) <= 2:
                st.count('cmp:contiguous-years')
        tags = finding_tags(ans)
        if case['op'] == 'seqfn':
            # the functions are functions of the comparison results: derive their value on (a, b) from the five bits of
            # the library's raw `_compare` (model0), of the comparison under the implicit timezone (spec)
            def derive(bits):
                lt, le, eq, gt, ge = (c == '1' for c in bits)
                fn = case['fn']
                if fn == 'max':
                    return vstr(case['b']) if lt else vstr(case['a'])
                if fn in ('min', 'sort'):
                    return vstr(case['b']) if gt else vstr(case['a'])
                if fn == 'distinct':
                    return '1' if eq else '2'
                return '1' if eq else '0'
            model, spec = derive(answer_field(ans, 'model0')), derive(spec)
            tags = tags + (['F11t'] if answer_field(ans, 'inN') == '1' else [])
        if case['op'] == 'durdiv':
            from fractions import Fraction
            x, y = case['x'], case['y']
            if y == 0:
                model = spec = 'ERR:FOAR0001'
            else:
                # xs:decimal quotient, correctly rounded (half even) to the 28 significant digits of the decimal context
                q = Fraction(x, y)
                if q == 0:
                    model = spec = '0E0'
                else:
                    e = 0
                    aq = abs(q)
                    while aq >= 10 ** 28:
                        aq /= 10; e += 1
                    while aq < 10 ** 27:
                        aq *= 10; e -= 1
                    n_, r_ = divmod(aq.numerator, aq.denominator)
                    if 2 * r_ > aq.denominator or (2 * r_ == aq.denominator and n_ % 2 == 1):
                        n_ += 1
                    ds = str(n_)
                    while ds.endswith('0'):
                        ds = ds[:-1]; e += 1
                    model = spec = ('-' if q < 0 else '') + ds + 'E' + str(e)
        if case['op'] == 'lexdt':
            # the specification side: the value the generator intended (valid field tuple -> the constructor's spec value,
            # computed by the driver for the companion `mk`/`tmk` line), or a rejection for a string outside the lexical space
            spec = case.get('_spec', model)
            if not spec.startswith('ERR') and '|' in (model or ''):
                spec = spec + '|' + model.split('|', 1)[1]   # string form: compared against the model's formatter
        if case['op'] == 'tzlex':
            if record:
                st.count('tzlex:' + (answer_field(ans, 'br') or '?'))
                st.count('tzlex-via:' + case.get('via', 'api'))
            # the specification only says "not a timezone literal": any exception class of the code is a rejection
            # (the model must still name the same class as the code: ValueError / OverflowError)
            if spec.startswith('ERR') and impl.startswith('ERR:') and not impl.startswith('ERR:OTHER'):
                spec = impl
        if case['op'] == 'durop':
            # F&O: FODT0002 for overflow *and* for a zero divisor; the datatypes API raises OverflowError / ZeroDivisionError;
            rng_err = {'ERR:OverflowError', 'ERR:ZeroDivisionError', 'ERR:FODT0002'}
            impl, model, spec = ('ERR:duration-range' if x in rng_err else x for x in (impl, model, spec))
        if case['op'] == 'gcmp':
            # only eq / ne exist for the Gregorian partial types: (eq, ne) from the eq bit of the 5 operators
            model, spec = (x[2] + ('0' if x[2] == '1' else '1') for x in (model, spec))
        site = SITES.get(case['op'], '')
        if impl != spec:
            # property violated on the real code (listed finding iff the trigger predicate holds)
            d = Disagreement(case, impl, model, spec, what=case['op'], site=site, tags=tags)
            run.disagree(d)
            out.append(d)
        elif tags and record:
            st.count('in-trigger-but-agrees')
        if impl != model and (impl == spec or tags):
            # the model must mirror the code everywhere, also inside a finding's trigger
            d = Disagreement(case, impl, model, None, what=case['op'] + '-model', site=site)
            run.disagree(d)
            out.append(d)
    return out


# ------------------------------------------------------------------------------ histories
# One Python value object goes through 2-4 calls; after every call (a) the result must equal the
# model/spec computed from the ORIGINAL value and (b) the argument object must be observably unchanged.
def fill_tz(v, itz):
    return v if (v[4] is not None or itz is None) else v[:4] + (itz,)


def hist_subcases(case: dict) -> list:
    """per step: the single-operation case (on the original value) whose driver answer is the expectation,
    or None when the step's result is not modelled (xs:time)"""
    ck, a, itz = case['cls'], tuple(case['a']), case.get('itz')
    out = []
    for st in case['steps']:
        k = st[0]
        if ck == 't':
            sub = {'adjust': lambda: {'op': 'tadjust', 'a': a, 'tz2': st[1]}, 'adjust1': lambda: {'op': 'tadjust', 'a': a, 'tz2': itz},
                   'comp': lambda: {'op': 'comp', 'cls': 'dt10', 'a': a}, 'add': lambda: {'op': 'tadd', 'a': a, 'dur': st[1]},
                   'sub': lambda: {'op': 'tsub', 'a': a, 'dur': st[1]},
                   'cmp': lambda: {'op': 'tcmp', 'a': a, 'b': tuple(st[1]), 'itz': itz},
                   'diff': lambda: {'op': 'tdiff', 'a': a, 'b': tuple(st[1]), 'itz': itz}}[k]()
            out.append(sub)
        elif k == 'adjust':
            out.append({'op': 'adjust', 'cls': ck, 'a': a, 'tz2': st[1]})
        elif k == 'adjust1':
            out.append({'op': 'adjust', 'cls': ck, 'a': a, 'tz2': itz})
        elif k == 'comp':
            out.append({'op': 'comp', 'cls': ck, 'a': a})
        elif k in ('add', 'sub'):
            out.append({'op': k, 'cls': ck, 'a': a, 'dur': st[1]})
        elif k == 'cmp':
            # value comparisons: spec = order under the implicit timezone (model: compareCtx, since fix-c11-2)
            out.append({'op': 'cmp', 'cls': ck, 'a': a, 'b': tuple(st[1]), 'itz': itz})
        elif k == 'diff':
            # arithmetic operators fill the implicit timezone into copies of the operands (get_operands)
            out.append({'op': 'diff', 'cls': ck, 'a': fill_tz(a, itz), 'b': fill_tz(tuple(st[1]), itz)})
        else:
            raise ValueError(k)
    return out


def _tname(ck):
    return 'time' if ck == 't' else 'date' if is_date(ck) else 'dateTime'


def step_exprs(ck: str, st) -> list:
    """XPath expressions of one step on the variable $d; their results are concatenated"""
    k, T = st[0], _tname(ck)
    if k == 'adjust':
        arg = '()' if st[1] is None else "xs:dayTimeDuration('%s')" % dur_lex(st[1] * UM)
        return ['adjust-%s-to-timezone($d, %s)' % (T, arg)]
    if k == 'adjust1':
        return ['adjust-%s-to-timezone($d)' % T]
    if k == 'comp':
        parts = {'dateTime': ['year', 'month', 'day', 'hours', 'minutes', 'seconds'], 'date': ['year', 'month', 'day'],
                 'time': ['hours', 'minutes', 'seconds']}[T]
        return ['%s-from-%s($d)' % (q, T) for q in parts] + ["(timezone-from-%s($d), 'none')[1]" % T]
    if k in ('add', 'sub'):
        return ["$d %s xs:dayTimeDuration('%s')" % ('+' if k == 'add' else '-', dur_lex(st[1]))]
    other = ("xs:time('%s')" % time_lexical(tuple(st[1]))) if ck == 't' and k in ('cmp', 'diff') else None
    if k == 'cmp':
        return ['$d %s %s' % (o, other or xs_ctor(ck, tuple(st[1]))) for o in ('lt', 'le', 'eq', 'gt', 'ge')]
    if k == 'diff':
        return ['$d - %s' % (other or xs_ctor(ck, tuple(st[1])))]
    raise ValueError(k)


def step_canon(ck: str, st, items: list) -> str:
    """canonical text of the items one step produced (same shape as the driver's answer)"""
    from elementpath.datatypes import DayTimeDuration, AbstractDateTime
    k = st[0]
    cls = None if ck == 't' else classes()[ck]
    if k in ('adjust', 'adjust1', 'add', 'sub'):
        if len(items) != 1 or not isinstance(items[0], AbstractDateTime):
            return '?' + repr(items)[:80]
        return canon(items[0], cls)
    if k == 'cmp':
        return ''.join('1' if x is True else '0' if x is False else '?' for x in items)
    if k == 'diff':
        return str(dur_us(items[0])) if len(items) == 1 and type(items[0]) is DayTimeDuration else '?' + repr(items)[:80]
    if k == 'comp':
        tzv = items[-1]
        tzs = 'n' if tzv == 'none' else str(dur_us(tzv) // UM) if isinstance(tzv, DayTimeDuration) and dur_us(tzv) % UM == 0 else '?%r' % (tzv,)
        nums = list(items[:-1])
        if is_date(ck):
            nums += [0, 0, 0]
        elif ck == 't':
            nums = [2000, 1, 1] + nums
        if len(nums) != 6:
            return '?' + repr(items)[:80]
        sec = nums[5]
        nums[5] = int(Decimal(sec) * 10 ** 6)
        return ';'.join(str(int(x)) for x in nums) + ';' + tzs
    return '?'


def obj_state(x) -> str:
    try:
        td = x.todelta()
        tds = str((td.days * 86400 + td.seconds) * 10 ** 6 + td.microseconds)
    except Exception as e:
        tds = 'ERR:' + type(e).__name__
    return f'{type(x).__name__}|{x}|{canon(x)}|todelta={tds}'


def build_obj(ck, v):
    if ck == 't':
        from elementpath.datatypes import Time
        s, u = divmod(v[3], 10 ** 6)
        return Time(s // 3600, s // 60 % 60, s % 60, u, tzobj(v[4]))
    return build(ck, v)


_ROOT = []


def hist_eval(ver: str, expr: str, variables, itz, xp3=False):
    from elementpath import XPath2Parser, XPathContext
    import xml.etree.ElementTree as ET
    if not _ROOT:
        _ROOT.append(ET.XML('<A/>'))
    key = ('h3' if xp3 else 'h2', ver)
    p = _PARSERS.get(key)
    if p is None:
        if xp3:
            from elementpath.xpath3 import XPath3Parser
            p = XPath3Parser(xsd_version=ver)
        else:
            p = XPath2Parser(xsd_version=ver)
        _PARSERS[key] = p
    ctx = XPathContext(root=_ROOT[0], variables=variables, timezone=tzobj(itz))
    r = p.parse(expr).evaluate(ctx)
    return r if isinstance(r, list) else [r]


def run_hist(case: dict) -> list:
    """per step: (canonical result, state of the argument object before, after); in the binding modes the
    argument is only observable through the later results, so the states are ''"""
    ck, a, itz, mode = case['cls'], tuple(case['a']), case.get('itz'), case.get('mode', 'var')
    ver = '1.0' if ck == 't' else version_of(ck)
    steps = case['steps']
    out = []
    if mode == 'var':
        try:
            obj = build_obj(ck, a)
        except Exception as e:
            return [(err_text(e), '', '')] * len(steps)
        for st in steps:
            before = obj_state(obj)
            try:
                items = []
                for e in step_exprs(ck, st):
                    items += hist_eval(ver, e, {'d': obj}, itz)
                res = step_canon(ck, st, items)
            except Exception as e:
                res = err_text(e)
            out.append((res, before, obj_state(obj)))
        return out
    # one expression: the value is bound once by `for` / `let` and used by every step
    if ck == 't':
        ctor = "xs:time('%s')" % lexical('dt10', (2000, 1, 1, a[3], a[4]))[11:]
    else:
        ctor = xs_ctor(ck, a)
    exprs = [step_exprs(ck, st) for st in steps]
    body = ', '.join(e for es in exprs for e in es)
    expr = ('for $d in %s return (%s)' if mode == 'for' else 'let $d := %s return (%s)') % (ctor, body)
    try:
        items = hist_eval(ver, expr, None, itz, xp3=(mode == 'let'))
    except Exception as e:
        # an error of one step hides the others: fall back to per-prefix evaluation to locate it
        res = []
        for i in range(len(steps)):
            pre = ', '.join(e for es in exprs[:i + 1] for e in es)
            ex = ('for $d in %s return (%s)' if mode == 'for' else 'let $d := %s return (%s)') % (ctor, pre)
            try:
                it = hist_eval(ver, ex, None, itz, xp3=(mode == 'let'))
                n0 = sum(len(es) for es in exprs[:i])
                res.append((step_canon(ck, steps[i], it[n0:]), '', ''))
            except Exception as e2:
                res.append((err_text(e2), '', ''))
        return res
    pos = 0
    for st, es in zip(steps, exprs):
        out.append((step_canon(ck, st, items[pos:pos + len(es)]), '', ''))
        pos += len(es)
    return out


def compare_hist(run: Run, cases: list, record=True) -> list:
    subs = [hist_subcases(c) for c in cases]
    flat = [sc for ss in subs for sc in ss if sc is not None]
    answers = iter(run.driver('C11', [line_of(sc) for sc in flat]))
    out = []
    st = run.stats
    for case, ss in zip(cases, subs):
        results = run_hist(case)
        if record:
            st.case({'hist': case}, nontrivial=True)
            st.count('op:history')
            st.count('history:mode=' + case.get('mode', 'var'))
            st.count('history:class=' + case['cls'])
            st.count('history:steps=%d' % len(case['steps']))
            if case.get('itz') is not None:
                st.count('history:implicit-timezone')
        failed = False
        for k, (sc, (res, before, after)) in enumerate(zip(ss, results)):
            # with `variables=` every call is separate, so the prefix up to the failing call is the failing
            # history; inside one for/let expression later steps can act on earlier results: keep it whole
            prefix = dict(case, steps=[list(x) for x in case['steps'][:k + 1]]) if case.get('mode', 'var') == 'var' \
                else dict(case, failing_step=k)
            if record:
                st.count('history-step:' + case['steps'][k][0])
            if sc is not None:
                ans = next(answers)
                if failed:
                    continue
                model, spec, ink = parse_answer(ans)
                tags = finding_tags(ans)
                if res != spec:
                    d = Disagreement(prefix, res, model, spec, what='history-result:' + case['steps'][k][0],
                                     site='value reused after ' + ','.join(x[0] for x in case['steps'][:k]) or 'first call', tags=tags)
                    run.disagree(d)
                    out.append(d)
                    failed = not tags
                    if tags and res != model:
                        d = Disagreement(prefix, res, model, None, what='history-result-model', site=SITES.get(sc['op'], ''))
                        run.disagree(d)
                        out.append(d)
                elif res != model:
                    d = Disagreement(prefix, res, model, None, what='history-result-model', site=SITES.get(sc['op'], ''))
                    run.disagree(d)
                    out.append(d)
            if failed:
                continue
            if before != after:
                # the argument object must denote the same value with the same components after ANY call
                d = Disagreement(prefix, 'argument after: ' + after, 'argument before: ' + before, 'argument before: ' + before,
                                 what='history-argument-mutated:' + case['steps'][k][0], site='argument object of ' + case['steps'][k][0])
                run.disagree(d)
                out.append(d)
                failed = True
    return out


HIST_TZ2 = [None, None, 0, -600, 600, 840, -840, 330]


def gen_hist(rng, ck=None, mode=None):
    ck = ck or rng.choice(['dt10', 'dt11', 'dt10', 'd10', 'd11', 't'])
    mode = mode or ('var' if ck == 't' else rng.choice(['var', 'var', 'for', 'let']))
    vk = 'dt10' if ck == 't' else ck
    y = rng.choice([2002, 2002, 1, 9999, -1, -5, 10000, 12000, -10001, rng.randint(1, 9999)])
    a = astro(y)
    m = rng.choice([1, 2, 3, 12])
    d = min(rng.choice([1, 7, 28, 31]), mlen(a, m))
    us = 0 if is_date(vk) and ck != 't' else rng.choice([0, 36000 * 10 ** 6, 45015 * 10 ** 6 + 500000, US - 1])
    tz = rng.choice([None, None, None, 0, -420, 330, 840, -840])
    v = (2000, 1, 1, us, tz) if ck == 't' else (y, m, d, us, tz)
    itz = rng.choice([None, None, -300, 0, 840])
    steps = []
    for _ in range(rng.randint(2, 4)):
        r = rng.random()
        if r < 0.45:
            steps.append(['adjust', rng.choice(HIST_TZ2)])
        elif r < 0.55:
            steps.append(['adjust1'])
        elif r < 0.75:
            steps.append(['comp'])
        elif r < 0.85:
            steps.append([rng.choice(['add', 'sub']), rng.choice([10 ** 6, US, 3600 * 10 ** 6, 0])])
        else:
            w = of_local(local_us(v) + rng.choice([-1, 1]) * rng.randrange(0, 30 * 3600 * 10 ** 6), rng.choice([None, 0, 600, tz]))
            if is_date(vk) and ck != 't':
                w = w[:3] + (0,) + w[4:]
            if ck == 't':
                w = (2000, 1, 1) + w[3:]
            steps.append([rng.choice(['cmp', 'diff']), list(w)])
    return {'op': 'hist', 'cls': ck, 'mode': mode, 'a': list(v), 'itz': itz, 'steps': steps}


HIST_CORPUS = [
    # the seeded change: `copy(item)` dropped in adjust_datetime -> the caller's value gets the timezone
    {'op': 'hist', 'cls': 'dt10', 'mode': 'var', 'a': [2002, 3, 7, 36000 * 10 ** 6, None], 'itz': None,
     'steps': [['adjust', -600], ['adjust', 0]]},
    {'op': 'hist', 'cls': 'dt10', 'mode': 'for', 'a': [2002, 3, 7, 36000 * 10 ** 6, None], 'itz': None,
     'steps': [['adjust', -600], ['comp'], ['adjust', 0]]},
    {'op': 'hist', 'cls': 'dt11', 'mode': 'let', 'a': [2002, 3, 7, 36000 * 10 ** 6, -420], 'itz': None,
     'steps': [['adjust', None], ['comp'], ['adjust', 600]]},
    {'op': 'hist', 'cls': 'd10', 'mode': 'var', 'a': [2002, 3, 7, 0, -420], 'itz': -300,
     'steps': [['adjust', 600], ['comp'], ['adjust1'], ['cmp', [2002, 3, 7, 0, None]]]},
    {'op': 'hist', 'cls': 'd11', 'mode': 'for', 'a': [2002, 3, 7, 0, None], 'itz': None,
     'steps': [['adjust', -600], ['comp']]},
    {'op': 'hist', 'cls': 't', 'mode': 'var', 'a': [2000, 1, 1, 36000 * 10 ** 6, None], 'itz': None,
     'steps': [['adjust', -600], ['comp'], ['adjust', 0]]},
    {'op': 'hist', 'cls': 'dt10', 'mode': 'var', 'a': [-5, 2, 29, 45015 * 10 ** 6, 330], 'itz': 0,
     'steps': [['add', US], ['cmp', [-5, 3, 1, 0, None]], ['adjust1'], ['diff', [-5, 2, 28, 0, 0]]]},
]


def hist_search_cases() -> list:
    """every ordered pair of steps from a small alphabet, three binding modes, values with / without timezone"""
    alpha = [['adjust', None], ['adjust', -600], ['adjust', 0], ['adjust', 840], ['adjust1'], ['comp'], ['add', 10 ** 6]]
    out = []
    for ck, vals in (('dt10', [(2002, 3, 7, 36000 * 10 ** 6, None), (2002, 3, 7, 36000 * 10 ** 6, -420), (-1, 12, 31, US - 1, 840)]),
                     ('dt11', [(10000, 1, 1, 0, None), (10000, 1, 1, 0, -840)]),
                     ('d10', [(2002, 3, 7, 0, None), (2002, 3, 7, 0, -420)]),
                     ('d11', [(-1, 3, 1, 0, 840)]),
                     ('t', [(2000, 1, 1, 36000 * 10 ** 6, None), (2000, 1, 1, 36000 * 10 ** 6, 60)])):
        for v in vals:
            for s1 in alpha:
                for s2 in alpha:
                    for mode in (('var',) if ck == 't' else ('var', 'for', 'let')):
                        for itz in (None, -300):
                            out.append({'op': 'hist', 'cls': ck, 'mode': mode, 'a': list(v), 'itz': itz, 'steps': [s1, s2]})
    return out


def shrink_hist(d: Disagreement) -> Disagreement:
    """drop steps of the history while the same kind of failure remains"""
    case = d.case
    cur = dict(case)
    kind = d.what.split(':')[0]

    def failing(c):
        sub = Run(PROP, 'quick', 0)
        ds = compare_hist(sub, [c], record=False)
        return next((x for x in ds if x.what.split(':')[0] == kind and not x.tags), None)
    best = d
    changed = True
    while changed and len(cur['steps']) > 1:
        changed = False
        for i in range(len(cur['steps']) - 1):
            c = dict(cur, steps=cur['steps'][:i] + cur['steps'][i + 1:])
            f = failing(c)
            if f is not None:
                cur, best, changed = dict(f.case), f, True
                break
    for simpler in ({'itz': None}, {'mode': 'var'}):
        c = dict(cur, **simpler)
        if c != cur:
            f = failing(c)
            if f is not None:
                cur, best = dict(f.case), f
    return best


# ------------------------------------------------------------------- one call site, many arguments
# The SAME parsed token / Selector is evaluated repeatedly with DIFFERENT variable maps and implicit timezones,
# through evaluate(), select(), Selector.select() and Selector.iter_select(); every result is compared with the
# model/spec of that single operation on that argument (anything memoised on the token or on a value shows up).
REUSE_TEMPLATES = [
    ('adjust', lambda ck, st: step_exprs(ck, st)[0]),
    ('add', lambda ck, st: step_exprs(ck, st)[0]),
    ('comp', lambda ck, st: '(' + ', '.join(step_exprs(ck, st)) + ')'),
    ('cmp', lambda ck, st: '(' + ', '.join(step_exprs(ck, st)) + ')'),
    ('diff', lambda ck, st: step_exprs(ck, st)[0]),
]


REUSE_PATHS = ['evaluate', 'select', 'Selector.select', 'Selector.iter_select', 'module.select', 'module.iter_select',
               'module.select', 'module.iter_select', 'module.select.item', 'module.iter_select.item', 'Selector.select.item']


def tz_arg(itz, as_string):
    """the `timezone=` keyword of the public entry points: a Timezone object or its string form"""
    if itz is None:
        return None
    return (tz_lex(itz) if as_string else tzobj(itz))


def gen_reuse(rng):
    ck = rng.choice(['dt10', 'dt11', 'd10', 'd11', 't'])
    kind = rng.choice(['adjust', 'adjust1', 'adjust1', 'adjustvar', 'adjustvar', 'add', 'comp', 'cmp', 'cmp', 'diff', 'diff', 'implicit'])
    proto = gen_hist(rng, ck=ck, mode='var')
    base = tuple(proto['a'])
    if kind == 'adjust':
        st = ['adjust', rng.choice(HIST_TZ2)]
    elif kind == 'adjust1':
        st = ['adjust1']                 # the implicit timezone of each call's context is the new timezone
    elif kind == 'implicit':
        st = ['implicit']                # fn:implicit-timezone() of each call's context
    elif kind == 'adjustvar':
        st = ['adjustvar']               # the new timezone comes from the variable $z of each call
    elif kind == 'add':
        st = [rng.choice(['add', 'sub']), rng.choice([10 ** 6, US, 3600 * 10 ** 6, 86399 * 10 ** 6])]
    elif kind == 'comp':
        st = ['comp']
    else:
        w = of_local(local_us(base) + rng.choice([-1, 1]) * rng.randrange(0, 30 * 3600 * 10 ** 6), rng.choice([None, 0, 600]))
        if is_date(ck):
            w = w[:3] + (0,) + w[4:]
        if ck == 't':
            w = (2000, 1, 1) + w[3:]
        # operand position of $d (swap = $d is the RIGHT operand) and value vs general comparison
        st = [kind, list(w), rng.random() < 0.5, rng.random() < 0.4]
    shared = rng.random() < 0.5          # ONE Python value object goes through all the calls
    args = []
    for _ in range(rng.randint(3, 6)):
        v = tuple(gen_hist(rng, ck=ck, mode='var')['a'])
        if shared or rng.random() < 0.3:
            v = base                                     # the same value again after others
        args.append([list(v), rng.choice([-300, 0, 840, 330]) if kind == 'implicit' else rng.choice([None, None, -300, 0, 840, 330]), rng.choice(REUSE_PATHS),
                     rng.choice(HIST_TZ2)])
    if shared and kind in ('cmp', 'diff', 'adjust1', 'implicit'):
        # make the implicit timezone change from call to call
        tzs_ = [-300, 180, 840, 0, 330, None]
        rng.shuffle(tzs_)
        for k_, a_ in enumerate(args):
            a_[1] = tzs_[k_ % len(tzs_)] if not (kind == 'implicit' and tzs_[k_ % len(tzs_)] is None) else 60
    return {'op': 'reuse', 'cls': ck, 'step': st, 'args': args, 'shared': shared}


def compare_reuse(run: Run, cases: list, record=True) -> list:
    from elementpath import XPath2Parser, XPathContext, Selector
    import xml.etree.ElementTree as ET
    if not _ROOT:
        _ROOT.append(ET.XML('<A/>'))
    subs = []
    for c in cases:
        for v, itz, _, tz2 in c['args']:
            if c['step'][0] == 'implicit':
                subs.append({'op': 'pyord', 'n': 1})       # placeholder line: the expectation is the context's own timezone
                continue
            st_ = ['adjust', tz2] if c['step'][0] == 'adjustvar' else c['step']
            sc = hist_subcases({'cls': c['cls'], 'a': v, 'itz': itz, 'steps': [st_[:2]]})[0]
            if st_[0] in ('cmp', 'diff') and len(st_) > 2 and st_[2]:
                sc = dict(sc, a=sc['b'], b=sc['a'])          # $d is the right operand
            subs.append(sc)
    answers = iter(run.driver('C11', [line_of(sc) for sc in subs]))
    out = []
    for c in cases:
        ck, st = c['cls'], c['step']
        ver = '1.0' if ck == 't' else version_of(ck)
        if st[0] in ('cmp', 'diff') and len(st) > 2:
            other = ("xs:time('%s')" % time_lexical(tuple(st[1]))) if ck == 't' else xs_ctor(ck, tuple(st[1]))
            lft, rgt = (other, '$d') if st[2] else ('$d', other)
            ops_ = (('<', '<=', '=', '>', '>=') if st[3] else ('lt', 'le', 'eq', 'gt', 'ge')) if st[0] == 'cmp' else ('-',)
            exprs = ['%s %s %s' % (lft, o, rgt) for o in ops_]
        else:
            exprs = ['adjust-%s-to-timezone($d, $z)' % _tname(ck)] if st[0] == 'adjustvar' else ['implicit-timezone()'] if st[0] == 'implicit' \
                else step_exprs(ck, st)
        expr = exprs[0] if len(exprs) == 1 else '(' + ', '.join(exprs) + ')'
        parser = _PARSERS.get(('reuse', ver))
        if parser is None:
            parser = _PARSERS[('reuse', ver)] = XPath2Parser(xsd_version=ver)
        token = parser.parse(expr)
        selector = Selector(expr, parser=XPath2Parser, xsd_version=ver)
        expr_item = expr.replace('$d', '.')
        selector_item = Selector(expr_item, parser=XPath2Parser, xsd_version=ver)
        import elementpath as _ep
        if record:
            run.stats.case({'reuse': c}, nontrivial=True)
            run.stats.count('op:reuse')
            run.stats.count('reuse:step=' + st[0])
        shared_obj = None
        for k, (v, itz, path, tz2) in enumerate(c['args']):
            ans = next(answers)
            model, spec, _ = parse_answer(ans)
            tags = finding_tags(ans)
            if st[0] == 'implicit':
                model = spec = str(itz * UM)
                tags = []
            try:
                if c.get('shared'):
                    if shared_obj is None:
                        shared_obj = build_obj(ck, tuple(v))
                    obj = shared_obj             # the SAME Python object in every call
                else:
                    obj = build_obj(ck, tuple(v))
                before = obj_state(obj)
                from elementpath.datatypes import DayTimeDuration as _DTD
                kw = {'variables': {'d': obj, 'z': [] if tz2 is None else _DTD(seconds=tz2 * 60)}, 'timezone': tzobj(itz)}
                if path == 'evaluate':
                    r = token.evaluate(XPathContext(root=_ROOT[0], **kw))
                elif path == 'select':
                    r = list(token.select(XPathContext(root=_ROOT[0], **kw)))
                elif path == 'Selector.select':
                    r = selector.select(_ROOT[0], **kw)
                elif path == 'Selector.iter_select':
                    r = list(selector.iter_select(_ROOT[0], **kw))
                else:
                    # the module-level entry points build parser and context from their keyword arguments;
                    # `timezone=` as a Timezone object or as its string form, the value as `variables=` or as `item=`
                    kw2 = {'variables': kw['variables'], 'timezone': tz_arg(itz, as_string=(k % 2 == 0)), 'xsd_version': ver}
                    if path == 'module.select':
                        r = _ep.select(_ROOT[0], expr, parser=XPath2Parser, **kw2)
                    elif path == 'module.iter_select':
                        r = list(_ep.iter_select(_ROOT[0], expr, parser=XPath2Parser, **kw2))
                    elif path == 'module.select.item':
                        r = _ep.select(None, expr_item, parser=XPath2Parser, item=obj, **kw2)
                    elif path == 'module.iter_select.item':
                        r = list(_ep.iter_select(None, expr_item, parser=XPath2Parser, item=obj, **kw2))
                    else:
                        r = selector_item.select(None, item=obj, variables=kw['variables'], timezone=kw2['timezone'])
                items = r if isinstance(r, list) else [r]
                if st[0] == 'implicit':
                    res = str(dur_us(items[0])) if len(items) == 1 else '?' + repr(items)
                else:
                    res = step_canon(ck, ['adjust'] if st[0] == 'adjustvar' else st, items)
                after = obj_state(obj)
            except Exception as e:
                res, before, after = err_text(e), '', ''
            if record:
                run.stats.count('reuse:path=' + path)
            what = None
            if res != spec:
                what, d = 'reuse-result:' + st[0], Disagreement(dict(c, failing_call=k), res, model, spec, what='reuse-result:' + st[0],
                                                                 site=f'same token, call {k + 1} via {path}', tags=tags)
            elif res != model:
                what, d = 'reuse-model', Disagreement(dict(c, failing_call=k), res, model, None, what='reuse-result-model', site=path)
            elif before != after:
                what, d = 'mut', Disagreement(dict(c, failing_call=k), 'argument after: ' + after, 'argument before: ' + before,
                                               'argument before: ' + before, what='reuse-argument-mutated:' + st[0], site=path)
            if what:
                run.disagree(d)
                out.append(d)
                for _ in range(len(c['args']) - k - 1):
                    next(answers)
                break
    return out


def jsonable(c):
    return json.loads(json.dumps(c))


def correspond(run: Run) -> None:
    rng = run.rng
    n = run.scale(40000, 500000)
    cases = [dict(c) for c in CORPUS] + gen_cases(rng, n, run.quick)
    run.stats.rule = (
        'one case = one operation on generated operands: constructor from lexical fields (valid/invalid, 24:00:00, '
        'year 0), todelta, fromdelta, fromdelta∘todelta, ± dayTimeDuration (durations chosen to land on year/era '
        'boundaries, leap days, 1st of January with a time part), ± yearMonthDuration (incl. era crossings), '
        'difference, the five comparisons, adjust-dateTime-to-timezone, lexical year numbering (string(), '
        'year-from-*), duration comparison, CPython date.fromordinal; REUSE: one parsed token / Selector evaluated 3-6 times with different '
        'variable maps and implicit timezones through token.evaluate / token.select / Selector.select / Selector.iter_select / the module-level '
        'select() and iter_select() (timezone= as object or string, the value via variables= or item=), incl. fn:implicit-timezone(); plus HISTORIES: one value object (passed via variables=, or bound '
        'by for/let) goes through 2-4 adjust-*-to-timezone / component-extraction / ± duration / comparison / difference calls, each '
        'result compared with model and spec computed from the ORIGINAL value and the argument object compared with its state before '
        'the call (xs:dateTime, xs:date, xs:time; with and without implicit timezone); classes DateTime/DateTime10/Date/Date10; 30% through '
        'XPath expressions, 70% through the datatypes API; years ±{1..5, 99..101, 399..401, 1582, 9996..10004, 12000, '
        '2.7M (timedelta edge), 2^31-1, random}; TZLEX: arbitrary texts through Timezone.fromstring (directly / XPathContext(timezone=text)) + str(): XSD literals, edits of them (white space of three classes, underscores, Unicode digits, signs, extra/missing fields), int()-level shapes around ±14:00 and the timedelta limits, random strings; the isspace/decimal-digit tables checked over all code points. distinct = distinct protocol lines')
    for i in range(0, len(cases), 20000):
        compare(run, cases[i:i + 20000])
    compare(run, [dict(c) for c in EXT_CORPUS] + gen_ext_cases(rng, run.scale(5000, 80000)) + gen_dur_cases(rng, run.scale(3000, 50000))
            + gen_lex_cases(rng, run.scale(4000, 60000)))
    check_tz_tables(run)
    compare(run, gen_tz_cases(rng, run.scale(6000, 80000)))
    compare_reuse(run, [gen_reuse(rng) for _ in range(run.scale(200, 5000))])
    hists = [dict(c) for c in HIST_CORPUS] + [gen_hist(rng) for _ in range(run.scale(3000, 40000))]
    for i in range(0, len(hists), 5000):
        compare_hist(run, hists[i:i + 5000])


def search(run: Run):
    """dense enumeration around every year boundary and leap day of both eras, all operations,
    against the Lean spec (or, if the driver cannot run, the python reference above)"""
    sub = Run(PROP, run.tier, run.seed)
    cases = []
    years = [-10001, -10000, -9999, -401, -400, -101, -100, -5, -4, -2, -1, 1, 2, 4, 5, 100, 400, 2000, 9999, 10000, 10001, 10004]
    times = [0, 1, 45015 * 10 ** 6, US - 1]
    for ck in ('dt10', 'dt11', 'd10', 'd11'):
        for y in years:
            a = astro(y)
            for (m, d) in [(1, 1), (1, 2), (2, 28), (2, mlen(a, 2)), (3, 1), (12, 31)]:
                for us in (times if not is_date(ck) else [0]):
                    for tz in (None, 0, 840, -300):
                        v = (y, m, d, us, tz)
                        cases.append({'op': 'rt', 'cls': ck, 'a': v})
                        cases.append({'op': 'todelta', 'cls': ck, 'a': v})
                        for dur in (0, 1, -1, US, -US, 59 * US, -366 * US + 5, 400 * 366 * US):
                            cases.append({'op': 'add', 'cls': ck, 'a': v, 'dur': dur})
                            cases.append({'op': 'sub', 'cls': ck, 'a': v, 'dur': dur})
                        for ms in (1, -1, 12, -12, 25, -12 * a, -12 * a + 1, 12 * (10000 - a)):
                            cases.append({'op': 'addym', 'cls': ck, 'a': v, 'months': ms})
                        w = of_local(local_us(v) + 25 * 3600 * 10 ** 6, -840 if tz is not None else None)
                        if is_date(ck):
                            w = w[:3] + (0,) + w[4:]
                        cases.append({'op': 'cmp', 'cls': ck, 'a': v, 'b': w})
                        cases.append({'op': 'diff', 'cls': ck, 'a': w, 'b': v})
                        cases.append({'op': 'adjust', 'cls': ck, 'a': v, 'tz2': 600})
                        cases.append({'op': 'adjust', 'cls': ck, 'a': v, 'tz2': -840})
    try:
        for i in range(0, len(cases), 20000):
            compare(sub, cases[i:i + 20000], record=False)
        hs = hist_search_cases()
        compare_hist(sub, hs, record=False)
        import random as _r
        ext = [dict(c) for c in EXT_CORPUS] + gen_ext_cases(_r.Random(11), 6000) + gen_dur_cases(_r.Random(12), 4000) + gen_lex_cases(_r.Random(13), 4000) + gen_tz_cases(_r.Random(14), 6000)
        compare(sub, ext, record=False)
        cases = cases + hs + ext
        found = sub.disagreements
        how = 'Lean spec'
    except Exception as e:   # driver not buildable: python reference as the oracle
        found = []
        how = f'python reference (driver unavailable: {type(e).__name__})'
        for c in cases:
            exp = py_expected(c)
            if exp is None:
                continue
            impl = run_impl(c)
            if impl != exp:
                found.append(Disagreement(c, impl, None, exp, what=c['op'], site=SITES.get(c['op'], '')))
    run.notes.append(f'search: {len(cases)} boundary cases against {how}, {len(found)} disagreements')
    return found


def py_expected(c):
    op, ck = c['op'], c.get('cls', 'dt10')
    a = c.get('a')
    date = is_date(ck)

    def fin(w):
        return vstr(w[:3] + (0,) + w[4:]) if date else vstr(w)
    if op == 'todelta':
        return str(instant_us(a))
    if op == 'rt':
        return fin(of_local(instant_us(a), None))
    if op in ('add', 'sub'):
        d = c['dur'] if op == 'add' else -c['dur']
        return fin(of_local(local_us(a) + d, a[4]))
    if op == 'addym':
        t = astro(a[0]) * 12 + a[1] - 1 + c['months']
        ya, mo = t // 12, t % 12 + 1
        return vstr((internal(ya), mo, min(a[2], mlen(ya, mo)), a[3], a[4]))
    if op == 'diff':
        return str(instant_us(a) - instant_us(c['b']))
    if op == 'cmp':
        x, y = instant_us(a), instant_us(c['b'])
        return ''.join('1' if t else '0' for t in (x < y, x <= y, x == y, x > y, x >= y))
    if op == 'adjust':
        if a[4] is None or c['tz2'] is None:
            return vstr(a[:4] + (c['tz2'],))
        return fin(of_local(instant_us(a) + c['tz2'] * UM, c['tz2']))
    return None


def shrink(d: Disagreement) -> Disagreement:
    """greedy simplification of the operands while the implementation still differs from the python
    reference in the same way (the reference is only used to keep the failure, the reported spec value
    is recomputed by the Lean driver at the end)"""
    case = d.case
    if isinstance(case, dict) and case.get('op') == 'hist':
        return shrink_hist(d)
    if isinstance(case, dict) and case.get('op') == 'reuse':
        return d
    if not isinstance(case, dict) or py_expected(case) is None:
        return d

    def fails(c):
        try:
            return run_impl(c) != py_expected(c)
        except Exception:
            return False
    if not fails(case):
        return d
    def size(c):
        n = 0
        for key in ('a', 'b'):
            if key in c:
                y, m, dd, us, tz = c[key]
                n += (m - 1) + (dd - 1) + us.bit_length() + (0 if tz is None else 1 if tz == 0 else 2 + abs(tz))
        n += abs(c.get('dur', 0)).bit_length() + abs(c.get('months', 0)).bit_length()
        return n + (1 if c.get('via') == 'xpath' else 0)

    cur = dict(case)
    changed = True
    while changed:
        changed = False
        cands = []
        for key in ('a', 'b'):
            if key in cur:
                y, m, dd, us, tz = cur[key]
                for nv in ((y, m, dd, 0, tz), (y, m, dd, us, None), (y, m, dd, us, 0), (y, 1, 1, us, tz), (y, m, 1, us, tz),
                           (y, m, dd, us - us % 10 ** 6, tz)):
                    if nv != tuple(cur[key]) and not (is_date(cur.get('cls', '')) and nv[3] != 0):
                        cands.append(dict(cur, **{key: nv}))
        if 'dur' in cur and cur['dur']:
            for nd in (0, cur['dur'] // 2, cur['dur'] - cur['dur'] % US, cur['dur'] // abs(cur['dur'])):
                if nd != cur['dur']:
                    cands.append(dict(cur, dur=nd))
        if 'months' in cur and cur['months']:
            for nm in (cur['months'] // 2, cur['months'] // abs(cur['months'])):
                if nm != cur['months']:
                    cands.append(dict(cur, months=nm))
        if cur.get('via') == 'xpath':
            cands.append(dict(cur, via='api'))
        for c in cands:
            try:
                if size(c) < size(cur) and fails(c):
                    cur, changed = c, True
                    break
            except Exception:
                continue
    try:
        from harness.common import run_driver
        model, spec, ink = parse_answer(run_driver('C11', [line_of(cur)])[0])
        impl = run_impl(cur)
        if impl != spec:
            return Disagreement(jsonable(cur), impl, model, spec, what=d.what, site=d.site, tags=['F11d'] if ink else [])
    except Exception:
        pass
    return d


def body(run: Run) -> int:
    run.trusted_base += [
        'CPython datetime/timedelta for years 1..9999 (modelled as _pydatetime._ymd2ord/_ord2ymd; cross-checked '
        'against date.fromordinal/toordinal by op=pyord in this run)',
        'float seconds of timedelta.total_seconds() inside todelta() are exact for |delta| < 32 days (µs grid)',
        'Decimal arithmetic of the Duration classes (exact at 6 decimals); regular expressions of fromstring',
        'the XSD/F&O reading in EPV/Spec/Timeline.lean (astronomical years, instants in µs, implicit timezone Z)']
    run.assumptions += [
        'years within ±2^31 and durations within ±2^62 s (constructor limits of the library, accepted)',
        'known finding F11t: max/min/distinct-values/index-of/deep-equal/sort ignore the implicit timezone; '
        'known finding F11d: timeline offsets beyond the timedelta range (|days| > 999999999, |year| ≳ 2.7 million) '
        'raise OverflowError (FODT0001 through XPath); theorems carry the hypothesis TdOk',
        'durations: × ÷ by xs:double through the datatypes API uses binary64 products (computed by the harness with Python floats, '
        'trusted IEEE-754), through XPath the double is first converted to its exact decimal; Decimal products stay within 28 digits '
        'in the generated range; format-dateTime and the system-clock implicit timezone are not modelled']
    if getattr(run, 'replay', None):
        data = json.loads(Path(run.replay).read_text())
        fi = data.get('failing_input') or {}
        case = fi.get('case')
        if isinstance(case, dict) and case.get('op') == 'hist':
            ds = compare_hist(run, [case])
            print('replay:', json.dumps({'case': case, 'steps': run_hist(case), 'disagreements': [x.to_json() for x in ds]}, default=str))
            return 1 if ds else 0
        if isinstance(case, dict):
            for k in ('a', 'b'):
                if k in case:
                    case[k] = tuple(case[k])
            ds = compare(run, [case])
            print('replay:', json.dumps({'case': case, 'impl': run_impl(case), 'driver': run.driver('C11', [line_of(case)])[0]}, default=str))
            return 1 if ds else 0
        print('replay file has no failing input; broken:', data.get('broken'))
        return 1
    run.prove(['EPV.Props.C11', 'EPV.Props.C11Tz'], ['EPV.Model.TzLexFinding', 'EPV.Model.TzLex', 'EPV.Spec.TzLex', 'EPV.Lemmas.CalendarTime', 'EPV.Model.CalendarLex', 'EPV.Spec.Timeline', 'EPV.Model.Calendar', 'EPV.Proto'])
    try:
        correspond(run)
    except DriverError as e:
        run.broken.append('driver:C11 ' + str(e)[:300])
    return run.finish('proof', shrink=shrink, search=search)


if __name__ == '__main__':
    cli(PROP, body)

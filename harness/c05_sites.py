"""
C05 translator: structural scan (Python `ast`) of the live elementpath package for

  * write sites to ElementTree/lxml Element objects, to `namespaces` / `variables` dicts, to schema objects and to
    XPath node wrappers outside the node-tree builders  ->  `treeWrites`
  * every rebinding `<x>.variables = <rhs>`                                   ->  `variableBinds`
  * every assignment / in-place mutation of `self` state executed in evaluation-time methods of token classes
    (state stored on syntax tokens while evaluating)                           ->  `tokenWrites`

emitted as Lean string tables into lean/EPV/Gen/C05Sites.lean.  The reviewed lists are in
lean/EPV/Spec/PuritySites.lean, the `decide`d inclusion theorems in lean/EPV/Props/C05Sites.lean.

The scan is syntactic and name based (documented in docs/C05.md): receivers are classified by how the base name is
bound in the enclosing function (`self`, parameter, local assigned only from fresh containers, other local, global).
"""
from __future__ import annotations

import ast
import re
from pathlib import Path

MUT = {'set', 'append', 'remove', 'insert', 'clear', 'extend', 'update', 'pop', 'popitem', 'setdefault', 'addnext',
       'addprevious', 'sort', 'reverse', 'add', 'discard', 'appendleft', 'popleft'}
FRESH_CALLS = {'list', 'dict', 'set', 'tuple', 'sorted', 'deque', 'defaultdict', 'OrderedDict', 'Counter', 'bytearray'}
FRESH_METHODS = {'copy', 'split', 'splitlines', 'items', 'keys', 'values', 'findall', 'finditer'}
ELEM_ATTRS = {'text', 'tail', 'attrib', 'tag', 'nsmap'}
ELEM_NAMES = {'elem', 'element', 'root', 'e', 'el', 'child', 'parent', 'document', 'doc', 'tree', 'xml', 'value', 'obj',
              'target', 'source', 'item', 'node'}
ELEM_CALLS = {'set', 'append', 'remove', 'insert', 'clear', 'extend', 'addnext', 'addprevious', 'SubElement'}
XNODE_NAMES = {'node', 'attr', 'root_node', 'document_node', 'element_node', 'child', 'parent', 'elem_node', 'text_node'}
TOKEN_FILES = re.compile(r'elementpath/(xpath_tokens/|xpath1/_|xpath2/_|xpath30/_|xpath31/_|tdop\.py|xpath_selectors\.py)')
PARSE_TIME = re.compile(r'^(nud|led|__init__|__new__|__set_name__|parse_|register|unregister|duplicate|build|create_|nullary|prefix|'
                        r'infix|postfix|method|axis|function|constructor|literal|wrapper|bind|as_name)')


def _base_name(n):
    while isinstance(n, (ast.Attribute, ast.Subscript, ast.Call)):
        n = n.func if isinstance(n, ast.Call) else n.value
    return n.id if isinstance(n, ast.Name) else None


def _is_fresh(v) -> bool:
    if isinstance(v, (ast.List, ast.Dict, ast.Set, ast.ListComp, ast.DictComp, ast.SetComp, ast.Tuple, ast.JoinedStr,
                      ast.Constant, ast.BinOp)):
        return True
    if isinstance(v, ast.Call):
        f = v.func
        if isinstance(f, ast.Name) and f.id in FRESH_CALLS:
            return True
        if isinstance(f, ast.Attribute) and f.attr in FRESH_METHODS:
            return True
    return False


def _terminal(text: str) -> str:
    m = re.findall(r'[A-Za-z_][A-Za-z_0-9]*', text)
    return m[-1] if m else ''


def scan_package(repo: Path):
    """-> list of raw sites (file, qualname, kind, receiver_text, op, receiver_class, rhs_text)"""
    root = repo / 'elementpath'
    out = []

    def scan_func(file, qual, fn):
        a = fn.args
        params = {x.arg for x in a.args + a.kwonlyargs + a.posonlyargs}
        params |= ({a.vararg.arg} if a.vararg else set()) | ({a.kwarg.arg} if a.kwarg else set())
        nodes = []

        def walk(n):
            for c in ast.iter_child_nodes(n):
                if isinstance(c, (ast.FunctionDef, ast.AsyncFunctionDef, ast.ClassDef, ast.Lambda)):
                    continue
                nodes.append(c)
                walk(c)
        walk(fn)
        assigned = {}
        for n in nodes:
            if isinstance(n, ast.Assign):
                for t in n.targets:
                    if isinstance(t, ast.Name):
                        assigned.setdefault(t.id, []).append(n.value)
            elif isinstance(n, ast.AnnAssign) and isinstance(n.target, ast.Name) and n.value is not None:
                assigned.setdefault(n.target.id, []).append(n.value)
        fresh = {k for k, vs in assigned.items() if k not in params and all(_is_fresh(v) for v in vs)}

        def rec(kind, recv, op, rhs=None):
            b = _base_name(recv)
            cls = ('self' if b in ('self', 'cls') else 'fresh' if b in fresh else 'param' if b in params
                   else 'local' if b in assigned else 'global')
            out.append((file, qual, kind, ast.unparse(recv), op, cls, ast.unparse(rhs) if rhs is not None else ''))

        def tgt(t, how, rhs=None):
            if isinstance(t, (ast.Tuple, ast.List)):
                for x in t.elts:
                    tgt(x, how)
            elif isinstance(t, ast.Starred):
                tgt(t.value, how)
            elif isinstance(t, ast.Attribute):
                rec('attr', t.value, t.attr, rhs)
            elif isinstance(t, ast.Subscript):
                rec('item', t.value, how)
        for n in nodes:
            if isinstance(n, ast.Assign):
                for t in n.targets:
                    tgt(t, '[]=', n.value)
            elif isinstance(n, ast.AugAssign):
                tgt(n.target, '[]=', n.value)
            elif isinstance(n, ast.AnnAssign) and n.value is not None:
                tgt(n.target, '[]=', n.value)
            elif isinstance(n, ast.Delete):
                for t in n.targets:
                    tgt(t, 'del')
            elif isinstance(n, (ast.For, ast.AsyncFor)):
                tgt(n.target, '[]=')
            elif isinstance(n, ast.Call):
                f = n.func
                if isinstance(f, ast.Attribute) and f.attr in MUT:
                    rec('call', f.value, f.attr)
                elif isinstance(f, ast.Name) and f.id in ('setattr', 'delattr') and n.args:
                    rec('call', n.args[0], f.id)
                elif ((isinstance(f, ast.Name) and f.id == 'SubElement') or
                      (isinstance(f, ast.Attribute) and f.attr == 'SubElement')) and n.args:
                    rec('call', n.args[0], 'SubElement')

    def visit(file, node, stack):
        for c in ast.iter_child_nodes(node):
            if isinstance(c, ast.ClassDef):
                visit(file, c, stack + [c.name])
            elif isinstance(c, (ast.FunctionDef, ast.AsyncFunctionDef)):
                scan_func(file, '.'.join(stack + [c.name]), c)
                visit(file, c, stack + [c.name])
            else:
                visit(file, c, stack)
    for p in sorted(root.rglob('*.py')):
        visit(str(p.relative_to(repo)), ast.parse(p.read_text()), [])
    return out


def detail(kind, recv, op) -> str:
    if kind == 'attr':
        return f'{recv}.{op} ='
    if kind == 'item':
        return f'{recv}[...] {"del" if op == "del" else "="}'
    return f'{recv}.{op}()' if op not in ('setattr', 'delattr', 'SubElement') else f'{op}({recv}, ...)'


def classify(sites):
    tree, binds, token = set(), set(), set()
    for f, q, kind, recv, op, cls, rhs in sites:
        t = _terminal(recv)
        d = detail(kind, recv, op)
        # --- rebinding of a variables dict
        if kind == 'attr' and op == 'variables':
            binds.add((f, q, f'{recv}.variables = {rhs}'))
        # --- element / dict / schema / node-wrapper writes
        k = None
        if kind == 'attr' and op in ELEM_ATTRS:
            k = 'element'
        elif t == 'attrib' and (kind == 'item' or kind == 'call'):
            k = 'element'
        elif t in ('namespaces', '_namespaces', 'nsmap') and kind in ('item', 'call'):
            k = 'namespaces'
        elif t in ('variables', '_variables') and kind in ('item', 'call'):
            k = 'variables'
        elif cls != 'fresh' and ('schema' in recv.lower() or t in ('xsd_type', 'xsd_element', 'xsd_attribute')):
            k = 'schema'
        elif cls not in ('fresh', 'self') and t in ELEM_NAMES and (kind == 'item' or (kind == 'call' and op in ELEM_CALLS)):
            k = 'element'
        elif cls not in ('fresh', 'self') and t in XNODE_NAMES and kind == 'attr' or \
                (cls not in ('fresh', 'self') and t in XNODE_NAMES and kind == 'call' and op in ('setattr', 'delattr')):
            k = 'xnode'
        if k:
            tree.add((k, f, q, d))
        # --- state written on tokens at evaluation time
        if cls == 'self' and TOKEN_FILES.search(f):
            parts = q.split('.')
            if not any(PARSE_TIME.match(p) for p in parts) and not any(p.endswith('Parser') for p in parts):
                token.add((f, q, d))
    return sorted(tree), sorted(binds), sorted(token)


MOD_MUT = MUT | {'cache_clear'}
MUTABLE_CTORS = {'dict', 'list', 'set', 'defaultdict', 'OrderedDict', 'deque', 'Counter', 'WeakValueDictionary',
                 'WeakKeyDictionary', 'Lock', 'RLock', 'local'}
MEMO_DECORATORS = {'cache', 'lru_cache', 'cached_property'}


def _is_mutable_value(v) -> bool:
    if isinstance(v, (ast.List, ast.Dict, ast.Set, ast.ListComp, ast.DictComp, ast.SetComp)):
        return True
    if isinstance(v, ast.Call):
        f = v.func
        nm = f.id if isinstance(f, ast.Name) else (f.attr if isinstance(f, ast.Attribute) else '')
        return nm in MUTABLE_CTORS
    return False


def scan_module_state(repo: Path):
    """write sites, INSIDE functions, to state that outlives a call: names bound at module level (`global X =`,
    `X[...] =`, `X.update()` ...), class attributes (`cls.a[...] =`, `ClassName.a =`, `self.a[...] =` where `a` is a
    class-level mutable), attributes of imported modules (`sys.modules[...]`), plus memoising decorators and mutable
    default arguments.  -> sorted list of (where, file, function, site)"""
    root = repo / 'elementpath'
    out = set()
    trees = {str(p.relative_to(repo)): ast.parse(p.read_text()) for p in sorted(root.rglob('*.py'))}
    class_mut = set()
    for t in trees.values():
        for n in ast.walk(t):
            if isinstance(n, ast.ClassDef):
                for b in n.body:
                    pairs = [(x, b.value) for x in b.targets] if isinstance(b, ast.Assign) else \
                        [(b.target, b.value)] if isinstance(b, ast.AnnAssign) and b.value is not None else []
                    for x, v in pairs:
                        if isinstance(x, ast.Name) and _is_mutable_value(v):
                            class_mut.add(x.id)
    for f, t in trees.items():
        modnames, classes, imported = set(), set(), set()
        for b in t.body:
            if isinstance(b, ast.Assign):
                for x in b.targets:
                    modnames.update(y.id for y in ast.walk(x) if isinstance(y, ast.Name))
            elif isinstance(b, (ast.AnnAssign, ast.AugAssign)) and isinstance(b.target, ast.Name):
                modnames.add(b.target.id)
            elif isinstance(b, ast.ClassDef):
                classes.add(b.name)
            elif isinstance(b, (ast.FunctionDef, ast.AsyncFunctionDef)):
                modnames.add(b.name)
            elif isinstance(b, ast.Import):
                imported.update((a.asname or a.name).split('.')[0] for a in b.names)

        def scan_func(fn, stack, enclosing):
            qual = '.'.join(stack)
            a = fn.args
            local = {x.arg for x in a.args + a.kwonlyargs + a.posonlyargs}
            local |= ({a.vararg.arg} if a.vararg else set()) | ({a.kwarg.arg} if a.kwarg else set())
            for d in fn.decorator_list:
                dn = d.func if isinstance(d, ast.Call) else d
                nm = dn.id if isinstance(dn, ast.Name) else (dn.attr if isinstance(dn, ast.Attribute) else '')
                if nm in MEMO_DECORATORS:
                    out.add(('memo-decorator', f, qual, '@' + nm))
            defaults = [x for x in list(a.defaults) + [k for k in a.kw_defaults if k is not None] if _is_mutable_value(x)]
            if defaults:
                out.add(('mutable-default', f, qual, 'mutable default argument'))
            globs, nodes, inner = set(), [], []

            def walk(n):
                for c in ast.iter_child_nodes(n):
                    if isinstance(c, (ast.FunctionDef, ast.AsyncFunctionDef, ast.ClassDef)):
                        local.add(c.name)
                        inner.append(c)
                        continue
                    if isinstance(c, ast.Lambda):
                        continue
                    nodes.append(c)
                    walk(c)
            walk(fn)
            for n in nodes:
                if isinstance(n, ast.Global):
                    globs.update(n.names)
            for n in nodes:
                if isinstance(n, ast.Name) and isinstance(n.ctx, ast.Store) and n.id not in globs:
                    local.add(n.id)
                elif isinstance(n, ast.ExceptHandler) and n.name:
                    local.add(n.name)
                elif isinstance(n, (ast.Import, ast.ImportFrom)):
                    local.update((al.asname or al.name).split('.')[0] for al in n.names)
            shadow = local | enclosing

            def rec(kind, recv, op):
                b = _base_name(recv)
                text = ast.unparse(recv)
                where = None
                if b == 'cls' or text.startswith(('self.__class__', 'type(self)')):
                    where = 'class'
                elif b in classes and b not in shadow:
                    where = 'class'
                elif b in modnames and b not in shadow:
                    where = 'module'
                elif b in imported and b not in shadow:
                    where = 'imported-module'
                elif b == 'self' and kind != 'attr':
                    m = re.match(r'self\.([A-Za-z_0-9]+)', text)
                    if m and m.group(1) in class_mut:
                        where = 'class-via-self'
                if where:
                    out.add((where, f, qual, detail(kind, text, op)))

            def tgt(t, how):
                if isinstance(t, (ast.Tuple, ast.List)):
                    for x in t.elts:
                        tgt(x, how)
                elif isinstance(t, ast.Starred):
                    tgt(t.value, how)
                elif isinstance(t, ast.Attribute):
                    rec('attr', t.value, t.attr)
                elif isinstance(t, ast.Subscript):
                    rec('item', t.value, how)
                elif isinstance(t, ast.Name) and t.id in globs:
                    out.add(('module', f, qual, f'global {t.id} ='))
            for n in nodes:
                if isinstance(n, ast.Assign):
                    for t_ in n.targets:
                        tgt(t_, '[]=')
                elif isinstance(n, ast.AugAssign):
                    tgt(n.target, '[]=')
                elif isinstance(n, ast.AnnAssign) and n.value is not None:
                    tgt(n.target, '[]=')
                elif isinstance(n, ast.Delete):
                    for t_ in n.targets:
                        tgt(t_, 'del')
                elif isinstance(n, (ast.For, ast.AsyncFor)):
                    tgt(n.target, '[]=')
                elif isinstance(n, ast.Call):
                    fu = n.func
                    if isinstance(fu, ast.Attribute) and fu.attr in MOD_MUT:
                        rec('call', fu.value, fu.attr)
                    elif isinstance(fu, ast.Name) and fu.id in ('setattr', 'delattr') and n.args:
                        rec('call', n.args[0], fu.id)
            for c in inner:
                if isinstance(c, ast.ClassDef):
                    visit(c, stack + [c.name], shadow)
                else:
                    scan_func(c, stack + [c.name], shadow)

        def visit(node, stack, enclosing):
            for c in ast.iter_child_nodes(node):
                if isinstance(c, ast.ClassDef):
                    visit(c, stack + [c.name], enclosing)
                elif isinstance(c, (ast.FunctionDef, ast.AsyncFunctionDef)):
                    scan_func(c, stack + [c.name], enclosing)
                else:
                    visit(c, stack, enclosing)
        visit(t, [], set())
    return sorted(out)


FOCUS_ATTRS = {'item', 'axis', 'position', 'size', 'variables'}


def scan_focus(repo: Path):
    """(a) for every generator method `iter_*` of XPathContext: does it write the focus, and if so is every `yield`
    inside a `try` whose `finally` writes the focus back?   (b) in all other modules: every store to
    `<context>.item/axis/position/size/variables` (assignment or loop target) and every `for … in <context>.iter_*()`
    loop, with how the caller's focus is protected:
      copy            the receiver is `copy(context)` / a name bound to a copy or a new context earlier in the function
      finally         a later `finally:` of the same function stores the same attribute of the same receiver
      focus-generator the store is the target of / lies inside a loop over `….select_with_focus(context)` (restores in finally)
      iterator        a loop over `context.iter_*()` (protected by (a))
      unprotected     none of these
    -> (iterators, sites)"""
    ctx_tree = ast.parse((repo / 'elementpath' / 'xpath_context.py').read_text())
    iterators = []
    for n in ast.walk(ctx_tree):
        if isinstance(n, ast.ClassDef) and n.name == 'XPathContext':
            for f in n.body:
                if isinstance(f, ast.FunctionDef) and f.name.startswith('iter_') and \
                        any(isinstance(x, (ast.Yield, ast.YieldFrom)) for x in ast.walk(f)):
                    writes = any(isinstance(x, ast.Attribute) and isinstance(x.ctx, ast.Store) and
                                 isinstance(x.value, ast.Name) and x.value.id == 'self' and x.attr in FOCUS_ATTRS
                                 for x in ast.walk(f))
                    ok = True

                    def has_store(st):
                        return any(isinstance(y, ast.Attribute) and isinstance(y.ctx, ast.Store) and isinstance(y.value, ast.Name) and
                                   y.value.id == 'self' and y.attr in FOCUS_ATTRS for y in ast.walk(st))

                    def has_yield(st):
                        return any(isinstance(y, (ast.Yield, ast.YieldFrom)) for y in ast.walk(st))

                    def process(stmts, dirty, infin):
                        """a `yield` reached after a store to the focus (`dirty`) must lie in a `try` whose `finally` stores it back"""
                        nonlocal ok
                        for st in stmts:
                            if isinstance(st, ast.Try):
                                restores = any(has_store(b) for b in st.finalbody)
                                process(st.body, dirty, infin or restores)
                                for h in st.handlers:
                                    process(h.body, dirty, infin or restores)
                                process(st.orelse, dirty, infin or restores)
                            elif isinstance(st, (ast.For, ast.While, ast.If, ast.With)):
                                d = dirty or (isinstance(st, ast.For) and has_store(st.target))
                                process(st.body, d, infin)
                                process(getattr(st, 'orelse', []), dirty, infin)
                            else:
                                if has_yield(st) and dirty and not infin:
                                    ok = False
                                if has_store(st):
                                    dirty = True
                    process(f.body, False, False)
                    iterators.append((f.name, 'no-focus-write' if not writes else 'finally' if ok else 'plain'))
    sites = set()
    for p in sorted((repo / 'elementpath').rglob('*.py')):
        f = str(p.relative_to(repo))
        if f.endswith('xpath_context.py'):
            continue
        tree = ast.parse(p.read_text())

        def scan_func(fn, qual):
            params = {a.arg for a in fn.args.args + fn.args.kwonlyargs}
            copies = {}
            finals = []        # (lineno of the finally's first statement, receiver text, attr)
            for n in ast.walk(fn):
                if isinstance(n, ast.Assign) and len(n.targets) == 1 and isinstance(n.targets[0], ast.Name):
                    v = n.value
                    if isinstance(v, ast.Call):
                        fname = v.func.id if isinstance(v.func, ast.Name) else (v.func.attr if isinstance(v.func, ast.Attribute) else '')
                        if fname in ('copy', 'deepcopy', '__copy__') or fname.endswith('Context'):
                            copies.setdefault(n.targets[0].id, n.lineno)
                if isinstance(n, ast.Try) and n.finalbody:
                    for b in n.finalbody:
                        for y in ast.walk(b):
                            if isinstance(y, ast.Attribute) and isinstance(y.ctx, ast.Store) and y.attr in FOCUS_ATTRS:
                                finals.append((b.lineno, ast.unparse(y.value), y.attr))

            def recv_is_copy(recv, lineno):
                if isinstance(recv, ast.Call) and isinstance(recv.func, ast.Name) and recv.func.id == 'copy':
                    return True
                return isinstance(recv, ast.Name) and recv.id in copies and copies[recv.id] <= lineno

            final_stmts = {id(b) for n in ast.walk(fn) if isinstance(n, ast.Try) for b in n.finalbody}

            def walk(node, in_focus_gen):
                for c in ast.iter_child_nodes(node):
                    if isinstance(c, (ast.FunctionDef, ast.AsyncFunctionDef, ast.ClassDef, ast.Lambda)):
                        continue
                    if id(c) in final_stmts:      # the restoring statements themselves
                        continue
                    inner = in_focus_gen
                    targets = []
                    if isinstance(c, ast.Assign):
                        targets = c.targets
                    elif isinstance(c, (ast.AugAssign, ast.AnnAssign)):
                        targets = [c.target]
                    elif isinstance(c, (ast.For, ast.AsyncFor)):
                        targets = [c.target]
                        it = c.iter
                        if isinstance(it, ast.Call) and isinstance(it.func, ast.Attribute):
                            if it.func.attr == 'select_with_focus':
                                inner = True
                            elif it.func.attr.startswith('iter_') and 'context' in ast.unparse(it.func.value).lower():
                                early = any(isinstance(x, (ast.Break, ast.Return)) for b in c.body for x in ast.walk(b))
                                prot = 'copy' if recv_is_copy(it.func.value, c.lineno) else 'iterator'
                                sites.add((f, qual, f'for … in {ast.unparse(it.func.value)}.{it.func.attr}()' +
                                           (' [early exit]' if early else ''), prot))
                    for t in targets:
                        for y in ast.walk(t):
                            if isinstance(y, ast.Attribute) and isinstance(y.ctx, ast.Store) and y.attr in FOCUS_ATTRS and \
                                    'context' in ast.unparse(y.value).lower():
                                recv = ast.unparse(y.value)
                                if recv_is_copy(y.value, c.lineno):
                                    prot = 'copy'
                                elif inner:
                                    prot = 'focus-generator'
                                elif any(ln > c.lineno and r == recv and a == y.attr for ln, r, a in finals):
                                    prot = 'finally'
                                else:
                                    prot = 'unprotected'
                                sites.add((f, qual, f'{recv}.{y.attr} =', prot))
                    walk(c, inner)
            walk(fn, False)

        def visit(node, stack):
            for c in ast.iter_child_nodes(node):
                if isinstance(c, ast.ClassDef):
                    visit(c, stack + [c.name])
                elif isinstance(c, (ast.FunctionDef, ast.AsyncFunctionDef)):
                    scan_func(c, '.'.join(stack + [c.name]))
                    visit(c, stack + [c.name])
                else:
                    visit(c, stack)
        visit(tree, [])
    return sorted(iterators), sorted(sites)


def lean_str(s: str) -> str:
    return '"' + s.replace('\\', '\\\\').replace('"', '\\"').replace('\n', ' ') + '"'


def emit(repo: Path, lean_dir: Path) -> dict:
    tree, binds, token = classify(scan_package(repo))
    lines = ['/- GENERATED by harness/c05_sites.py from the live /repo (ast scan) -- do not edit -/',
             'namespace EPV.Gen.C05', '',
             '/-- (kind, file, function, site): writes to Element objects, namespaces / variables dicts, schema objects,',
             'XPath node wrappers -/',
             'def treeWrites : List (String × String × String × String) := [']
    lines.append(',\n'.join('  (' + ', '.join(lean_str(x) for x in s) + ')' for s in tree) + ']')
    lines += ['', '/-- (file, function, binding): every rebinding of a `variables` attribute -/',
              'def variableBinds : List (String × String × String) := [']
    lines.append(',\n'.join('  (' + ', '.join(lean_str(x) for x in s) + ')' for s in binds) + ']')
    lines += ['', '/-- (file, function, site): state written on `self` in evaluation-time code of token classes -/',
              'def tokenWrites : List (String × String × String) := [']
    lines.append(',\n'.join('  (' + ', '.join(lean_str(x) for x in s) + ')' for s in token) + ']')
    module = scan_module_state(repo)
    lines += ['', '/-- (where, file, function, site): writes, inside functions, to state that outlives the call — module-level names,',
              'class attributes, attributes of imported modules; memoising decorators; mutable default arguments -/',
              'def moduleWrites : List (String × String × String × String) := [']
    lines.append(',\n'.join('  (' + ', '.join(lean_str(x) for x in s) + ')' for s in module) + ']')
    iterators, focus = scan_focus(repo)
    lines += ['', '/-- (method, protection): the generator methods `iter_*` of XPathContext -/',
              'def contextIterators : List (String × String) := [']
    lines.append(',\n'.join('  (' + ', '.join(lean_str(x) for x in s) + ')' for s in iterators) + ']')
    lines += ['', '/-- (file, function, site, protection): stores to the focus of a context and loops over its axis iterators, outside',
              'xpath_context.py -/', 'def focusSites : List (String × String × String × String) := [']
    lines.append(',\n'.join('  (' + ', '.join(lean_str(x) for x in s) + ')' for s in focus) + ']')
    lines += ['', 'end EPV.Gen.C05', '']
    text = '\n'.join(lines)
    gen = lean_dir / 'EPV' / 'Gen' / 'C05Sites.lean'
    gen.parent.mkdir(exist_ok=True)
    if not gen.exists() or gen.read_text() != text:
        gen.write_text(text)
    return {'tree': tree, 'binds': binds, 'token': token, 'module': module, 'iterators': iterators, 'focus': focus}


if __name__ == '__main__':
    import sys
    r = emit(Path(sys.argv[1] if len(sys.argv) > 1 else '/repo'), Path(__file__).resolve().parent.parent / 'lean')
    for k, v in r.items():
        print(k, len(v))
        for s in v:
            print('   ', s)

"""
C17 -- JSON and XML serialisation round trips.

 prove     : EPV.Props.C17 (escape/unescape, number rendering, json<->xml mapping, serializer against the
             RFC 8259 reader, duplicates policies)
 correspond: seven families of generated cases, real elementpath vs Lean model vs specification
   ESC    strings -> escape_json_string / unescape_json_string            (helpers.py)
   UNESC  escape-laden texts -> unescape_json_string
   SER    JSON values -> serialize($v, map{'method':'json'}), parse-json of it, fn:deep-equal,
          Python's json.loads and the Lean RFC 8259 reader on the produced text
   PARSE  JSON texts with duplicate keys -> parse-json($t, map{'duplicates':...})
   SERWS  (phase 5) serialize($v, json) [compact / indent] padded with random whitespace strings around every token ->
          text = Lean padWith ws (jsonTokens v); Lean parseJsonWs, parse-json, json-doc (temp file), json.loads all give v
   PARSEWS (phase 5) input texts with whitespace / truncation / stray characters -> Lean parseJsonWs = json.loads;
          parse-json (4 policies) = model post-processing = F&O policy; json-doc = parse-json
   J2X    JSON texts -> json-to-xml($t) tree, xml-to-json(json-to-xml($t)) text, json.loads of it
   X2J    generated fn:* element trees (valid and invalid) -> xml-to-json(.)
   XML    generated XML trees (ElementTree and lxml; root / inner element with tail / XML declaration / document
          node with prolog comments+PIs; > 8 KiB) -> parse-xml(serialize(.)) : OBSERVED (fn:deep-equal and an
          independent structural comparison); the character-level escaping is modelled (XESC)
   MULTI  one expression calling a function >= 2 times (for $x in ... return f($x)) vs single evaluations;
          every expression text is compiled once and reused for all inputs, each evaluation is compared
          with a freshly parsed expression (kind REUSE: replayed two-step history)
   XESC   strings -> ElementTree._escape_cdata/_escape_attrib, lxml text escaping (library code, modelled),
          the spec XML reader vs expat, and parse-xml(serialize(<a k=s>s</a>)) on both backends
   JXE    strings through json-to-xml(..., escape:true) / xml-to-json: text, `escaped` flag, output (model tie)
   J2XE   whole values with escape:true: tree with escaped / escaped-key flags and xml-to-json text = Lean model; value = spec
   NEG    error exits and option variants of the anchored functions (expected results from F&O / Serialization)
 search    : exhaustive small-scope enumeration (all strings of length <= 3 over the critical alphabet,
             all number shapes with exponents -25..25, all one-level containers of the seed scalars)
 shrink    : greedy structural shrinking of the failing string / value / text
Strings travel over the line protocol as code points joined by '.'.
"""
from __future__ import annotations

import json
import math
import re
import sys
from decimal import Decimal
from pathlib import Path
from typing import Any

sys.path.insert(0, str(Path(__file__).resolve().parent.parent))
from harness.common import (Run, Disagreement, cli, DriverError)  # noqa: E402

PROP = 'C17'
FN_NS = 'http://www.w3.org/2005/xpath-functions'


# =========================================================================== values
class Obj:
    """a JSON object as the ordered list of its (key, value) pairs (duplicates kept)"""
    __slots__ = ('pairs',)

    def __init__(self, pairs):
        self.pairs = list(pairs)

    def __repr__(self):
        return 'Obj(%r)' % (self.pairs,)


def cps(s: str) -> str:
    return '.'.join(str(ord(c)) for c in s)


def uncps(t: str) -> str:
    return ''.join(chr(int(x)) for x in t.split('.')) if t else ''


def shortest(x: float):
    """(neg, digits, decpt) of the shortest decimal string that reads back as x; value =
    0.d1..dk * 10^decpt.  Found by trying precisions (independent of repr's formatting)."""
    neg = math.copysign(1.0, x) < 0
    a = abs(x)
    if a == 0.0:
        return neg, '0', 1
    for k in range(1, 18):
        s = '%.*e' % (k - 1, a)
        if float(s) == a:
            break
    mant, exp = s.split('e')
    digits = mant.replace('.', '').rstrip('0') or '0'
    return neg, digits, int(exp) + 1


def enc_float(x: float) -> str:
    neg, digits, decpt = shortest(x)
    return 'D%s:%s:%d' % ('-' if neg else '+', digits, decpt)


def enc(v: Any) -> str:
    """value encoding of the driver protocol (see lean/Drivers/C17.lean)"""
    if v is None:
        return 'N'
    if v is True:
        return 'T'
    if v is False:
        return 'F'
    if isinstance(v, int):
        return 'I%d' % v
    if isinstance(v, float):
        if math.isnan(v) or math.isinf(v):
            return '?nonfinite'
        return enc_float(v)
    if isinstance(v, Decimal):
        return enc_float(float(v))       # JSON side of an xs:decimal: its nearest double (trusted)
    if isinstance(v, str):
        return 'S' + cps(v)
    if isinstance(v, list):
        return 'A[' + ','.join(enc(x) for x in v) + ']'
    if isinstance(v, Obj):
        return 'O{' + ','.join('S%s:%s' % (cps(k), enc(x)) for k, x in v.pairs) + '}'
    return '?' + type(v).__name__


def sem(v: Any) -> str:
    """encoding up to JSON-number semantics: every number as its nearest double, zero unsigned"""
    if isinstance(v, bool) or v is None or isinstance(v, str):
        return enc(v)
    if isinstance(v, (int, float, Decimal)):
        try:
            x = float(v)
        except OverflowError:
            return '?overflow'
        if x == 0:
            x = 0.0
        return enc(x)
    if isinstance(v, list):
        return 'A[' + ','.join(sem(x) for x in v) + ']'
    if isinstance(v, Obj):
        return 'O{' + ','.join('S%s:%s' % (cps(k), sem(x)) for k, x in v.pairs) + '}'
    return '?' + type(v).__name__


def is_xml_char(c: int) -> bool:
    return c in (9, 10, 13) or 0x20 <= c <= 0xD7FF or 0xE000 <= c <= 0xFFFD or 0x10000 <= c <= 0x10FFFF


def all_strings(v: Any):
    if isinstance(v, str):
        yield v
    elif isinstance(v, list):
        for x in v:
            yield from all_strings(x)
    elif isinstance(v, Obj):
        for k, x in v.pairs:
            yield k
            yield from all_strings(x)


def all_numbers(v: Any):
    if isinstance(v, bool):
        return
    if isinstance(v, (int, float, Decimal)):
        yield v
    elif isinstance(v, list):
        for x in v:
            yield from all_numbers(x)
    elif isinstance(v, Obj):
        for _, x in v.pairs:
            yield from all_numbers(x)


def xml_valid(v: Any) -> bool:
    return all(is_xml_char(ord(c)) for s in all_strings(v) for c in s)


def has_dup_keys(v: Any) -> bool:
    if isinstance(v, list):
        return any(has_dup_keys(x) for x in v)
    if isinstance(v, Obj):
        ks = [k for k, _ in v.pairs]
        return len(set(ks)) != len(ks) or any(has_dup_keys(x) for _, x in v.pairs)
    return False


def replace_non_xml(v: Any) -> Any:
    if isinstance(v, str):
        return ''.join(c if is_xml_char(ord(c)) else '�' for c in v)
    if isinstance(v, list):
        return [replace_non_xml(x) for x in v]
    if isinstance(v, Obj):
        return Obj((replace_non_xml(k), replace_non_xml(x)) for k, x in v.pairs)
    return v


def dedupe_first(v: Any) -> Any:
    if isinstance(v, list):
        return [dedupe_first(x) for x in v]
    if isinstance(v, Obj):
        seen, out = set(), []
        for k, x in v.pairs:
            if k not in seen:
                seen.add(k)
                out.append((k, dedupe_first(x)))
        return Obj(out)
    return v


def sig_digits(n: int) -> int:
    return len(str(abs(n)).rstrip('0')) if n else 1


def den_int(n: int) -> str:
    """decimal normal form of an integer in the driver's `sign:digits:decpt` syntax (Lean: denInt)"""
    t = str(abs(n))
    return '%s:%s:%d' % ('-' if n < 0 else '+', t.rstrip('0') or '0', len(t) if n else 1)


def rnd_table(v: Any) -> str:
    """the float() roundings the real run performs on the integer literals of v (the trusted parameter `rnd` of
    the model's numberOfText): `in>out` pairs, identity omitted"""
    out = []
    for n in all_numbers(v):
        if isinstance(n, int) and not isinstance(n, bool):
            a = den_int(n)
            neg, digits, decpt = shortest(float(n))
            if float(n) == 0:
                neg = n < 0
            b = '%s:%s:%d' % ('-' if neg else '+', digits, decpt)
            if a != b and a + '>' + b not in out:
                out.append(a + '>' + b)
    return ';'.join(out) or '-'


def int_in_model(n: int) -> bool:
    """xml-to-json goes through float(): the model's digit-preserving reading is exact for <= 15 digits"""
    return sig_digits(n) <= 15


# =========================================================================== implementation access
_ctx: dict[str, Any] = {}


def ep():
    if not _ctx:
        import xml.etree.ElementTree as ET
        import elementpath
        from elementpath.xpath31 import XPath31Parser
        from elementpath.xpath_tokens import XPathMap, XPathArray
        from elementpath import helpers
        _ctx.update(ET=ET, elementpath=elementpath, Parser=XPath31Parser, XPathMap=XPathMap,
                    XPathArray=XPathArray, helpers=helpers, root=ET.XML('<r/>'), parser=XPath31Parser())
    return _ctx


def err_text(e: BaseException) -> str:
    c = ep()
    if isinstance(e, c['elementpath'].ElementPathError):
        m = re.search(r'[A-Z]{4}\d{4}', str(getattr(e, 'code', '') or '') + ' ' + str(e))
        return 'ERR:' + (m.group(0) if m else 'NOCODE')
    return 'ERR:OTHER:' + type(e).__name__


# ---- token reuse ---------------------------------------------------------------------------------
# Every expression text is compiled ONCE (elementpath.Selector) and that token tree is evaluated for all
# inputs of the run; each evaluation is also done with a freshly parsed expression (elementpath.select) and
# the two outcomes are compared.  The functions of this property are pure, so a history of evaluations of
# one token must equal the list of single evaluations (Lean: serialize_parse_history); a token that keeps
# state between evaluations (cached parser object, cached result, mutated operand) shows up here as a
# disagreement carrying the two-step history that reproduces it.
_SELECTORS: dict[str, Any] = {}
_HISTORY: dict[str, list] = {}
REUSE_DIFFS: list[dict] = []
REUSE = {'on': True, 'evaluations': 0, 'tokens': 0}


def canon_result(r: Any) -> Any:
    c = ep()
    if isinstance(r, list):
        return [canon_result(x) for x in r]
    if isinstance(r, (c['XPathMap'], c['XPathArray'])):
        return enc(from_xdm(r))
    if isinstance(r, bool) or r is None or isinstance(r, (int, str)):
        return r if not isinstance(r, str) else 's:' + r
    if isinstance(r, float):
        return 'nan' if r != r else ('inf' if r in (float('inf'), float('-inf')) else enc_float(r))
    inner = getattr(r, 'value', None)
    if inner is not None and (hasattr(inner, 'tag') or hasattr(inner, 'getroot')):
        r = inner                                 # XPath node wrapper -> the ElementTree / lxml object
    if hasattr(r, 'getroot'):
        top = r.getroot()
        return ['doc', canon_xml(top) if top is not None and hasattr(top, 'tag') else repr(top)]
    if hasattr(r, 'tag'):
        return ['elem', canon_xml(r)]
    if hasattr(r, 'children'):
        return ['docnode*', [canon_result(x) for x in r.children]]
    return 'obj:' + (str(r) if isinstance(r, Decimal) else type(r).__name__ + ':' + str(r))


def outcome(fn) -> tuple[bool, Any]:
    try:
        return True, fn()
    except Exception as e:                       # whatever the implementation raises is its behaviour
        return False, e


def canon_outcome(o) -> str:
    ok, r = o
    if not ok:
        return err_text(r)
    try:
        return json.dumps(canon_result(r), ensure_ascii=True, default=str)
    except Exception as e:
        return 'uncanon:' + type(e).__name__


def describe_input(root, item, variables) -> dict:
    d: dict[str, Any] = {}
    if root is not None and root is not ep()['root']:
        d['root'] = canon_xml(root) if hasattr(root, 'tag') else repr(root)
    if item is not None:
        d['item'] = canon_result(item)
    if variables:
        d['variables'] = {k: canon_result(v) for k, v in variables.items()}
    return d


def replay_reuse(expr: str, steps: list[tuple]) -> tuple[list[str], list[str]]:
    """evaluate `steps` (root, item, variables) through ONE new Selector and, separately, each with a fresh select()"""
    c = ep()
    sel = c['elementpath'].Selector(expr, parser=c['Parser'])
    reused, fresh = [], []
    for root, item, variables in steps:
        kw = {'variables': variables} if variables else {}
        if item is not None:
            kw['item'] = item
        reused.append(canon_outcome(outcome(lambda: sel.select(root, **kw))))
        fresh.append(canon_outcome(outcome(lambda: c['elementpath'].select(root, expr, parser=c['Parser'], **kw))))
    return reused, fresh


PURITY_DIFFS: list[dict] = []
PURITY = {'calls_with_trees': 0}


def tree_top(obj):
    """the top of the tree an input belongs to (ElementTree element: the object itself is all we can reach)"""
    if hasattr(obj, 'getroot'):
        return obj.getroot()
    if hasattr(obj, 'getroottree'):
        return obj.getroottree().getroot()
    if hasattr(obj, 'tag'):
        return obj
    return None


def tree_snapshot(top) -> str:
    """everything of an input tree, tails and (lxml) document-level siblings included"""
    parts = [canon_xml(top)]
    if hasattr(top, 'getprevious'):
        x = top.getprevious()
        while x is not None:
            parts.insert(0, canon_xml(x))
            x = x.getprevious()
        x = top.getnext()
        while x is not None:
            parts.append(canon_xml(x))
            x = x.getnext()
    return json.dumps(parts, ensure_ascii=True)


def input_trees(rt, item, variables) -> list:
    tops, seen = [], set()
    objs = [rt, item]
    for v in variables.values():
        objs.extend(v if isinstance(v, list) else [v])
    for o in objs:
        t = tree_top(o) if o is not None else None
        if t is not None and id(t) not in seen and t is not ep()['root']:
            seen.add(id(t))
            tops.append(t)
    return tops


def check_purity(expr, which, tops, before, step):
    """fn:serialize, fn:parse-xml, fn:json-to-xml, fn:xml-to-json ... are functions: the trees given to an
    evaluation must be the same afterwards (text, tails, attributes, children, document-level siblings)"""
    for t, b in zip(tops, before):
        a = tree_snapshot(t)
        if a != b and len(PURITY_DIFFS) < 20:
            PURITY_DIFFS.append({'expr': expr, 'which': which, 'before': b, 'after': a, 'input': describe_input(*step)})


def xq(expr: str, root=None, _item=None, _reuse=True, **variables):
    c = ep()
    rt = c['root'] if root is None else root
    kw: dict[str, Any] = {'variables': variables} if variables else {}
    if _item is not None:
        kw['item'] = _item
    tops = input_trees(rt, _item, variables)
    before = [tree_snapshot(t) for t in tops]
    if tops:
        PURITY['calls_with_trees'] += 1
    if not (REUSE['on'] and _reuse):
        o = outcome(lambda: c['elementpath'].select(rt, expr, parser=c['Parser'], **kw))
        check_purity(expr, 'fresh', tops, before, (rt, _item, dict(variables)))
        if not o[0]:
            raise o[1]
        return o[1]
    sel = _SELECTORS.get(expr)
    if sel is None:
        sel = _SELECTORS[expr] = c['elementpath'].Selector(expr, parser=c['Parser'])
        _HISTORY[expr] = []
        REUSE['tokens'] += 1
    REUSE['evaluations'] += 1
    o_reused = outcome(lambda: sel.select(rt, **kw))
    check_purity(expr, 'reused token', tops, before, (rt, _item, dict(variables)))
    before = [tree_snapshot(t) for t in tops]
    o_fresh = outcome(lambda: c['elementpath'].select(rt, expr, parser=c['Parser'], **kw))
    check_purity(expr, 'fresh expression', tops, before, (rt, _item, dict(variables)))
    hist = _HISTORY[expr]
    step = (rt, _item, dict(variables))
    a, b = canon_outcome(o_reused), canon_outcome(o_fresh)
    REUSE['n'] = REUSE.get('n', 0) + 1
    if REUSE['n'] % 4 == 0 and o_fresh[0]:
        other_paths(expr, sel, rt, kw, o_fresh[1], step)
    if a != b and len(REUSE_DIFFS) < 40:
        REUSE_DIFFS.append({'expr': expr, 'steps': list(hist[-3:]) + [step], 'n': len(hist) + 1, 'reused': a, 'fresh': b})
    hist.append(step)
    if len(hist) > 4:
        del hist[0]
    if not o_reused[0]:
        raise o_reused[1]
    return o_reused[1]


def flat_canon(r) -> str:
    items = r if isinstance(r, list) else [r]
    return json.dumps([canon_result(x) for x in items], ensure_ascii=True, default=str)


PATH_DIFFS: list[dict] = []


def other_paths(expr, sel, rt, kw, fresh_result, step):
    """the other public evaluation paths on the same compiled token: Selector.iter_select and
    root_token.evaluate(XPathContext) must give the items select() gives"""
    c = ep()
    want = flat_canon(fresh_result)
    if any(isinstance(x, c['XPathArray']) for x in (fresh_result if isinstance(fresh_result, list) else [fresh_result])):
        return
    REUSE['other_paths'] = REUSE.get('other_paths', 0) + 1
    o1 = outcome(lambda: list(sel.iter_select(rt, **kw)))
    got1 = flat_canon(o1[1]) if o1[0] else err_text(o1[1])
    ctx_kw = dict(kw)
    o2 = outcome(lambda: sel.root_token.evaluate(c['elementpath'].XPathContext(rt, **ctx_kw)))
    r2 = o2[1] if o2[0] else None
    if o2[0] and any(isinstance(x, c['XPathArray']) for x in (r2 if isinstance(r2, list) else [r2])):
        got2 = want
    else:
        got2 = flat_canon(r2) if o2[0] else err_text(o2[1])
    for name, got in (('Selector.iter_select', got1), ('root_token.evaluate(context)', got2)):
        if got != want and len(PATH_DIFFS) < 20:
            PATH_DIFFS.append({'expr': expr, 'path': name, 'got': got, 'select': want, 'input': describe_input(*step)})


def reuse_disagreements() -> list[Disagreement]:
    """turn the recorded reused-vs-fresh differences into disagreements with a minimal replayable history"""
    out = []
    pur = []
    for d in PURITY_DIFFS:
        case = {'kind': 'PURITY', 'expr': d['expr'], 'evaluated_with': d['which'], 'input': d['input'],
                'history': ['evaluate the expression on the input', 'look at the input tree again']}
        pur.append(Disagreement(case, impl=d['after'], model=d['before'], spec=d['before'],
                                what='input tree modified by an evaluation (fn:serialize / parse-xml / json-to-xml / xml-to-json are functions)',
                                site=d['expr'][:80]))
    for d in REUSE_DIFFS:
        steps = d['steps']
        best = None
        for cand in ([steps[-2:]] if len(steps) >= 2 else []) + [[steps[-1], steps[-1]], steps]:
            try:
                reused, fresh = replay_reuse(d['expr'], cand)
            except Exception:
                continue
            if reused != fresh:
                best = (cand, reused, fresh)
                break
        if best is None:
            cand, reused, fresh = steps, ['(after %d evaluations) ' % d['n'] + d['reused']], [d['fresh']]
        else:
            cand, reused, fresh = best
        case = {'kind': 'REUSE', 'expr': d['expr'], 'evaluation_no': d['n'],
                'history': [describe_input(*s) for s in cand]}
        out.append(Disagreement(case, impl=json.dumps(reused), model=json.dumps(fresh), spec=json.dumps(fresh),
                                what='one token evaluated repeatedly vs freshly parsed expression',
                                site='token state kept between evaluations: ' + d['expr'][:60]))
    del REUSE_DIFFS[:]
    del PURITY_DIFFS[:]
    for d in PATH_DIFFS:
        out.append(Disagreement({'kind': 'PATHS', 'expr': d['expr'], 'path': d['path'], 'input': d['input']}, impl=d['got'], model=d['select'],
                                spec=d['select'], what='evaluation path %s disagrees with select()' % d['path'], site=d['expr'][:80]))
    del PATH_DIFFS[:]
    return pur + out


def xq_item(expr: str, **variables):
    """value of an expression that may be an array: select() flattens a top-level array result, so the
    expression is wrapped in a map entry and read back from the map"""
    m = xq('map{"r": %s}' % expr, **variables)
    return dict(m.items())['r']


def to_xdm(v: Any) -> Any:
    c = ep()
    if v is None:
        return []
    if isinstance(v, list):
        return c['XPathArray'](c['parser'], [to_xdm(x) for x in v])
    if isinstance(v, Obj):
        return c['XPathMap'](c['parser'], [(k, to_xdm(x)) for k, x in v.pairs])
    return v


def from_xdm(x: Any) -> Any:
    c = ep()
    if isinstance(x, list):
        if not x:
            return None
        if len(x) == 1:
            return from_xdm(x[0])
        return '?sequence'
    if isinstance(x, c['XPathArray']):
        return [from_xdm(i) for i in x.items()]
    if isinstance(x, c['XPathMap']):
        return Obj((k, from_xdm(i)) for k, i in x.items())
    return x


def xpath_literal(v: Any) -> str:
    """the value as an XPath 3.1 constructor expression (maps / arrays / literals)"""
    if v is None:
        return '()'
    if v is True:
        return 'true()'
    if v is False:
        return 'false()'
    if isinstance(v, int):
        return '(%d)' % v if v < 0 else str(v)
    if isinstance(v, float):
        neg, digits, decpt = shortest(v)
        return "xs:double('%s%s.0E%d')" % ('-' if neg else '', digits, decpt - len(digits))
    if isinstance(v, Decimal):
        return "xs:decimal('%s')" % format(v, 'f')
    if isinstance(v, str):
        if all(0x20 <= ord(ch) < 0x7f and ch not in '"&{}' for ch in v):
            return '"%s"' % v
        return 'codepoints-to-string((%s))' % ','.join(str(ord(ch)) for ch in v) if v else '""'
    if isinstance(v, list):
        return '[%s]' % ','.join(xpath_literal(x) for x in v)
    if isinstance(v, Obj):
        return 'map{%s}' % ','.join('%s:%s' % (xpath_literal(k), xpath_literal(x)) for k, x in v.pairs)
    raise TypeError(type(v))


# =========================================================================== generators
ASCII_POOL = 'abcxyzAZ09 _-.:,;[]{}'
SPECIAL_POOL = ['"', '\\', '/', '\n', '\r', '\t', '\x7f', '\x80', '\x9f', '\xa0', '\xe9', '́', ' ',
                '퟿', '', '�', '\U00010000', '\U0001f600', '\U0010ffff', '<', '>', '&', "'"]
NONXML_POOL = ['\x00', '\x01', '\x08', '\x0c', '\x1f', '\ud800', '\udc00', '￾', '￿']
ESC_SEQ_POOL = ['\\n', '\\t', '\\r', '\\b', '\\f', '\\"', '\\/', '\\\\', '\\u0041', '\\u00e9', '\\u004', '\\uZZZZ',
                '\\U0000000a', '\\x', '\\', '\\\\n', '\\\\\\n', '\\ud83d\\ude00', '&#34;', '&#xFFFD;']


def gen_string(rng, allow_nonxml=False, p_special=0.35, maxlen=8) -> str:
    n = rng.choice([0, 1, 1, 2, 3, 4, maxlen])
    out = []
    for _ in range(n):
        r = rng.random()
        if r < p_special:
            out.append(rng.choice(SPECIAL_POOL))
        elif r < p_special + 0.15:
            out.append(rng.choice(ESC_SEQ_POOL))
        elif allow_nonxml and r < p_special + 0.27:
            out.append(rng.choice(NONXML_POOL))
        elif r < 0.9:
            out.append(rng.choice(ASCII_POOL))
        else:
            cp = rng.choice([rng.randrange(0x20, 0x250), rng.randrange(0x250, 0xD800),
                             rng.randrange(0xE000, 0xFFFE), rng.randrange(0x10000, 0x110000)])
            out.append(chr(cp))
    return ''.join(out)


SEED_FLOATS = [0.0, -0.0, 1.0, -1.0, 0.1, 0.5, 1.5, 2.5, 100.0, 1e15, 1e16, 1e17, 1e20, 1e21, 1e22, 1e23, 1e-4, 1e-5, 1e-7,
               1.5e300, 5e-324, 2.2250738585072014e-308, 1.7976931348623157e308, 123456789.123, 0.30000000000000004,
               9007199254740992.0, 9007199254740993.0, 1e100, 1.2345678901234567e-100, 3.14159, 1 / 3]
SEED_INTS = [0, 1, -1, 7, 10, 100, 1000, -1000, 255, 2 ** 31, 2 ** 53, 2 ** 53 + 1, -(2 ** 53) - 1, 10 ** 15, 10 ** 16,
             10 ** 20, 10 ** 20 + 1, 12345678901234567890123, 2 ** 70, 999999999999999, 9999999999999999, 120, 1200000]


def gen_float(rng) -> float:
    r = rng.random()
    if r < 0.3:
        return rng.choice(SEED_FLOATS)
    if r < 0.5:
        return round(rng.uniform(-1000, 1000), rng.choice([0, 1, 2, 3, 6]))
    if r < 0.7:
        return float('%de%d' % (rng.randrange(1, 1000), rng.randrange(-30, 31))) * rng.choice([1, -1])
    if r < 0.85:
        return rng.uniform(-1, 1) * 10.0 ** rng.randrange(-300, 300)
    import struct
    while True:
        x = struct.unpack('<d', struct.pack('<Q', rng.getrandbits(64)))[0]
        if not (math.isnan(x) or math.isinf(x)):
            return x


def gen_int(rng) -> int:
    r = rng.random()
    if r < 0.35:
        return rng.choice(SEED_INTS)
    if r < 0.8:
        return rng.randrange(-1000, 1000)
    return rng.choice([1, -1]) * rng.randrange(10 ** rng.randrange(1, 30))


def gen_decimal(rng) -> Decimal:
    r = rng.random()
    if r < 0.3:
        return Decimal(rng.choice(['3.14159', '0.005', '9.0', '0.1', '-2.675', '1000000000000000000000000000000',
                                   '0.333333333333333333', '123456789012345678901234567890.5', '0.001', '-0.0049']))
    return Decimal(rng.randrange(-10 ** 9, 10 ** 9)) / (Decimal(10) ** rng.randrange(0, 9))


def gen_scalar(rng, kinds) -> Any:
    k = rng.choice(kinds)
    if k == 'null':
        return None
    if k == 'bool':
        return rng.random() < 0.5
    if k == 'int':
        return gen_int(rng)
    if k == 'float':
        return gen_float(rng)
    if k == 'decimal':
        return gen_decimal(rng)
    return gen_string(rng, allow_nonxml='nonxml' in kinds and rng.random() < 0.5)


KEY_POOL = ['a', 'A', 'a ', ' a', '', 'b', '1', 'key', '\xe1', 'á', '"', '\\', '/', 'a"b', 'a\\b', '\\n', '\n',
            '\\u0061', '\U0001f600', 'k/k', '\x7f', '<&>']


def gen_key(rng, allow_nonxml=False) -> str:
    return rng.choice(KEY_POOL) if rng.random() < 0.6 else gen_string(rng, allow_nonxml, maxlen=4)


def gen_value(rng, depth: int, kinds, dups=0.0, width=4) -> Any:
    if depth <= 0 or rng.random() < 0.35:
        return gen_scalar(rng, kinds)
    if rng.random() < 0.5:
        return [gen_value(rng, depth - 1, kinds, dups, width) for _ in range(rng.randrange(0, width + 1))]
    pairs, seen = [], set()
    for _ in range(rng.randrange(0, width + 1)):
        k = gen_key(rng, 'nonxml' in kinds)
        if k in seen and rng.random() >= dups:
            continue
        if pairs and rng.random() < dups:
            k = rng.choice(pairs)[0]
        seen.add(k)
        pairs.append((k, gen_value(rng, depth - 1, kinds, dups, width)))
    return Obj(pairs)


def write_json(rng, v: Any, loose: bool) -> str:
    """a JSON text for v with random insignificant whitespace, escape spellings and number spellings"""
    def ws():
        return rng.choice(['', '', '', ' ', '\n', '\t ', '\r\n']) if loose else ''

    def wstr(s: str) -> str:
        out = ['"']
        for ch in s:
            o = ord(ch)
            r = rng.random() if loose else 1.0
            if ch == '"':
                out.append('\\"' if r > 0.2 else '\\u0022')
            elif ch == '\\':
                out.append('\\\\' if r > 0.2 else '\\u005c')
            elif ch == '/':
                out.append('/' if r > 0.5 else '\\/')
            elif o < 0x20:
                short = {8: '\\b', 9: '\\t', 10: '\\n', 12: '\\f', 13: '\\r'}.get(o)
                out.append(short if short and r > 0.3 else '\\u%04x' % o)
            elif o > 0xFFFF and r < 0.5:
                o -= 0x10000
                out.append('\\u%04x\\u%04X' % (0xD800 + (o >> 10), 0xDC00 + (o & 0x3FF)))
            elif (0xD800 <= o <= 0xDFFF) or (r < 0.15 and o <= 0xFFFF):
                out.append(('\\u%04x' if rng.random() < 0.5 else '\\u%04X') % o)
            else:
                out.append(ch)
        out.append('"')
        return ''.join(out)

    def wnum(x) -> str:
        if isinstance(x, int):
            r = rng.random() if loose else 1.0
            if r < 0.1 and x % 10 == 0 and x != 0:
                t = str(x).rstrip('0')
                return '%s%s%d' % (t, rng.choice(['e', 'E', 'e+', 'E+']), len(str(x)) - len(t))
            if r < 0.15:
                return '%d.0' % x
            if r < 0.2 and x == 0:
                return '-0'
            return str(x)
        t = repr(x)
        if loose:
            r = rng.random()
            if r < 0.15:
                t = t.replace('e', 'E')
            elif r < 0.3 and 'e' not in t:
                t = t + '0' * rng.randrange(1, 3)
            elif r < 0.4 and 'e' not in t and abs(x) >= 1:
                neg, digits, decpt = shortest(x)
                t = '%s%s.%se%s%d' % ('-' if neg else '', digits[0], digits[1:] or '0', rng.choice(['', '+']), decpt - 1)
        return t

    def w(x) -> str:
        if x is None:
            return 'null'
        if x is True:
            return 'true'
        if x is False:
            return 'false'
        if isinstance(x, (int, float)):
            return wnum(x)
        if isinstance(x, str):
            return wstr(x)
        if isinstance(x, list):
            return '[' + ws() + (ws() + ',' + ws()).join(w(i) for i in x) + ws() + ']'
        return '{' + ws() + (ws() + ',' + ws()).join(wstr(k) + ws() + ':' + ws() + w(i) for k, i in x.pairs) + ws() + '}'

    return ws() + w(v) + ws()


def py_loads(t: str) -> Any:
    return json.loads(t, object_pairs_hook=Obj)


# elements -------------------------------------------------------------------------------------
def gen_elem(rng, depth: int, key=None, invalid=0.08):
    """(tag, key, text, children) of the F&O json vocabulary; a few invalid shapes"""
    tag = rng.choice('nbdsam' if depth > 0 else 'nbds')
    text, children = None, []
    if tag == 'b':
        text = rng.choice(['true', 'false', '1', '0'])
    elif tag == 'd':
        x = gen_float(rng) if rng.random() < 0.6 else rng.randrange(-10 ** 6, 10 ** 6)
        text = repr(x)
    elif tag == 's':
        text = gen_string(rng) if rng.random() < 0.9 else None
        if text is not None:
            text = ''.join(c for c in text if is_xml_char(ord(c)))
    elif tag == 'a':
        children = [gen_elem(rng, depth - 1, None, invalid) for _ in range(rng.randrange(0, 4))]
    elif tag == 'm':
        seen = set()
        for _ in range(rng.randrange(0, 4)):
            k = ''.join(c for c in gen_key(rng) if is_xml_char(ord(c)))
            if k in seen and rng.random() > invalid * 3:
                continue
            seen.add(k)
            children.append(gen_elem(rng, depth - 1, k, invalid))
        if children and rng.random() < invalid:
            i = rng.randrange(len(children))
            children[i] = (children[i][0], None, children[i][2], children[i][3])      # member without key
    if rng.random() < invalid:
        if tag == 'n':
            text = rng.choice(['', 'x'])
        elif tag == 's':
            children = [('n', None, None, [])]
    return (tag, key, text, children)


TAGNAME = {'n': 'null', 'b': 'boolean', 'd': 'number', 's': 'string', 'a': 'array', 'm': 'map'}
NAMETAG = {v: k for k, v in TAGNAME.items()}


def enc_elem(e) -> str:
    tag, key, text, children = e
    return 'E%s(%s;%s;[%s])' % (tag, '-' if key is None else 'K' + cps(key),
                                '-' if text is None else 'X' + cps(text), ','.join(enc_elem(c) for c in children))


def build_elem(e):
    ET = ep()['ET']
    tag, key, text, children = e
    el = ET.Element('{%s}%s' % (FN_NS, TAGNAME[tag]))
    if key is not None:
        el.set('key', key)
    el.text = text
    for c in children:
        el.append(build_elem(c))
    return el


def read_elem(el) -> tuple:
    """canonical form of an element of json-to-xml's result (independent of how it was built)"""
    m = re.match(r'\{%s\}(\w+)$' % re.escape(FN_NS), el.tag)
    tag = NAMETAG.get(m.group(1), '?') if m else '?'
    extra = sorted(k for k in el.attrib if k != 'key')
    if extra:
        tag = '?attr:' + ','.join(extra)
    return (tag, el.get('key'), el.text, [read_elem(c) for c in el])


# =========================================================================== the seven case families
def esc_lines(cases):
    return ['ESC e=%d s=%s' % (1 if c['escaped'] else 0, cps(c['s'])) if c['kind'] == 'ESC'
            else 'UNESC s=%s' % cps(c['s']) for c in cases]


def fields(ans: str) -> dict[str, str]:
    out = {}
    for kv in ans.split(' '):
        k, _, v = kv.partition('=')
        out[k] = v
    return out


def okcps(s: str) -> str:
    return 'ok:' + cps(s)


def check_esc(run: Run, case, ans) -> list[Disagreement]:
    h = ep()['helpers']
    out = []
    f = fields(ans)
    s = case['s']
    st = run.stats
    if case['kind'] == 'UNESC':
        try:
            impl = okcps(h.unescape_json_string(s))
        except (ValueError, OverflowError):      # chr() rejects the code point
            impl = 'ERR'
        except Exception as e:
            impl = err_text(e)
        st.count('unesc:' + ('err' if impl.startswith('ERR') else 'ok'))
        if impl != f['un']:
            out.append(Disagreement(case, impl, f['un'], what='unescape_json_string', site='helpers.unescape_json_string'))
        return out
    try:
        e_impl = h.escape_json_string(s, case['escaped'])
        esc_impl = cps(e_impl)
    except Exception as e:
        e_impl, esc_impl = None, err_text(e)
    if esc_impl != f['esc']:
        out.append(Disagreement(case, esc_impl, f['esc'], what='escape_json_string', site='helpers.escape_json_string'))
    if e_impl is None:
        return out
    try:
        un_impl = okcps(h.unescape_json_string(e_impl))
    except (ValueError, OverflowError):
        un_impl = 'ERR'
    except Exception as e:
        un_impl = err_text(e)
    st.count('esc:trigger-F17a-shape' if f['trig'] == '1' else 'esc:plain')
    if case['escaped']:
        st.count('esc:escaped=True')
        if un_impl != f['un']:
            out.append(Disagreement(case, un_impl, f['un'], what='unescape(escape(s,True))', site='helpers.unescape_json_string'))
        return out
    # property: unescape(escape(s)) == s
    if un_impl != okcps(s) or un_impl != f['un']:
        out.append(Disagreement(case, un_impl, f['un'], spec=okcps(s), what='unescape(escape(s))',
                                site='helpers.unescape_json_string'))
    if '\x00' not in s:
        # RFC 8259 per-character map (Lean spec), the Lean RFC reader and Python's json as independent readers
        if esc_impl != f['spec']:
            out.append(Disagreement(case, esc_impl, f['esc'], spec=f['spec'], what='escape-vs-RFC8259-map',
                                    site='helpers.escape_json_string'))
        if f['dec'] != okcps(s):
            out.append(Disagreement(case, f['dec'], f['esc'], spec=okcps(s), what='lean-rfc-reader(escape(s))',
                                    site='spec'))
        try:
            back = okcps(json.loads('"' + e_impl + '"'))
        except Exception as e:
            back = 'ERR:' + type(e).__name__
        if back != okcps(s):
            out.append(Disagreement(case, back, f['un'], spec=okcps(s), what='python-json-reads(escape(s))',
                                    site='helpers.escape_json_string'))
    else:
        st.count('esc:with-NUL')
    return out


def impl_serialize(v: Any, as_literal: bool):
    """-> (text | ERR, parse-json canonical | ERR, deep-equal result)"""
    try:
        if as_literal:
            text = xq('serialize(%s, map{"method":"json"})' % xpath_literal(v), _reuse=False)
        else:
            text = xq('serialize($v, map{"method":"json"})', v=to_xdm(v))
    except Exception as e:
        return err_text(e), None, None
    if not isinstance(text, str):
        return '?not-a-string:%r' % (text,), None, None
    try:
        back = enc(from_xdm(xq_item('parse-json($t)', t=text)))
    except Exception as e:
        back = err_text(e)
    try:
        if as_literal:
            lit = xpath_literal(v)
            deq = xq('deep-equal(parse-json(serialize(%s, map{"method":"json"})), %s)' % (lit, lit), _reuse=False)
        else:
            x = to_xdm(v)
            deq = xq('deep-equal(parse-json(serialize($v, map{"method":"json"})), $v)', v=x)
        deq = 'true' if deq is True else 'false' if deq is False else repr(deq)
    except Exception as e:
        deq = err_text(e)
    return text, back, deq


def check_ser(run: Run, case, ans, parse_ans) -> list[Disagreement]:
    out = []
    f = fields(ans)
    v = case['v']
    st = run.stats
    text, back, deq = case['_impl']
    expect = enc(v)
    valid = xml_valid(v)
    if f.get('canon') != expect:
        out.append(Disagreement(case_json(case), 'harness:' + expect, f.get('canon'), what='protocol'))
        return out
    model_text = uncps(f['text'])
    if text != model_text:
        out.append(Disagreement(case_json(case), cps(text) if not text.startswith('ERR') else text, f['text'],
                                what='serialize-json-text', site='serialization.serialize_to_json'))
    if text.startswith(('ERR', '?')):
        out.append(Disagreement(case_json(case), text, f['text'], spec=f['text'], what='serialize-json-raises',
                                site='serialization.serialize_to_json'))
        return out
    if not valid:
        st.count('ser:non-xml-string (tie only)')
        if back != f['pj']:
            out.append(Disagreement(case_json(case), back, f['pj'], what='parse-json(non-xml)', site='parse-json'))
        return out
    # the property, four readers of the text produced by the real code
    if back != expect:
        out.append(Disagreement(case_json(case), back, f['pj'], spec=expect, what='parse-json(serialize(v))',
                                site='serialize_to_json / parse-json'))
    try:
        pj = enc(py_loads(text))
    except Exception as e:
        pj = 'ERR:' + type(e).__name__
    if pj != expect:
        out.append(Disagreement(case_json(case), pj, f['parsed'], spec=expect, what='python-json(serialize(v))',
                                site='serialization.serialize_to_json'))
    lean = fields(parse_ans)['val'] if parse_ans else None
    if lean is not None and lean != expect:
        out.append(Disagreement(case_json(case), lean, f['parsed'], spec=expect, what='lean-rfc-reader(serialize(v))',
                                site='serialization.serialize_to_json'))
    if f['parsed'] != expect or f['pj'] != expect:
        out.append(Disagreement(case_json(case), f['parsed'], f['pj'], what='model-roundtrip (theorem instance)'))
    # fn:deep-equal compares array/map members with Python ==, which is exact between Decimal and float
    # (compare.py, property C15/C07): asked only for the values of the property statement (no xs:decimal)
    if deq != 'true' and not any(isinstance(x, Decimal) for x in all_numbers(v)):
        out.append(Disagreement(case_json(case), 'deep-equal=' + str(deq), 'deep-equal=true', spec='deep-equal=true',
                                what='fn:deep-equal(parse-json(serialize(v)), v)', site='serialize/parse-json/deep-equal'))
    return out


def case_json(case) -> dict:
    d = {k: v for k, v in case.items() if not k.startswith('_')}
    if 'v' in d:
        d['v'] = enc(d['v'])
    if 'elem' in d:
        d['elem'] = enc_elem(d['elem'])
    return d


POLICY_OPT = {'first': 'use-first', 'last': 'use-last', 'reject': 'reject', 'retain': 'retain'}


def impl_parse(t: str, policy: str | None) -> str:
    try:
        if policy is None:
            r = xq_item('parse-json($t)', t=t)
        else:
            r = xq_item('parse-json($t, map{"duplicates":"%s"})' % POLICY_OPT[policy], t=t)
        return enc(from_xdm(r))
    except Exception as e:
        return err_text(e)


def check_parse(run: Run, case, ans) -> list[Disagreement]:
    out = []
    f = fields(ans)
    t = case['t']
    impl = impl_parse(t, case['policy'])
    try:
        pv = py_loads(t)
        pyval = enc(pv)
    except Exception as e:
        pv, pyval = None, 'ERR'
    if f['val'] != pyval:
        # Lean RFC reader vs Python json on the same compact text: validates the spec reader
        out.append(Disagreement(case_json(case), pyval, f['val'], what='lean-rfc-reader vs python-json (spec validation)'))
        return out
    if impl != f['pj']:
        out.append(Disagreement(case_json(case), impl, f['pj'], what='parse-json duplicates/fallback', site='parse-json'))
    spec = f['spec'] if f['spec'] != 'ERR' else 'ERR:FOJS0003'
    if pv is not None and xml_valid(pv):
        if impl != spec:
            out.append(Disagreement(case_json(case), impl, f['pj'], spec=spec, what='parse-json duplicates policy',
                                    site='parse-json'))
    run.stats.count('parse:policy=' + str(case['policy']) + (':dups' if pv is not None and has_dup_keys(pv) else ''))
    return out


# ---- phase 5: insignificant whitespace (RFC 8259 §2) -----------------------------------------
JSON_TOKEN = re.compile(r'[ \t\n\r]*("(?:[^"\\]|\\.)*"|[\[\]{},:]|[^\[\]{},:" \t\n\r]+)', re.S)
WS_STRINGS = ['a  b , c : d ] e } f [ g { h', ' ', '  ', ' ,', ' :', ' ]', ' }', '[ 1 , 2 ]', '{ "a" : 1 }', ' x ', ', ', ': ']
WS_POOL = ['', '', '', ' ', '\n', '\t', '\r', '\r\n', '  ', '\n    ', ' \t\r\n ', '\n\n']


def split_tokens(t: str):
    """(whitespace strings — one before each token and one at the end —, tokens) of a JSON text; harness-side
    tokenizer, independent of the Lean token function and of python json"""
    wss, toks, pos = [], [], 0
    while True:
        m = JSON_TOKEN.match(t, pos)
        if not m:
            break
        wss.append(t[pos:m.start(1)])
        toks.append(m.group(1))
        pos = m.end()
    rest = t[pos:]
    if rest.strip(' \t\n\r'):
        raise ValueError('untokenizable JSON text %r' % (t,))
    return wss + [rest], toks


def impl_json_doc(t: str) -> str:
    """fn:json-doc on a file holding the text (UTF-8, newline translation off)"""
    import tempfile, os
    fd, path = tempfile.mkstemp(suffix='.json', prefix='c17ws')
    try:
        with os.fdopen(fd, 'w', encoding='utf-8', newline='') as fp:
            fp.write(t)
        return enc(from_xdm(xq_item('json-doc($u)', u=path)))
    except Exception as e:
        return err_text(e)
    finally:
        try:
            os.unlink(path)
        except OSError:
            pass


def prepare_serws(run: Run, c) -> None:
    """live serialization (compact or `indent`), padding, whitespace strings for the driver"""
    import random as _random
    v = c['v']
    try:
        if c['mode'] == 'indent':
            text = xq('serialize($v, map{"method":"json","indent":true()})', v=to_xdm(v))
        else:
            text = xq('serialize($v, map{"method":"json"})', v=to_xdm(v))
    except Exception as e:
        c['_text'], c['_ws'] = err_text(e), None
        return
    if not isinstance(text, str):
        c['_text'], c['_ws'] = '?not-a-string:%r' % (text,), None
        return
    try:
        wss, toks = split_tokens(text)
    except ValueError as e:
        c['_text'], c['_ws'] = '?' + str(e), None
        return
    if c['mode'] != 'indent':
        r = _random.Random(c['wseed'])
        wss = [r.choice(WS_POOL) for _ in range(len(toks) + 1)]
        if c['mode'] == 'pad-long':
            wss[r.randrange(len(wss))] = ''.join(r.choice(' \t\n\r') for _ in range(r.randrange(20, 200)))
        text = ''.join(w + t for w, t in zip(wss, toks)) + wss[-1]
    c['_text'], c['_ws'], c['_ntok'] = text, wss, len(toks)


def check_serws(run: Run, case, ans) -> list[Disagreement]:
    out = []
    st = run.stats
    v, text, wss = case['v'], case['_text'], case['_ws']
    expect = enc(v)
    cj = dict(case_json(case), text=text)
    if wss is None:
        return [Disagreement(cj, text, None, spec=expect, what='serialize-json(indent)-raises', site='serialization.serialize_to_json')]
    f = fields(ans)
    if f.get('okws') != '1':
        return [Disagreement(cj, 'harness:ws', f.get('okws'), what='protocol')]
    # tie: the text of the real serializer (padded / indented) is the model's tokens with these whitespace strings
    if f['cat'] != '1' or uncps(f['text']) != text or int(f['n']) != case['_ntok']:
        out.append(Disagreement(cj, cps(text), f['text'], what='serialize-json tokens + whitespace (padWith ws (jsonTokens v))',
                                site='serialization.serialize_to_json'))
    # theorem instance
    if f['parsed'] != expect:
        out.append(Disagreement(cj, f['parsed'], f['parsed'], what='model-ws-roundtrip (theorem instance)'))
    # the property on the real code: parse-json / json-doc / python json read the padded text back to v
    try:
        back = enc(from_xdm(xq_item('parse-json($t)', t=text)))
    except Exception as e:
        back = err_text(e)
    if back != expect:
        out.append(Disagreement(cj, back, f['parsed'], spec=expect, what='parse-json(whitespace-padded serialize(v))',
                                site='parse-json'))
    if case.get('doc'):
        jd = impl_json_doc(text)
        st.count('serws:json-doc')
        if jd != expect:
            out.append(Disagreement(cj, jd, f['parsed'], spec=expect, what='json-doc(file with whitespace-padded serialize(v))',
                                    site='json-doc'))
    try:
        pj = enc(py_loads(text))
    except Exception as e:
        pj = 'ERR:' + type(e).__name__
    if pj != expect:
        out.append(Disagreement(cj, pj, f['parsed'], spec=expect, what='python-json(whitespace-padded serialize(v))',
                                site='serialization.serialize_to_json'))
    st.count('serws:mode=' + case['mode'])
    st.count('serws:tokens=' + ('1' if case['_ntok'] == 1 else '2-9' if case['_ntok'] < 10 else '10-99' if case['_ntok'] < 100 else '100+'))
    for w in set(ch for x in wss for ch in x):
        st.count('serws:ws-char=U+%04X' % ord(w))
    if wss[0]:
        st.count('serws:leading-ws')
    if wss[-1]:
        st.count('serws:trailing-ws')
    return out


def floats_exact(t: str) -> bool:
    """every literal with fraction/exponent is the shortest spelling's value of its own double (no rounding by float())"""
    try:
        pv = json.loads(t, parse_float=Decimal, object_pairs_hook=Obj)
    except Exception:
        return True
    for n in all_numbers(pv):
        if isinstance(n, Decimal):
            try:
                if not n.is_finite() or Decimal(repr(float(n))) != n:
                    return False
            except Exception:
                return False
    return True


def dup_before_syntax_error(t: str) -> bool:
    """True iff Python's JSON scanner closes an object with a repeated key before it meets the ill-formed place of t
    (t is known to be ill-formed): the duplicate is then reachable first by any left-to-right reader"""
    import json as _json

    class _Dup(Exception):
        pass

    def hook(pairs):
        keys = [k for k, _ in pairs]
        if len(set(keys)) != len(keys):
            raise _Dup()
        return dict(pairs)
    try:
        _json.loads(t, object_pairs_hook=hook)
    except _Dup:
        return True
    except Exception:
        return False
    return False


def check_parsews(run: Run, case, ans) -> list[Disagreement]:
    """arbitrary JSON input texts with whitespace (and escape / number spellings, duplicate keys): Lean RFC reader with ws
    = python json; fn:parse-json = model post-processing of the Lean reading = F&O policy"""
    out = []
    f = fields(ans)
    t = case['t']
    if not floats_exact(t):          # JSON's number model rounds (xs:double): the J2X family covers those with `rnd`
        run.stats.count('parsews:skipped (a literal is rounded by float())')
        return out
    impl = impl_parse(t, case['policy'])
    try:
        pv = py_loads(t)
        pyval = enc(pv)
    except Exception as e:
        pv, pyval = None, 'ERR'
    if f['val'] != pyval:
        out.append(Disagreement(case_json(case), pyval, f['val'], what='lean-rfc-ws-reader vs python-json (spec validation)'))
        return out
    model = f['pj'] if f['pj'] != 'ERR' else 'ERR:FOJS0001'
    if pv is None and case['policy'] == 'reject' and impl == 'ERR:FOJS0003' and dup_before_syntax_error(t):
        # the text is ill-formed AND an object completed before the ill-formed place repeats a key: with
        # duplicates=reject both FOJS0001 and FOJS0003 apply, and XPath 3.1 §2.3.4 lets a processor raise either
        # (the JSON scanner reports the duplicate as soon as the object closes).  Not a disagreement.
        run.stats.count('parsews:ill-formed text with an earlier duplicate under reject (FOJS0003 or FOJS0001 permitted)')
        return out
    if impl != model:
        out.append(Disagreement(case_json(case), impl, model, what='parse-json on a text with whitespace', site='parse-json'))
    spec = f['spec'] if f['spec'] != 'ERR' else ('ERR:FOJS0003' if pv is not None else 'ERR:FOJS0001')
    if pv is None or xml_valid(pv):
        if impl != spec:
            out.append(Disagreement(case_json(case), impl, model, spec=spec, what='parse-json (whitespace, duplicates policy)',
                                    site='parse-json'))
    if case.get('doc') and case['policy'] is None:
        jd = impl_json_doc(t)
        if jd != impl:
            out.append(Disagreement(case_json(case), jd, model, spec=impl, what='json-doc vs parse-json on the same text', site='json-doc'))
    run.stats.count('parsews:' + ('ERR' if pv is None else 'ok') + (':ws' if f['val'] != f['cmp'] else ':compact'))
    return out


# ---- CR mark on the whole serialized element (Model/XmlCrMark.lean) ---------------------------
def crm_build(case):
    """(ElementTree element, pieces) — pieces as ElementTree writes a root element: `<tag xmlns:ns0="URI" k="V">TEXT<b />TAIL<!--C--></tag>`"""
    ET = ep()['ET']
    uri = case.get('uri')
    el = ET.Element('{%s}a' % uri if uri else 'a')
    tagname = 'ns0:a' if uri else 'a'
    ps = [('M', '<' + tagname)]
    if uri:
        ps += [('M', ' xmlns:ns0="'), ('U', uri), ('M', '"')]
    for k, v in case['attrs']:
        el.set(k, v)
        ps += [('M', ' %s="' % k), ('A', v), ('M', '"')]
    text, tail, comment = case.get('text'), case.get('tail'), case.get('comment')
    kids = tail is not None or comment is not None
    if not text and not kids:
        ps.append(('M', ' />'))
        return el, ps
    ps.append(('M', '>'))
    if text:
        el.text = text
        ps.append(('C', text))
    if tail is not None:
        b = ET.SubElement(el, 'b')
        b.tail = tail
        ps += [('M', '<b />'), ('C', tail)]
    if comment is not None:
        el.append(ET.Comment(comment))
        ps += [('M', '<!--'), ('R', comment), ('M', '-->')]
    ps.append(('M', '</%s>' % tagname))
    return el, ps


def gen_crm(rng) -> dict:
    pool = XML_TEXT + XML_PUA + XML_PUA[:6]
    attrs = []
    for k in rng.sample(['k', 'm', 'n1'], rng.randrange(0, 3)):
        attrs.append((k, rng.choice(pool)))
    r = rng.random()
    uri = None if r < 0.6 else 'urn:one' if r < 0.93 else rng.choice(['u\ue000', 'urn:\ue001x', '\ue000\ue001'])
    text = rng.choice(pool + ['\r', 'x\ry', '\r\n'])
    if rng.random() < 0.6 and '\r' not in text:
        text += rng.choice(['\r', '\r\n', 'a\rb'])
    return {'kind': 'CRM', 'uri': uri, 'attrs': attrs, 'text': text,
            'tail': rng.choice([None, None, 't', 'u\rv', '\ue000', '\ue001\r']),
            'comment': rng.choice([None, None, 'c', '\ue000', '\ue002\ue001'])}


def crm_line(case) -> str:
    _, ps = crm_build(case)
    return 'CRMARK a=2 p=' + ','.join(k + cps(v) for k, v in ps)


def check_crm(run: Run, case, ans) -> list[Disagreement]:
    f = fields(ans)
    el, ps = crm_build(case)
    cj = {k: v for k, v in case.items() if not k.startswith('_')}
    try:
        out = xq('serialize(.)', root=el)
        impl = 'ok:' + cps(out) if isinstance(out, str) else '?%r' % (out,)
    except Exception as e:
        impl = err_text(e)
    spec = 'ok:' + f['want']
    tags: list[str] = []          # F17x is fixed (fix-c17-5): the model scans every piece, nothing is tagged
    st = run.stats
    st.count('crm:%s%s%s' % ('CR' if f['cr'] == '1' else 'no-CR', ':private-use in namespace URI' if case.get('uri') and any(0xE000 <= ord(ch) <= 0xF8FF for ch in case['uri']) else '', ':mark-collides' if f['coll'] == '1' else ''))
    if f['cr'] == '1':
        st.count('crm:mark=U+%04X' % int(f['mark']) if f['mark'] != 'none' else 'crm:mark=none')
    res = []
    if impl != f['out'] or impl != spec:
        res.append(Disagreement(cj, impl, f['out'], spec=spec, tags=tags, what='serialize(element): CR mark on the whole output',
                                site='serialization.serialize_to_xml'))
    elif impl.startswith('ok:'):
        # the round trip on the same element
        try:
            back = xq('parse-xml(serialize(.))', root=el)
            got = json.dumps(canon_xml((back[0] if isinstance(back, list) else back).getroot()), ensure_ascii=True)
        except Exception as e:
            got = err_text(e)
        want = canon_xml(el)
        want[4] = ''
        want = json.dumps(want, ensure_ascii=True)
        if got != want:
            res.append(Disagreement(cj, got, None, spec=want, tags=tags, what='parse-xml(serialize(element)) (CRM)', site='fn:serialize / fn:parse-xml'))
    return res


def impl_j2x(t: str, policy: str):
    opt = '' if policy == 'retain' else ', map{"duplicates":"%s"}' % POLICY_OPT[policy]
    try:
        doc = xq('json-to-xml($t%s)' % opt, t=t)
        root = doc[0].getroot() if isinstance(doc, list) else doc.getroot()
        tree = enc_elem(read_elem(root))
    except Exception as e:
        return err_text(e), None
    try:
        out = xq('xml-to-json(json-to-xml($t%s))' % opt, t=t)
        out = out if isinstance(out, str) else '?%r' % (out,)
    except Exception as e:
        out = err_text(e)
    return tree, out


def check_j2x(run: Run, case, ans) -> list[Disagreement]:
    res = []
    f = fields(ans)
    t, policy = case['t'], case['policy']
    v2 = case['_v2']
    st = run.stats
    tree, out = impl_j2x(t, policy)
    in_model = True          # the roundings float() performed are passed to the model (rnd_table)
    if any(not int_in_model(n) for n in all_numbers(v2) if isinstance(n, int) and not isinstance(n, bool)):
        st.count('j2x:integer-rounded-by-float()')
    dups = has_dup_keys(replace_non_xml(v2))
    # expected result by the standard (F&O 17.4/17.5): same JSON value up to number spelling, non-XML
    # characters replaced by U+FFFD, duplicates: retain -> xml-to-json must reject (FOJS0006),
    # use-first -> first wins, reject -> FOJS0003
    if has_dup_keys(v2) and policy == 'reject':
        spec = 'ERR:FOJS0003'
    elif policy == 'first':
        ex = replace_non_xml(dedupe_first(v2))
        spec = 'ERR:FOJS0006' if has_dup_keys(ex) else sem(ex)
    elif dups:
        spec = 'ERR:FOJS0006'
    else:
        spec = sem(replace_non_xml(v2))
    if tree.startswith('ERR'):
        impl_sem = tree
    elif out.startswith(('ERR', '?')):
        impl_sem = out
    else:
        try:
            impl_sem = sem(py_loads(out))
        except Exception as e:
            impl_sem = 'ERR:unreadable:' + type(e).__name__
    st.count('j2x:' + ('error-expected' if spec.startswith('ERR') else 'value') + (':outside-model' if not in_model else ''))
    model_sem = None
    if in_model:
        if f['xml'].startswith('ERR'):
            model_sem = f['xml']
        elif f['json'].startswith('ERR'):
            model_sem = f['json']
        else:
            try:
                model_sem = sem(py_loads(uncps(f['json'][3:])))
            except Exception:
                model_sem = 'ERR:unreadable'
    if impl_sem != spec:
        res.append(Disagreement(case_json(case), impl_sem, model_sem, spec=spec, what='xml-to-json(json-to-xml(t))',
                                site='json-to-xml / xml-to-json'))
    if in_model:
        if tree != f['xml']:
            res.append(Disagreement(case_json(case), tree, f['xml'], what='json-to-xml tree', site='json-to-xml'))
        elif not tree.startswith('ERR'):
            m_out = uncps(f['json'][3:]) if f['json'].startswith('ok:') else f['json']
            if out != m_out:
                res.append(Disagreement(case_json(case), out if out.startswith('ERR') else cps(out),
                                        f['json'], what='xml-to-json text', site='xml-to-json'))
    return res


def check_x2j(run: Run, case, ans) -> list[Disagreement]:
    f = fields(ans)
    try:
        el = build_elem(case['elem'])
        out = xq('xml-to-json(.)', root=el)
        impl = okcps(out) if isinstance(out, str) else '?%r' % (out,)
    except Exception as e:
        impl = err_text(e)
    run.stats.count('x2j:' + (impl[:12] if impl.startswith('ERR') else 'ok'))
    if impl != f['json']:
        return [Disagreement(case_json(case), impl, f['json'], what='xml-to-json on element tree', site='xml-to-json')]
    if impl.startswith('ok:'):
        try:
            py_loads(uncps(impl[3:]))
        except Exception as e:
            return [Disagreement(case_json(case), 'unreadable:' + type(e).__name__, f['json'], spec='valid JSON',
                                 what='xml-to-json output is not JSON', site='xml-to-json')]
    return []


# XML round trip (observed only) ------------------------------------------------------------------
XML_NAMES = ['a', 'b', 'c', 'item', 'x-y', 'n1', '_u']
XML_NS = [None, None, 'urn:one', 'urn:two', 'http://example.com/ns#']
XML_TEXT = ['', 't', ' text ', 'a<b', 'x&y', ']]>', '"q\'', 'é\U0001f600', 'line1\nline2', '\ttab', '  ', 'A>B',
            "it's", 't&u', '>>', 'e', 'a\rb', 'x\r\ny', '&amp;', '&#13;']


# private-use code points: serialize_to_xml stands U+000D in by the first private-use code point (U+E000…) that is unused
# in the subtree; every string the serializer emits (text, tail, attribute values, comment and PI data) must be able to
# hold them, together with CR in text/tail.  Runs `E000 E001 …` make "the first unused one" differ between the places.
XML_PUA = [chr(0xE000 + i) for i in range(16)] + ['\uf8ff', '\uf8fe', '\U000f0000', '\U0010fffd'] + \
          [''.join(chr(0xE000 + i) for i in range(k)) for k in (2, 3, 5)] + ['x\ue000y', '\ue000\r', '\r\ue001', '&#13;\ue000']


def gen_xml(rng, lib: str, depth: int, big: bool = False):
    """builds a tree with the given library; returns the root.  big: more than the serializer's 8 KiB
    output buffer, with long texts, so that chunk boundaries fall inside text and tags"""
    c = ep()
    if lib == 'lxml':
        import lxml.etree as E
    else:
        E = c['ET']

    def qname():
        ns, n = rng.choice(XML_NS), rng.choice(XML_NAMES)
        return '{%s}%s' % (ns, n) if ns else n

    pua = rng.random() < 0.3          # a tree whose strings hold private-use code points
    p_pua = rng.choice([0.25, 0.5, 0.8])

    def txt(kind='text'):
        """text / tail / attribute value / comment / PI data"""
        if pua and rng.random() < p_pua:
            t = rng.choice(XML_PUA[:19] if rng.random() < 0.7 else XML_PUA)
            if kind in ('comment', 'pi'):
                t = t.replace('\r', '').replace('&#13;', '') or '\ue000'
            return t
        if kind == 'comment':
            return rng.choice([' c ', 'x', 'a-b', ''])
        if kind == 'pi':
            return rng.choice(['d', 'a="b"', 'x y'])
        return rng.choice(XML_TEXT)

    def build(d, top=False):
        if top and lib == 'lxml':
            # explicit prefixes on the root: lxml's *generated* ns0/ns1 prefixes collide on trees built
            # programmatically (tostring() itself then emits a duplicate attribute) -- not the repository's code
            el = E.Element(qname(), nsmap={'p%d' % i: u for i, u in enumerate(x for x in XML_NS if x)})
        else:
            el = E.Element(qname())
        for _ in range(rng.randrange(0, 3)):
            el.set(qname(), txt('attr'))
        if rng.random() < 0.6:
            el.text = txt()
        for _ in range(rng.randrange(0, 4) if d > 0 else 0):
            r = rng.random()
            if r < 0.12:
                ch = E.Comment(txt('comment'))
            elif r < 0.22:
                ch = E.ProcessingInstruction(rng.choice(['pi', 'xml-stylesheet', 'p1']), txt('pi'))
            else:
                ch = build(d - 1)
            if rng.random() < 0.5:
                ch.tail = txt()
            el.append(ch)
        return el
    root = build(depth, True)
    if pua and rng.random() < 0.85:
        # correlate: a carriage return in some text or tail of the same tree, and a private-use code point in an attribute
        els = [e for e in root.iter() if isinstance(e.tag, str)]
        e = rng.choice(els)
        if e is root or rng.random() < 0.5:
            e.text = (e.text or '') + rng.choice(['\r', 'a\rb', '\r\n', '\ue000\r'])
        else:
            e.tail = (e.tail or '') + rng.choice(['\r', 't\ru', '\r\n'])
        if rng.random() < 0.7:
            rng.choice(els).set(rng.choice(['m', 'n1', 'k']), rng.choice(XML_PUA[:4] + XML_PUA[20:23]))
    if big:
        for i in range(rng.randrange(3, 9)):
            ch = E.SubElement(root, qname())
            ch.text = ''.join(rng.choice(["it's ", 'long text ', 'x&y ', '%d ' % i, 'é ']) for _ in range(rng.randrange(300, 900)))
            ch.tail = rng.choice(XML_TEXT)
            ch.set('n', str(i))
    return root


def canon_xml(el) -> Any:
    """independent structural canonical form (expanded names, sorted attributes, text, tail, all child kinds)"""
    tag = el.tag
    if callable(tag):
        kind = 'comment' if 'omment' in getattr(tag, '__name__', str(tag)) else 'pi'
        if kind == 'pi':
            return [kind, getattr(el, 'target', None) or (el.text or '').split(' ', 1)[0],
                    (el.text or '') if hasattr(el, 'target') else (el.text or '').split(' ', 1)[-1], el.tail or '']
        return [kind, el.text or '', el.tail or '']
    return ['elem', tag, sorted(el.attrib.items()), el.text or '', el.tail or '', [canon_xml(c) for c in el]]


def subtree_has_cr(el, include_own_tail=False) -> bool:
    """F17n trigger: a carriage return in character data (text, tail of a descendant, comment, PI) of the subtree"""
    if el.text and '\r' in el.text:
        return True
    for ch in el:
        if (ch.tail and '\r' in ch.tail) or subtree_has_cr(ch):
            return True
    return bool(include_own_tail and el.tail and '\r' in el.tail)


def canon_doc(tree) -> Any:
    """document node: the children of the document in order (comments / PIs beside the root element: lxml only)"""
    root = tree.getroot()
    before, after = [], []
    if hasattr(root, 'getprevious'):
        x = root.getprevious()
        while x is not None:
            before.insert(0, canon_xml(x)[:-1])
            x = x.getprevious()
        x = root.getnext()
        while x is not None:
            after.append(canon_xml(x)[:-1])
            x = x.getnext()
    top = canon_xml(root)
    top[4] = ''
    return ['document', before, top, after]


XML_VARIANTS = {
    'root': 'parse-xml(serialize(.))',
    'inner': 'parse-xml(serialize(.))',
    'decl': 'parse-xml(serialize(., map{"omit-xml-declaration": false()}))',
    'doc': 'parse-xml(serialize(/))',
}


def check_xml(run: Run, case) -> list[Disagreement]:
    root = case['_root']
    variant = case.get('variant', 'root')
    st = run.stats
    elem = case.get('_elem') if variant == 'inner' else None
    tree = case.get('_tree') if variant == 'doc' else None
    node = elem if elem is not None else root
    if variant == 'doc':
        want = canon_doc(tree)
    else:
        want = canon_xml(node)
        want[4] = ''
    tags: list[str] = []
    expr = XML_VARIANTS[variant]
    try:
        res = xq(expr, root=tree if tree is not None else root, _item=elem)
        doc = res[0] if isinstance(res, list) else res
        inner = getattr(doc, 'value', None)
        if inner is not None and hasattr(inner, 'getroot'):
            doc = inner                      # document node wrapper -> the ElementTree object
        if variant == 'doc':
            got = canon_doc(doc)
        else:
            got = canon_xml(doc.getroot())
            got[4] = ''
        impl = json.dumps(got, ensure_ascii=True)
        deq = None
        if variant in ('root', 'inner'):
            deq = xq('deep-equal(parse-xml(serialize(.))/*, .)', root=root, _item=elem)
        elif variant == 'doc':
            deq = xq('deep-equal(parse-xml(serialize(/)), /)', root=tree)
    except Exception as e:
        impl, deq = err_text(e), None
    spec = json.dumps(want, ensure_ascii=True)
    st.count('xml:%s:%s%s' % (case['lib'], variant, ':big' if case.get('big') else ''))
    if subtree_has_cr(node):
        st.count('xml:CR-in-character-data')
    if hasattr(node, 'iter'):
        def _pu(t):
            return bool(t) and any(0xE000 <= ord(ch) <= 0xF8FF or ord(ch) >= 0xF0000 for ch in t)
        pu_attr = any(_pu(v) for e in node.iter() if isinstance(e.tag, str) for v in e.attrib.values())
        pu_other = any(_pu(e.text) or (e is not node and _pu(e.tail)) for e in node.iter())
        if pu_attr or pu_other:
            st.count('xml:private-use%s%s%s' % (':attribute' if pu_attr else '', ':text/tail/comment/pi' if pu_other else '',
                                                 ' + CR in text/tail' if subtree_has_cr(node) else ''))
    out = []
    cj = {'kind': 'XML', 'lib': case['lib'], 'variant': variant, 'expr': expr, 'xml': spec if len(spec) < 3000 else spec[:3000] + '...'}
    if elem is not None:
        cj['tail_of_the_serialized_element'] = elem.tail
    if impl != spec:
        out.append(Disagreement(cj, impl, None, spec=spec, what='parse-xml(serialize(node)) structure',
                                site='fn:serialize / fn:parse-xml', tags=tags))
    elif deq is not None and deq is not True:
        out.append(Disagreement(cj, 'deep-equal=%r' % (deq,), None, spec='deep-equal=True',
                                what='fn:deep-equal(parse-xml(serialize(node)), node)', site='fn:deep-equal', tags=tags))
    return out


def gen_xml_string(rng) -> str:
    pool = ['&', '<', '>', '"', "'", '\r', '\n', '\t', '\r\n', ']]>', '&amp;', '&#13;', ' ', 'a', 'b', 'é', '\U0001f600', '\x7f', '\x85', '\u2028']
    return ''.join(rng.choice(pool) for _ in range(rng.choice([0, 1, 2, 3, 5, 8])))


def check_xesc(run: Run, case, ans) -> list[Disagreement]:
    """the escaping the serializers apply (library code, modelled) and the whole repo path on one element"""
    c = ep()
    ET = c['ET']
    import lxml.etree as LE
    f = fields(ans)
    s = case['s']
    out = []
    st = run.stats
    cj = {'kind': 'XESC', 's': cps(s)}
    has_cr = '\r' in s
    st.count('xesc:' + ('CR' if has_cr else 'no-CR'))
    # 1. library escaping functions vs model
    try:
        impl_t, impl_a = ET._escape_cdata(s), ET._escape_attrib(s)
    except Exception as e:
        impl_t = impl_a = err_text(e)
    if cps(impl_t) != f['ettext']:
        out.append(Disagreement(cj, cps(impl_t), f['ettext'], what='ElementTree._escape_cdata', site='xml.etree.ElementTree'))
    if cps(impl_a) != f['etattr']:
        out.append(Disagreement(cj, cps(impl_a), f['etattr'], what='ElementTree._escape_attrib', site='xml.etree.ElementTree'))
    el = LE.Element('a')
    el.text = s
    lx = LE.tostring(el, encoding='unicode')
    lx_t = lx[3:-4] if s else ''
    if cps(lx_t) != f['lxtext']:
        out.append(Disagreement(cj, cps(lx_t), f['lxtext'], what='lxml text escaping', site='lxml.etree.tostring'))
    # 2. the spec reader vs the real parser (expat) on the same serialized text
    try:
        pe = ET.fromstring('<a k="%s">%s</a>' % (impl_a, impl_t))
        real_t, real_a = okcps(pe.text or ''), okcps(pe.get('k'))
    except Exception as e:
        real_t = real_a = 'ERR'
    if real_t != f['rt'] or real_a != f['ra']:
        out.append(Disagreement(cj, real_t + ' ' + real_a, f['rt'] + ' ' + f['ra'],
                                what='spec XML reader vs expat (spec validation)'))
    # 3. the property on the repository's path, both backends
    for lib, E in (('etree', ET), ('lxml', LE)):
        a = E.Element('a')
        a.text = s
        a.set('k', s)
        try:
            res = xq('parse-xml(serialize(.))', root=a)
            doc = res[0] if isinstance(res, list) else res
            inner = getattr(doc, 'value', None)
            if inner is not None and hasattr(inner, 'getroot'):
                doc = inner
            r = doc.getroot()
            impl = okcps(r.text or '') + ' ' + okcps(r.get('k'))
        except Exception as e:
            impl = err_text(e)
        spec = okcps(s) + ' ' + okcps(s)
        model = (f['rp'] if lib == 'etree' else f['rl']) + ' ' + f['ra']
        if impl != spec or impl != model:
            tags: list[str] = []
            out.append(Disagreement(dict(cj, lib=lib), impl, model, spec=spec, tags=tags,
                                    what='parse-xml(serialize(<a k=s>s</a>)) text and attribute', site='fn:serialize / fn:parse-xml'))
    return out


def check_jxe(run: Run, case, ans) -> list[Disagreement]:
    """one string through json-to-xml(..., escape:true) and xml-to-json: text, `escaped` attribute, output"""
    f = fields(ans)
    s = case['s']
    out = []
    cj = {'kind': 'JXE', 's': cps(s)}
    t = json.dumps(s)
    run.stats.count('jxe:' + ('backslash' if '\\' in s else 'slash' if '/' in s else 'other'))
    try:
        doc = xq('json-to-xml($t, map{"escape":true()})', t=t)
        root = doc[0].getroot() if isinstance(doc, list) else doc.getroot()
        text = root.text or ''
        esc = '1' if root.get('escaped') in ('true', '1') else '0'
        tree = cps(text) + ' esc=' + esc
    except Exception as e:
        tree = err_text(e)
    if tree != f['j2x'] + ' esc=' + f['esc']:
        out.append(Disagreement(cj, tree, f['j2x'] + ' esc=' + f['esc'], what='json-to-xml escape:true string', site='json-to-xml escape_string'))
        return out
    try:
        o = xq('xml-to-json(json-to-xml($t, map{"escape":true()}))', t=t)
        impl = okcps(o) if isinstance(o, str) else '?%r' % (o,)
    except Exception as e:
        impl = err_text(e)
    try:
        back = okcps(json.loads(o)) if impl.startswith('ok:') else impl
    except Exception as e:
        back = 'ERR:unreadable:' + type(e).__name__
    spec = okcps(s)
    if back != spec:
        out.append(Disagreement(cj, back, f['dec'], spec=spec, what='xml-to-json(json-to-xml(t, escape:true)) string value',
                                site='escape_json_string(escaped=True) / check_escapes'))
    if impl != f['x2j']:
        out.append(Disagreement(cj, impl, f['x2j'], what='xml-to-json escaped string text', site='xml-to-json'))
    return out


def read_elem_e(el) -> tuple:
    """canonical form of an element of json-to-xml(…, escape:true): flags `escaped-key` / `escaped` included"""
    m = re.match(r'\{%s\}(\w+)$' % re.escape(FN_NS), el.tag)
    tag = NAMETAG.get(m.group(1), '?') if m else '?'
    extra = sorted(k for k in el.attrib if k not in ('key', 'escaped', 'escaped-key'))
    if extra:
        tag = '?attr:' + ','.join(extra)

    def flag(name):
        x = el.get(name)
        return '0' if x is None else '1' if x == 'true' else '?' + x
    return (tag, el.get('key'), flag('escaped-key') + flag('escaped'), el.text, [read_elem_e(c) for c in el])


def enc_elem_e(e) -> str:
    tag, key, flags, text, children = e
    return 'E%s(%s;%s;%s;[%s])' % (tag, '-' if key is None else 'K' + cps(key), flags,
                                   '-' if text is None else 'X' + cps(text), ','.join(enc_elem_e(c) for c in children))


def impl_j2xe(t: str, policy: str):
    opt = '' if policy == 'retain' else ',"duplicates":"%s"' % POLICY_OPT[policy]
    try:
        doc = xq('json-to-xml($t, map{"escape":true()%s})' % opt, t=t)
        root = doc[0].getroot() if isinstance(doc, list) else doc.getroot()
        tree = enc_elem_e(read_elem_e(root))
    except Exception as e:
        return err_text(e), None
    try:
        out = xq('xml-to-json(json-to-xml($t, map{"escape":true()%s}))' % opt, t=t)
        out = out if isinstance(out, str) else '?%r' % (out,)
    except Exception as e:
        out = err_text(e)
    return tree, out


def check_j2xe(run: Run, case, ans) -> list[Disagreement]:
    """whole values with escape:true (strings get `escaped`, keys `escaped-key`): model = impl (tree with flags, text) and
    value preserved exactly (no U+FFFD replacement) = spec"""
    res = []
    t, policy = case['t'], case.get('policy', 'retain')
    v2 = case['_v2']
    st = run.stats
    f = fields(ans)
    if has_dup_keys(v2) and policy == 'reject':
        spec = 'ERR:FOJS0003'
    elif policy == 'first':
        ex = dedupe_first(v2)
        spec = 'ERR:FOJS0006' if has_dup_keys(ex) else sem(ex)
    else:
        spec = 'ERR:FOJS0006' if has_dup_keys(v2) else sem(v2)
    tree, out = impl_j2xe(t, policy)
    if tree.startswith('ERR'):
        impl_sem = tree
    elif out.startswith(('ERR', '?')):
        impl_sem = out
    else:
        try:
            impl_sem = sem(py_loads(out))
        except Exception as e:
            impl_sem = 'ERR:unreadable:' + type(e).__name__
    if f['xml'].startswith('ERR'):
        model_sem = f['xml']
    elif f['json'].startswith('ERR'):
        model_sem = f['json']
    else:
        try:
            model_sem = sem(py_loads(uncps(f['json'][3:])))
        except Exception:
            model_sem = 'ERR:unreadable'
    st.count('j2xe:' + ('error-expected' if spec.startswith('ERR') else 'value') + ':' + policy)
    if not tree.startswith('ERR'):
        fl = re.findall(r';([01?][01?]);', tree)
        st.count('j2xe:flags ' + ('escaped-key+escaped' if any(x[0] == '1' for x in fl) and any(x[1] == '1' for x in fl)
                                  else 'escaped-key' if any(x[0] == '1' for x in fl) else 'escaped' if any(x[1] == '1' for x in fl) else 'none'))
    if impl_sem != spec:
        res.append(Disagreement(case_json(case), impl_sem, model_sem, spec=spec, what='xml-to-json(json-to-xml(t, escape:true))',
                                site='json-to-xml / xml-to-json, escape option'))
    if tree != f['xml']:
        res.append(Disagreement(case_json(case), tree, f['xml'], what='json-to-xml(escape:true) tree with flags', site='json-to-xml'))
    elif not tree.startswith('ERR'):
        m_out = uncps(f['json'][3:]) if f['json'].startswith('ok:') else f['json']
        if out != m_out:
            res.append(Disagreement(case_json(case), out if out.startswith('ERR') else cps(out), f['json'],
                                    what='xml-to-json text (flags read)', site='xml-to-json'))
    return res


# error paths and option variants of the anchored functions (line tracing, docs/C17.md): expected results by
# F&O 3.1 17.4/17.5, Serialization 3.1 section 9 -- no model, the expectation is the specification
def fn_elem(tag, text=None, children=(), **attrib):
    ET = ep()['ET']
    el = ET.Element('{%s}%s' % (FN_NS, tag), attrib)
    el.text = text
    for c in children:
        el.append(c)
    return el


def neg_cases(rng) -> list[dict]:
    c = ep()
    P, M, A = c['parser'], c['XPathMap'], c['XPathArray']
    out = []

    def add(name, expr, expected, root=None, tags=(), **variables):
        out.append({'kind': 'NEG', 'name': name, 'expr': expr, 'expected': expected, '_root': root, '_vars': variables, '_tags': list(tags)})
    ser = 'serialize($v, map{"method":"json"})'
    add('nan', ser, 'ERR:SERE0020', v=float('nan'))
    add('inf-in-array', ser, 'ERR:SERE0020', v=A(P, [1, float('-inf')]))
    add('sequence-of-two', ser, 'ERR:SERE0023', v=[1, 2])
    add('sibling-maps-same-keys', ser, 's:[{"a":1},{"a":2}]', v=A(P, [M(P, [('a', 1)]), M(P, [('a', 2)])]))
    add('nested-map-same-key', ser, 's:{"a":{"a":1}}', v=M(P, [('a', M(P, [('a', 1)]))]))
    add('parse-json-invalid', 'parse-json($t)', 'ERR:FOJS0001', t='[1,')
    add('parse-json-empty', 'parse-json($t)', 'ERR:FOJS0001', t='')
    add('parse-json-bad-policy', 'parse-json($t, map{"duplicates":"retain"})', 'ERR:FOJS0005', t='1')
    add('parse-json-liberal', 'parse-json($t, map{"liberal":true()})', 1, t='1')
    add('parse-json-empty-seq', 'parse-json(())', [])
    add('json-to-xml-invalid', 'xml-to-json(json-to-xml($t))', 'ERR:FOJS0001', t='{"a":}')
    add('json-to-xml-bom', 'xml-to-json(json-to-xml($t))', 's:[1,"a"]', t='\ufeff[1,"a"]')
    add('json-to-xml-bad-option', 'json-to-xml($t, map{"nonsense":1})', 'ERR:FOJS0005', t='1')
    add('json-to-xml-validate-retain', 'json-to-xml($t, map{"validate":true(),"duplicates":"retain"})', 'ERR:FOJS0005', t='1')
    add('json-to-xml-validate', 'xml-to-json(json-to-xml($t, map{"validate":true()}))', 's:{"a":[1,null]}', t='{"a":[1,null]}')
    add('json-to-xml-validate-dups', 'json-to-xml($t, map{"validate":true()})', 'ERR:FOJS0003', t='{"a":1,"a":2}')
    x2j = 'xml-to-json(.)'
    add('x2j-foreign-attribute', x2j, 'ERR:FOJS0006', root=fn_elem('string', 'x', other='1'))
    add('x2j-namespaced-attribute-ignored', x2j, 's:"x"', root=fn_elem('string', 'x', **{'{urn:x}a': '1'}))
    add('x2j-bad-escaped-value', x2j, 'ERR:FOJS0006', root=fn_elem('string', 'x', escaped='maybe'))
    add('x2j-escaped-true', x2j, 's:"a\\nb\\"c\\/"', root=fn_elem('string', 'a\\nb"c/', escaped='true'))
    add('x2j-escaped-1-kept', x2j, 's:"\\u00e9\\\\x"', root=fn_elem('string', '\\u00e9\\\\x', escaped='1'))
    add('x2j-escaped-invalid-sequence', x2j, 'ERR:FOJS0007', root=fn_elem('string', 'a\\x', escaped='true'))
    add('x2j-escaped-short-unicode', x2j, 'ERR:FOJS0007', root=fn_elem('string', '\\u12', escaped='true'))
    add('x2j-escaped-trailing-backslash', x2j, 'ERR:FOJS0007', root=fn_elem('string', 'a\\', escaped='true'))
    add('x2j-escaped-key', x2j, 's:{"a\\nb":null}', root=fn_elem('map', None, [fn_elem('null', None, key='a\\nb', **{'escaped-key': 'true'})]))
    add('x2j-bad-escaped-key-value', x2j, 'ERR:FOJS0006', root=fn_elem('map', None, [fn_elem('null', None, key='a', **{'escaped-key': 'x'})]))
    add('x2j-array-mixed-content', x2j, 'ERR:FOJS0006', root=fn_elem('array', 'text', [fn_elem('null')]))
    add('x2j-array-whitespace-ok', x2j, 's:[null]', root=fn_elem('array', '\n ', [fn_elem('null')]))
    add('x2j-unknown-element', x2j, 'ERR:FOJS0006', root=fn_elem('thing'))
    add('x2j-number-inf', x2j, 'ERR:FOJS0006', root=fn_elem('number', 'INF'))
    add('x2j-number-nan', x2j, 'ERR:FOJS0006', root=fn_elem('number', 'NaN'))
    add('x2j-number-xsd-forms', x2j, 's:[1,0.5,-2]', root=fn_elem('array', None, [fn_elem('number', '1.'), fn_elem('number', '.5'), fn_elem('number', ' -2 ')]))
    add('x2j-indent-bad-type', 'xml-to-json(., map{"indent":"x"})', 'ERR:XPTY0004', root=fn_elem('null'))
    add('x2j-indent-true', 'json-to-xml(xml-to-json(., map{"indent":true()})) => xml-to-json()', 's:[1,{"a":null}]',
        root=fn_elem('array', None, [fn_elem('number', '1'), fn_elem('map', None, [fn_elem('null', None, key='a')])]))
    add('x2j-other-option-ignored', 'xml-to-json(., map{"other":1})', 's:null', root=fn_elem('null'))
    add('x2j-empty', 'xml-to-json(())', [])
    add('parse-xml-not-wellformed', 'parse-xml($t)', 'ERR:FODC0006', t='<a>')
    add('parse-xml-empty-seq', 'parse-xml(())', [])
    add('parse-xml-fragment-decl', 'count(parse-xml-fragment($t)/*)', 2, t='<?xml version="1.0" encoding="utf-8"?><a/><b/>')
    add('parse-xml-fragment-decl-no-encoding', 'parse-xml-fragment($t)', 'ERR:FODC0006', t='<?xml version="1.0"?><a/>')
    add('parse-xml-fragment-doctype', 'parse-xml-fragment($t)', 'ERR:FODC0006', t='<!DOCTYPE a><a/>')
    add('parse-xml-fragment-bad', 'parse-xml-fragment($t)', 'ERR:FODC0006', t='<a><b></a>')
    add('serialize-attribute-node', 'serialize(@x)', 'ERR:SENR0001', root=ep()['ET'].XML('<a x="1"/>'))
    add('adaptive-nodes', 'serialize((., .), map{"method":"adaptive"})', 's:<a x="1" />\n<a x="1" />', root=ep()['ET'].XML('<a x="1"/>'))
    add('adaptive-atomic-F17u', 'serialize((1, 2), map{"method":"adaptive"})', 's:1\n2', tags=['F17u'])
    add('text-method-skips-comments', 'serialize(., map{"method":"text"})', 's:xyzt',
        root=ep()['ET'].XML('<a>x<!--c-->y<b>z</b>t</a>', ep()['ET'].XMLParser(target=ep()['ET'].TreeBuilder(insert_comments=True))))
    # random truncations: invalid JSON must be FOJS0001 in both readers
    for _ in range(25):
        v = gen_value(rng, 2, ['null', 'bool', 'int', 'float', 'str'])
        t = write_json(rng, v, loose=False)
        if len(t) < 2:
            continue
        cut = t[:rng.randrange(1, len(t))]
        try:
            json.loads(cut)
            continue
        except ValueError:
            pass
        add('truncated:parse-json', 'parse-json($t)', 'ERR:FOJS0001', t=cut)
        add('truncated:json-to-xml', 'json-to-xml($t)', 'ERR:FOJS0001', t=cut)
    return out


def check_neg(run: Run, case) -> list[Disagreement]:
    o = outcome(lambda: xq(case['expr'], root=case['_root'], **case['_vars']))
    if o[0]:
        r = o[1]
        impl = ('s:' + r) if isinstance(r, str) else r
        if isinstance(r, list):
            impl = [canon_result(x) for x in r]
            if len(impl) == 1:
                impl = impl[0]
    else:
        impl = err_text(o[1])
    run.stats.count('neg:' + case['name'].split(':')[0])
    exp = case['expected']
    if impl != exp:
        return [Disagreement({'kind': 'NEG', 'name': case['name'], 'expr': case['expr'],
                              'input': {k: canon_result(v) for k, v in case['_vars'].items()}},
                             json.dumps(impl, default=str), None, spec=json.dumps(exp, default=str), tags=case.get('_tags', []),
                             what='error path / option variant: ' + case['name'], site=case['expr'])]
    return []


# serialization parameters -------------------------------------------------------------------------------
SER_PARAMS = [
    # (map entries, content-neutral for method xml?)
    ('', True), ('"method":"xml"', True), ('"method":"html"', False), ('"method":"xhtml"', False), ('"method":"text"', False),
    ('"method":"json"', False), ('"method":"adaptive"', False), ('"method":"bogus"', False),
    ('"standalone":true()', True), ('"standalone":false()', True), ('"standalone":"yes"', True), ('"standalone":"no"', True),
    ('"standalone":"omit"', True), ('"standalone":()', True), ('"standalone":"maybe"', False),
    ('"omit-xml-declaration":true()', True), ('"omit-xml-declaration":false()', True), ('"omit-xml-declaration":"x"', False),
    ('"omit-xml-declaration":false(),"standalone":true()', True), ('"omit-xml-declaration":false(),"standalone":"no"', True),
    ('"indent":false()', True), ('"indent":true()', False), ('"indent":"x"', False),
    ('"encoding":"utf-8"', True), ('"encoding":"UTF-8"', True), ('"encoding":1', False),
    ('"item-separator":"|"', True), ('"item-separator":1', False),
    ('"cdata-section-elements":[xs:QName("b")]', True), ('"cdata-section-elements":"b"', False),
    ('"nonsense":1', True), ('"html-version":5', True), ('"method":"html","indent":true()', False),
    ('"method":"xml","standalone":true(),"indent":false()', True),
]
SER_NODES = {'self': '.', 'attributes': '@*', 'text': 'text()', 'comment': 'comment()', 'pi': 'processing-instruction()',
             'document': '/', 'children': 'node()', 'two-elements': '(., .)'}
SER_ALLOWED_ERRORS = ('SEPM', 'SENR', 'SERE', 'XPTY', 'XPST')


def build_serp_tree(seed: int, lib: str):
    import random
    r = random.Random(seed)
    root = gen_xml(r, lib, r.choice([1, 2, 3]))
    elems = [e for e in root.iter() if isinstance(e.tag, str)]
    # make sure there is mixed content: an inner element with a non-whitespace tail
    inner = [e for e in elems if e is not root]
    if not inner:
        E = ep()['ET'] if lib == 'etree' else __import__('lxml.etree').etree
        ch = E.SubElement(root, 'b')
        inner = [ch]
        elems.append(ch)
    if not any(e.tail and e.tail.strip() for e in inner):
        r.choice(inner).tail = r.choice(['tail text', 't&u', 'mixed > content'])
    return root, elems


def serp_step(rng, n_elems: int) -> dict:
    return {'elem': rng.randrange(n_elems), 'node': rng.choice(list(SER_NODES)), 'params': rng.randrange(len(SER_PARAMS))}


def run_serp_step(root, elems, lib, step) -> tuple[str, Any]:
    el = elems[step['elem'] % len(elems)]
    entries, _ = SER_PARAMS[step['params']]
    expr = 'serialize(%s, map{%s})' % (SER_NODES[step['node']], entries)
    rt = root
    if step['node'] == 'document':       # a document node needs a tree object as root
        rt = root.getroottree() if hasattr(root, 'getroottree') else ep()['ET'].ElementTree(root)
    o = outcome(lambda: xq(expr, root=rt, _item=None if el is root else el))
    return expr, o


def describe_step(root, elems, step) -> dict:
    el = elems[step['elem'] % len(elems)]
    return {'serialize': SER_NODES[step['node']], 'params': 'map{%s}' % SER_PARAMS[step['params']][0],
            'context_item': 'element #%d <%s> tail=%r' % (step['elem'] % len(elems), el.tag, el.tail)}


def check_serp(run: Run, case) -> list[Disagreement]:
    """one serialization with parameters: outcome class, purity (inside xq), round trip where the parameters keep the content"""
    lib, step = case['lib'], case['step']
    root, elems = build_serp_tree(case['seed'], lib)
    el = elems[step['elem'] % len(elems)]
    expr, o = run_serp_step(root, elems, lib, step)
    entries, neutral = SER_PARAMS[step['params']]
    st = run.stats
    cj = {'kind': 'SERP', 'lib': lib, 'seed': case['seed'], 'step': describe_step(root, elems, step), 'expr': expr}
    st.count('serp:node=' + step['node'])
    st.count('serp:' + ('tail' if (el.tail and el is not root) else 'no-tail'))
    if not o[0]:
        code = err_text(o[1])
        st.count('serp:' + code[:12])
        if not code.startswith(tuple('ERR:' + p for p in SER_ALLOWED_ERRORS)):
            return [Disagreement(cj, code, None, spec='a serialization error (SEPM/SENR/SERE/XPTY) or a string',
                                 what='fn:serialize with parameters: unexpected exception', site='serialization.get_serialization_params / serialize_to_xml')]
        return []
    text = o[1]
    st.count('serp:ok')
    if not isinstance(text, str):
        return [Disagreement(cj, repr(text)[:200], None, spec='xs:string', what='fn:serialize result is not a string', site='fn:serialize')]
    if step['node'] in ('self', 'document') and ('"method":"text"' in entries or '"method":"html"' in entries
                                                  or '"method":"xhtml"' in entries or '"method":"adaptive"' in entries):
        node_expr = '.' if step['node'] == 'self' else '/'
        rt = root
        if step['node'] == 'document':
            rt = root.getroottree() if hasattr(root, 'getroottree') else ep()['ET'].ElementTree(root)
        it = None if (el is root or step['node'] == 'document') else el
        def string_value(e) -> str:           # XDM string value, computed independently (document order)
            if callable(e.tag):
                return ''
            return (e.text or '') + ''.join(string_value(ch) + (ch.tail or '') for ch in e)
        sv = string_value(el if step['node'] == 'self' else root)
        fs = xq('string(%s)' % node_expr, root=rt, _item=it)
        if fs != sv:
            return [Disagreement(cj, okcps(fs), None, spec=okcps(sv), what='fn:string(node) = string value in document order',
                                 site='xpath_nodes string_value / etree_iter_text')]
        if '"method":"text"' in entries:
            st.count('serp:text-method-checked')
            if text != sv:
                return [Disagreement(cj, okcps(text), None, spec=okcps(sv), what='serialize(node, method text) = string value of the node',
                                     site='serialization.serialize_to_xml method')]
        elif '"method":"adaptive"' in entries:
            xml_text = xq('serialize(%s)' % node_expr, root=rt, _item=it)
            st.count('serp:adaptive-checked')
            if text != xml_text:
                return [Disagreement(cj, okcps(text), None, spec=okcps(xml_text), 
                                     what='serialize(node, method adaptive) = xml serialization of the node', site='fn:serialize method adaptive')]
        else:
            from html.parser import HTMLParser
            st.count('serp:html-method-checked')

            class Collect(HTMLParser):          # a tokenizer only: no restructuring, text in document order
                def __init__(self):
                    super().__init__(convert_charrefs=True)
                    self.data = []

                def handle_data(self, d):
                    self.data.append(d)
            try:
                hp = Collect()
                hp.feed(text)
                hp.close()
                got = ''.join(hp.data)
            except Exception as e:
                got = 'unparsable:' + type(e).__name__
            norm = lambda t: t.replace('\r\n', '\n').replace('\r', '\n')
            tokenizable = '<_' not in text and ':_' not in text and '</_' not in text   # html.parser wants a letter first
            if tokenizable and norm(got) != norm(sv):
                return [Disagreement(dict(cj, text=text[:300]), okcps(got), None, spec=okcps(sv),
                                     what='serialize(node, method html): text content = string value of the node', site='fn:serialize method html')]
        return []
    if neutral and step['node'] in ('self', 'document') and 'method' not in entries.replace('"method":"xml"', ''):
        want = canon_xml(el if step['node'] == 'self' else root)
        want[4] = ''
        try:
            res = xq('parse-xml($s)', root=root, s=text)
            doc = res[0] if isinstance(res, list) else res
            inner = getattr(doc, 'value', None)
            if inner is not None and hasattr(inner, 'getroot'):
                doc = inner
            got = canon_xml(doc.getroot())
            got[4] = ''
            impl = json.dumps(got, ensure_ascii=True)
        except Exception as e:
            impl = err_text(e)
        spec = json.dumps(want, ensure_ascii=True)
        st.count('serp:round-trip-checked')
        if impl != spec:
            tags: list[str] = []
            return [Disagreement(dict(cj, text=text[:400]), impl, None, spec=spec, tags=tags,
                                 what='parse-xml(serialize(node, params)) structure', site='fn:serialize parameters')]
    return []


def serh_final(root, lib):
    want = canon_xml(root)
    want[4] = ''
    return json.dumps(want, ensure_ascii=True)


def run_serh(seed: int, lib: str, steps: list[dict]) -> tuple[str, str, list]:
    """serialize several nodes of ONE tree with different parameters, then round-trip the whole tree;
    -> (what the round trip gives, canonical form of the tree before the history, step descriptions)"""
    root, elems = build_serp_tree(seed, lib)
    spec = serh_final(root, lib)
    desc = []
    for stp in steps:
        desc.append(describe_step(root, elems, stp))
        run_serp_step(root, elems, lib, stp)
    try:
        res = xq('parse-xml(serialize(.))', root=root)
        doc = res[0] if isinstance(res, list) else res
        inner = getattr(doc, 'value', None)
        if inner is not None and hasattr(inner, 'getroot'):
            doc = inner
        got = canon_xml(doc.getroot())
        got[4] = ''
        impl = json.dumps(got, ensure_ascii=True)
    except Exception as e:
        impl = err_text(e)
    return impl, spec, desc


def check_serh(run: Run, case) -> list[Disagreement]:
    lib, seed, steps = case['lib'], case['seed'], case['steps']
    impl, spec, desc = run_serh(seed, lib, steps)
    run.stats.count('serh:%s:steps=%d' % (lib, len(steps)))
    if impl == spec:
        return []
    root, _ = build_serp_tree(seed, lib)
    tags: list[str] = []
    # smallest history: one serialization + the round trip
    for stp in steps:
        i2, s2, d2 = run_serh(seed, lib, [stp])
        if i2 != s2:
            impl, spec, desc = i2, s2, d2
            break
    else:
        i0, s0, _ = run_serh(seed, lib, [])
        if i0 != s0:
            impl, spec, desc = i0, s0, []
    cj = {'kind': 'SERH', 'lib': lib, 'seed': seed,
          'history': desc + [{'then': 'parse-xml(serialize(.)) on the root of the same tree, compared with the tree before the history'}]}
    return [Disagreement(cj, impl, None, spec=spec, tags=tags if not desc else tags,
                         what='round trip of a tree after serializing some of its nodes', site='fn:serialize (source tree must stay unchanged)')]


# one token, several evaluations inside ONE expression ---------------------------------------------------
MULTI_EXPR = {
    # sub-kind: (for-expression, single expression, variable, every item must be True?)
    'xml-seq': ('for $e in $es return deep-equal(parse-xml(serialize($e))/*, $e)',
                'deep-equal(parse-xml(serialize($e))/*, $e)', 'e', True),
    'xml-inner': ('for $e in //* return deep-equal(parse-xml(serialize($e))/*, $e)',
                  'deep-equal(parse-xml(serialize(.))/*, .)', None, True),    # inner elements with tails included
    'xml-docs': ('for $s in $ss return parse-xml($s)', 'parse-xml($s)', 's', False),
    'fragment': ('for $s in $ss return parse-xml-fragment($s)', 'parse-xml-fragment($s)', 's', False),
    'json': ('for $s in $ss return map{"r": parse-json($s)}', 'map{"r": parse-json($s)}', 's', False),
    'j2x': ('for $s in $ss return xml-to-json(json-to-xml($s))', 'xml-to-json(json-to-xml($s))', 's', False),
    'j2xdoc': ('for $s in $ss return json-to-xml($s)', 'json-to-xml($s)', 's', False),
    'ser': ('for $s in $ss return serialize($s, map{"method":"json"})', 'serialize($s, map{"method":"json"})', 's', False),
}
FRAGMENTS = ['<a/>x<b/>', 'text only', '<c>1</c>', '<!--c--><d/>', '<e x="1"/><e/>tail', '<?p q?><f>g</f>', '']


def gen_multi(rng) -> dict:
    sub = rng.choice(list(MULTI_EXPR))
    lib = rng.choice(['etree', 'lxml'])
    k = rng.choice([2, 2, 3, 5])
    c: dict[str, Any] = {'kind': 'MULTI', 'sub': sub, 'lib': lib}
    if sub == 'xml-seq' or sub == 'xml-docs':
        c['_items'] = [gen_xml(rng, lib, rng.choice([0, 1, 2])) for _ in range(k)]
    elif sub == 'xml-inner':
        while True:
            root = gen_xml(rng, lib, rng.choice([1, 2, 3]))
            if sum(1 for e in root.iter() if isinstance(e.tag, str)) >= 2:
                break
        c['_root'] = root
    elif sub == 'fragment':
        c['_items'] = [rng.choice(FRAGMENTS) for _ in range(k)]
    elif sub in ('json', 'j2x', 'j2xdoc'):
        c['_items'] = [write_json(rng, gen_value(rng, rng.choice([0, 1, 2]), ['null', 'bool', 'int', 'float', 'str', 'str']),
                                  loose=rng.random() < 0.5) for _ in range(k)]
    else:
        vals = []
        while len(vals) < k:
            v = gen_value(rng, rng.choice([0, 1, 2]), ['bool', 'int', 'float', 'str', 'str'])
            if v is not None:
                vals.append(v)
        c['_items'] = vals
    return c


def flat(x) -> list:
    return list(x) if isinstance(x, list) else [x]


def run_multi(sub: str, lib: str, items: list, root=None) -> tuple[str, str, int]:
    """(for-expression outcome, list of single outcomes, number of items) as canonical JSON"""
    c = ep()
    for_expr, single_expr, var, _ = MULTI_EXPR[sub]
    sel = c['elementpath'].select
    if sub == 'xml-inner':
        elems = [e for e in root.iter() if isinstance(e.tag, str)]
        multi = outcome(lambda: xq(for_expr, root=root))
        singles = [outcome(lambda e=e: flat(sel(root, single_expr, parser=c['Parser'], item=e))) for e in elems]
        n = len(elems)
    else:
        if sub == 'xml-docs':
            vals = [sel(e, 'serialize(.)', parser=c['Parser']) for e in items]
        elif sub == 'ser':
            vals = [to_xdm(v) for v in items]
        else:
            vals = list(items)
        ctx_root = items[0] if sub == 'xml-seq' else (c['root'] if lib == 'etree' else _lxml_root())
        seqvar = 'es' if sub == 'xml-seq' else 'ss'
        multi = outcome(lambda: xq(for_expr, root=ctx_root, **{seqvar: vals}))
        singles = [outcome(lambda v=v: flat(sel(ctx_root, single_expr, parser=c['Parser'], variables={var: v}))) for v in vals]
        n = len(vals)
    if all(ok for ok, _ in singles):
        want = json.dumps([canon_result(x) for _, r in singles for x in r], ensure_ascii=True, default=str)
    else:
        want = next(err_text(r) for ok, r in singles if not ok)         # the first error is the result
    got = canon_outcome((multi[0], flat(multi[1]) if multi[0] else multi[1]))
    return got, want, n


def _lxml_root():
    if 'lxml_root' not in _ctx:
        import lxml.etree as LE
        _ctx['lxml_root'] = LE.XML('<r/>')
    return _ctx['lxml_root']


def check_multi(run: Run, case) -> list[Disagreement]:
    sub, lib = case['sub'], case['lib']
    items, root = case.get('_items'), case.get('_root')
    got, want, n = run_multi(sub, lib, items, root)
    run.stats.count('multi:%s:%s' % (sub, lib))
    run.stats.count('multi:evaluations-inside-one-expression', n)
    out = []
    cj = {'kind': 'MULTI', 'sub': sub, 'lib': lib, 'expr': MULTI_EXPR[sub][0]}
    if got != want:
        # smallest history: a pair of items that already differs
        shown = items
        if items is not None:
            for i in range(len(items)):
                for j in range(i + 1, len(items)):
                    g2, w2, _ = run_multi(sub, lib, [items[i], items[j]])
                    if g2 != w2:
                        shown, got, want = [items[i], items[j]], g2, w2
                        break
                else:
                    continue
                break
        cj['items'] = [canon_result(to_xdm(x) if sub == 'ser' else x) for x in shown] if shown is not None else canon_xml(root)
        out.append(Disagreement(cj, got, want, spec=want, what='for-expression over several items vs single evaluations',
                                site=MULTI_EXPR[sub][1]))
    elif MULTI_EXPR[sub][3] and want != json.dumps([True] * n):
        if items is not None:
            cj['items'] = [canon_xml(x) for x in items]
        else:
            # one tree, every element serialized on its own: name the first element that fails
            elems = [e for e in root.iter() if isinstance(e.tag, str)]
            flags = json.loads(got) if got.startswith('[') else []
            bad = next((e for e, ok in zip(elems, flags) if ok is not True), None)
            cj['tree'] = canon_xml(root)
            if bad is not None:
                cj['failing_element'] = canon_xml(bad)
        tags: list[str] = []
        out.append(Disagreement(cj, got, None, spec=json.dumps([True] * n), tags=tags,
                                what='deep-equal(parse-xml(serialize($e)), $e) over a sequence of nodes', site='fn:serialize / fn:parse-xml'))
    return out



# =========================================================================== batch evaluation
def driver_line(case) -> str | None:
    k = case['kind']
    if k in ('ESC', 'UNESC'):
        return esc_lines([case])[0]
    if k == 'SER':
        return 'SER v=' + enc(case['v'])
    if k == 'PARSE':
        return 'PARSE p=%s t=%s' % (case['policy'] or 'first', cps(case['t']))
    if k == 'J2X':
        return 'J2X p=%s r=%s v=%s' % (case['policy'], rnd_table(case['_v2']), enc(case['_v2']))
    if k == 'J2XE':
        return 'J2XE p=%s r=%s v=%s' % (case.get('policy', 'retain'), rnd_table(case['_v2']), enc(case['_v2']))
    if k == 'X2J':
        return 'X2J e=' + enc_elem(case['elem'])
    if k == 'XESC':
        return 'XESC s=' + cps(case['s'])
    if k == 'JXE':
        return 'JXE s=' + cps(case['s'])
    if k == 'CRM':
        return crm_line(case)
    if k == 'PARSEWS':
        return 'PARSEWS p=%s t=%s' % (case['policy'] or 'first', cps(case['t']))
    if k == 'SERWS':
        if case.get('_ws') is None:
            return None
        return 'SERWS v=%s w=%s' % (enc(case['v']), ','.join(cps(w) for w in case['_ws']))
    return None


def evaluate(run: Run, cases: list[dict]) -> list[list[Disagreement]]:
    """runs every case through the real code and the Lean driver; one list of disagreements per case"""
    results: list[list[Disagreement]] = [[] for _ in cases]
    # prepare
    live = []
    for i, c in enumerate(cases):
        if c['kind'] in ('J2X', 'J2XE'):
            try:
                c['_v2'] = py_loads(c['t'])
            except Exception as e:          # generator bug, not a verdict
                raise RuntimeError('generated JSON text unreadable by python json: %r %s' % (c['t'], e))
            if any(isinstance(n, float) and (math.isinf(n) or math.isnan(n)) for n in all_numbers(c['_v2'])):
                continue
        if c['kind'] == 'SER':
            c['_impl'] = impl_serialize(c['v'], c.get('literal', False))
        if c['kind'] == 'SERWS':
            prepare_serws(run, c)
        live.append(i)
    lines, idx = [], []
    for i in live:
        ln = driver_line(cases[i])
        if ln is not None:
            lines.append(ln)
            idx.append(i)
    answers = dict(zip(idx, run.driver('C17', lines)))
    # second pass: the Lean RFC reader on the texts produced by the real serializer
    p_lines, p_idx = [], []
    for i in live:
        c = cases[i]
        if c['kind'] == 'SER' and isinstance(c['_impl'][0], str) and not c['_impl'][0].startswith(('ERR', '?')):
            p_lines.append('PARSE p=first t=' + cps(c['_impl'][0]))
            p_idx.append(i)
    p_answers = dict(zip(p_idx, run.driver('C17', p_lines)))
    for i in live:
        c = cases[i]
        k = c['kind']
        a = answers.get(i)
        if a is not None and a.startswith('bad-'):
            results[i] = [Disagreement(case_json(c), 'driver:' + a, what='protocol')]
            continue
        if k in ('ESC', 'UNESC'):
            results[i] = check_esc(run, c, a)
        elif k == 'SER':
            results[i] = check_ser(run, c, a, p_answers.get(i))
        elif k == 'PARSE':
            results[i] = check_parse(run, c, a)
        elif k == 'J2X':
            results[i] = check_j2x(run, c, a)
        elif k == 'X2J':
            results[i] = check_x2j(run, c, a)
        elif k == 'XML':
            results[i] = check_xml(run, c)
        elif k == 'MULTI':
            results[i] = check_multi(run, c)
        elif k == 'XESC':
            results[i] = check_xesc(run, c, a)
        elif k == 'NEG':
            results[i] = check_neg(run, c)
        elif k == 'SERP':
            results[i] = check_serp(run, c)
        elif k == 'SERH':
            results[i] = check_serh(run, c)
        elif k == 'JXE':
            results[i] = check_jxe(run, c, a)
        elif k == 'J2XE':
            results[i] = check_j2xe(run, c, a)
        elif k == 'CRM':
            results[i] = check_crm(run, c, a)
        elif k == 'SERWS':
            results[i] = check_serws(run, c, a)
        elif k == 'PARSEWS':
            results[i] = check_parsews(run, c, a)
    if results:
        results[0] = reuse_disagreements() + results[0]      # the replayable histories first
    return results


# =========================================================================== corpus
def V(t: str) -> Any:
    return py_loads(t)


CORPUS: list[dict] = [
    # CR mark x private-use code points: attribute value / comment / tail holding U+E000…, and F17x (namespace URI)
    {'kind': 'CRM', 'uri': None, 'attrs': [('k', '\ue000')], 'text': 'x\ry', 'tail': None, 'comment': None},
    {'kind': 'CRM', 'uri': None, 'attrs': [('k', '\ue001'), ('m', '\ue000')], 'text': '\ue002\r', 'tail': '\ue003', 'comment': '\ue004'},
    {'kind': 'CRM', 'uri': 'urn:one', 'attrs': [('k', '\ue000')], 'text': 'x', 'tail': 'u\rv', 'comment': None},
    {'kind': 'CRM', 'uri': None, 'attrs': [('k', '\ue000')], 'text': 'x', 'tail': None, 'comment': None},
    {'kind': 'CRM', 'uri': 'u\ue000', 'attrs': [], 'text': '\r', 'tail': None, 'comment': None},
    {'kind': 'CRM', 'uri': 'u\ue000', 'attrs': [], 'text': 'x', 'tail': None, 'comment': None},
    # phase 5: whitespace around every structural character, all four ws characters, indent output, json-doc
    {'kind': 'SERWS', 'v': [1, Obj([('a', None), ('b /', [True, False, -0.0, 1e21, 'x y\t"'])]), [], Obj([])], 'mode': 'indent', 'wseed': 0, 'doc': True},
    {'kind': 'SERWS', 'v': [1, Obj([('a', None), ('b /', [True, False, -0.0, 1e21, 'x y\t"'])]), [], Obj([])], 'mode': 'pad', 'wseed': 1, 'doc': True},
    {'kind': 'SERWS', 'v': ['a  b , c : d ] e } f [ g { h', Obj([(' k ,', ' '), (' :', '[ 1 , 2 ]')])], 'mode': 'pad', 'wseed': 3, 'doc': True},
    {'kind': 'SERWS', 'v': 12, 'mode': 'pad-long', 'wseed': 2, 'doc': True}, {'kind': 'SERWS', 'v': [], 'mode': 'pad', 'wseed': 5, 'doc': False},
    {'kind': 'SERWS', 'v': Obj([]), 'mode': 'pad', 'wseed': 7, 'doc': False}, {'kind': 'SERWS', 'v': None, 'mode': 'indent', 'wseed': 0, 'doc': False},
    {'kind': 'PARSEWS', 't': ' \t\r\n[ 1 ,\n{ "a" :\r2 , "a"\t: [ ] } , { } ]\n', 'policy': None, 'doc': True},
    {'kind': 'PARSEWS', 't': '1 2', 'policy': None, 'doc': False}, {'kind': 'PARSEWS', 't': 'tr ue', 'policy': None, 'doc': False},
    {'kind': 'PARSEWS', 't': '[1,\x0b2]', 'policy': None, 'doc': False}, {'kind': 'PARSEWS', 't': '\xa01', 'policy': None, 'doc': False},
    {'kind': 'PARSEWS', 't': '- 1', 'policy': None, 'doc': False}, {'kind': 'PARSEWS', 't': '[1 , ]', 'policy': None, 'doc': False},
    {'kind': 'PARSEWS', 't': ' ', 'policy': None, 'doc': False}, {'kind': 'PARSEWS', 't': '1\n', 'policy': 'reject', 'doc': False},
    # F17a: backslash followed by n / b / u0041 (was: unescape(escape(s)) != s)
    {'kind': 'ESC', 's': '\\n', 'escaped': False}, {'kind': 'ESC', 's': 'a\\nb', 'escaped': False},
    {'kind': 'ESC', 's': '\\b', 'escaped': False}, {'kind': 'ESC', 's': '\\u0041', 'escaped': False},
    {'kind': 'ESC', 's': '\\\\n', 'escaped': False}, {'kind': 'ESC', 's': '\\"\\/', 'escaped': False},
    {'kind': 'ESC', 's': 'x\x01y\x7f\x9f\xa0"/', 'escaped': False}, {'kind': 'ESC', 's': '\\"', 'escaped': True},
    {'kind': 'ESC', 's': '\\u000A', 'escaped': True}, {'kind': 'ESC', 's': '\x00', 'escaped': False},
    {'kind': 'UNESC', 's': '\\U0000000a'}, {'kind': 'UNESC', 's': '\\u0031\\\\n\\x\\'}, {'kind': 'UNESC', 's': '\\UFFFFFFFF'},
    # F17b: decimals (was 3.14159 -> 3.15)
    {'kind': 'SER', 'v': Decimal('3.14159')}, {'kind': 'SER', 'v': Decimal('0.001')}, {'kind': 'SER', 'v': Decimal('9.0')},
    {'kind': 'SER', 'v': [Decimal('1000000000000000000000000000000')], 'wide_decimal': True},
    # F17c: empty sequence as map entry (was [])
    {'kind': 'SER', 'v': Obj([('a', None)])}, {'kind': 'SER', 'v': [None, Obj([('a', []), ('b', Obj([]))])]},
    {'kind': 'SER', 'v': None}, {'kind': 'SER', 'v': 'a/b\\n"\U0001f600\x7f\xe9\n'}, {'kind': 'SER', 'v': [1, 1.0, -0.0, 1e16, 1e-7, 2 ** 70]},
    {'kind': 'SER', 'v': Obj([('a', 1), ('A', 2), ('a ', 3), ('\xe1', 4), ('á', 5)]), 'literal': True},
    # F17d: exponent digits (was 1e20 -> 1e+2)
    {'kind': 'J2X', 't': '1e20', 'policy': 'retain'}, {'kind': 'J2X', 't': '[1.5e300,1E-10,100,1e2,2.50,-0.0,-0,1e-7]', 'policy': 'retain'},
    # F17e: quotation mark in a key (was &#34;)
    {'kind': 'J2X', 't': '{"a\\"b":1}', 'policy': 'retain'},
    # F17f: literal backslash (was FOJS0007)
    {'kind': 'J2X', 't': '["a\\\\x","a\\\\","\\\\uZZ",{"\\\\n":1,"\\\\\\n":2}]', 'policy': 'retain'},
    # F17h: null member (was FOJS0006)
    {'kind': 'J2X', 't': '{"a":null,"b":[],"c":{},"d":[[],{}],"e":"","":true}', 'policy': 'retain'},
    # F17i: non-XML character (was the text &#xFFFD;)
    {'kind': 'J2X', 't': '["\\u0001","\\ud800","\\ufffe"]', 'policy': 'retain'},
    {'kind': 'J2X', 't': '{"a":1,"a":2}', 'policy': 'retain'}, {'kind': 'J2X', 't': '{"a":1,"\\u0061":2}', 'policy': 'first'},
    {'kind': 'J2X', 't': '{"a":1,"a":2}', 'policy': 'reject'},
    {'kind': 'PARSE', 't': '{"a":1,"b":2,"a":3}', 'policy': 'last'}, {'kind': 'PARSE', 't': '{"a":1,"a":2}', 'policy': 'reject'},
    {'kind': 'PARSE', 't': '{"a":1,"a":2}', 'policy': None}, {'kind': 'PARSE', 't': '{"a":{"x":1,"x":2},"a":3}', 'policy': 'first'},
    {'kind': 'X2J', 'elem': ('m', None, None, [('n', 'a', None, []), ('s', 'b\\n', 'x\\y"/', []), ('d', 'c', '1e+20', [])])},
    {'kind': 'SERH', 'lib': 'etree', 'seed': 7, 'steps': [{'elem': k, 'node': 'self', 'params': 8} for k in range(1, 6)]},
    {'kind': 'JXE', 's': '/'}, {'kind': 'JXE', 's': '\\/'}, {'kind': 'JXE', 's': 'b\\"'}, {'kind': 'JXE', 's': '\\uZZZZ'}, {'kind': 'JXE', 's': 'a\\'},
    {'kind': 'J2XE', 't': '{"a\\\\b":[],"":[],"a":[false,null]}'},
    {'kind': 'J2XE', 't': '{"k\\\\/\\n\\u0001":{"\\\\":["\\/","\\\\/","b\\\\\\"","\\\\uZZZZ","\\ufffe\\u0000",1e21,-0.0,10000000000000000000000]},"plain":"x"}'},
    {'kind': 'J2XE', 't': '{"a\\n":1,"a\\n":2}', 'policy': 'first'}, {'kind': 'J2XE', 't': '{"a\\n":1,"a\\n":2}', 'policy': 'reject'},
    {'kind': 'J2XE', 't': '{"a\\n":1,"a\\n":2}'}, {'kind': 'J2XE', 't': '{"\\\\n":1,"\\n":2}'},
    {'kind': 'XESC', 's': 'x\ry'}, {'kind': 'XESC', 's': 'a&b<c>d"e\'f\r\n\tg]]>'},
    {'kind': 'X2J', 'elem': ('n', None, 'x', [])}, {'kind': 'X2J', 'elem': ('m', None, None, [('n', None, None, [])])},
    {'kind': 'X2J', 'elem': ('m', None, None, [('b', 'k', '1', []), ('b', 'k', '0', [])])},
]


# =========================================================================== generation of a run
def gen_cases(run: Run) -> list[dict]:
    rng = run.rng
    cases: list[dict] = []
    n = run.scale(3, 30)
    for _ in range(900 * n):
        cases.append({'kind': 'ESC', 's': gen_string(rng, allow_nonxml=rng.random() < 0.3, p_special=0.4),
                      'escaped': rng.random() < 0.1})
    for _ in range(300 * n):
        cases.append({'kind': 'UNESC', 's': ''.join(rng.choice(ESC_SEQ_POOL + ['a', '"', 'n', 'u', '0041', '\\'])
                                                    for _ in range(rng.randrange(0, 6)))})
    ser_kinds = ['null', 'bool', 'int', 'float', 'str', 'str', 'float', 'int']
    for i in range(700 * n):
        r = rng.random()
        kinds = ser_kinds + (['decimal'] if r < 0.25 else []) + (['nonxml'] if 0.25 <= r < 0.32 else [])
        v = gen_value(rng, rng.choice([0, 1, 2, 3, 5]), kinds)
        c = {'kind': 'SER', 'v': v, 'literal': ('nonxml' not in kinds) and rng.random() < 0.3}
        if any(isinstance(x, Decimal) and len(x.as_tuple().digits) > 15 for x in all_numbers(v)):
            c['wide_decimal'] = True
        cases.append(c)
    j_kinds = ['null', 'bool', 'int', 'float', 'str', 'str']
    for _ in range(700 * n):
        r = rng.random()
        kinds = j_kinds + (['nonxml'] if r < 0.1 else [])
        v = gen_value(rng, rng.choice([0, 1, 2, 3, 5]), kinds, dups=0.25 if 0.1 <= r < 0.3 else 0.0)
        pol = 'retain' if rng.random() < 0.7 else rng.choice(['first', 'reject'])
        cases.append({'kind': 'J2X', 't': write_json(rng, v, loose=rng.random() < 0.7), 'policy': pol})
    for _ in range(300 * n):
        v = gen_value(rng, rng.choice([1, 2, 3]), j_kinds + (['nonxml'] if rng.random() < 0.15 else []), dups=0.5, width=5)
        cases.append({'kind': 'PARSE', 't': write_json(rng, v, loose=False),
                      'policy': rng.choice([None, 'first', 'last', 'reject'])})
    for _ in range(120 * n):       # CR mark on the whole serialized element, private-use code points everywhere
        cases.append(gen_crm(rng))
    for i in range(200 * n):       # phase 5: whitespace-padded / indented renderings of serialize(v)
        v = gen_value(rng, rng.choice([0, 1, 2, 3, 5]), ser_kinds)
        if rng.random() < 0.25:       # whitespace next to structural characters INSIDE strings and keys
            v = [v, rng.choice(WS_STRINGS), Obj([(rng.choice(WS_STRINGS), rng.choice(WS_STRINGS))])]
        cases.append({'kind': 'SERWS', 'v': v, 'mode': rng.choice(['indent', 'pad', 'pad', 'pad-long']), 'wseed': rng.randrange(10 ** 9),
                      'doc': i % 4 == 0})
    for i in range(150 * n):       # arbitrary input texts with whitespace; some truncated / with a stray character
        v = gen_value(rng, rng.choice([0, 1, 2, 3]), j_kinds, dups=0.3 if rng.random() < 0.3 else 0.0)
        t = write_json(rng, v, loose=True)
        for _ in range(6):
            if floats_exact(t):
                break
            t = write_json(rng, v, loose=True)
        r = rng.random()
        if r < 0.08 and t:
            t = t[:rng.randrange(len(t))]
        elif r < 0.16:
            k = rng.randrange(len(t) + 1)
            t = t[:k] + rng.choice([' ', '\x0b', '\x0c', '\xa0', ',', '1 2', '\u2028', 'tr ue']) + t[k:]
        cases.append({'kind': 'PARSEWS', 't': t, 'policy': rng.choice([None, None, 'first', 'last', 'reject']), 'doc': i % 5 == 0})
    for _ in range(400 * n):
        cases.append({'kind': 'X2J', 'elem': gen_elem(rng, rng.choice([0, 1, 2, 3]))})
    for lib in ('etree', 'lxml'):
        E = ep()['ET'] if lib == 'etree' else __import__('lxml.etree').etree
        for text, tail, ctail in (('x\ry', 'tail', None), ('x', 't\r\nu', None), ('x', 'tail', 'c\rd'), ('x\ry', None, None), ('x', 'tail', None)):
            root = E.Element('a')
            b = E.SubElement(root, 'b')
            b.text, b.tail = text, tail
            if ctail is not None:
                E.SubElement(b, 'c').tail = ctail
            cases.append({'kind': 'XML', 'lib': lib, 'variant': 'inner', '_root': root, '_elem': b, 'big': False})
    for lib in ('etree', 'lxml'):     # CR in text/tail x private-use code points in every kind of emitted string
        E = ep()['ET'] if lib == 'etree' else __import__('lxml.etree').etree
        for where, val, text, tail in (('attr', '\ue000', 'x\ry', None), ('attr', '\ue001', '\ue000\r', None), ('attr', '\ue000', 'x', 't\ru'),
                                       ('rootattr', '\ue000', 'x\ry', None), ('comment', '\ue000', 'x\ry', None), ('pi', '\ue000', 'x\ry', None),
                                       ('text', '\ue000', 'x\ry', None), ('tail', '\ue000', 'x\ry', 'u'), ('attr', '\ue000\ue001\ue002', 'a\r\nb', None),
                                       ('attr', '\uf8ff\U000f0000', '\r', None), ('attr', '\ue000', 'x', None)):
            root = E.Element('a')
            b = E.SubElement(root, 'b')
            b.text, b.tail = text, tail
            if where == 'attr':
                b.set('k', val)
            elif where == 'rootattr':
                root.set('k', val)
            elif where == 'comment':
                b.append(E.Comment(val))
            elif where == 'pi':
                b.append(E.ProcessingInstruction('p1', val))
            elif where == 'text':
                E.SubElement(b, 'c').text = val
            elif where == 'tail':
                E.SubElement(b, 'c').tail = val
            cases.append({'kind': 'XML', 'lib': lib, 'variant': 'root', '_root': root, 'big': False})
            if where != 'rootattr':
                cases.append({'kind': 'XML', 'lib': lib, 'variant': 'inner', '_root': root, '_elem': b, 'big': False})
    for k in range(250 * n):
        lib = rng.choice(['etree', 'lxml'])
        variant = rng.choice(['root', 'root', 'inner', 'inner', 'decl', 'doc'])
        big = k % 40 == 0
        root = gen_xml(rng, lib, rng.choice([0, 1, 2, 3]) if variant != 'inner' else rng.choice([1, 2, 3]), big=big)
        c = {'kind': 'XML', 'lib': lib, 'variant': variant, '_root': root, 'big': big}
        if variant == 'inner':
            inner = [e for e in root.iter() if isinstance(e.tag, str) and e is not root]
            if not inner:
                c['variant'] = 'root'
            else:
                el = c['_elem'] = rng.choice(inner)
                # combine the features: a non-root element WITH a tail AND a carriage return in its own text, in a
                # descendant's text/tail or in the tail itself (tail-less copy x CR marking in serialize_to_xml)
                r = rng.random()
                if r < 0.45:
                    el.tail = rng.choice(['tail', ' t ', 'a&b', 't\ru', 'x\r\ny', '\r'])
                    where = rng.choice(['text', 'descendant', 'none'])
                    if where == 'text':
                        el.text = rng.choice(['x\ry', 'a\r\nb', '\r'])
                    elif where == 'descendant' and len(el):
                        d = rng.choice([e for e in el.iter() if e is not el])
                        if rng.random() < 0.5 and isinstance(d.tag, str):
                            d.text = 'p\rq'
                        else:
                            d.tail = 'r\r\ns'
        elif variant == 'doc':
            if lib == 'etree':
                E = ep()['ET']
            else:
                import lxml.etree as E
            c['_tree'] = E.ElementTree(root)
            if lib == 'lxml':
                for _ in range(rng.randrange(0, 3)):
                    x = E.Comment(rng.choice([' c ', 'x'])) if rng.random() < 0.5 else E.ProcessingInstruction('p1', 'd')
                    (root.addprevious if rng.random() < 0.6 else root.addnext)(x)
        cases.append(c)
    cases.extend(neg_cases(rng))
    for _ in range(260 * n):
        lib = rng.choice(['etree', 'lxml'])
        cases.append({'kind': 'SERP', 'lib': lib, 'seed': rng.randrange(10 ** 9), 'step': serp_step(rng, 12)})
    for _ in range(60 * n):
        lib = rng.choice(['etree', 'etree', 'lxml'])
        cases.append({'kind': 'SERH', 'lib': lib, 'seed': rng.randrange(10 ** 9),
                      'steps': [serp_step(rng, 12) for _ in range(rng.choice([1, 2, 3, 5]))]})
    for _ in range(120 * n):
        cases.append(gen_multi(rng))
    for _ in range(150 * n):
        cases.append({'kind': 'XESC', 's': gen_xml_string(rng)})
    for _ in range(200 * n):
        cases.append({'kind': 'JXE', 's': gen_string(rng, allow_nonxml=rng.random() < 0.4, p_special=0.45).replace('\ud800', '').replace('\udc00', '')})
    for _ in range(150 * n):
        v = gen_value(rng, rng.choice([0, 1, 2, 3]), j_kinds + (['nonxml'] if rng.random() < 0.3 else []), dups=0.1 if rng.random() < 0.2 else 0.0)
        cases.append({'kind': 'J2XE', 't': write_json(rng, v, loose=rng.random() < 0.5),
                      'policy': 'retain' if rng.random() < 0.75 else rng.choice(['first', 'reject'])})
    rng.shuffle(cases)          # interleave the families: a reused token sees different kinds of inputs in turn
    return cases


def correspond(run: Run, cases: list[dict]) -> None:
    st = run.stats
    for i in range(0, len(cases), 1500):
        chunk = cases[i:i + 1500]
        run.log('chunk', i, len(cases))
        for c, ds in zip(chunk, evaluate(run, chunk)):
            cj = case_json(c)
            nontrivial = bool(c.get('s') or c.get('t') or c.get('elem') or c.get('v') is not None or c['kind'] in ('XML', 'MULTI', 'NEG', 'SERP', 'SERH'))
            st.case(cj if c['kind'] not in ('XML', 'MULTI') else {'kind': c['kind'], 'n': st.evaluations}, nontrivial=nontrivial)
            st.count('kind:' + c['kind'])
            if c['kind'] == 'SER':
                v = c['v']
                st.count('ser:' + ('literal-expr' if c.get('literal') else 'variable'))
                for x in all_numbers(v):
                    st.count('num:' + ('decimal' if isinstance(x, Decimal) else 'int' if isinstance(x, int) else
                                       'double-exp' if 'e' in repr(x) else 'double-fixed'))
                for s in all_strings(v):
                    if any(ord(ch) > 0xFFFF for ch in s):
                        st.count('str:astral')
                    if any(ord(ch) < 0x20 or 0x7f <= ord(ch) <= 0x9f for ch in s):
                        st.count('str:control')
                    if '\\' in s or '"' in s or '/' in s:
                        st.count('str:needs-escape')
            for d in ds:
                d._case = c
                run.disagree(d)


# =========================================================================== search and shrink
def search(run: Run) -> list[Disagreement]:
    """exhaustive small scope, used when a proof or the tie broke without a concrete failing input"""
    sub = Run(PROP, run.tier, run.seed)
    alpha = ['\\', 'n', 'u', 'b', '"', '/', 'a', '\n', '\x01', '\x7f', '0']
    cases: list[dict] = []
    for n in range(0, 4):
        def rec(prefix, k):
            if k == 0:
                cases.append({'kind': 'ESC', 's': prefix, 'escaped': False})
                cases.append({'kind': 'UNESC', 's': prefix})
                return
            for ch in alpha:
                rec(prefix + ch, k - 1)
        rec('', n)
    cases.append({'kind': 'ESC', 's': '\\u0041', 'escaped': False})
    scalars: list[Any] = [None, True, False, '', 'a/b', '\\n', '"', '\U0001f600', '\x7f'] + SEED_INTS + SEED_FLOATS
    scalars += [Decimal('3.14159'), Decimal('0.001'), Decimal('2.5')]
    for m in range(1, 10):
        for e in range(-25, 26):
            scalars.append(float('%de%d' % (m, e)))
    for s in scalars:
        cases.append({'kind': 'SER', 'v': s})
        cases.append({'kind': 'SER', 'v': [s]})
        cases.append({'kind': 'SER', 'v': Obj([('k', s)])})
        if not isinstance(s, Decimal):
            t = write_json(run.rng, s, loose=False)
            cases.append({'kind': 'J2X', 't': t, 'policy': 'retain'})
            cases.append({'kind': 'J2X', 't': '{"k":%s,"k\\"":[%s]}' % (t, t), 'policy': 'retain'})
    for k in KEY_POOL:
        cases.append({'kind': 'J2X', 't': write_json(run.rng, Obj([(k, 1), ('z', k)]), loose=False), 'policy': 'retain'})
    for pol in (None, 'first', 'last', 'reject'):
        for t in ('{"a":1,"a":2}', '{"a":1,"b":2,"a":3,"b":4}', '[{"a":{"a":1,"a":2}}]', '{"a":1}'):
            cases.append({'kind': 'PARSE', 't': t, 'policy': pol})
    for tag in 'nbdsam':
        for text in (None, '', 'true', '0', '1.50', '1e+20', 'x\\y'):
            cases.append({'kind': 'X2J', 'elem': (tag, None, text, [])})
            cases.append({'kind': 'X2J', 'elem': ('m', None, None, [(tag, 'k', text, [])])})
    out: list[Disagreement] = []
    for i in range(0, len(cases), 2000):
        chunk = cases[i:i + 2000]
        for ds in evaluate(sub, chunk):
            out.extend(ds)
    run.notes.append(f'search: {len(cases)} exhaustive small-scope cases, {len(out)} disagreements')
    return out


def smaller_values(v: Any):
    if isinstance(v, list):
        yield from v
        for i in range(len(v)):
            yield v[:i] + v[i + 1:]
        for i, x in enumerate(v):
            for y in smaller_values(x):
                yield v[:i] + [y] + v[i + 1:]
    elif isinstance(v, Obj):
        for _, x in v.pairs:
            yield x
        for i in range(len(v.pairs)):
            yield Obj(v.pairs[:i] + v.pairs[i + 1:])
        for i, (k, x) in enumerate(v.pairs):
            for k2 in smaller_values(k):
                yield Obj(v.pairs[:i] + [(k2, x)] + v.pairs[i + 1:])
            for y in smaller_values(x):
                yield Obj(v.pairs[:i] + [(k, y)] + v.pairs[i + 1:])
    elif isinstance(v, str):
        for i in range(len(v)):
            yield v[:i] + v[i + 1:]
    elif isinstance(v, bool) or v is None:
        return
    elif isinstance(v, int) and abs(v) > 9:
        yield v // 10
    elif isinstance(v, float) and v not in (0.0, 1.0):
        yield 1.0


def shrink(d: Disagreement) -> Disagreement:
    case = getattr(d, '_case', None)
    if isinstance(d.case, dict) and d.case.get('kind') in ('REUSE', 'MULTI', 'PURITY', 'PATHS', 'SERP', 'SERH', 'NEG'):
        return d                      # already a minimal replayed history
    if case is None or case['kind'] in ('XML', 'X2J', 'MULTI', 'REUSE', 'PARSEWS', 'CRM'):
        return d
    sub = Run(PROP, 'quick', 0)
    best, bestd = case, d
    for _ in range(25):
        if best['kind'] in ('ESC', 'UNESC'):
            cands = [dict(best, s=s) for s in smaller_values(best['s'])]
        elif best['kind'] in ('SER', 'SERWS'):
            cands = [dict(best, v=v) for v in smaller_values(best['v'])]
        else:
            try:
                v = py_loads(best['t'])
            except Exception:
                break
            cands = [dict(best, t=write_json(sub.rng, x, loose=False)) for x in smaller_values(v)]
            cands.insert(0, dict(best, t=write_json(sub.rng, v, loose=False)))
        cands = [{k: x for k, x in c.items() if not k.startswith('_')} for c in cands][:200]
        if not cands:
            break
        found = None
        for c, ds in zip(cands, evaluate(sub, cands)):
            hit = [x for x in ds if x.what == d.what and x.kind == d.kind]
            if hit and c != best:
                found = (c, hit[0])
                break
        if found is None or case_json(found[0]) == case_json(best):
            break
        best, bestd = found
        bestd.tags = d.tags
    return bestd


# =========================================================================== body
def body(run: Run) -> int:
    run.trusted_base += [
        "Python's json module (tokenising JSON texts in parse-json / json-to-xml; json.dumps string/number encoder is MODELLED and tied)",
        'float.__repr__ digit generation (shortest round-trip digits) and float(str): trusted parameter of the number model',
        'xml.etree.ElementTree / lxml serialiser and parser (XML round trip is observed, not proved)',
        'the harness-side reading of XDM results (XPathMap/XPathArray -> value encoding)']
    run.assumptions += [
        'JSON texts are read by Python json; the Lean RFC 8259 reader is validated against it on every PARSE case',
        'xml-to-json number model is exact for integer literals with <= 15 significant digits and for double reprs',
        'strings of XDM values contain XML characters only (non-XML strings are compared model-vs-code only)']
    run.stats.rule = ('seven case families (ESC/UNESC strings incl. backslash-escape look-alikes, controls, astral; SER JSON values '
                      'nesting <= 5 as XPath variables or constructor expressions, ints to 10^30, doubles incl. subnormal/1e308, '
                      'decimals; PARSE texts with duplicate keys x 4 policies; J2X texts with random whitespace / escape / number '
                      'spellings x 3 policies; X2J element trees incl. invalid shapes; XML trees in ElementTree and lxml with '
                      'namespaces, attributes, mixed content, comments, PIs, CR, > 8 KiB, inner elements with tails, declarations, document nodes); '
                      'MULTI/REUSE token reuse; XESC escaping functions; JXE/J2XE escape:true; NEG error exits and options. '
                      'distinct = distinct canonical inputs')
    run.prove(['EPV.Props.C17', 'EPV.Props.C17Ws', 'EPV.Props.C17Esc', 'EPV.Props.C17Cr'], ['EPV.Model.Json', 'EPV.Spec.RFC8259', 'EPV.Model.JsonTokens', 'EPV.Spec.RFC8259Ws', 'EPV.Model.JsonXmlEsc', 'EPV.Model.XmlCrMark'])
    run.log('proofs checked')
    try:
        correspond(run, [dict(c) for c in CORPUS] + gen_cases(run))
    except DriverError as e:
        run.broken.append('driver:C17 ' + str(e)[:300])
    run.stats.extra['purity'] = {'evaluations_with_input_trees_snapshotted_before_and_after': PURITY['calls_with_trees']}
    run.stats.extra['token_reuse'] = {'also_through_iter_select_and_evaluate': REUSE.get('other_paths', 0), 'tokens': REUSE['tokens'], 'evaluations_through_reused_tokens': REUSE['evaluations'],
                                      'each_compared_with': 'a freshly parsed expression (elementpath.select)'}
    return run.finish('proof', shrink=shrink, search=search)


if __name__ == '__main__':
    cli(PROP, body)

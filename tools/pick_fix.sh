#!/bin/bash
# tools/pick_fix.sh <branch>  — cherry-pick the `fix:` commits of a builder's branch into /repo and
# confirm the unedited suite's failing set is unchanged (24 locale tests in this sandbox).
set -u
b=$1
cd /repo
[ -f /tmp/suite_base.txt ] || { git stash -q 2>/dev/null; /venv/bin/python -m pytest -q -p no:cacheprovider --timeout=900 -q 2>&1 | grep -E "^(FAILED|ERROR)" | sed 's/ - .*//' | sort > /tmp/suite_base.txt; }
for c in $(git cherry HEAD $b | grep "^+" | cut -d" " -f2); do
  subj=$(git log -1 --format=%s $c)
  case "$subj" in fix:*) ;; *) echo "SKIP non-fix commit $c $subj"; continue;; esac
  if ! git cherry-pick -x $c >/tmp/pick.log 2>&1; then echo "CONFLICT on $c $subj"; git cherry-pick --abort; exit 1; fi
  echo "picked $(git log -1 --format='%h %s')"
done
/venv/bin/python -m pytest -q -p no:cacheprovider --timeout=900 -q 2>&1 | grep -E "^(FAILED|ERROR)|passed|failed" | sed 's/ - .*//' | sort > /tmp/suite_now.txt
grep -E "^[0-9]+ (passed|failed)|^=.*(passed|failed)" /tmp/suite_now.txt
if diff <(grep -E "^(FAILED|ERROR)" /tmp/suite_now.txt) /tmp/suite_base.txt >/dev/null; then echo "SUITE: failing set unchanged"; else echo "SUITE: FAILING SET CHANGED"; diff <(grep -E "^(FAILED|ERROR)" /tmp/suite_now.txt) /tmp/suite_base.txt; fi

#!/usr/bin/env python3
"""Dev-time consolidation of findings/Cxx.json into known_findings.json (checks only READ these
files).  `fixed` entries get the hash of the /repo commit whose subject matches."""
import json, subprocess
from pathlib import Path
V = Path(__file__).resolve().parent.parent
kf = json.loads((V / 'known_findings.json').read_text())
# rebuilt from findings/Cxx.json on every consolidation (nothing is carried over)
find = {}
fixed = {}
log = subprocess.run(['git', '-C', '/repo', 'log', '--format=%h\t%s'], capture_output=True, text=True).stdout.splitlines()
commits = {}
for l in log:
    h, s = l.split('\t', 1)
    commits.setdefault(s.strip(), h)
for p in sorted((V / 'findings').glob('C*.json')):
    d = json.loads(p.read_text())
    for f in d.get('findings', []):
        find[f['id']] = f
    for f in d.get('fixed', []):
        h = commits.get(f.get('commit_subject', '').strip())
        f = dict(f)
        f['commit'] = h or 'NOT-IN-/repo-YET'
        f['line'] = f"fixed: property={f['property']} {f['commit']} {f['what']}"
        fixed[(f['property'], f['id'], f.get('commit_subject', ''))] = f
# a finding that has been fixed is no longer a finding
fixed_ids = {(k[0], k[1]) for k, f in fixed.items() if f['commit'] != 'NOT-IN-/repo-YET'}
for i in list(find):
    if (find[i]['property'], i) in fixed_ids:
        del find[i]
kf['findings'] = sorted(find.values(), key=lambda f: (f['property'], f['id']))
kf['fixed'] = sorted(fixed.values(), key=lambda f: (f['property'], f['id']))
(V / 'known_findings.json').write_text(json.dumps(kf, indent=1) + '\n')
print(len(kf['findings']), 'findings,', len(kf['fixed']), 'fixed;',
      [f['id'] for f in kf['fixed'] if f['commit'].startswith('NOT')], 'not yet in /repo')

#!/bin/bash
# tools/allrun.sh <seed> [tier]  — run every property's check (groups of 5 in parallel) and append one line per
# property to /tmp/allrun.log: "Cxx seed=<n> <last non-KNOWN-FINDING line>" (empty = exit 0 without VIOLATION).
cd /verif
tier=${2:-quick}
run() { p=$1; VERIF_SEED=${2:-0} ./check $p --tier $tier >/tmp/out_$p.txt 2>/tmp/err_$p.txt; rc=$?; out=$(grep -E "^VIOLATION" /tmp/out_$p.txt | tail -1); echo "$p seed=${2:-0} tier=$tier rc=$rc $out" >> /tmp/allrun.log; }
for grp in "C01 C02 C03 C04 C05" "C06 C07 C08 C09 C10" "C11 C12 C13 C14 C15" "C16 C17 C18 C19 C20"; do for p in $grp; do run $p $1 & done; wait; done
echo "ALLRUNDONE seed=$1 tier=$tier" >> /tmp/allrun.log

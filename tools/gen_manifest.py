#!/usr/bin/env python3
"""Regenerates MANIFEST.json from tools/claims.json (one entry per claimed property) and
properties.jsonl (everything not claimed goes to not_applicable with its reason)."""
import json
from pathlib import Path
V = Path(__file__).resolve().parent.parent
claims = json.loads((V / 'tools' / 'claims.json').read_text())
props = [json.loads(l) for l in (V / 'properties.jsonl').read_text().splitlines() if l.strip()]
checks = []
na = []
for p in props:
    pid = p['id']
    c = claims['claims'].get(pid)
    if c is None:
        na.append({'property_id': pid, 'reason': claims['unclaimed'].get(pid, 'check not built yet (work in progress); see DESIGN.md section 4 for the plan')})
        continue
    checks.append({
        'property_id': pid,
        'quick_cmd': f'./check {pid} --tier quick',
        'thorough_cmd': f'./check {pid} --tier thorough',
        'evidence_file': f'evidence/{pid}.json',
        'replay_cmd_template': f'./check {pid} --replay {{path}}',
        'engine': 'lean4-proof+correspondence',
        'level_claimed': {'category': c.get('category', 'proof'), 'text': c['text'], 'design_ref': c.get('design_ref', f'DESIGN.md section 4, {pid}')},
        'level_note': c['note'],
        'technique': c['technique'],
    })
m = {
    'version': 1,
    'setup_cmd': './setup.sh',
    'hooks': {'guard': 'ELEMENTPATH_VERIF', 'enable': 'no source hooks are needed: checks import /repo\'s working tree in-process and read public attributes; the variable is exported by the harness but nothing in /repo reads it',
              'baseline_off_cmd': 'cd /repo && env -u ELEMENTPATH_VERIF /venv/bin/python -m pytest -ra -q -p no:cacheprovider --timeout=900 --continue-on-collection-errors',
              'source_commits': claims.get('hook_commits', []), 'add_only': True},
    'engines': [{'name': 'lean4-proof+correspondence', 'path': 'lean/ + harness/',
                 'serves_properties': [c['property_id'] for c in checks],
                 'kind_free_text': 'Lean 4 theorems about hand-written executable models (lean/EPV), regenerated tables (translators in harness/), and a differential correspondence check of model and spec against the real elementpath in /repo through a line protocol (lean/Drivers)'}],
    'checks': checks,
    'notes': claims.get('notes', ''),
    'not_applicable': na,
}
(V / 'MANIFEST.json').write_text(json.dumps(m, indent=1) + '\n')
print(f'{len(checks)} claimed, {len(na)} not claimed')

#!/usr/bin/env python3
"""regenerates seeded/README.md from the meta.json files"""
import json
from pathlib import Path
V = Path(__file__).resolve().parent.parent
rows = []
for d in sorted((V / 'seeded').iterdir()):
    if not (d / 'meta.json').exists():
        continue
    m = json.loads((d / 'meta.json').read_text())
    v = m.get('verified_by_coordinator', {})
    log = (d / 'verify.log').read_text().strip().splitlines()[-1] if (d / 'verify.log').exists() else 'not yet re-verified'
    rows.append((d.name, m.get('property', '?'), m.get('summary', '').replace('\n', ' ').replace('|', '/')[:230],
                 str(m.get('needs_to_manifest', '')).replace('\n', ' ').replace('|', '/')[:230],
                 v.get('status', '?'), (v.get('result') or v.get('check', '')).replace('|', '/'), log.split(': ', 1)[-1]))
out = ['# Seeded changes and the checks that catch them', '',
       'Each directory holds one change produced by an independent sub-agent that saw only the property text:',
       '`patch.diff` (apply with `git -C /repo apply`), `demo.py` (passes on the clean tree, fails with the patch),',
       '`meta.json` (what it breaks, what it needs to manifest, what the coordinator ran), `verify.log`',
       '(`tools/verify_seed.sh`: patch applies, suite failing set unchanged, demo clean/patched).',
       'To replay: `tools/run_seed.sh <Cxx> seeded/<dir>` (scratch worktree + `VERIF_REPO`), or apply to /repo, run',
       '`./check <Cxx> --tier quick`, and `git -C /repo checkout -- .`.', '',
       f'{len(rows)} seeded changes; ' + str(sum(1 for r in rows if (r[4].startswith("caught from") or r[4].startswith("caught-first")))) + ' caught from the start, ' +
       str(sum(1 for r in rows if "after" in r[4] or "strengthen" in r[4])) + ' caught after strengthening.', '',
       '| seed | change | needs to manifest | status | how it is caught | suite/demo verification |', '|---|---|---|---|---|---|']
for r in rows:
    out.append(f'| {r[0]} | {r[2]} | {r[3]} | {r[4]} | {r[5]} | {r[6]} |')
(V / 'seeded' / 'README.md').write_text('\n'.join(out) + '\n')
print(len(rows), 'rows')

#!/bin/bash
# tools/run_seed.sh <Cxx> <dir with patch.diff> [tier]  — apply a seeded change in a scratch worktree of
# /repo's HEAD and run the property's check against it (VERIF_REPO), then discard the worktree.
p=$1; d=$(realpath $2); tier=${3:-quick}
WT=/tmp/runseed_$$
git -C /repo worktree add -q $WT HEAD --detach
cd $WT
if ! git apply "$d/patch.diff" 2>/tmp/runseed_apply.log; then
  if ! git apply --3way "$d/patch.diff" 2>>/tmp/runseed_apply.log; then echo "$(basename $d): PATCH DOES NOT APPLY to current HEAD"; cd /; git -C /repo worktree remove --force $WT; exit 3; fi
fi
/venv/bin/python "$d/demo.py" >/dev/null 2>&1; demo=$?
cd /verif
out=$(VERIF_REPO=$WT timeout 1500 ./check $p --tier $tier 2>/tmp/runseed_err.log | grep -v "^KNOWN-FINDING")
rc=$?
echo "$(basename $d): demo_with_patch=$demo check: $(echo "$out" | tail -1)"
cd /; git -C /repo worktree remove --force $WT

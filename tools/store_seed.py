#!/usr/bin/env python3
"""tools/store_seed.py <Cxx> <k> <status> <result text>  — copies /tmp/seed/<Cxx>/out/m<k> to seeded/<Cxx>-m<k> and
records what the coordinator ran and saw."""
import json, shutil, sys
from pathlib import Path
pid, k, status, result = sys.argv[1:5]
rnd = sys.argv[5] if len(sys.argv) > 5 else ''
src = Path(f'/tmp/seed{rnd}/{pid}/out/m{k}')
dst = Path(f'/verif/seeded/{pid}-' + (f'r{rnd}' if rnd else '') + f'm{k}')
dst.mkdir(parents=True, exist_ok=True)
for f in ('patch.diff', 'demo.py', 'meta.json'):
    shutil.copy(src / f, dst / f)
m = json.loads((dst / 'meta.json').read_text())
m['verified_by_coordinator'] = {
    'ran': f'tools/run_seed.sh {pid} seeded/{dst.name}  (scratch worktree of /repo HEAD + patch; VERIF_REPO=<worktree> ./check {pid} --tier quick); tools/verify_seed.sh for suite/demo',
    'status': status, 'result': result}
(dst / 'meta.json').write_text(json.dumps(m, indent=1))
print('stored', dst)

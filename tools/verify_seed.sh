#!/bin/bash
# tools/verify_seed.sh <seeded dir>...   — confirms, in a scratch worktree of /repo, that each seeded
# change applies, keeps the test suite's failing set unchanged, and that its demo passes without /
# fails with the patch.  Appends the result to <dir>/verify.log.
set -u
WT=/tmp/verify_seed_wt_$$
git -C /repo worktree add -q "$WT" HEAD --detach
cd "$WT"
suite() { /venv/bin/python -m pytest -q -p no:cacheprovider --timeout=900 -q 2>&1 | grep -E "^(FAILED|ERROR)" | sed 's/ - .*//' | sort; }
suite > /tmp/verify_seed_base_$$.txt
for d in "$@"; do
  d=$(cd /verif && realpath "$d")
  git checkout -q -- . ; git clean -fdq
  /venv/bin/python "$d/demo.py" >/dev/null 2>&1; clean=$?
  if ! git apply "$d/patch.diff"; then echo "$(basename $d): PATCH DOES NOT APPLY" | tee -a "$d/verify.log"; continue; fi
  /venv/bin/python "$d/demo.py" >/dev/null 2>&1; patched=$?
  suite > /tmp/verify_seed_p_$$.txt
  if diff -q /tmp/verify_seed_base_$$.txt /tmp/verify_seed_p_$$.txt >/dev/null; then s=same; else s=DIFFERENT; fi
  echo "$(basename $d): demo clean=$clean patched=$patched suite-failing-set=$s ($(wc -l < /tmp/verify_seed_p_$$.txt) failing)" | tee -a "$d/verify.log"
done
cd /; git -C /repo worktree remove --force "$WT"; rm -f /tmp/verify_seed_*_$$.txt

#!/usr/bin/env python3
"""Rewrites the generated appendix of DESIGN.md (between the markers) from tools/claims.json,
known_findings.json, evidence/*.json and seeded/*/meta.json, so that the design document states
what was actually built, proved, tied, fixed and found."""
import json, re
from pathlib import Path
V = Path(__file__).resolve().parent.parent
claims = json.loads((V / 'tools/claims.json').read_text())['claims']
kf = json.loads((V / 'known_findings.json').read_text())
props = {json.loads(l)['id']: json.loads(l) for l in (V / 'properties.jsonl').read_text().splitlines() if l.strip()}
seeds = {}
for d in sorted((V / 'seeded').iterdir()):
    if (d / 'meta.json').exists():
        m = json.loads((d / 'meta.json').read_text())
        seeds.setdefault(m.get('property', d.name[:3]), []).append((d.name, m.get('verified_by_coordinator', {}).get('status', '?')))
out = ['<!-- BEGIN GENERATED APPENDIX (tools/gen_design_appendix.py) -->', '',
       '## 10. As built — per property (generated from claims, evidence, findings and seeded changes)', '',
       'For each property: what the check decides (the claim recorded in MANIFEST.json), the trusted base and',
       'what is partial, the deciding technique, the measured size of the last committed quick run, the',
       'defects repaired by `fix:` commits in /repo, the known findings that remain (each with a decidable',
       'trigger predicate that is the hypothesis of a `…_partial` theorem), and the seeded changes.',
       'Details, theorem lists in plain words, model ↔ code maps, corrected false alarms and mutation',
       'self-tests are in `docs/Cxx.md`.', '']
for pid in sorted(props):
    c = claims.get(pid)
    out.append(f'### {pid} — {props[pid]["title"]}')
    out.append('')
    if not c:
        out.append('*not claimed*'); out.append(''); continue
    ev = V / 'evidence' / f'{pid}.json'
    if ev.exists():
        e = json.loads(ev.read_text()); cov = e['coverage']
        out.append(f'*Last committed run*: tier {e["tier"]}, seed {e["seed"]}, {cov.get("obligations")} theorem obligations / '
                   f'{cov.get("discharged")} discharged and audited, {cov.get("evaluations")} correspondence evaluations '
                   f'({cov.get("distinct_nontrivial")} distinct non-trivial), {e["wall_s"]} s.')
        out.append('')
    out.append(f'*Decides*: {c["text"]}')
    out.append('')
    out.append(f'*Trusted / partial*: {c["note"]}')
    out.append('')
    out.append(f'*Technique*: {c["technique"]}.')
    out.append('')
    fx = [f for f in kf.get('fixed', []) if f.get('property') == pid]
    if fx:
        out.append(f'*Repaired in /repo ({len(fx)} `fix:` commits)*:')
        for f in fx:
            out.append(f'- `{f.get("commit", "?")}` {f["id"]}: {f["what"][:300]}')
        out.append('')
    fn = [f for f in kf.get('findings', []) if f.get('property') == pid]
    if fn:
        out.append(f'*Known findings ({len(fn)})*:')
        for f in fn:
            out.append(f'- **{f["id"]}** {f["what"][:300]} — *not fixed because*: {str(f.get("why_not_fixed", "see docs"))[:260]}')
        out.append('')
    if pid in seeds:
        out.append('*Seeded changes*: ' + '; '.join(f'{n} ({s})' for n, s in seeds[pid]) + '.')
        out.append('')
out.append('<!-- END GENERATED APPENDIX -->')
text = '\n'.join(out) + '\n'
p = V / 'DESIGN.md'
s = p.read_text()
if '<!-- BEGIN GENERATED APPENDIX' in s:
    s = re.sub(r'<!-- BEGIN GENERATED APPENDIX.*<!-- END GENERATED APPENDIX -->\n', lambda m: text, s, flags=re.S)
else:
    s = s.rstrip('\n') + '\n\n---------------------------------------------------------------------------------------\n\n' + text
p.write_text(s)
print('appendix written:', len(text), 'chars')

#!/usr/bin/env python3
"""tools/phase5_claims.py — appends the phase-5 sentences (tools/phase5_claims.json: {Cxx: {text, note}}) to
tools/claims.json once (idempotent: an entry already contained is skipped)."""
import json
from pathlib import Path
T = Path('/verif/tools')
add = json.loads((T / 'phase5_claims.json').read_text())
c = json.loads((T / 'claims.json').read_text())
for pid, a in add.items():
    e = c['claims'][pid]
    for old, new in a.get('replace_note', []):
        e['note'] = e['note'].replace(old, new)
    for k in ('text', 'note'):
        s = a.get(k, '').strip()
        if s and s not in e[k]:
            e[k] = e[k].rstrip() + (' PHASE 5 — ' if k == 'text' else ' Phase 5: ') + s
(T / 'claims.json').write_text(json.dumps(c, indent=1, ensure_ascii=False))
print('claims updated:', ' '.join(sorted(add)))

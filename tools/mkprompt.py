import sys
t=open('/verif/docs/agent_prompt.txt').read()
pid=sys.argv[1]; notes=sys.stdin.read()
print(t.replace('{ID}',pid).replace('{NOTES}',notes))

"""
One-off line tracing for C17 (PHASE2 step 3): which lines of the anchored functions does the
correspondence run execute?   usage:  VERIF_REPO=<tree> /venv/bin/python tools/c17_trace.py
(no proofs are built; the driver is used as in a normal run)
"""
import sys, os, types, linecache
from pathlib import Path
sys.path.insert(0, str(Path(__file__).resolve().parent.parent))
from harness import common
common.use_repo()
import harness.c17 as h

REPO = str(common.REPO)
TARGETS = {
    'elementpath/helpers.py': ['escape_json_string', 'unescape_json_string', 'is_xml_codepoint'],
    'elementpath/serialization.py': ['serialize_to_json', 'serialize_to_xml', 'iter_normalized', 'default'],
    'elementpath/xpath31/_xpath31_functions.py': ['evaluate__parse_json_functions', 'decode_value', 'json_object_pairs_to_map',
                                                   'evaluate__xml_to_json', 'elem_to_json', 'check_attributes', 'check_escapes',
                                                   'evaluate__json_to_xml', 'escape_string', 'value_to_etree', 'json_object_to_etree'],
    'elementpath/xpath30/_xpath30_functions.py': ['evaluate__parse_xml', 'evaluate__parse_xml_fragment', 'evaluate__serialize'],
}
files = {os.path.join(REPO, k): set(v) for k, v in TARGETS.items()}
hit: dict = {}
codes: dict = {}


def tracer(frame, event, arg):
    co = frame.f_code
    names = files.get(co.co_filename)
    if names is None or co.co_name not in names:
        return None
    codes[(co.co_filename, co.co_name, co.co_firstlineno)] = co

    def local(frame, event, arg):
        if event == 'line':
            hit.setdefault((co.co_filename, co.co_name, co.co_firstlineno), set()).add(frame.f_lineno)
        return local
    return local


run = common.Run('C17', 'quick', 0)
run.prove = lambda *a, **k: True
run.finish = lambda *a, **k: 0
sys.settrace(tracer)
try:
    h.body(run)
finally:
    sys.settrace(None)
print('evaluations', run.stats.evaluations, 'disagreements', len(run.disagreements))
for key in sorted(codes):
    fn, name, first = key
    co = codes[key]
    lines = {l for _, _, l in co.co_lines() if l is not None and l != first}
    missed = sorted(lines - hit.get(key, set()))
    print('%s:%d %s: %d/%d lines executed' % (os.path.relpath(fn, REPO), first, name, len(lines) - len(missed), len(lines)))
    for l in missed:
        print('      %5d  %s' % (l, linecache.getline(fn, l).rstrip()))

#!/bin/bash
# tools/seed5.sh <Cxx> <k> [round=5] — round-N intake of one seeded change: copy /tmp/seed/<Cxx>/r<N>/m<k> to
# seeded/<Cxx>-r<N>m<k>, confirm suite/demo in a scratch worktree (tools/verify_seed.sh), run the property's
# quick check against the patched worktree (tools/run_seed.sh) and record what was seen in meta.json.
p=$1; k=$2; r=${3:-5}
src=/tmp/seed/$p/r$r/m$k; dst=/verif/seeded/$p-r${r}m$k
mkdir -p $dst; [ -f $dst/meta.json ] || cp $src/patch.diff $src/demo.py $src/meta.json $dst/
cd /verif
v=$(tools/verify_seed.sh seeded/$p-r${r}m$k 2>&1 | tail -1)
c=$(tools/run_seed.sh $p seeded/$p-r${r}m$k 2>&1 | tail -1)
python3 - "$dst" "$p" "$v" "$c" <<'PY'
import json,sys
dst,p,v,c=sys.argv[1:5]
m=json.load(open(dst+'/meta.json'))
caught='VIOLATION' in c
prev=m.get('verified_by_coordinator')
if prev and prev.get('status')=='missed-first-run' and 'first_run' not in m:
    m['first_run']=prev
m['verified_by_coordinator']={'ran':f'tools/verify_seed.sh (suite + demo with/without patch in a scratch worktree of /repo HEAD); tools/run_seed.sh {p} (VERIF_REPO=<worktree+patch> ./check {p} --tier quick)',
  'verify':v,'check':c,'status':('caught-after-strengthening' if 'first_run' in m else 'caught-first-run') if caught else 'missed-first-run'}
json.dump(m,open(dst+'/meta.json','w'),indent=1)
print(p,dst.split('/')[-1],'CAUGHT' if caught else 'MISSED','|',v,'|',c[-200:])
PY

/-
Driver for C11.  One request per line, `k=v` fields separated by spaces:

  op=mk    V=<10|11> Y=<lexical year> MO= D= H= MI= S= US= TZ=<minutes|n> [DATE=1]
  op=todelta A=<val>
  op=rt    A=<val> [DATE=1]                 fromdelta(todelta(A)) (timezone dropped, UTC instant)
  op=fromdelta T=<µs> [DATE=1]
  op=add|sub A=<val> DUR=<µs> [DATE=1]      A ± dayTimeDuration
  op=addym A=<val> MONTHS=<int> [DATE=1]    (MONTHS already signed)
  op=diff  A=<val> B=<val>
  op=cmp   A=<val> B=<val> [ITZ=<minutes>]  answers lt,le,eq,gt,ge as 5 bits; ITZ = implicit timezone of
                                           the dynamic context; extra flag inN=1 iff inside the trigger of F11n
  op=adjust A=<val> TZ=<minutes|n>          adjust-dateTime-to-timezone
  op=adjustdate A=<val> TZ=<minutes|n>      adjust-date-to-timezone
  op=comp  A=<val> V=<10|11>               year;month;day;hours;minutes;seconds(µs);timezone
  op=lex   V=<10|11> Y=<lexical year>       internal year and its string/year-from form back
  op=pyord N=<ordinal>                      CPython date.fromordinal / toordinal (trusted component)
  op=durcmp M1= S1= M2= S2=                 duration comparison (lt,le,gt,ge bits; µs)

<val> = `Y:M:D:US:TZ` with the library's internal year number and TZ in minutes or `n`.
Answer: `model=<..> spec=<..> inK=<0|1>`; errors `ERR:ValueError|OverflowError|TypeError`;
`inK=1` iff the input lies outside the domain of the corresponding theorem (trigger of F11d).
-/
import EPV.Proto
import EPV.Lemmas.CalendarOps
open EPV.Proto EPV.Cal
open EPV.Timeline (Val)

def parseTz (s : String) : Option (Option Int) :=
  if s == "n" then some none else (int? s).map some

def parseVal (s : String) : Option DT :=
  match s.splitOn ":" with
  | [y, m, d, u, z] => do
    let y ← int? y; let m ← int? m; let d ← int? d; let u ← int? u; let z ← parseTz z
    pure ⟨y, m, d, u, z⟩
  | _ => none

def showTz : Option Int → String
  | none => "n"
  | some z => toString z

def showDT (v : DT) : String := s!"{v.year}:{v.month}:{v.day}:{v.us}:{showTz v.tz}"

/-- specification values are printed with the internal year number (= XSD 1.0 lexical numbering) -/
def showVal (v : Val) : String :=
  s!"{EPV.Timeline.lex10OfAstro v.year}:{v.month}:{v.day}:{v.us}:{showTz v.tz}"

def showErr : Err → String
  | .value => "ERR:ValueError"
  | .overflow => "ERR:OverflowError"
  | .type => "ERR:TypeError"

def showR {α} (f : α → String) : Except Err α → String
  | .ok a => f a
  | .error e => showErr e

def b01 (b : Bool) : String := if b then "1" else "0"

def out (m s : String) (inK : Bool) : String := s!"model={m} spec={s} inK={b01 inK}"

def tdOk (t : Int) : Bool := decide (TdOk t)

/-- |internal year| ≤ 2^31 (constructor's `OverflowError("year overflow")`, an accepted limit) -/
def yearOk (v : Val) : Bool := (EPV.Timeline.lex10OfAstro v.year).natAbs ≤ 2 ^ 31

def answer (line : String) : String :=
  let fs := fields line
  let f := field fs
  let isDate := f "DATE" == "1"
  let getA := parseVal (f "A")
  let getB := parseVal (f "B")
  match f "op" with
  | "mk" =>
    match int? (f "Y"), int? (f "MO"), int? (f "D"), int? (f "H"), int? (f "MI"), int? (f "S"), int? (f "US"), parseTz (f "TZ") with
    | some y, some mo, some d, some h, some mi, some s, some us, some tz =>
      let v11 := f "V" == "11"
      let model := (lexYear v11 y) >>= fun yy => mk yy mo d h mi s us tz
      let astro := if v11 then EPV.Timeline.astroOfLex11 y else EPV.Timeline.astroOfLex10 y
      let spec : String := match astro with
        | none => "ERR:ValueError"
        | some a =>
          let fieldsOk := decide (1 ≤ mo ∧ mo ≤ 12 ∧ 1 ≤ d ∧ d ≤ EPV.Timeline.monthLen a mo) &&
            ((decide (0 ≤ h ∧ h ≤ 23 ∧ 0 ≤ mi ∧ mi ≤ 59 ∧ 0 ≤ s ∧ s ≤ 59 ∧ 0 ≤ us ∧ us ≤ 999999)) ||
             (h == 24 && mi == 0 && s == 0 && us == 0))
          if fieldsOk then showVal (EPV.Timeline.ofFields a mo d h mi s us tz) else "ERR:ValueError"
      let inK := match astro with
        | some a => !(yearOk (EPV.Timeline.ofFields a mo d (if h == 24 then 24 else 0) 0 0 0 tz)) || !(yearOk ⟨a, 1, 1, 0, none⟩)
        | none => false
      out (showR showDT model) spec inK
    | _, _, _, _, _, _, _, _ => "bad-mk"
  | "todelta" =>
    match getA with
    | some a => out (showR toString (todelta a)) (toString (absV a).instantC) (!tdOk (absV a).instantC)
    | none => "bad-val"
  | "rt" =>
    match getA with
    | some a =>
      let sv := absV a
      let spec := EPV.Timeline.ofLocal sv.instantC none
      let spec := if isDate then { spec with us := 0 } else spec
      out (showR showDT (todelta a >>= fromdelta isDate)) (showVal spec) (!tdOk sv.instantC)
    | none => "bad-val"
  | "fromdelta" =>
    match int? (f "T") with
    | some t =>
      let spec := EPV.Timeline.ofLocal t none
      let spec := if isDate then { spec with us := 0 } else spec
      out (showR showDT (fromdelta isDate t)) (showVal spec) (!tdOk t)
    | none => "bad-int"
  | "add" | "sub" =>
    match getA, int? (f "DUR") with
    | some a, some dur =>
      let neg := f "op" == "sub"
      let sv := absV a
      let sd := if neg then -dur else dur
      let spec := if isDate then EPV.Timeline.addDurDate sv sd else EPV.Timeline.addDur sv sd
      let inK := !(tdOk sv.instantC && tdOk dur && tdOk (sv.instantC + sd) && tdOk (sv.localC + sd))
      out (showR showDT (addDur isDate a dur neg)) (showVal spec) inK
    | _, _ => "bad-args"
  | "addym" =>
    match getA, int? (f "MONTHS") with
    | some a, some ms =>
      let spec := EPV.Timeline.addYM (absV a) ms
      out (showR showDT (addYM isDate a ms)) (showVal spec) (!yearOk spec)
    | _, _ => "bad-args"
  | "diff" =>
    match getA, getB with
    | some a, some b =>
      let sa := absV a; let sb := absV b
      let inRange (v : DT) : Bool := decide (1 ≤ v.year ∧ v.year ≤ 9999)
      let inK := !(inRange a && inRange b) && !(tdOk sa.instantC && tdOk sb.instantC && tdOk (sa.instantC - sb.instantC))
      out (showR toString (diff a b)) (toString (EPV.Timeline.diff sa sb)) inK
    | _, _ => "bad-args"
  | "cmp" =>
    match getA, getB, parseTz (f "ITZ") with
    | some a, some b, itz? =>
      -- ITZ = implicit timezone of the dynamic context (absent / n: none, the library's UTC default)
      let itz : Int := match itz? with | some (some z) => z | _ => 0
      let ia := (absV a).instantI itz; let ib := (absV b).instantI itz
      let ops := [Cmp.lt, Cmp.le, Cmp.eq, Cmp.gt, Cmp.ge]
      let m := bits (ops.map fun o => compare o a b)
      let s := bits (ops.map fun o => o.op ia ib)
      let inK := decide (a.year ≠ b.year ∧ (a.year - b.year).natAbs ≤ 2) && !(tdOk (absV a).instantC && tdOk (absV b).instantC)
      let inN := !(decide (ImplicitTzIrrelevant a b itz))
      out m s inK ++ s!" inN={b01 inN}"
    | _, _, _ => "bad-args"
  | "adjust" =>
    match getA, parseTz (f "TZ") with
    | some a, some tz =>
      let sv := absV a
      let spec := EPV.Timeline.adjust sv tz
      let inK := match a.tz, tz with
        | some _, some z => !(tdOk sv.instantC && tdOk (sv.instantC + z * UM))
        | _, _ => false
      out (showR showDT (adjustDateTime a tz)) (showVal spec) inK
    | _, _ => "bad-args"
  | "adjustdate" =>
    match getA, parseTz (f "TZ") with
    | some a, some tz =>
      let sv := absV a
      let spec := EPV.Timeline.adjustDate sv tz
      let inK := match a.tz, tz with
        | some z0, some z => !(decide (AddDomain a ((z - z0) * UM) false))
        | _, _ => false
      out (showR showDT (adjustDate a tz)) (showVal spec) inK
    | _, _ => "bad-args"
  | "comp" =>
    match getA with
    | some a =>
      let v11 := f "V" == "11"
      let sh (l : List Int) (tz : Option Int) : String := ";".intercalate (l.map toString) ++ ";" ++ showTz tz
      out (sh (components v11 a) a.tz) (sh (EPV.Timeline.components v11 (absV a)) (absV a).tz) false
    | none => "bad-val"
  | "lex" =>
    match int? (f "Y") with
    | some y =>
      let v11 := f "V" == "11"
      let m := match lexYear v11 y with
        | .ok yy => s!"{yy};{isoYear v11 yy};{yearFrom v11 yy}"
        | .error e => showErr e
      let astro := if v11 then EPV.Timeline.astroOfLex11 y else EPV.Timeline.astroOfLex10 y
      let s := match astro with
        | some a => s!"{EPV.Timeline.lex10OfAstro a};{y};{y}"
        | none => "ERR:ValueError"
      out m s false
    | none => "bad-int"
  | "pyord" =>
    match int? (f "N") with
    | some n =>
      let (y, m, d) := pyOrd2ymd n
      let (a, sm, sd) := EPV.Timeline.civil (n - 1)
      out s!"{y}:{m}:{d};{pyYmd2ord y m d}" s!"{a}:{sm}:{sd};{EPV.Timeline.dayNumC a sm sd + 1}" false
    | none => "bad-int"
  | "durcmp" =>
    match int? (f "M1"), int? (f "S1"), int? (f "M2"), int? (f "S2") with
    | some m1, some s1, some m2, some s2 =>
      let ops := [Cmp.lt, Cmp.le, Cmp.gt, Cmp.ge]
      let m := bits (ops.map fun o => durationCmp o m1 s1 m2 s2)
      let s := bits (ops.map fun o => EPV.Timeline.durationCmp (o.op) m1 s1 m2 s2)
      out m s false
    | _, _, _, _ => "bad-args"
  | _ => "bad-op"

def main : IO Unit := mainLoop answer

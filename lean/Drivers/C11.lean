/-
Driver for C11.  One request per line, `k=v` fields separated by spaces:

  op=mk    V=<10|11> Y=<lexical year> MO= D= H= MI= S= US= TZ=<minutes|n> [DATE=1]
  op=todelta A=<val>
  op=rt    A=<val> [DATE=1]                 fromdelta(todelta(A)) (timezone dropped, UTC instant)
  op=fromdelta T=<µs> [DATE=1]
  op=add|sub A=<val> DUR=<µs> [DATE=1]      A ± dayTimeDuration
  op=addym A=<val> MONTHS=<int> [DATE=1]    (MONTHS already signed)
  op=diff  A=<val> B=<val>
  op=cmp   A=<val> B=<val> [ITZ=<minutes>]  answers lt,le,eq,gt,ge as 5 bits; ITZ = implicit timezone of
                                           the dynamic context; extra flag inN=1 iff inside the trigger of F11n
  op=tmk H= MI= S= US= TZ=                 xs:time constructor (time values are 2000:1:1:US:TZ)
  op=tadd|tsub A=<time> DUR=<µs>            time ± dayTimeDuration
  op=tdiff A=<time> B=<time>   op=tcmp A= B= [ITZ=]   op=tadjust A=<time> TZ=
  op=gmk K=<gYear|gYearMonth|gMonth|gMonthDay|gDay> V= Y= MO= D= TZ=
  op=adjust A=<val> TZ=<minutes|n>          adjust-dateTime-to-timezone
  op=adjustdate A=<val> TZ=<minutes|n>      adjust-date-to-timezone
  op=comp  A=<val> V=<10|11>               year;month;day;hours;minutes;seconds(µs);timezone
  op=durop K=<ymadd|ymsub|dtadd|dtsub|ymmul|ymdiv|dtmul|dtdiv> X=<months|µs> Y=<other duration> N= D=   number = N/D
  op=lexdt K=<dateTime|date|time> V= S=<code points>   fromstring on the text + str() of the result
  op=lex   V=<10|11> Y=<lexical year>       internal year and its string/year-from form back
  op=tzlex S=<code points>                 Timezone.fromstring on the text + str() of the result; spec = XSD timezoneFrag
                                           lexical/canonical mapping after white-space collapse; inZ=1 iff inside the trigger of F11z
  op=tztab                                 the white-space and decimal-digit tables of the `int()`/`strip()` model
  op=pyord N=<ordinal>                      CPython date.fromordinal / toordinal (trusted component)
  op=durcmp M1= S1= M2= S2=                 duration comparison (lt,le,gt,ge bits; µs)

<val> = `Y:M:D:US:TZ` with the library's internal year number and TZ in minutes or `n`.
Answer: `model=<..> spec=<..> inK=<0|1>`; errors `ERR:ValueError|OverflowError|TypeError`;
`inK=1` iff the input lies outside the domain of the corresponding theorem (trigger of F11d).
-/
import EPV.Proto
import EPV.Lemmas.CalendarTime
import EPV.Model.CalendarLex
import EPV.Model.TzLex
import EPV.Spec.TzLex
import EPV.Model.TzLexFinding
open EPV.Proto EPV.Cal
open EPV.Timeline (Val)

def parseTz (s : String) : Option (Option Int) :=
  if s == "n" then some none else (int? s).map some

def parseVal (s : String) : Option DT :=
  match s.splitOn ":" with
  | [y, m, d, u, z] => do
    let y ← int? y; let m ← int? m; let d ← int? d; let u ← int? u; let z ← parseTz z
    pure ⟨y, m, d, u, z⟩
  | _ => none

def showTz : Option Int → String
  | none => "n"
  | some z => toString z

def showDT (v : DT) : String := s!"{v.year}:{v.month}:{v.day}:{v.us}:{showTz v.tz}"

/-- specification values are printed with the internal year number (= XSD 1.0 lexical numbering) -/
def showVal (v : Val) : String :=
  s!"{EPV.Timeline.lex10OfAstro v.year}:{v.month}:{v.day}:{v.us}:{showTz v.tz}"

def showErr : Err → String
  | .value => "ERR:ValueError"
  | .overflow => "ERR:OverflowError"
  | .type => "ERR:TypeError"
  | .zerodiv => "ERR:ZeroDivisionError"

def showR {α} (f : α → String) : Except Err α → String
  | .ok a => f a
  | .error e => showErr e

def b01 (b : Bool) : String := if b then "1" else "0"

def out (m s : String) (inK : Bool) : String := s!"model={m} spec={s} inK={b01 inK}"

def tdOk (t : Int) : Bool := decide (TdOk t)

/-- |internal year| ≤ 2^31 (constructor's `OverflowError("year overflow")`, an accepted limit) -/
def yearOk (v : Val) : Bool := (EPV.Timeline.lex10OfAstro v.year).natAbs ≤ 2 ^ 31

def answer (line : String) : String :=
  let fs := fields line
  let f := field fs
  let isDate := f "DATE" == "1"
  let getA := parseVal (f "A")
  let getB := parseVal (f "B")
  match f "op" with
  | "mk" =>
    match int? (f "Y"), int? (f "MO"), int? (f "D"), int? (f "H"), int? (f "MI"), int? (f "S"), int? (f "US"), parseTz (f "TZ") with
    | some y, some mo, some d, some h, some mi, some s, some us, some tz =>
      let v11 := f "V" == "11"
      let model := (lexYear v11 y) >>= fun yy => mk yy mo d h mi s us tz
      let astro := if v11 then EPV.Timeline.astroOfLex11 y else EPV.Timeline.astroOfLex10 y
      let spec : String := match astro with
        | none => "ERR:ValueError"
        | some a =>
          let fieldsOk := decide (1 ≤ mo ∧ mo ≤ 12 ∧ 1 ≤ d ∧ d ≤ EPV.Timeline.monthLen a mo) &&
            ((decide (0 ≤ h ∧ h ≤ 23 ∧ 0 ≤ mi ∧ mi ≤ 59 ∧ 0 ≤ s ∧ s ≤ 59 ∧ 0 ≤ us ∧ us ≤ 999999)) ||
             (h == 24 && mi == 0 && s == 0 && us == 0))
          if fieldsOk then showVal (EPV.Timeline.ofFields a mo d h mi s us tz) else "ERR:ValueError"
      let inK := match astro with
        | some a => !(yearOk (EPV.Timeline.ofFields a mo d (if h == 24 then 24 else 0) 0 0 0 tz)) || !(yearOk ⟨a, 1, 1, 0, none⟩)
        | none => false
      out (showR showDT model) spec inK
    | _, _, _, _, _, _, _, _ => "bad-mk"
  | "todelta" =>
    match getA with
    | some a => out (showR toString (todelta a)) (toString (absV a).instantC) (!tdOk (absV a).instantC)
    | none => "bad-val"
  | "rt" =>
    match getA with
    | some a =>
      let sv := absV a
      let spec := EPV.Timeline.ofLocal sv.instantC none
      let spec := if isDate then { spec with us := 0 } else spec
      out (showR showDT (todelta a >>= fromdelta isDate)) (showVal spec) (!tdOk sv.instantC)
    | none => "bad-val"
  | "fromdelta" =>
    match int? (f "T") with
    | some t =>
      let spec := EPV.Timeline.ofLocal t none
      let spec := if isDate then { spec with us := 0 } else spec
      out (showR showDT (fromdelta isDate t)) (showVal spec) (!tdOk t)
    | none => "bad-int"
  | "add" | "sub" =>
    match getA, int? (f "DUR") with
    | some a, some dur =>
      let neg := f "op" == "sub"
      let sv := absV a
      let sd := if neg then -dur else dur
      let spec := if isDate then EPV.Timeline.addDurDate sv sd else EPV.Timeline.addDur sv sd
      let inK := !(tdOk sv.instantC && tdOk dur && tdOk (sv.instantC + sd) && tdOk (sv.localC + sd))
      out (showR showDT (addDur isDate a dur neg)) (showVal spec) inK
    | _, _ => "bad-args"
  | "addym" =>
    match getA, int? (f "MONTHS") with
    | some a, some ms =>
      let spec := EPV.Timeline.addYM (absV a) ms
      out (showR showDT (addYM isDate a ms)) (showVal spec) (!yearOk spec)
    | _, _ => "bad-args"
  | "diff" =>
    match getA, getB with
    | some a, some b =>
      let sa := absV a; let sb := absV b
      let inRange (v : DT) : Bool := decide (1 ≤ v.year ∧ v.year ≤ 9999)
      let inK := !(inRange a && inRange b) && !(tdOk sa.instantC && tdOk sb.instantC && tdOk (sa.instantC - sb.instantC))
      out (showR toString (diff a b)) (toString (EPV.Timeline.diff sa sb)) inK
    | _, _ => "bad-args"
  | "cmp" | "tcmp" =>
    match getA, getB, parseTz (f "ITZ") with
    | some a, some b, itz? =>
      -- ITZ = implicit timezone of the dynamic context (absent / n: none)
      let itzo : Option Int := match itz? with | some z => z | none => none
      let itz : Int := itzo.getD 0
      let isT := f "op" == "tcmp"
      let ia := if isT then (absT a).key itz else (absV a).instantI itz
      let ib := if isT then (absT b).key itz else (absV b).instantI itz
      let ops := [Cmp.lt, Cmp.le, Cmp.eq, Cmp.gt, Cmp.ge]
      let m := bits (ops.map fun o => compareCtx itzo o a b)
      let m0 := bits (ops.map fun o => compare o a b)     -- `_compare` without the implicit timezone
      let s := bits (ops.map fun o => o.op ia ib)
      let fa := fillTz itzo a; let fb := fillTz itzo b
      let inK := decide (fa.year ≠ fb.year ∧ (fa.year - fb.year).natAbs ≤ 2) && !(tdOk (absV fa).instantC && tdOk (absV fb).instantC)
      let inN := !(decide (ImplicitTzIrrelevant a b itz))
      out m s inK ++ s!" inN={b01 inN} model0={m0}"
    | _, _, _ => "bad-args"
  | "tmk" =>
    match int? (f "H"), int? (f "MI"), int? (f "S"), int? (f "US"), parseTz (f "TZ") with
    | some h, some mi, some s, some us, some tz =>
      let ok := (decide (0 ≤ h ∧ h ≤ 23 ∧ 0 ≤ mi ∧ mi ≤ 59 ∧ 0 ≤ s ∧ s ≤ 59 ∧ 0 ≤ us ∧ us ≤ 999999)) ||
                (h == 24 && mi == 0 && s == 0 && us == 0)
      let spec := if ok then s!"2000:1:1:{if h == 24 then 0 else ((h * 60 + mi) * 60 + s) * 1000000 + us}:{showTz tz}" else "ERR:ValueError"
      out (showR showDT (timeMk h mi s us tz)) spec false
    | _, _, _, _, _ => "bad-args"
  | "tadd" | "tsub" =>
    match getA, int? (f "DUR") with
    | some a, some dur =>
      let neg := f "op" == "tsub"
      let sd := if neg then -dur else dur
      let r := (absT a).add sd
      out (showR showDT (timeAddDur a dur neg)) s!"2000:1:1:{r.us}:{showTz r.tz}" false
    | _, _ => "bad-args"
  | "tdiff" =>
    match getA, getB with
    | some a, some b => out (toString (timeDiff a b)) (toString (EPV.Timeline.TVal.diff 0 (absT a) (absT b))) false
    | _, _ => "bad-args"
  | "tadjust" =>
    match getA, parseTz (f "TZ") with
    | some a, some tz =>
      let r := (absT a).adjust tz
      out (showR showDT (timeAdjust a tz)) s!"2000:1:1:{r.us}:{showTz r.tz}" false
    | _, _ => "bad-args"
  | "gmk" =>
    match int? (f "Y"), int? (f "MO"), int? (f "D"), parseTz (f "TZ") with
    | some y, some mo, some d, some tz =>
      let v11 := f "V" == "11"
      let k? : Option GKind := match f "K" with
        | "gYear" => some .gYear | "gYearMonth" => some .gYearMonth | "gMonth" => some .gMonth
        | "gMonthDay" => some .gMonthDay | "gDay" => some .gDay | _ => none
      match k? with
      | none => "bad-kind"
      | some k =>
        let hasYear := k == .gYear || k == .gYearMonth
        let model := if hasYear then (lexYear v11 y) >>= fun yy => gMk k yy mo d tz else gMk k 0 mo d tz
        let astro? : Option Int := if hasYear then (if v11 then EPV.Timeline.astroOfLex11 y else EPV.Timeline.astroOfLex10 y) else some 2000
        let m' : Int := if k == .gYear || k == .gDay then 1 else mo
        let d' : Int := if k == .gMonthDay || k == .gDay then d else 1
        let spec := match astro? with
          | none => "ERR:ValueError"
          | some a =>
            if decide (1 ≤ m' ∧ m' ≤ 12 ∧ 1 ≤ d' ∧ d' ≤ EPV.Timeline.monthLen a m') then showVal ⟨a, m', d', 0, tz⟩
            else "ERR:ValueError"
        out (showR showDT model) spec false
    | _, _, _, _ => "bad-args"
  | "adjust" =>
    match getA, parseTz (f "TZ") with
    | some a, some tz =>
      let sv := absV a
      let spec := EPV.Timeline.adjust sv tz
      let inK := match a.tz, tz with
        | some _, some z => !(tdOk sv.instantC && tdOk (sv.instantC + z * UM))
        | _, _ => false
      out (showR showDT (adjustDateTime a tz)) (showVal spec) inK
    | _, _ => "bad-args"
  | "adjustdate" =>
    match getA, parseTz (f "TZ") with
    | some a, some tz =>
      let sv := absV a
      let spec := EPV.Timeline.adjustDate sv tz
      let inK := match a.tz, tz with
        | some z0, some z => !(decide (AddDomain a ((z - z0) * UM) false))
        | _, _ => false
      out (showR showDT (adjustDate a tz)) (showVal spec) inK
    | _, _ => "bad-args"
  | "comp" =>
    match getA with
    | some a =>
      let v11 := f "V" == "11"
      let sh (l : List Int) (tz : Option Int) : String := ";".intercalate (l.map toString) ++ ";" ++ showTz tz
      -- PIC=1: the components as the picture formatter of fn:format-dateTime shows them ([Z] of a value without timezone)
      let mtz := if f "PIC" == "1" then pictureTz a.tz else a.tz
      out (sh (components v11 a) mtz) (sh (EPV.Timeline.components v11 (absV a)) (absV a).tz) false
    | none => "bad-val"
  | "durop" =>
    match int? (f "X"), int? (f "Y"), int? (f "N"), int? (f "D") with
    | some x, some y, some n, some d =>
      let showDur (r : Except Err Dur) : String := match r with
        | .ok v => s!"{v.months};{v.us}"
        | .error e => showErr e
      let lim (months us : Int) : String :=
        if months.natAbs > 2 ^ 31 || us.natAbs > 2 ^ 63 * 1000000 then "ERR:OverflowError" else s!"{months};{us}"
      if d ≤ 0 then "bad-den" else
      match f "K" with
      | "ymadd" => out (showDur (ymAdd x y false)) (lim (x + y) 0) false
      | "ymsub" => out (showDur (ymAdd x y true)) (lim (x - y) 0) false
      | "dtadd" => out (showDur (dtAdd x y false)) (lim 0 (x + y)) false
      | "dtsub" => out (showDur (dtAdd x y true)) (lim 0 (x - y)) false
      | "ymmul" => out (showDur (ymMul x n d)) (lim (EPV.Timeline.roundHalfUp (x * n) d) 0) false
      | "dtmul" => out (showDur (dtMul x n d)) (lim 0 (EPV.Timeline.roundNearestEven (x * n) d)) false
      | "ymdiv" =>
        let spec := if n = 0 then "ERR:ZeroDivisionError" else
          lim (if n > 0 then EPV.Timeline.roundHalfUp (x * d) n else EPV.Timeline.roundHalfUp (-(x * d)) (-n)) 0
        out (showDur (ymDiv x n d)) spec false
      | "dtdiv" =>
        let spec := if n = 0 then "ERR:ZeroDivisionError" else
          lim 0 (if n > 0 then EPV.Timeline.roundNearestEven (x * d) n else EPV.Timeline.roundNearestEven (-(x * d)) (-n))
        out (showDur (dtDiv x n d)) spec false
      | _ => "bad-kind"
    | _, _, _, _ => "bad-args"
  | "lexdt" =>
    -- S = code points of the string, comma separated; answer: parsed value and its string form (code points)
    let cps := (f "S").splitOn "," |>.filterMap (fun x => nat? x)
    let str : List Char := cps.map Char.ofNat
    let v11 := f "V" == "11"
    let showS (l : List Char) : String := ",".intercalate (l.map fun c => toString c.toNat)
    let gk (k : GKind) := (gOfLex k v11 str).map fun v => (v, fmtG k v11 v)
    let r := match f "K" with
      | "dateTime" => (dateTimeOfLex v11 str).map fun v => (v, fmtDateTime v11 v)
      | "date" => (dateOfLex v11 str).map fun v => (v, fmtDate v11 v)
      | "gYear" => gk .gYear | "gYearMonth" => gk .gYearMonth | "gMonth" => gk .gMonth
      | "gMonthDay" => gk .gMonthDay | "gDay" => gk .gDay
      | _ => (timeOfLex str).map fun v => (v, fmtTime v)
    match r with
    | .ok (v, t) => s!"model={showDT v}|{showS t} spec=- inK=0"
    | .error e => s!"model={showErr e} spec=- inK=0"
  | "tzlex" =>
    let cps := (f "S").splitOn "," |>.filterMap (fun x => nat? x)
    let str : List Char := cps.map Char.ofNat
    let showS (l : List Char) : String := ",".intercalate (l.map fun c => toString c.toNat)
    let model := match EPV.TzLex.fromString str with
      | .ok m => s!"{m}|{showS (EPV.TzLex.toStr m)}"
      | .valueError => "ERR:ValueError"
      | .overflowError => "ERR:OverflowError"
    let spec := match EPV.TzLexSpec.parseWs str with
      | some m => s!"{m}|{showS (EPV.TzLexSpec.canon m)}"
      | none => "ERR:ValueError"
    let br := match EPV.TzLexSpec.parseWs str, EPV.TzLex.fromString str with
      | some _, _ => if EPV.TzLexSpec.collapse str == ['Z'] then "Z" else "grammar"
      | none, .ok _ => "pinned"
      | none, .valueError => "reject"
      | none, .overflowError => "overflow"
    s!"model={model} spec={spec} inK=0 inZ={if EPV.TzLex.pinnedZero str then 1 else 0} br={br}"
  | "tztab" =>
    let l (xs : List Nat) : String := ",".intercalate (xs.map toString)
    s!"model={l EPV.TzLex.pySpaceCPs}|{l EPV.TzLex.ndZeros} spec=- inK=0"
  | "lex" =>
    match int? (f "Y") with
    | some y =>
      let v11 := f "V" == "11"
      let m := match lexYear v11 y with
        | .ok yy => s!"{yy};{isoYear v11 yy};{yearFrom v11 yy}"
        | .error e => showErr e
      let astro := if v11 then EPV.Timeline.astroOfLex11 y else EPV.Timeline.astroOfLex10 y
      let s := match astro with
        | some a => s!"{EPV.Timeline.lex10OfAstro a};{y};{y}"
        | none => "ERR:ValueError"
      out m s false
    | none => "bad-int"
  | "pyord" =>
    match int? (f "N") with
    | some n =>
      let (y, m, d) := pyOrd2ymd n
      let (a, sm, sd) := EPV.Timeline.civil (n - 1)
      out s!"{y}:{m}:{d};{pyYmd2ord y m d}" s!"{a}:{sm}:{sd};{EPV.Timeline.dayNumC a sm sd + 1}" false
    | none => "bad-int"
  | "durcmp" =>
    match int? (f "M1"), int? (f "S1"), int? (f "M2"), int? (f "S2") with
    | some m1, some s1, some m2, some s2 =>
      let ops := [Cmp.lt, Cmp.le, Cmp.gt, Cmp.ge]
      let m := bits (ops.map fun o => durationCmp o m1 s1 m2 s2)
      let s := bits (ops.map fun o => EPV.Timeline.durationCmp (o.op) m1 s1 m2 s2)
      out m s false
    | _, _, _, _ => "bad-args"
  | _ => "bad-op"

def main : IO Unit := mainLoop answer

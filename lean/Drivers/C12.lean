/-
Driver for C12.  Strings travel as comma-separated decimal code points (`_` = empty string).

PAT x=<0|1> v=<10|11> f=<flags: subset of s m x q, or _> mode=<search|full|ctx> src=<cps> subj=<cps>;<cps>;...
  (mode=ctx: each subject is <prev|->:<cps>:<next|->, answered by derivMatch in that context;
   mode=lms: each subject is <k>:<cps>, answered in `lms=` by the leftmost match start >= k or `-`)
  -> valid=<1|0> unclear=<0|1> f12=<0|1> scan=<0|1> bref=<0|1> props=<1|0> model=<bits|-> spec=<bits|->
     valid   : the text is a regExp of the flavour (x=1: F&O 3.1, x=0: plain XSD) with quantities
               n<=m, ordered ranges, known \p{..} names, back-references to closed groups
     unclear : uses an unescaped '-' on which XSD 1.0 / 1.1 differ
     f12     : trigger of known finding F12 (some class has a negated escape + another item)
     scan    : trigger of known finding F12s (class scanner: backslash / hyphen adjacency)
     model   : per subject, derivative matcher with every bracket expression run through the transcribed
               class scanner + CharacterClass model over the live tables (ERR: the scanner model raises)
     spec    : per subject, derivative matcher with the XSD class semantics over the spec tables
     ('-' when invalid or outside the back-reference-free fragment)
FUN s=<cps> spans=<a>-<b>,... parts=<L<cps>|W>/... (template parts: literal / $0)
  -> ok=<SpansOk> bsd=<hasBackslashDollar s> an=<M|N><cps>;... tok=<cps>;... rep=<cps>
     san=... stok=... srep=...   (model first, then spec)
-/
import EPV.Proto
import EPV.Spec.XsdRegex
import EPV.Spec.ClassRangeBody
import EPV.Gen.C12Tables
open EPV.Proto EPV.Regex
namespace EPV.Regex

def parseCps (s : String) : Option (List Nat) :=
  if s == "_" || s == "" then some [] else (s.splitOn ",").mapM nat?

def showCps (l : List Nat) : String :=
  if l.isEmpty then "_" else ",".intercalate (l.map toString)

def strOf (l : List Ch) : String := String.ofList (l.map Char.ofNat)

def lookup (tbl : List (String × List (Nat × Nat))) (name : String) : Option SetE :=
  (tbl.find? (·.1 == name)).map fun e => .ranges e.2

/-- `\p{..}`: categories, or `Is` + block name -/
def propLookup (name : List Ch) : Option SetE :=
  let n := strOf name
  if n.startsWith "Is" then lookup EPV.Gen.C12.blocks (n.drop 2).toString else lookup EPV.Gen.C12.cats n

def specT : Tables := ⟨propLookup⟩

/-- the subsets the live implementation uses for the multi-character escapes -/
def implEsc : EscKind → SetE
  | .s => .ranges EPV.Gen.C12.escS
  | .d => .ranges EPV.Gen.C12.escD
  | .w => .ranges EPV.Gen.C12.escW
  | .i => .ranges EPV.Gen.C12.escI
  | .c => .ranges EPV.Gen.C12.escC

def CItem.toItemM : CItem → Option Item
  | .chr c => some ⟨false, .single c⟩
  | .range a b => some ⟨false, .range a b⟩
  | .esc k neg => some ⟨neg, implEsc k⟩
  | .prop name neg => (propLookup name).map fun s => ⟨neg, s⟩

def CClass.toClassEM : CClass → Option ClassE
  | .mk ng items sub => do
    let its ← items.mapM CItem.toItemM
    match sub with
    | none => pure (.plain ng its)
    | some s => do let s' ← s.toClassEM; pure (.minus ng its s')

def implT : MTables :=
  { esc := fun e => if e == 115 then implEsc .s else if e == 100 then implEsc .d else if e == 119 then implEsc .w
                    else if e == 105 then implEsc .i else implEsc .c,
    prop := propLookup }

/-- the class a bracket expression `[...]` stands for in the implementation: the transcribed
scanner on its source text; escapes outside brackets (`\d`, `\p{..}`: empty `src`/2 characters) are
translated by `translate_pattern` itself, modelled through the algebra on the parsed item -/
def classModel (v10 xp : Bool) (c : CClass) (src : List Ch) : Option CC :=
  match src with
  | 91 :: _ => parseClassText implT v10 xp src
  | _ => (c.toClassEM).map evalClass

/-- some item names an unknown `Is` block (known finding F12u when the class is parsed for XSD 1.0) -/
def CClass.unknownBlock : CClass → Bool
  | .mk _ items sub =>
    items.any (fun | .prop name _ => (propLookup name).isNone && name.take 2 == [73, 115] | _ => false) ||
    (match sub with | none => false | some s => s.unknownBlock)

def classF12 (c : CClass) : Bool := match c.toClassEM with | some e => e.f12 | none => false

/-- F12s trigger, on the pattern text: inside a class expression (bracket depth >= 1) there is
a backslash followed by `\`, `$`, a character that is no XSD escape letter or a malformed
`\p{..}`, or an escape
sequence immediately preceded by `-` or immediately followed by `-` -/
def scanTrigger (s : List Ch) : Bool :=
  let escLetters : List Ch := (nameOf "nrt|.?*+(){}-[]^sSdDiIcCwWpP")
  let rec go (fuel : Nat) (inp : List Ch) (depth : Nat) (prev : Option Ch) : Bool :=
    match fuel with
    | 0 => false
    | fuel + 1 =>
    match inp with
    | [] => false
    | 92 :: e :: rest =>
      if depth == 0 then go fuel rest depth (some e) else
      let bad := !escLetters.contains e || ((e == 112 || e == 80) && (pPropName rest).isNone)
      let before := prev == some 45
      -- end of the escape: `\p{..}` runs to the closing brace
      let rest' := if e == 112 || e == 80 then (match rest.dropWhile (· != 125) with | _ :: r => r | [] => []) else rest
      let after := match rest' with | 45 :: _ => true | _ => false
      if bad || before || after then true else go fuel rest' depth (some (if e == 45 then 45 else 0))
    | 91 :: rest => go fuel rest (depth + 1) none
    | 93 :: rest => go fuel rest (depth - 1) (some 93)
    | c :: rest => go fuel rest depth (some c)
  go (s.length + 1) s 0 none

/-- `CLS v=<10|11> x=<0|1> src=<cps of the whole class text> probes=<cps>`
  -> model=<bits|ERR> spec=<bits|BAD> unclear=<0|1> f12=<0|1> scan=<0|1> ublk=<0|1> rb=<ok|rev|na> rbneg=<0|1>
  rb: `rangeClassVerdict` (Spec/ClassRangeBody.lean) — plain characters and plain ranges, optional `^`:
      ok = the grammar has a parse, rev = a reversed range (no parse), na = text outside that fragment
  model: the transcribed class scanner + `CharacterClass` algebra; spec: grammar + XSD set -/
def answerCls (fs : List (String × String)) : String :=
  match parseCps (field fs "src"), parseCps (field fs "probes") with
  | some src, some probes =>
    let v10 := field fs "v" == "10"
    let o : Opts := { xpath := field fs "x" == "1" }
    let b (x : Bool) := if x then "1" else "0"
    let model := match parseClassText implT v10 o.xpath src with
      | none => "ERR"
      | some cc => bits (probes.map fun x => decide (x < maxCP1) && cc.contains x)
    let (spec, unclear, f12, ublk) := match src with
      | 91 :: rest =>
        match pClass o (3 * rest.length + 4) rest {} with
        | some (c, [], st) =>
          match c.toClassE specT with
          | some e => (bits (probes.map fun x => specClass e x), st.unclear, e.f12, false)
          | none => ("BAD", st.unclear, false, c.unknownBlock)
        | _ => ("BAD", false, false, false)
      | _ => ("BAD", false, false, false)
    -- phase 5: the verdict of the range-body decision procedure (theorem charclass_scan_ranges_decides)
    let (rb, rbneg) := match src with
      | 91 :: rest => rangeClassVerdict rest
      | _ => (.outside, false)
    s!"model={model} spec={spec} unclear={b unclear} f12={b f12} scan={b (scanTrigger src)} ublk={b ublk} rb={rb.show} rbneg={b rbneg}"
  | _, _ => "bad-cls"

def flagsOf (f : String) : Flags := { dotAll := f.contains 's', multi := f.contains 'm' }

/-- executable reading of the fragments under Python's `re` (the `PySem` the theorem
`translate_eq_spec_partial` assumes, instantiated with the live tables); `\s \S \w \W` handed to
Python are approximated by the XSD tables (known finding F12w); a back-reference has no denotation -/
def pyDen (_fl : Flags) : PyAtom → Option RE
  | .chr c => some (.cls (· == c))
  | .esc e =>
    if e == 110 then some (.cls (· == 10)) else if e == 114 then some (.cls (· == 13)) else if e == 116 then some (.cls (· == 9))
    else if e == 100 then some (.cls fun x => (implEsc .d).mem x)
    else if e == 68 then some (.cls fun x => decide (x < maxCP1) && !(implEsc .d).mem x)
    else if e == 115 then some (.cls fun x => (implEsc .s).mem x)
    else if e == 83 then some (.cls fun x => decide (x < maxCP1) && !(implEsc .s).mem x)
    else if e == 119 then some (.cls fun x => (implEsc .w).mem x)
    else if e == 87 then some (.cls fun x => decide (x < maxCP1) && !(implEsc .w).mem x)
    else some (.cls (· == e))
  | .dotAll => some anyCh
  | .dotNoNL => some (.cls fun c => c != 10 && c != 13)
  | .bol => some (.anchor .bol)
  | .bolM => some (.anchor .bolM)
  | .eol => some (.anchor .eol)
  | .eolM => some (.anchor .eolM)
  | .litAnchor c => some (.cls (· == c))
  | .cls cc => some (.cls fun x => decide (x < maxCP1) && cc.strDenote x)
  | .nameEsc start neg =>
    let t := if start then implEsc .i else implEsc .c
    some (.cls fun x => decide (x < maxCP1) && (if neg then !t.mem x else t.mem x))
  | .prop st neg => some (.cls fun x => decide (x < maxCP1) && (if neg then !st.mem x else st.mem x))
  | .propAll => some (.cls fun x => decide (x < maxCP1 - 1))
  | .backref _ => none
  | .bslash => none
  | .bracketDigit d => some (.cls (· == d + 48))

def tokDen {α : Type} (f : α → Option RE) : List (Tok α) → Option (List (Tok RE))
  | [] => some []
  | .atom a :: ts => do let r ← f a; let rest ← tokDen f ts; pure (.atom r :: rest)
  | .lpar c :: ts => (tokDen f ts).map (.lpar c :: ·)
  | .rpar :: ts => (tokDen f ts).map (.rpar :: ·)
  | .bar :: ts => (tokDen f ts).map (.bar :: ·)
  | .quant lo hi l :: ts => (tokDen f ts).map (.quant lo hi l :: ·)

/-- model reading of a spec atom: bracket expressions through the transcribed class scanner -/
def atomModel (v10 xp : Bool) (fl : Flags) : XAtom → Option RE
  | .cls c src => (classModel v10 xp c src).map fun cc => .cls fun x => decide (x < maxCP1) && cc.contains x
  | a => some (XAtom.den specT fl a)

def anyClassTok (p : CClass → Bool) (toks : List (Tok XAtom)) : Bool :=
  toks.any fun t => match classOfTok t with | some c => p c | none => false

/-- the scanner's own structural checks, on the lexemes: a `)` needs an open group, all groups are
closed at the end, no quantifier at the very start or directly after a quantifier (the decidable,
structural part of `RunOK` in `translate_eq_spec_partial`; every valid pattern has it) -/
def structOK : Nat → Bool → List (Tok XAtom) → Bool
  | d, _, [] => d == 0
  | d, _, .rpar :: r => decide (d > 0) && structOK (d - 1) false r
  | d, _, .lpar _ :: r => structOK (d + 1) false r
  | d, first, .quant _ _ _ :: r => !first && (match r with | .quant _ _ _ :: _ => false | _ => true) && structOK d false r
  | d, _, _ :: r => structOK d false r

/-- F&O 5.6.2, flag `i`: only normal characters, character ranges and back-references are matched
case-insensitively; "all other constructs are unaffected" (multi-character, category and block
escapes, `.`, anchors).  A pattern whose characters and ranges are all ASCII non-letters (no case
variants) therefore has the same language with and without `i`: the oracle applies to it under `i`. -/
def caselessCh (c : Ch) : Bool := c < 128 && !((65 ≤ c && c ≤ 90) || (97 ≤ c && c ≤ 122))

def CClass.caseFree : CClass → Bool
  | .mk _ items sub =>
    items.all (fun | .chr c => caselessCh c | .range a b => caselessCh a && caselessCh b && (b < 65 || (a > 90 && b < 97) || a > 122) | _ => true) &&
    (match sub with | none => true | some s => s.caseFree)

def caseFreeToks (toks : List (Tok XAtom)) : Bool :=
  toks.all fun
    | .atom (.chr c) => caselessCh c
    | .atom (.cls c _) => c.caseFree
    | .atom (.backref _) => false
    | _ => true

def answerPat (fs : List (String × String)) : String :=
  let xp := field fs "x" == "1"
  let f := field fs "f"
  let full := field fs "mode" == "full"
  match parseCps (field fs "src") with
  | none => "bad-src"
  | some src0 =>
    let subjS := (field fs "subj").splitOn ";" |>.filter (· ≠ "")
    let ctxMode := field fs "mode" == "ctx"
    let lmsMode := field fs "mode" == "lms"
    -- a subject is `<cps>` or, in ctx mode, `<prev|->:<cps>:<next|->`
    let parseSubj (t : String) : Option (Option Ch × List Ch × Option Ch) :=
      if ctxMode then
        match t.splitOn ":" with
        | [a, w, b] => do
          let w' ← parseCps w
          let a' ← if a == "-" then some none else (nat? a).map some
          let b' ← if b == "-" then some none else (nat? b).map some
          pure (a', w', b')
        | _ => none
      else if lmsMode then
        match t.splitOn ":" with
        | [k, w] => do let w' ← parseCps w; let k' ← nat? k; pure (some k', w', none)   -- (start index, subject, -)
        | _ => none
      else (parseCps t).map fun w => (none, w, none)
    match subjS.mapM parseSubj with
    | none => "bad-subj"
    | some subjs =>
      let o : Opts := { xpath := xp }
      let v10 := field fs "v" == "10"
      let fl := flagsOf f
      let b (x : Bool) := if x then "1" else "0"
      let run (re : RE) (s : Option Ch × List Ch × Option Ch) : Bool :=
        if ctxMode then derivMatch re s.1 s.2.1 s.2.2
        else if full then fullB re s.2.1 else searchB re s.2.1
      -- the transcribed scanner (no model for flags x / q: whitespace stripping and re.escape are not transcribed)
      let pym : String :=
        if f.contains 'x' || f.contains 'q' || f.contains 'i' then "-" else
        let so : ScanOpts := { dotAll := fl.dotAll, multi := fl.multi, v10 := v10, backrefs := xp, lazy := xp, anchors := xp }
        match translateM implT so src0 with
        | none => "ERR"
        | some ptoks =>
          match tokDen (pyDen fl) ptoks with
          | none => "NOD"
          | some rtoks =>
            match (parseT rtoks).map Ast.den with
            | none => "SYN"
            | some re => bits (subjs.map fun s => if ctxMode then derivMatch re s.1 s.2.1 s.2.2 else searchB re s.2.1)
      let lexed : Option (List (Tok XAtom) × Bool) :=
        if f.contains 'q' then some (src0.map fun c => .atom (.chr c), false)
        else specLex o (if f.contains 'x' then stripX src0 0 else src0)
      let scan := !f.contains 'q' && scanTrigger src0
      match lexed with
      | none => s!"valid=0 unclear=0 f12=0 scan={b scan} bref=0 props=1 ublk=0 sok=0 pym={pym} model=- spec=-"
      | some (toks, unclear) =>
        match specRE specT fl toks with
        | none => s!"valid=0 unclear={b unclear} f12=0 scan={b scan} bref=0 props=1 ublk=0 sok={b (structOK 0 true toks)} pym={pym} model=- spec=-"
        | some rs =>
          let props := toks.all fun t => match classOfTok t with | some c => (c.toClassE specT).isSome | none => true
          let bref := toks.any isBackrefTok
          let valid := props && backrefsOk toks [] [] 1
          let f12 := anyClassTok classF12 toks
          let ublk := anyClassTok CClass.unknownBlock toks
          let hdr := s!"valid={b valid} unclear={b unclear} f12={b f12} scan={b scan} bref={b bref} props={b props} ublk={b ublk} sok={b (structOK 0 true toks)} fe={b (forbiddenEscape xp none src0)} cfree={b (caseFreeToks toks)} pym={pym}"
          if !valid || bref then hdr ++ " model=- spec=-" else
          if lmsMode then
            let one (s : Option Ch × List Ch × Option Ch) : String :=
              match leftmostStart rs s.2.1 (s.1.getD 0) with | some i => toString i | none => "-"
            hdr ++ " lms=" ++ ";".intercalate (subjs.map one)
          else
          let model := match tokDen (atomModel v10 xp fl) toks with
            | some rtoks => (match (parseT rtoks).map Ast.den with | some rm => bits (subjs.map (run rm)) | none => "ERR")
            | none => "ERR"
          hdr ++ " model=" ++ model ++ " spec=" ++ bits (subjs.map (run rs))

def parseSpans (s : String) : Option (List Span) :=
  if s == "_" || s == "" then some [] else
  (s.splitOn ",").mapM fun e => match e.splitOn "-" with
    | [a, b] => do let x ← nat? a; let y ← nat? b; pure (x, y)
    | _ => none

def parseParts (s : String) : Option (List RPart) :=
  if s == "_" || s == "" then some [] else
  (s.splitOn "/").mapM fun e =>
    if e == "W" then some .whole
    else if e.startsWith "L" then (parseCps (e.drop 1).toString).map .lit
    else none

def showAn (l : List (Bool × List Ch)) : String :=
  if l.isEmpty then "_" else ";".intercalate (l.map fun p => (if p.1 then "M" else "N") ++ showCps p.2)

def showToks (l : List (List Ch)) : String :=
  if l.isEmpty then "-" else ";".intercalate (l.map showCps)

def answerFun (fs : List (String × String)) : String :=
  match parseCps (field fs "s"), parseSpans (field fs "spans"), parseParts (field fs "parts") with
  | some s, some spans, some parts =>
    let ok := decide (SpansOk 0 s.length spans)
    let b (x : Bool) := if x then "1" else "0"
    s!"ok={b ok} bsd={b (hasBackslashDollar s)} m={b (matchesM spans)} an={showAn (analyzeM s 0 spans)} tok={showToks (tokenizeM s spans)} rep={showCps (replaceM s parts spans)}" ++
    s!" san={showAn (specAnalyze s 0 spans)} stok={showToks (specTokenize s spans)} srep={showCps (specReplace s parts 0 spans)}"
  | _, _, _ => "bad-fun"

/-- `BRF digits=<d,d,..> groups=<n>` -> model=<group>:<literal digits|_> spec=<group>:<literal digits|_> -/
def answerBrf (fs : List (String × String)) : String :=
  match parseCps (field fs "digits"), nat? (field fs "groups") with
  | some ds, some g =>
    let sh (r : Nat × List Nat) : String :=
      s!"{r.1}:{if r.2.isEmpty then "_" else String.join (r.2.map toString)}"
    s!"model={sh (resolveM ds g)} spec={sh (resolveS ds g)}"
  | _, _ => "bad-brf"

def answer (line : String) : String :=
  let line := line.trimAscii.toString
  if line.startsWith "PAT " then answerPat (fields (line.drop 4).toString)
  else if line.startsWith "FUN " then answerFun (fields (line.drop 4).toString)
  else if line.startsWith "CLS " then answerCls (fields (line.drop 4).toString)
  else if line.startsWith "BRF " then answerBrf (fields (line.drop 4).toString)
  else "bad-line"

end EPV.Regex

def main : IO Unit := mainLoop EPV.Regex.answer

/-
Driver for C18.  One request per line, fields separated by `|`, tokens inside a field by single spaces.

  R|<ty1>|<ty2>                  → `restr=<0|1> flat=<0|1>`
        is_sequence_type_restriction(ty1, ty2) by the model; flat = no typed function / map test among the parameters of
        any function test of the two types (`Ty.flat`; statistics only)
  J|<xsd11 0/1>[|<dflt> <p> <q>]|<ty>|<value>     (optional: statically known namespaces, see `NsCfg`)  → `match=<r> inst=<r> treat=<r> spec=<T|F|-> dom=<0|1> fk=<0|1> param=<r>`
        r = T | F | E:<code>;  match = match_sequence_type, inst = `instance of`, treat = `treat as`
        (T = the operand is returned, F = XPDY0050),
        spec = SequenceType matching of XPath 3.1 with the model's restriction as subtype relation
        (`-` when the type uses a name that is no atomic type: static error, not modelled by the spec);
        dom = value and type are inside the domain of the theorem `match_eq_spec`,
        fp = trigger of finding F18p (the parser rejects this legal sequence type), fpp the same for a parameter declaration.

  H|<xsd11 0/1>|<unused>|<pool: n value^n>|<op>;<op>;…   → `hist=<e>;<e>;…`   (judgement history on function items)
        op ::= jm <i> <ty> | ji <i> <ty> | jt <i> <ty> | ja <i> <ty> | c <i> <k> <ty> <ty> | p <i> <n> <0/1>^n
        (c = member k of pool[i] passed through function($s as ty1) as ty2 {$s}: the new value is appended; T/F = accepted / XPTY0004)     (1 = placeholder `?`;
        ja = the item passed to a parameter declared with that type, spec `-`: function coercion is not modelled)
        e  ::= `-` for a partial application, else `<model>/<spec>/<q>/<r>`: model = answer of the model
        (partial applications typed as the code does), spec = XPath matching with partial applications
        typed by `partialSig`, q = 1 iff the judged item descends from a non-prefix mask (histogram only; the former
        findings F18q / F18r are repaired), r = 0

  T|<ty>                         → `text=<the normalised text of the type>` and, for a typed function test,
        ` split=<piece>␟<piece>…␟=>␟<return text>` (what `partition(') as ')` / `split(', ')` extract; ␟ = U+241F)

  E|<xsd11 0/1>|<operand: `err <k>` or a value>|<ty>   → `inst=<j> treat=<j>`   (judgement on an operand expression)
        j = T | F | E:<code> (raised by the judgement itself) | O:<k> (the operand's error number k, propagated)

  C|<xsd11 0/1>|<ty>|<value>     → `conv=<r> spec=<r|-> dv=<0|1> lv=<0|1>`   (function conversion rules, XPath 3.1 §3.1.5.2)
        conv = `convertParam` (the value bound to `$g` in `function($g as ty) {$g}(value)`), spec = `specConvert`
        (Spec/FuncConv.lean; `-` for a typed function test or a name outside the spec), r = F (type error) | V:<item>,<item>…
        with item = a<cls> | n | f | m | r;  dv = the live cast table deviates from rules 2-4 on an item of the atomized value
        (`castDeviates`; 0 by `cast_table_is_rules_2_to_4`), lv = every atomic item has a class with values

Token syntax (Polish notation):
  ty    ::= E | L <leaf> <occ> | F <n> <ty>^n <ty> | M <k> <ty> <occ> | A <ty> <occ>
  leaf  ::= item | node | a <idx> | num | l <idx> | anyType | anySimple | K <kind> <nt> | D <nt>
            | KT <kind> <nt> <untyped|anyType|anySimple|t <idx>> <0/1: T?>
            | fany | many | aany
  kind  ::= d | e | a | t | c | p | n          nt ::= - | * | <number>         occ ::= 1 | ? | * | +
  value ::= <len> <item>^len
  item  ::= a <cls> | n <kind> <name> <nkids> <kid>^nkids <root 0/1> | f <n> <ty>^n <ty>
            | m <n> (<keycls> <value>)^n | r <n> <value>^n
-/
import EPV.Proto
import EPV.Spec.XPathTypes
import EPV.Lemmas.SeqTypeSpec
import EPV.Lemmas.SeqTypeHist
import EPV.Lemmas.SeqTypeText
import EPV.Lemmas.SeqTypeErr
import EPV.Gen.C18Tables
import EPV.Props.C18Conv
open EPV.Proto EPV.SeqType

abbrev P (α : Type) := List String → Option (α × List String)

def pNat : P Nat
  | t :: ts => (t.toNat?).map (·, ts)
  | [] => none

def pOcc : P Occ
  | "1" :: ts => some (.one, ts) | "?" :: ts => some (.opt, ts)
  | "*" :: ts => some (.star, ts) | "+" :: ts => some (.plus, ts)
  | _ => none

def pKind : P Kind
  | "d" :: ts => some (.document, ts) | "e" :: ts => some (.element, ts) | "a" :: ts => some (.attribute, ts)
  | "t" :: ts => some (.text, ts) | "c" :: ts => some (.comment, ts) | "p" :: ts => some (.pi, ts)
  | "n" :: ts => some (.namespace, ts)
  | _ => none

def pNt : P NameTest
  | "-" :: ts => some (.none, ts) | "*" :: ts => some (.wild, ts)
  | t :: ts => (t.toNat?).map (fun n => (.name n, ts))
  | [] => none

def pLeaf : P Leaf
  | "item" :: ts => some (.item, ts) | "node" :: ts => some (.anyNode, ts)
  | "a" :: ts => (pNat ts).map fun (n, r) => (.atomic n, r)
  | "num" :: ts => some (.numeric, ts)
  | "l" :: ts => (pNat ts).map fun (n, r) => (.listT n, r)
  | "anyType" :: ts => some (.anyType, ts) | "anySimple" :: ts => some (.anySimpleType, ts)
  | "K" :: ts => do let (k, r) ← pKind ts; let (nt, r) ← pNt r; pure (.kind k nt, r)
  | "D" :: ts => (pNt ts).map fun (nt, r) => (.docElem nt, r)
  | "KT" :: ts => do
      let (k, r) ← pKind ts; let (nt, r) ← pNt r
      let (ta, r) ← (match r with
        | "untyped" :: r => some (TyArg.untyped, r) | "anyType" :: r => some (.anyType, r)
        | "anySimple" :: r => some (.anySimpleType, r)
        | "t" :: r => (pNat r).map fun (n, r) => (.atomic n, r)
        | _ => none)
      let (o, r) ← pNat r
      pure (.kindT k nt ta (o != 0), r)
  | "fany" :: ts => some (.funcAny, ts) | "many" :: ts => some (.mapAny, ts) | "aany" :: ts => some (.arrayAny, ts)
  | _ => none

partial def pTy : P Ty
  | "E" :: ts => some (.empty, ts)
  | "L" :: ts => do let (l, r) ← pLeaf ts; let (o, r) ← pOcc r; pure (.leaf l o, r)
  | "F" :: ts => do
      let (n, r) ← pNat ts
      let rec go : Nat → List String → Option (List Ty × List String)
        | 0, r => some ([], r)
        | k + 1, r => do let (t, r) ← pTy r; let (l, r) ← go k r; pure (t :: l, r)
      let (args, r) ← go n r
      let (ret, r) ← pTy r
      pure (.func (Tys.ofList args) ret, r)
  | "M" :: ts => do let (k, r) ← pNat ts; let (v, r) ← pTy r; let (o, r) ← pOcc r; pure (.map k v o, r)
  | "A" :: ts => do let (m, r) ← pTy ts; let (o, r) ← pOcc r; pure (.array m o, r)
  | _ => none

def pRep {α : Type} (p : P α) : Nat → P (List α)
  | 0, r => some ([], r)
  | k + 1, r => do let (x, r) ← p r; let (l, r) ← pRep p k r; pure (x :: l, r)

mutual
partial def pItem : P Item
  | "a" :: ts => (pNat ts).map fun (c, r) => (.atom c, r)
  | "n" :: ts => do
      let (k, r) ← pKind ts; let (name, r) ← pNat r; let (nk, r) ← pNat r
      let (kids, r) ← pRep pNat nk r; let (root, r) ← pNat r
      pure (.node k name kids (root != 0), r)
  | "f" :: ts => do
      let (n, r) ← pNat ts; let (args, r) ← pRep pTy n r; let (ret, r) ← pTy r
      pure (.func (Tys.ofList args) ret, r)
  | "m" :: ts => do
      let (n, r) ← pNat ts
      let (es, r) ← pRep (fun r => do let (k, r) ← pNat r; let (v, r) ← pValue r; pure ((k, v), r)) n r
      pure (.map es, r)
  | "r" :: ts => do let (n, r) ← pNat ts; let (ms, r) ← pRep pValue n r; pure (.array ms, r)
  | _ => none
partial def pValue : P (List Item) := fun ts => do
  let (n, r) ← pNat ts
  pRep pItem n r
end

def toks (s : String) : List String := (s.trimAscii.toString.splitOn " ").filter (· ≠ "")

def parseAll {α : Type} (p : P α) (s : String) : Option α :=
  match p (toks s) with
  | some (x, []) => some x
  | _ => none

def pOp : P HOp
  | "jm" :: ts => do let (i, r) ← pNat ts; let (t, r) ← pTy r; pure (.jMatch i t, r)
  | "ji" :: ts => do let (i, r) ← pNat ts; let (t, r) ← pTy r; pure (.jInst i t, r)
  | "jt" :: ts => do let (i, r) ← pNat ts; let (t, r) ← pTy r; pure (.jTreat i t, r)
  | "ja" :: ts => do let (i, r) ← pNat ts; let (t, r) ← pTy r; pure (.jArg i t, r)
  | "c" :: ts => do
      let (i, r) ← pNat ts; let (k, r) ← pNat r; let (t, r) ← pTy r; let (rt, r) ← pTy r
      pure (.coerce i k t rt, r)
  | "p" :: ts => do
      let (i, r) ← pNat ts; let (n, r) ← pNat r; let (bits, r) ← pRep pNat n r
      pure (.papp i (bits.map (· != 0)), r)
  | _ => none

def showRes : Res → String
  | .ok true => "T" | .ok false => "F"
  | .error .XPST0051 => "E:XPST0051" | .error .XPST0003 => "E:XPST0003" | .error .XPDY0050 => "E:XPDY0050"

def b01 (b : Bool) : String := if b then "1" else "0"

open EPV.Gen.C18 in
def judge (x : String) (cfg : NsCfg) (t v : String) : String :=
  match parseAll pTy t, parseAll pValue v with
  | some ty0, some val =>
      let ty := ty0.resolve cfg
      let xsd11 := x == "1"
      let m := matchSt tables xsd11 true ty val
      let i := instanceOf tables xsd11 ty val
      let sp := if ty.specDefined then (if specMatch (specTables xsd11) (isRestriction tables) ty val then "T" else "F") else "-"
      let tr := match treatAs tables xsd11 ty val with
        | .ok w => if w.length == val.length then "T" else "DIFF"
        | .error .XPDY0050 => "F"
        | .error e => showRes (.error e)
      let pr := match convertParam tables xsd11 ty val with
          | .ok w => if w.length == val.length then "T" else "A"     -- A: accepted after atomization of arrays
          | .error .XPDY0050 => "F" | .error e => showRes (.error e)
      s!"match={showRes m} inst={showRes i} treat={tr} spec={sp} dom={b01 (domT ty val)} fk={b01 ty.hasTypeArg} param={pr}"
  | _, _ => "bad-judgement"

open EPV.Gen.C18 in
def answer (line : String) : String :=
  match line.splitOn "|" with
  | ["R", a, b] =>
    match parseAll pTy a, parseAll pTy b with
    | some t1, some t2 => s!"restr={b01 (isRestriction tables t1 t2)} flat={b01 (t1.flat && t2.flat)}"
    | _, _ => "bad-type"
  | ["J", x, t, v] => judge x NsCfg.none t v
  | ["J", x, c, t, v] =>
    match (toks c).mapM (·.toNat?) with
    | some [d, p, q] => judge x ⟨d, p, q⟩ t v
    | _ => "bad-cfg"
  | ["O", x, o, t, v] =>
    -- `v instance of (T)o` / `v treat as (T)o` for a typed function test T with an occurrence indicator of its own
    match parseAll pOcc o, parseAll pTy t, parseAll pValue v with
    | some occ, some (.func a r), some val =>
      let xsd11 := x == "1"
      let tr := match treatAsOwnOcc tables xsd11 occ a r val with
        | .ok w => if w.length == val.length then "T" else "DIFF"
        | .error .XPDY0050 => "F"
        | .error e => showRes (.error e)
      s!"inst={showRes (instanceOfOwnOcc tables xsd11 occ a r val)} treat={tr}"
    | _, _, _ => "bad-own-occurrence"
  | ["C", x, t, v] =>
    match parseAll pTy t, parseAll pValue v with
    | some ty, some val =>
      let xsd11 := x == "1"
      let shI : Item → String
        | .atom c => s!"a{c}" | .node _ _ _ _ => "n" | .func _ _ => "f" | .map _ => "m" | .array _ => "r"
      let sh : List Item → String := fun w => "V:" ++ ",".intercalate (w.map shI)
      let m := match convertParam tables xsd11 ty val with
        | .ok w => sh w | .error .XPDY0050 => "F" | .error e => showRes (.error e)
      let specOK := ty.specDefined && (match ty with | .func _ _ => false | .leaf .numeric _ => false | _ => true)
      let sp := if !specOK then "-" else
        match specConvert (specTables xsd11) (isRestriction tables) EPV.C18.liveCfg ty val with
        | some w => sh w | none => "F"
      let w := atomizedValue tables val
      let dv := match ty with
        | .leaf (.atomic t) _ => w.any (castDeviates tables (specTables xsd11) EPV.C18.liveCfg t)
        | _ => false
      let lv := atomsLive EPV.C18.liveCls w
      s!"conv={m} spec={sp} dv={b01 dv} lv={b01 lv}"
    | _, _ => "bad-conversion"
  | ["E", x, o, t] =>
    match parseAll pTy t with
    | some ty =>
      let operand : Option (Except Nat (List Item)) := match toks o with
        | ["err", k] => k.toNat?.map Except.error
        | _ => (parseAll pValue o).map Except.ok
      match operand with
      | some op =>
        let sh : JRes → String
          | .ok true => "T" | .ok false => "F" | .err e => showRes (.error e) | .operandErr k => s!"O:{k}"
        s!"inst={sh (instanceOfOp tables (x == "1") ty op)} treat={sh (treatAsOp tables (x == "1") ty op)}"
      | none => "bad-operand"
    | none => "bad-type"
  | ["T", t] =>
    match parseAll pTy t with
    | some ty =>
      let nm := fun i => atomNames.getD i "?"
      let ln := fun i => listNames.getD i "?"
      let toks := ty.render nm ln
      let txt := String.join (toks.map Tok.text)
      match ty with
      | .func _ _ =>
        let sp := pySplit toks
        let pcs := sp.1.map (fun p => String.join (p.map Tok.text))
        s!"text={txt} split={"␟".intercalate pcs}␟=>␟{String.join (sp.2.map Tok.text)}"
      | _ => s!"text={txt}"
    | none => "bad-type"
  | ["H", x, _inl, v, opsS] =>
    let pPool : P (List (List Item)) := fun ts => do let (n, r) ← pNat ts; pRep pValue n r
    match parseAll pPool v, ((opsS.splitOn ";").filter (fun o => (toks o) ≠ [])).mapM (parseAll pOp) with
    | some pool, some ops =>
      let xsd11 := x == "1"
      let res := hRun tables xsd11 pool ops
      -- walk the history once more: the pool of the specification (partial applications typed by `partialSig`,
      -- converted values as the model computes them) and the flags
      let step (st : List (List Item) × List (List Item) × List Bool × List String) (opr : HOp × Option Res) :
          List (List Item) × List (List Item) × List Bool × List String :=
        let (mp, sp, fl, out) := st
        let mp' := (hStep tables xsd11 mp opr.1).1
        let m := match opr.2 with | some r => showRes r | none => "-"
        match opr.1 with
        | .papp i mask => (mp', sp ++ [[(headItem (sp.getD i [])).partialApplySpec mask]], fl ++ [fl.getD i false || !prefixMask mask], out ++ ["-"])
        | .coerce _ _ _ _ => (mp', sp ++ [mp'.getLastD []], fl ++ [false], out ++ [s!"{m}/-/0/0"])
        | .jArg i _ => (mp', sp, fl, out ++ [s!"{m}/-/{b01 (fl.getD i false)}/0"])
        | .jMatch i t | .jInst i t | .jTreat i t =>
          let s := if !t.specDefined then "-" else if specMatch (specTables xsd11) (isRestriction tables) t (sp.getD i []) then "T" else "F"
          (mp', sp, fl, out ++ [s!"{m}/{s}/{b01 (fl.getD i false)}/0"])
      let (_, _, _, out) := (ops.zip res).foldl step (pool, pool, pool.map (fun _ => false), [])
      "hist=" ++ ";".intercalate out
    | _, _ => "bad-history"
  | _ => "bad-line"

def main : IO Unit := mainLoop answer

/-
Driver for C15.  Request line:
  A=<0|1> OPS=<op>;<op>;...
A=1 runs the model in aliasing mode (pinned-tree behaviour of array:put/append/insert-before).
Every op binds its result to the next variable $0, $1, ...

keys:  i<int>  d<p>/<q>  f<p>/<q>  fz (-0.0)  fn (NaN)  fp / fm (±INF)  s<cp.cp...>  u<cp.cp...>
       b0 b1   t<year>_<utc>_<tz|n>   n<cp.cp...> (untypedAtomic)
ops (fields separated by `,`, list elements by `+`):
  seq,<arg>+<arg>          arg = $n | key          mctor,<key>:$n+<key>:$n
  mput,$m,<key>,$v   mremove,$m,<key>+..   mget,$m,<key>   mcontains,$m,<key>   msize,$m   mkeys,$m
  mentry,<key>,$v    mmerge,$v,<default|first|last|any|reject|combine|bad>
  mfind,$v,<key>     mforeach,$m           lookup,$v,*     lookup,$v,<key>+..
  asquare,$a+$b      acurly,$v   aget,$a,<int>   aput,$a,<int>,$v   ainsert,$a,<int>,$v   aappend,$a,$v
  aremove,$a,<int>+..   asub,$a,<int>[,<int>]   ahead,$a   atail,$a   areverse,$a   ajoin,$v
  aflatten,$v   asize,$a
  afe,$a,<id|dup|cnt|c:key>   afl,$a,<t|f|ne|one|nb>   afoldl,$a,$z,<cat|rcat|l|r|cntr>   afoldr,...
  call,$f,$k,<0|1>  ($f($k) / $f(first item of $k))   call2,$t,$k1,$k2  ($t($k1)($k2))
  apair,$a,$b,<fn2>   mfe,$m,<fn2>   deq,$a,$b          key o<tag>_<int.int...> (QName 1, duration 2, hexBinary 3, base64Binary 4)

Answer: one block per step, blocks separated by `|`:
  <model status>~<spec status>~<noClash of the keys used so far and no clashing atoms in a deep-equal: 1|0>~<val>&<val>&...
with one <val> per variable bound so far:  <model raw>^<model sorted>^<spec sorted>, or `=` when
all three are unchanged since the previous step
status = ok | ERR:<code>.  raw = insertion order; sorted = map entries sorted, order-free
values (map:keys, map:for-each, ?* , map:find) sorted.
-/
import EPV.Proto
import EPV.Lemmas.MapArrayKeys
import EPV.Lemmas.MapArrayHof
import EPV.Spec.FOSort
open EPV.Proto EPV.MapArray

def showRat (r : Rat) : String := s!"{r.num}/{r.den}"

def showKey : Key → String
  | .int v => s!"i{v}"
  | .dec v => s!"d{showRat v}"
  | .dbl v negz => if negz then "fz" else s!"f{showRat v}"
  | .dnan => "fn"
  | .dinf neg => if neg then "fm" else "fp"
  | .str s => "s" ++ ".".intercalate (s.map toString)
  | .uri s => "u" ++ ".".intercalate (s.map toString)
  | .bool b => if b then "b1" else "b0"
  | .date y u tz => s!"t{y}_{u}_" ++ (match tz with | some z => toString z | none => "n")
  | .opq t r => s!"o{t}_" ++ ".".intercalate (r.map toString)
  | .unt s => "n" ++ ".".intercalate (s.map toString)

def parseRat (s : String) : Option Rat :=
  match s.splitOn "/" with
  | [p, q] => do let a ← int? p; let b ← nat? q; if b == 0 then none else pure (mkRat a b)
  | _ => none

def parseCps (s : String) : Option (List Nat) :=
  if s == "" then some [] else (s.splitOn ".").mapM nat?

def parseKey (s : String) : Option Key :=
  let rest := (s.drop 1).toString
  match s.front? with
  | some 'i' => (int? rest).map .int
  | some 'd' => (parseRat rest).map .dec
  | some 'f' =>
    if rest == "z" then some (.dbl 0 true) else if rest == "n" then some .dnan
    else if rest == "p" then some (.dinf false) else if rest == "m" then some (.dinf true)
    else (parseRat rest).map fun r => .dbl r false
  | some 's' => (parseCps rest).map .str
  | some 'u' => (parseCps rest).map .uri
  | some 'n' => (parseCps rest).map .unt
  | some 'b' => if rest == "1" then some (.bool true) else if rest == "0" then some (.bool false) else none
  | some 'o' =>
    match rest.splitOn "_" with
    | [t, r] => do
      let t ← nat? t
      let r ← if r == "" then pure [] else (r.splitOn ".").mapM int?
      pure (.opq t r)
    | _ => none
  | some 't' =>
    match rest.splitOn "_" with
    | [y, u, z] => do
      let y ← int? y; let u ← int? u
      let tz ← if z == "n" then pure none else (int? z).map some
      pure (.date y u tz)
    | _ => none
  | _ => none

def parseVar (s : String) : Option Nat :=
  if s.front? == some '$' then nat? (s.drop 1).toString else none

def parseList (f : String → Option α) (s : String) : Option (List α) :=
  if s == "" then some [] else (s.splitOn "+").mapM f

def parseArg (s : String) : Option Arg :=
  match parseVar s with
  | some i => some (.var i)
  | none => (parseKey s).map .lit

def parsePolicy (s : String) : Option (Option Policy) :=
  match s with
  | "default" | "first" => some (some .useFirst)
  | "last" => some (some .useLast)
  | "any" => some (some .useAny)
  | "reject" => some (some .reject)
  | "combine" => some (some .combine)
  | "bad" => some none
  | _ => none

def parseFn1 (s : String) : Option Fn1 :=
  match s with
  | "id" => some .ident
  | "dup" => some .dup
  | "cnt" => some .count
  | _ => if s.startsWith "c:" then (parseKey (s.drop 2).toString).map .const else none

def parsePred1 (s : String) : Option Pred1 :=
  match s with
  | "t" => some (.always true) | "f" => some (.always false)
  | "ne" => some .nonEmpty | "one" => some .single | "nb" => some .notBool
  | _ => none

def parseFn2 (s : String) : Option Fn2 :=
  match s with
  | "cat" => some .concat | "rcat" => some .rconcat | "l" => some .left | "r" => some .right
  | "cntr" => some .countR
  | _ => none

def parseOp (s : String) : Option Op :=
  match s.splitOn "," with
  | ["afe", a, f] => do pure (.aForEach (← parseVar a) (← parseFn1 f))
  | ["afl", a, p] => do pure (.aFilter (← parseVar a) (← parsePred1 p))
  | ["afoldl", a, z, f] => do pure (.aFoldL (← parseVar a) (← parseVar z) (← parseFn2 f))
  | ["afoldr", a, z, f] => do pure (.aFoldR (← parseVar a) (← parseVar z) (← parseFn2 f))
  | ["apair", a, b, f] => do pure (.aForEachPair (← parseVar a) (← parseVar b) (← parseFn2 f))
  | ["mfe", m, f] => do pure (.mForEachF (← parseVar m) (← parseFn2 f))
  | ["deq", a, b] => do pure (.deq (← parseVar a) (← parseVar b))
  | ["asort", a] => (parseVar a).map .aSort
  | ["call", f, k, fst] => do pure (.call (← parseVar f) (← parseVar k) (fst == "1"))
  | ["call2", t, k1, k2] => do pure (.call2 (← parseVar t) (← parseVar k1) (← parseVar k2))
  | ["seq", l] => (parseList parseArg l).map .seq
  | ["mctor", l] => (parseList (fun e => match e.splitOn ":" with
      | [k, v] => do pure ((← parseKey k), (← parseVar v))
      | _ => none) l).map .mCtor
  | ["mput", m, k, v] => do pure (.mPut (← parseVar m) (← parseKey k) (← parseVar v))
  | ["mremove", m, ks] => do pure (.mRemove (← parseVar m) (← parseList parseKey ks))
  | ["mget", m, k] => do pure (.mGet (← parseVar m) (← parseKey k))
  | ["mcontains", m, k] => do pure (.mContains (← parseVar m) (← parseKey k))
  | ["msize", m] => (parseVar m).map .mSize
  | ["mkeys", m] => (parseVar m).map .mKeys
  | ["mentry", k, v] => do pure (.mEntry (← parseKey k) (← parseVar v))
  | ["mmerge", v, p] => do pure (.mMerge (← parseVar v) (← parsePolicy p))
  | ["mfind", v, k] => do pure (.mFind (← parseVar v) (← parseKey k))
  | ["mforeach", m] => (parseVar m).map .mForEach
  | ["lookup", v, ks] => do
      let v ← parseVar v
      if ks == "*" then pure (.lookup v none) else pure (.lookup v (some (← parseList parseKey ks)))
  | ["asquare", l] => (parseList parseVar l).map .aSquare
  | ["acurly", v] => (parseVar v).map .aCurly
  | ["aget", a, p] => do pure (.aGet (← parseVar a) (← int? p))
  | ["aput", a, p, v] => do pure (.aPut (← parseVar a) (← int? p) (← parseVar v))
  | ["ainsert", a, p, v] => do pure (.aInsert (← parseVar a) (← int? p) (← parseVar v))
  | ["aappend", a, v] => do pure (.aAppend (← parseVar a) (← parseVar v))
  | ["aremove", a, ps] => do pure (.aRemove (← parseVar a) (← parseList int? ps))
  | ["asub", a, s] => do pure (.aSub (← parseVar a) (← int? s) none)
  | ["asub", a, s, l] => do pure (.aSub (← parseVar a) (← int? s) (some (← int? l)))
  | ["ahead", a] => (parseVar a).map .aHead
  | ["atail", a] => (parseVar a).map .aTail
  | ["areverse", a] => (parseVar a).map .aReverse
  | ["ajoin", v] => (parseVar v).map .aJoin
  | ["aflatten", v] => (parseVar v).map .aFlatten
  | ["asize", a] => (parseVar a).map .aSize
  | _ => none

/-- how the order of a value's items is to be read -/
inductive Ordering' where | ordered | freeSeq | freeArr
  deriving DecidableEq

def opOrdering : Op → Ordering'
  | .mKeys _ | .mForEach _ | .mForEachF .. => .freeSeq
  | .lookup _ none => .freeSeq
  | .mFind .. => .freeArr
  | _ => .ordered

def sortStrings (l : List String) : List String := l.mergeSort fun a b => !(b < a)

mutual
  def showItem (sorted : Bool) (s : Store) : Nat → Item → String
    | _, .atom k => showKey k
    | 0, .ref _ => "CYCLE"
    | fuel + 1, .ref a =>
      match s[a]? with
      | some (.arr ms) => "[" ++ ",".intercalate (ms.map (showSeq sorted s fuel)) ++ "]"
      | some (.map es) =>
        let parts := es.map fun e => showKey e.1 ++ "=" ++ showSeq sorted s fuel e.2
        "{" ++ ",".intercalate (if sorted then sortStrings parts else parts) ++ "}"
      | none => "DANGLING"
  def showSeq (sorted : Bool) (s : Store) : Nat → Seq → String
    | 0, _ => "CYCLE"
    | fuel + 1, v => "(" ++ ",".intercalate (v.map (showItem sorted s fuel)) ++ ")"
end

/-- print of one bound value -/
def showVal (sorted : Bool) (s : Store) (o : Ordering') (v : Seq) : String :=
  let fuel := 2 * s.length + 4
  if !sorted then showSeq false s fuel v
  else match o with
    | .ordered => showSeq true s fuel v
    | .freeSeq => "(" ++ ",".intercalate (sortStrings (v.map (showItem true s fuel))) ++ ")"
    | .freeArr =>
      match v with
      | [.ref a] => match s[a]? with
        | some (.arr ms) => "([" ++ ",".intercalate (sortStrings (ms.map (showSeq true s fuel))) ++ "])"
        | _ => showSeq true s fuel v
      | _ => showSeq true s fuel v

def showErr : Err → String
  | .XQDY0137 => "ERR:XQDY0137" | .FOJS0003 => "ERR:FOJS0003" | .FOJS0005 => "ERR:FOJS0005"
  | .FOAY0001 => "ERR:FOAY0001" | .FOAY0002 => "ERR:FOAY0002" | .XPTY0004 => "ERR:XPTY0004"

def showStatus : Option Err → String
  | none => "ok"
  | some e => showErr e

def answerHist (line : String) : String :=
  let fs := fields line
  let alias := field fs "A" == "1"
  let opsStr := ((line.splitOn "OPS=").getD 1 "").splitOn ";" |>.filter (· ≠ "")
  match opsStr.mapM parseOp with
  | none => "bad-op"
  | some ops =>
    let md := pyDialect alias
    let sd := Spec.specDialect
    let init : St := { store := [], env := [] }
    let (_, _, _, _, _, _, blocks) := ops.foldl
      (fun (acc : St × St × List Ordering' × List Key × Bool × List String × List String) op =>
        let (mst, sst, ords, keys, bl, prev, blocks) := acc
        let (mst', me) := step md mst op
        let (sst', se) := step sd sst op
        let ords' := ords ++ [opOrdering op]
        let keys' := keys ++ opKeys op
        let dqClash := match op with
          | .deq a b =>
            let fuel := 2 * mst.store.length + 4
            let atoms := atomsOf mst.store fuel (mst.var a) ++ atomsOf mst.store fuel (mst.var b)
            atoms.any fun x => atoms.any fun y => atomClash x y
          | _ => false
        let bl' := bl || dqClash
        let ok := noClash keys' && !bl'
        let vals := (List.range ords'.length).map fun j =>
          let o := ords'.getD j .ordered
          showVal false mst'.store o (mst'.var j) ++ "^" ++ showVal true mst'.store o (mst'.var j) ++ "^" ++
            showVal true sst'.store o (sst'.var j)
        -- a value whose three prints are what they were after the previous step is sent as `=`
        let shown := (List.range vals.length).map fun j =>
          let cur := vals.getD j ""
          if prev[j]? == some cur then "=" else cur
        let block := showStatus me ++ "~" ++ showStatus se ++ "~" ++ (if ok then "1" else "0") ++ "~" ++
          "&".intercalate shown
        (mst', sst', ords', keys', bl', vals, blocks ++ [block]))
      (init, init, [], [], false, [], [])
    "|".intercalate blocks

/-! phase 5: `XSORT K=<none|id|cnt|rev|head|const|intfirst|parity> M=<member>;<member>;…` with
member = `e` (empty sequence) or keys joined by `+`.  Answer `<model>~<spec>~<keyOnSeqMember 0|1>`,
model / spec = `ok:<member>;…` or `ERR:XPTY0004`. -/
def parseKFn (s : String) : Option KFn :=
  match s with
  | "none" => some .none | "id" => some .ident | "cnt" => some .count | "rev" => some .rev
  | "head" => some .head | "const" => some .const | "intfirst" => some .intFirst | "parity" => some .parity
  | _ => none

def showMembers : Except Err (List (List Key)) → String
  | .error e => showErr e
  | .ok ms => "ok:" ++ ";".intercalate (ms.map fun m => if m.isEmpty then "e" else "+".intercalate (m.map showKey))

def answerSort (line : String) : String :=
  let fs := fields line
  let mstr := field fs "M"
  let members := if mstr == "" then some [] else
    (mstr.splitOn ";").mapM fun m => if m == "e" then some [] else (m.splitOn "+").mapM parseKey
  match parseKFn (field fs "K"), members with
  | some kf, some ms =>
    showMembers (arrSortPy kf ms) ++ "~" ++ showMembers (Spec.arrSort kf ms) ++ "~" ++
      (if keyOnSeqMember kf ms then "1" else "0")
  | _, _ => "bad-xsort"

def answer (line : String) : String :=
  if line.startsWith "XSORT " then answerSort line else answerHist line

def main : IO Unit := mainLoop answer

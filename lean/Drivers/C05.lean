/-
Driver for C05.  Request line (fields separated by single spaces, `E=` is last):
  H=<heap> STEPS=<step>|<step>|... E=<expr tokens separated by spaces>
heap : `loc:tz;loc:tz;...` (tz `n` = none), `_` = empty           (caller's xs:dateTime objects)
step : `<tz>#<name>:<val>,<name>:<val>,...`  (`_` = no variables); val = items joined by `.`:
       `i<int>` integer, `r<k>` reference to heap object k, `e` the empty sequence
expr : prefix code —  I n | V x | E | S a b | P e | A a b (+) | M a b (-) | Q a b (=) | D loc tz
       | Z e (timezone-from-dateTime) | L x e b (let) | F x r b (for) | O x r b (some) | Y x r b (every)
       | N k p1..pk b (inline function) | C0 f | C f args | K secs (xs:dayTimeDuration literal)
       | J e (adjust-dateTime-to-timezone, 1 argument) | J2 e z (2 arguments)
Answer: one record per step joined by `|`:
  m=<model result> s=<spec result> env=<1 if the model hands back the caller's dict unchanged>
  heap=<caller's objects after the step>
  p=<result of the model of the PINNED tree (Quirks.pinned) in the same history>
results: items joined by `,` — i<int> b<0|1> d<loc>@<tz|n> u<seconds> f<arity> ; `()` empty; ERR:<kind>
Lines starting with `FC ` (focus fragment: constructors under `!` / for / predicates) are answered by
`EPV.FocusCtor.answerFC` (protocol in EPV/Model/FocusCtorDriver.lean).
-/
import EPV.Proto
import EPV.Spec.LexicalSem
import EPV.Model.FocusCtorDriver
open EPV.Proto EPV.Scope

partial def parseE : List String → Option (Expr × List String)
  | "I" :: k :: r => (int? k).map fun n => (.int n, r)
  | "V" :: x :: r => (nat? x).map fun n => (.var n, r)
  | "E" :: r => some (.empty, r)
  | "P" :: r => do let (e, r) ← parseE r; pure (.paren e, r)
  | "Z" :: r => do let (e, r) ← parseE r; pure (.tzOf e, r)
  | "J" :: r => do let (e, r) ← parseE r; pure (.adjust1 e, r)
  | "J2" :: r => do let (a, r) ← parseE r; let (b, r) ← parseE r; pure (.adjust2 a b, r)
  | "K" :: k :: r => (int? k).map fun n => (.durLit n, r)
  | "C0" :: r => do let (e, r) ← parseE r; pure (.call0 e, r)
  | "S" :: r => do let (a, r) ← parseE r; let (b, r) ← parseE r; pure (.seq a b, r)
  | "A" :: r => do let (a, r) ← parseE r; let (b, r) ← parseE r; pure (.add a b, r)
  | "M" :: r => do let (a, r) ← parseE r; let (b, r) ← parseE r; pure (.sub a b, r)
  | "Q" :: r => do let (a, r) ← parseE r; let (b, r) ← parseE r; pure (.eq a b, r)
  | "C" :: r => do let (a, r) ← parseE r; let (b, r) ← parseE r; pure (.call a b, r)
  | "D" :: l :: z :: r => do
      let l ← int? l
      let z ← if z == "n" then some none else (int? z).map some
      pure (.dt l z, r)
  | "L" :: x :: r => do let x ← nat? x; let (a, r) ← parseE r; let (b, r) ← parseE r; pure (.letE x a b, r)
  | "F" :: x :: r => do let x ← nat? x; let (a, r) ← parseE r; let (b, r) ← parseE r; pure (.forE x a b, r)
  | "O" :: x :: r => do let x ← nat? x; let (a, r) ← parseE r; let (b, r) ← parseE r; pure (.someE x a b, r)
  | "Y" :: x :: r => do let x ← nat? x; let (a, r) ← parseE r; let (b, r) ← parseE r; pure (.everyE x a b, r)
  | "N" :: k :: r => do
      let k ← nat? k
      let ps ← (r.take k).mapM nat?
      if ps.length ≠ k then none
      let (b, r) ← parseE (r.drop k)
      pure (.fn ps b, r)
  | _ => none

def parseTz (s : String) : Option (Option Int) :=
  if s == "n" then some none else (int? s).map some

def parseHeap (s : String) : Option Heap :=
  if s == "_" || s == "" then some [] else
  (s.splitOn ";").mapM fun o =>
    match o.splitOn ":" with
    | [l, z] => do let l ← int? l; let z ← parseTz z; pure (l, z)
    | _ => none

def parseItem (s : String) : Option (List Item) :=
  if s == "e" then some [] else
  match s.toList with
  | 'i' :: r => (int? (String.ofList r)).map fun n => [.int n]
  | 'r' :: r => (nat? (String.ofList r)).map fun n => [.dtref n]
  | _ => none

def parseVal (s : String) : Option Val := ((s.splitOn ".").mapM parseItem).map List.flatten

def parseStep (s : String) : Option Step :=
  match s.splitOn "#" with
  | [tz, env] => do
    let tz ← parseTz tz
    let ρ ← if env == "_" || env == "" then some [] else
      (env.splitOn ",").mapM fun kv =>
        match kv.splitOn ":" with
        | [k, v] => do let k ← nat? k; let v ← parseVal v; pure (k, v)
        | _ => none
    pure ⟨tz, ρ⟩
  | _ => none

def showTz : Option Int → String
  | none => "n"
  | some z => toString z

def showObs : Obs → String
  | .int n => s!"i{n}"
  | .bool b => if b then "b1" else "b0"
  | .dt l z => s!"d{l}@{showTz z}"
  | .dur s => s!"u{s}"
  | .fn k => s!"f{k}"
  | .dangling => "?"

def showErr : Err → String
  | .unbound => "ERR:unbound"
  | .type => "ERR:type"
  | .fuel => "ERR:fuel"

def showOut : Out → String
  | .ok [] => "()"
  | .ok l => ",".intercalate (l.map showObs)
  | .err e => showErr e

def showHeap (h : Heap) : String :=
  if h.isEmpty then "_" else ";".intercalate (h.map fun (l, z) => s!"{l}:{showTz z}")

/-- Env equality as the caller can see it (keys and observable values, object identity of refs) -/
def envSame (h : Heap) (a b : Env) : Bool := obsEnv h a == obsEnv h b && a.length == b.length

def fuel : Nat := 400

def answer (line : String) : String :=
  let fs := fields line
  match parseHeap (field fs "H") with
  | none => "bad-heap"
  | some h0 =>
    match ((field fs "STEPS").splitOn "|").mapM parseStep with
    | none => "bad-steps"
    | some steps =>
      let etoks := (((line.splitOn " E=").getD 1 "").splitOn " ").filter (· ≠ "")
      let q : Quirks := Quirks.lexical      -- the reference tree: all repairs in
      match parseE etoks with
      | some (e, []) =>
        let pinnedOuts := (runHistory .pinned fuel e steps h0).1
        let (_, recs) := (steps.zip pinnedOuts).foldl (fun (st : Heap × List String) (sp : Step × Out) =>
          let (h, recs) := st
          let (s, pout) := sp
          let r := eval ⟨q, s.tz⟩ fuel e s.ρ h
          let (m, envok, h') := match r with
            | .ok (v, ρ', h') => (Out.ok (obs h' v), envSame h' ρ' s.ρ, h')
            | .error (er, ρ', h') => (Out.err er, envSame h' ρ' s.ρ, h')
          let sp := semOut s.tz h0 fuel e s.ρ
          (h', recs ++ [s!"m={showOut m} s={showOut sp} env={if envok then 1 else 0} heap={showHeap h'} p={showOut pout}"]))
          (h0, [])
        "|".intercalate recs
      | _ => "bad-expr"

def answerAll (line : String) : String :=
  if line.startsWith "FC " then EPV.FocusCtor.answerFC line else answer line

def main : IO Unit := mainLoop answerAll

/-
Driver for C16.  Request line:
  cfg=<share><leak><lexical> fuel=<n> P=<program in prefix notation, tokens separated by one space>
program tokens:
  lit <int> | dlit <int> | elit <int> | inst <integer|decimal|double|boolean> E | tt | ff | emp | var <n> | dot | pos | last | add E E | sub E E | mul E E | gt E E | eq E E
  | cat E E | ite E E E | for <x> E E | let <x> E E | fn <tok> <k> <p1>..<pk> E | tfn <tok> <k> <p1>..<pk> <t1>..<tk> <rt> E (types: item|atomic|integer|decimal|double|boolean|func + optional ?*+) | named <builtin>
  | call E <k> A1..Ak   (A = `?` or E) | spart <builtin> <k> A1..Ak | par E | smap E E | forEach E E | filter E E
  | foldL E E E | foldR E E E | pairs E E E | sortK <0|1 case-insensitive collation> E E | slit <k> <cp1>..<cpk> | nan | inf+ | inf- | negz | apply E <k> E1..Ek
  (argument order as in XPath: forEach S F, foldL S Z F, pairs S1 S2 F, sortK S F, apply F [M…])
Answer:  model=<result> flags=<stale><scope><arity> spec=<result>
result: items separated by `,` (`()` for the empty sequence): integers, `D<n>` / `E<n>` for an
integer-valued decimal / double, `true`/`false`, `F` for a function item; `ERR:<code>` for an error.

Container programs (phase 5, `EPV/Model/Containers.lean`): request line
  cfg=… fuel=<n> C=<npre> (<x> E)* <0 array|1 map> <nent> (<key> E)* <npost> (<x> E)* <nuses> U*
  U = get <k> | ucall <k> <n> A1..An | each <x> <k> <n> A1..An | foreach E   (array:for-each($c, E)?* / map:for-each($c, E))
same answer format (`ERR:FOAY0001`, `ERR:XQDY0137` for the container errors).
-/
import EPV.Proto
import EPV.Model.Closures
import EPV.Model.Containers
open EPV.Proto EPV.Clo

def parseBuiltin : String → Option Builtin
  | "abs" => some .abs | "count" => some .count | "sum" => some .sum | "reverse" => some .reverse
  | "head" => some .head | "tail" => some .tail | "exists" => some .exists_ | "empty" => some .empty_
  | "remove" => some .remove | "insert-before" => some .insertBefore
  | "position" => some .position0 | "last" => some .last0 | "data" => some .data0
  | _ => none

def parseSTy (t : String) : Option STy :=
  let (base, occ) :=
    if t.endsWith "*" then (t.dropEnd 1 |>.toString, Occ.star)
    else if t.endsWith "+" then (t.dropEnd 1 |>.toString, Occ.plus)
    else if t.endsWith "?" then (t.dropEnd 1 |>.toString, Occ.opt)
    else (t, Occ.one)
  let it : Option ITy := match base with
    | "item" => some .item | "atomic" => some .atomic | "integer" => some .integer
    | "decimal" => some .decimal | "double" => some .double | "boolean" => some .boolean
    | "func" => some .func | _ => none
  it.map fun i => { it := i, occ := occ }

mutual
partial def parseE : List String → Option (Expr × List String)
  | "lit" :: n :: r => (int? n).map fun v => (.lit v, r)
  | "dlit" :: n :: r => (int? n).map fun v => (.dlit v, r)
  | "elit" :: n :: r => (int? n).map fun v => (.elit v, r)
  | "inst" :: t :: r => do
    let t ← (match t with
      | "integer" => some Ty.integer | "decimal" => some Ty.decimal | "double" => some Ty.double
      | "boolean" => some Ty.boolean | "string" => some Ty.string | _ => none)
    let (e, r) ← parseE r
    pure (.inst t e, r)
  | "slit" :: k :: r => do
    let k ← nat? k
    if r.length < k then none else
    let cs ← (r.take k).mapM nat?
    pure (.slit cs, r.drop k)
  | "nan" :: r => some (.nanlit, r)
  | "inf+" :: r => some (.inflit true, r)
  | "inf-" :: r => some (.inflit false, r)
  | "negz" :: r => some (.negzlit, r)
  | "tt" :: r => some (.tt, r)
  | "ff" :: r => some (.ff, r)
  | "emp" :: r => some (.emp, r)
  | "var" :: n :: r => (nat? n).map fun v => (.var v, r)
  | "dot" :: r => some (.dot, r)
  | "pos" :: r => some (.posE, r)
  | "last" :: r => some (.lastE, r)
  | "add" :: r => bin .add r
  | "sub" :: r => bin .sub r
  | "mul" :: r => bin .mul r
  | "gt" :: r => bin .gt r
  | "eq" :: r => bin .eq r
  | "cat" :: r => bin .cat r
  | "smap" :: r => bin .smap r
  | "forEach" :: r => bin .forEach r
  | "filter" :: r => bin .filter r
  | "sortK" :: ci :: r => bin (.sortK (ci == "1")) r
  | "ite" :: r => tri .ite r
  | "foldL" :: r => tri .foldL r
  | "foldR" :: r => tri .foldR r
  | "pairs" :: r => tri .pairs r
  | "par" :: r => do let (e, r) ← parseE r; pure (.par e, r)
  | "for" :: x :: r => do
    let x ← nat? x; let (s, r) ← parseE r; let (b, r) ← parseE r; pure (.forE x s b, r)
  | "let" :: x :: r => do
    let x ← nat? x; let (s, r) ← parseE r; let (b, r) ← parseE r; pure (.letE x s b, r)
  | "fn" :: t :: k :: r => do
    let t ← nat? t; let k ← nat? k
    if r.length < k then none else
    let ps ← (r.take k).mapM nat?
    let (b, r) ← parseE (r.drop k)
    pure (.fnE t ps b, r)
  | "tfn" :: t :: k :: r => do
    let t ← nat? t; let k ← nat? k
    if r.length < 2 * k + 1 then none else
    let ps ← (r.take k).mapM nat?
    let tys ← ((r.drop k).take k).mapM parseSTy
    let rt ← parseSTy ((r.drop (2 * k)).headD "")
    let (b, r) ← parseE (r.drop (2 * k + 1))
    pure (.tfnE t ps tys rt b, r)
  | "named" :: b :: r => (parseBuiltin b).map fun v => (.named v, r)
  | "call" :: r => do
    let (f, r) ← parseE r
    match r with
    | k :: r => do let k ← nat? k; let (as, r) ← parseArgs k r; pure (.call f as, r)
    | [] => none
  | "spart" :: b :: k :: r => do
    let b ← parseBuiltin b
    let k ← nat? k
    let (as, r) ← parseArgs k r
    pure (.spart b as, r)
  | "apply" :: r => do
    let (f, r) ← parseE r
    match r with
    | k :: r => do let k ← nat? k; let (ms, r) ← parseList k r; pure (.apply f ms, r)
    | [] => none
  | _ => none
partial def bin (mk : Expr → Expr → Expr) (r : List String) : Option (Expr × List String) := do
  let (a, r) ← parseE r; let (b, r) ← parseE r; pure (mk a b, r)
partial def tri (mk : Expr → Expr → Expr → Expr) (r : List String) : Option (Expr × List String) := do
  let (a, r) ← parseE r; let (b, r) ← parseE r; let (c, r) ← parseE r; pure (mk a b c, r)
partial def parseArgs : Nat → List String → Option (List (Option Expr) × List String)
  | 0, r => some ([], r)
  | k + 1, "?" :: r => do let (as, r) ← parseArgs k r; pure (none :: as, r)
  | k + 1, r => do let (e, r) ← parseE r; let (as, r) ← parseArgs k r; pure (some e :: as, r)
partial def parseList : Nat → List String → Option (List Expr × List String)
  | 0, r => some ([], r)
  | k + 1, r => do let (e, r) ← parseE r; let (es, r) ← parseList k r; pure (e :: es, r)
end

def showItem : Item → String
  | .int n => toString n
  | .bool b => if b then "true" else "false"
  | .fn _ => "F"
  | .dec n => "D" ++ toString n
  | .dbl n => "E" ++ toString n
  | .str cs => "\"" ++ String.ofList (cs.map Char.ofNat) ++ "\""
  | .nan => "NaN"
  | .inf p => if p then "INF" else "-INF"
  | .negz => "E0"

def showRes : Except Err Seq → String
  | .error e => "ERR:" ++ e.code
  | .ok [] => "()"
  | .ok s => ",".intercalate (s.map showItem)

def bit (b : Bool) : String := if b then "1" else "0"

partial def parseBinds : Nat → List String → Option (List (Nat × Expr) × List String)
  | 0, r => some ([], r)
  | k + 1, x :: r => do
    let x ← nat? x; let (e, r) ← parseE r; let (bs, r) ← parseBinds k r; pure ((x, e) :: bs, r)
  | _, _ => none

partial def parseEntries : Nat → List String → Option (List (Int × Expr) × List String)
  | 0, r => some ([], r)
  | k + 1, x :: r => do
    let x ← int? x; let (e, r) ← parseE r; let (bs, r) ← parseEntries k r; pure ((x, e) :: bs, r)
  | _, _ => none

partial def parseUses : Nat → List String → Option (List CStep × List String)
  | 0, r => some ([], r)
  | n + 1, "get" :: k :: r => do
    let k ← int? k; let (us, r) ← parseUses n r; pure (.use (.get k) :: us, r)
  | n + 1, "ucall" :: k :: m :: r => do
    let k ← int? k; let m ← nat? m; let (as, r) ← parseArgs m r
    let (us, r) ← parseUses n r; pure (.use (.call k as) :: us, r)
  | n + 1, "each" :: x :: k :: m :: r => do
    let x ← nat? x; let k ← int? k; let m ← nat? m; let (as, r) ← parseArgs m r
    let (us, r) ← parseUses n r; pure (.use (.each x k as) :: us, r)
  | n + 1, "foreach" :: r => do
    let (f, r) ← parseE r; let (us, r) ← parseUses n r; pure (.forEach f :: us, r)
  | _, _ => none

def parseCont : List String → Option (CProg × List String)
  | npre :: r => do
    let npre ← nat? npre
    let (pre, r) ← parseBinds npre r
    match r with
    | m :: nent :: r => do
      let nent ← nat? nent
      let (ents, r) ← parseEntries nent r
      match r with
      | npost :: r => do
        let npost ← nat? npost
        let (post, r) ← parseBinds npost r
        match r with
        | nu :: r => do
          let nu ← nat? nu
          let (us, r) ← parseUses nu r
          pure ({ pre := pre, isMap := m == "1", entries := ents, post := post, uses := us }, r)
        | [] => none
      | [] => none
    | _ => none
  | [] => none

def showCRes : Except Err (Except XErr Seq) → String
  | .error e => "ERR:" ++ e.code
  | .ok (.error x) => "ERR:" ++ x.code
  | .ok (.ok s) => showRes (.ok s)

def parseCfg (cfgS : String) : Cfg :=
  let cs := cfgS.toList
  { share := cs.getD 0 '0' == '1', leak := cs.getD 1 '0' == '1', lexical := cs.getD 2 '0' == '1' }

def answerCont (cfgS : String) (fuel : Nat) (ctxt : String) : String :=
  match parseCont (ctxt.trimAscii.toString.splitOn " ") with
  | some (p, []) =>
    let o := implContEval (parseCfg cfgS) fuel p
    let f := o.flags
    s!"model={showCRes o.result} flags={bit f.stale}{bit f.scope}{bit f.arity} spec={showCRes (specContEval fuel p)}"
  | _ => "bad-program"

def answer (line : String) : String :=
  let fs := fields line
  let cfgS := field fs "cfg"
  match nat? (field fs "fuel"), (line.splitOn " P=") with
  | some fuel, [_, ptxt] =>
    match parseE (ptxt.trimAscii.toString.splitOn " ") with
    | some (p, []) =>
      let cs := cfgS.toList
      let cfg : Cfg := { share := cs.getD 0 '0' == '1', leak := cs.getD 1 '0' == '1', lexical := cs.getD 2 '0' == '1' }
      let o := implEval cfg fuel p
      let f := o.flags
      s!"model={showRes o.result} flags={bit f.stale}{bit f.scope}{bit f.arity} spec={showRes (specEval fuel p)}"
    | _ => "bad-program"
  | some fuel, _ =>
    match line.splitOn " C=" with
    | [_, ctxt] => answerCont cfgS fuel ctxt
    | _ => "bad-line"
  | _, _ => "bad-line"

def main : IO Unit := mainLoop answer

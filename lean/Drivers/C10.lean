/-
Driver for C10.  One request per line, `k=v` fields separated by single spaces:
  op=ctor  T=<xsd type> V=<10|11|none> S=<code points, comma separated, `_` = empty>
  op=valid T=<xsd type> S=<…>
  op=canon T=<integer type|decimal|boolean> (I=<int> | S=<lexical form> | B=<0|1>)
  op=greg K=<time|gDay|gMonth|gMonthDay> S=<cps>   op=lang S=<cps>   op=name K=<NCName|Name|NMTOKEN|QName> S=<cps>
  op=date K=<date|dateTime|dateTimeStamp|gYear|gYearMonth> V=<10|11> S=<cps>   op=str K=<string|untypedAtomic|normalizedString|token> S=<cps>
  op=qres N=<prefix cps>/<uri cps>|… (`-` = none) D=<cps of the default namespace, `-` = none> S=<cps>
  op=castv A=<source type> B=<target type>   (answer: spec=<Y|M|N|?>:<1|0 permitted>)
  op=uri F=<0|1: urlparse raised> P=<cps of urlparse(...).path> S=<cps>
  op=tz S=<timezone text>   op=tzcanon M=<minutes>   op=dur K=<duration|yearMonthDuration|dayTimeDuration> S=<cps>
  op=hexenc|b64enc Y=<octets, comma separated, `_` = empty>
  op=hex2b64|b642hex S=<stored value>
  op=cast  V=<10|11> K=<str|untyped|bool|int|dec|dbl> (S=<cps> | B=<0|1> | I=<int> | X=<nan|inf|-inf|neg:n:k> R=<repr cps>)
           T=<string|untypedAtomic|boolean|decimal|double|float|integer type>
Answer: `model=<raw model result> modelN=<model result, value normalised> spec=<spec result> inK=<flags>`
flags: `w` the string contains a character that Python treats as white space but XSD does not
       `v` the string is not in whitespace-normal form (s ≠ wsCollapse s)
       `r` (op=cast, double operand) the model `pyRepr` of CPython's repr(float) does not reproduce the given repr
       `o` (op=cast, integer -> double) the integer is too large for float(int) (F10o)
       `n` (op=name; cannot occur while EPV.C10.name_tables_agree holds) some character of the collapsed string is classified differently by the code's `\w`-based
           tables (generated) and by the XML 1.0 (5th ed.) name productions (former F10n)
-/
import EPV.Proto
import EPV.Model.Lexical
import EPV.Spec.XSDLexical
import EPV.Lemmas.LexicalRepr
import EPV.Lemmas.LexicalGreg
import EPV.Gen.C10Tables
import EPV.Model.LexicalDate
import EPV.Spec.XSDDateLex
import EPV.Spec.XSDCastTable
open EPV.Proto EPV

def parseCPs (s : String) : Option (List Char) :=
  if s == "_" || s == "" then some [] else
    (s.splitOn ",").mapM fun t => (nat? t).map Char.ofNat

def parseNats (s : String) : Option (List Nat) :=
  if s == "_" || s == "" then some [] else (s.splitOn ",").mapM nat?

def showNats (l : List Nat) : String := "[" ++ ",".intercalate (l.map toString) ++ "]"

def str (l : List Char) : String := String.ofList l

/-- code points as text (results may contain any character) -/
def showCPs (l : List Char) : String :=
  if l.isEmpty then "_" else ",".intercalate (l.map fun c => toString c.toNat)

def intTypes : List String := Lex.intBounds.map (·.1)

def flags (s : List Char) : String :=
  (if s.any (fun c => Lex.isPyStripWhite c && !XSD.isXsdWhite c) then "w" else "") ++
  (if s != XSD.wsCollapse s then "v" else "")

def out (model modelN spec fl : String) : String :=
  s!"model={model} modelN={modelN} spec={spec} inK={fl}"

def showDecRaw (d : Lex.PyDec) : String :=
  s!"ok:{if d.neg then 1 else 0}:{d.coef}:{d.scale}"

def showDecVal (v : XSD.DecVal) : String :=
  let w := v.norm
  s!"ok:{w.num}:{w.scale}"

def decValOfPy (d : Lex.PyDec) : XSD.DecVal :=
  ⟨if d.neg then -(d.coef : Int) else d.coef, d.scale⟩

def specFacets (t : String) : Option (Option Int × Option Int) :=
  (XSD.integerFacets.find? (·.1 == t)).map (·.2)

def showClass : Lex.DblClass → String
  | .nan => "ok:nan" | .pinf => "ok:inf" | .ninf => "ok:-inf" | .num => "ok:num"

def specDblClass (xsd11 : Bool) (t : List Char) : String :=
  if !XSD.doubleLex xsd11 t then "ERR:V"
  else if t == "NaN".toList then "ok:nan"
  else if t == "INF".toList || t == "+INF".toList then "ok:inf"
  else if t == "-INF".toList then "ok:-inf"
  else "ok:num"

def ctorAnswer (t : String) (v : Lex.Ver) (s : List Char) : String :=
  let fl := flags s
  let c := XSD.wsCollapse s
  if let some b := Lex.boundsOf t then
    let m := match Lex.intCtor b s with | .ok x => s!"ok:{x}" | .error _ => "ERR:V"
    let sp := match specFacets t with
      | some (lo, hi) =>
        if XSD.integerLex c && XSD.inFacets lo hi (XSD.integerVal c) then s!"ok:{XSD.integerVal c}" else "ERR:V"
      | none => "ERR:nospec"
    out m m sp fl
  else if t == "decimal" then
    match Lex.decCtor s with
    | .ok d =>
      let sp := if XSD.decimalLex c then showDecVal (XSD.decimalVal c) else "ERR:V"
      out (showDecRaw d) (showDecVal (decValOfPy d)) sp fl
    | .error _ =>
      let sp := if XSD.decimalLex c then showDecVal (XSD.decimalVal c) else "ERR:V"
      out "ERR:V" "ERR:V" sp fl
  else if t == "boolean" then
    let m := match Lex.boolCtor s with | .ok x => s!"ok:{x}" | .error _ => "ERR:V"
    let sp := if XSD.booleanLex c then s!"ok:{XSD.booleanVal c}" else "ERR:V"
    out m m sp fl
  else if t == "double" || t == "float" then
    let m := match Lex.dblCtor v s with | .ok x => showClass x | .error _ => "ERR:V"
    out m m (specDblClass (v != .v10) c) fl
  else if t == "hexBinary" then
    let sp := if XSD.hexLex c then "ok:" ++ showNats (XSD.hexOctets c) else "ERR:V"
    match Lex.hexCtor s with
    | .ok x =>
      let oct := match Lex.hexDecode x with | some bs => "ok:" ++ showNats (bs.map (·.val)) | none => "ERR:decode"
      out ("ok:" ++ str x) oct sp fl
    | .error _ => out "ERR:V" "ERR:V" sp fl
  else if t == "base64Binary" then
    let sp := if XSD.base64Lex c then "ok:" ++ showNats (XSD.b64Octets c) else "ERR:V"
    match Lex.b64Ctor s with
    | .ok x =>
      let oct := match Lex.b64Decode x with | some bs => "ok:" ++ showNats (bs.map (·.val)) | none => "ERR:decode"
      out ("ok:" ++ str x) oct sp fl
    | .error _ => out "ERR:V" "ERR:V" sp fl
  else "bad-type"

def b01 (b : Bool) : String := if b then "1" else "0"

def validAnswer (t : String) (s : List Char) : String :=
  let fl := flags s
  let c := XSD.wsCollapse s
  if let some b := Lex.boundsOf t then
    let sp := match specFacets t with
      | some (lo, hi) => XSD.integerLex c && XSD.inFacets lo hi (XSD.integerVal c)
      | none => false
    out (b01 (Lex.intIsValid b s)) (b01 (Lex.intIsValid b s)) (b01 sp) fl
  else if t == "decimal" then out (b01 (Lex.decIsValid s)) (b01 (Lex.decIsValid s)) (b01 (XSD.decimalLex c)) fl
  else if t == "boolean" then out (b01 (Lex.boolIsValid s)) (b01 (Lex.boolIsValid s)) (b01 (XSD.booleanLex c)) fl
  else if t == "double" || t == "float" then
    out (b01 (Lex.dblIsValid s)) (b01 (Lex.dblIsValid s)) (b01 (XSD.doubleLex true c)) fl
  else if t == "hexBinary" then out (b01 (Lex.hexIsValid s)) (b01 (Lex.hexIsValid s)) (b01 (XSD.hexLex c)) fl
  else if t == "base64Binary" then out (b01 (Lex.b64IsValid s)) (b01 (Lex.b64IsValid s)) (b01 (XSD.base64Lex c)) fl
  else "bad-type"

def canonAnswer (t : String) (fs : List (String × String)) : String :=
  if (Lex.boundsOf t).isSome then
    match int? (field fs "I") with
    | some v => out (str (Lex.intCanon v)) (str (Lex.intCanon v)) (str (XSD.integerCanon v)) ""
    | none => "bad-int"
  else if t == "decimal" then
    match parseCPs (field fs "S") with
    | some s =>
      let c := XSD.wsCollapse s
      let sp := if XSD.decimalLex c then str (XSD.decimalCanon (XSD.decimalVal c)) else "ERR:V"
      match Lex.decCtor s with
      | .ok d => out (str (Lex.decCanon d)) (b01 (XSD.isCanonicalDecimal (Lex.decCanon d))) sp (flags s)
      | .error _ => out "ERR:V" "ERR:V" sp (flags s)
    | none => "bad-string"
  else if t == "boolean" then
    let b := field fs "B" == "1"
    out (toString b) (toString b) (if b then "true" else "false") ""
  else "bad-type"

/-! ### casting corner -/

/-- reading of CPython's `repr(float)` for a finite double: sign, shortest digits (no leading / trailing
zeros; `[]` for zero) and decimal exponent `e` with value = d₁.d₂… × 10^e.  Trusted glue (the digits
themselves are CPython's). -/
def parseRepr (r : List Char) : Option (Bool × List Char × Int) :=
  let (neg, body) := match r with | '-' :: t => (true, t) | t => (false, t)
  let (mant, ex) := match XSD.splitAt (fun c => c == 'e' || c == 'E') body with
    | (m, some x) => (m, (String.ofList (match x with | '+' :: y => y | y => y)).toInt?)
    | (m, none) => (m, some 0)
  match ex with
  | none => none
  | some x =>
    let (ip, fp) := match XSD.splitAt (· == '.') mant with
      | (a, some f) => (a, f)
      | (a, none) => (a, [])
    if !(ip ++ fp).all XSD.isDigit || ip.isEmpty then none else
    let all := ip ++ fp
    let lead := (all.takeWhile (· == '0')).length
    let ds := ((all.dropWhile (· == '0')).reverse.dropWhile (· == '0')).reverse
    if ds.isEmpty then some (neg, [], 0)
    else some (neg, ds, (ip.length : Int) - 1 - lead + x)

def parseDbl (x : String) : Option Lex.Dbl :=
  if x == "nan" then some .nan else if x == "inf" then some .pinf else if x == "-inf" then some .ninf else
  match x.splitOn ":" with
  | [a, b, c] => do
    let n ← nat? b; let k ← nat? c
    pure (.fin (a == "1") n k)
  | _ => none

def showCVal : Lex.CVal → String
  | .str s => "ok:str:" ++ showCPs s
  | .untyped s => "ok:untyped:" ++ showCPs s
  | .bool b => s!"ok:bool:{b}"
  | .int v => s!"ok:int:{v}"
  | .dec neg c k => s!"ok:dec:{if neg then 1 else 0}:{c}:{k}"
  | .dbl c => "ok:dbl:" ++ (match c with | .nan => "nan" | .pinf => "inf" | .ninf => "-inf" | .num => "num")

def showCErr : Lex.CErr → String
  | .FORG0001 => "ERR:FORG0001" | .FOCA0002 => "ERR:FOCA0002" | .XPTY0004 => "ERR:XPTY0004"

def showSVal : XSD.SVal → String
  | .str s => "ok:str:" ++ showCPs s
  | .untyped s => "ok:untyped:" ++ showCPs s
  | .bool b => s!"ok:bool:{b}"
  | .int v => s!"ok:int:{v}"
  | .dec v => let w := v.norm; s!"ok:dec:{w.num}:{w.scale}"
  | .dbl c => "ok:dbl:" ++ (match c with | .nan => "nan" | .pinf => "inf" | .ninf => "-inf" | .num => "num")

/-- model result with the decimal normalised like the spec prints it -/
def showCValN : Lex.CVal → String
  | .dec neg c k => showSVal (.dec ⟨if neg then -(c : Int) else c, k⟩)
  | v => showCVal v

def castAnswer (fs : List (String × String)) : String :=
  let ver : Lex.Ver := match field fs "V" with | "10" => .v10 | "11" => .v11 | _ => .none
  let tname := field fs "T"
  let target : Option (Lex.Target × XSD.SType) :=
    if tname == "string" then some (.string, .string)
    else if tname == "untypedAtomic" then some (.untypedAtomic, .untypedAtomic)
    else if tname == "boolean" then some (.boolean, .boolean)
    else if tname == "decimal" then some (.decimal, .decimal)
    else if tname == "double" then some (.double, .double (ver != .v10))
    else if tname == "float" then some (.float, .double (ver != .v10))
    else match Lex.boundsOf tname, specFacets tname with
      | some b, some (lo, hi) => some (.integer b, .integer lo hi)
      | _, _ => none
  let kind := field fs "K"
  let src : Option (Lex.Atom × XSD.SAtom × String) :=
    if kind == "str" then (parseCPs (field fs "S")).map fun s => (.str s, .str s, flags s)
    else if kind == "untyped" then (parseCPs (field fs "S")).map fun s => (.untyped s, .untyped s, flags s)
    else if kind == "bool" then some (.bool (field fs "B" == "1"), .bool (field fs "B" == "1"), "")
    else if kind == "int" then (int? (field fs "I")).map fun v =>
      (.int v, .int v, if (tname == "double" || tname == "float") && v.natAbs ≥ 2 ^ 1024 - 2 ^ 970 then "o" else "")
    else if kind == "dec" then
      (parseCPs (field fs "S")).bind fun s =>
        match Lex.decCtor s with
        | .ok d => some (.dec d, .dec (XSD.decimalVal (XSD.wsCollapse s)), "")
        | .error _ => none
    else if kind == "dbl" then
      match parseDbl (field fs "X"), parseCPs (field fs "R") with
      | some x, some r =>
        let sx : XSD.SDbl := match x with
          | .nan => .nan | .pinf => .pinf | .ninf => .ninf | .fin a n k => .fin a n k
        match x with
        | .fin _ _ _ =>
          (match parseRepr r with
           | some (ng, ds, e) =>
             -- `r` flags a repr string that the model `pyRepr` of CPython's repr does not reproduce
             let rflag := if !ds.isEmpty && LexLemmas.pyRepr ng ds e != r then "r" else ""
             some (.dbl x r, .dbl sx ds e,
               rflag)
           | none => none)
        | _ => some (.dbl x r, .dbl sx [] 0, "")
      | _, _ => none
    else none
  match target, src with
  | some (mt, st), some (ma, sa, fl) =>
    let m := Lex.cast ver ma mt
    let (mtxt, mn) := match m with
      | .ok v => (showCVal v, showCValN v)
      | .error e => (showCErr e, "ERR")
    let sp := match XSD.castSpec sa st with | some v => showSVal v | none => "ERR"
    let fl := if tname == "string" || tname == "untypedAtomic" then fl else fl.replace "d" ""
    out mtxt mn sp fl
  | _, _ => "bad-cast-request"

def answer (line : String) : String :=
  let fs := fields line
  let op := field fs "op"
  let t := field fs "T"
  let v : Lex.Ver := match field fs "V" with | "10" => .v10 | "11" => .v11 | _ => .none
  if op == "ctor" then
    match parseCPs (field fs "S") with
    | some s => ctorAnswer t v s
    | none => "bad-string"
  else if op == "valid" then
    match parseCPs (field fs "S") with
    | some s => validAnswer t s
    | none => "bad-string"
  else if op == "canon" then canonAnswer t fs
  else if op == "hexenc" || op == "b64enc" then
    match parseNats (field fs "Y") with
    | some ns =>
      if ns.all (· < 256) then
        let bs : List Lex.Byte := ns.map (Fin.ofNat 256)
        if op == "hexenc" then
          let e := Lex.hexEncodeUpper bs
          out (str e) (match Lex.hexDecode e with | some r => showNats (r.map (·.val)) | none => "ERR") (showNats (XSD.hexOctets e)) ""
        else
          let e := Lex.b64Encode bs
          out (str e) (match Lex.b64Decode e with | some r => showNats (r.map (·.val)) | none => "ERR") (showNats (XSD.b64Octets e)) ""
      else "bad-octet"
    | none => "bad-octets"
  else if op == "hex2b64" || op == "b642hex" then
    match parseCPs (field fs "S") with
    | some s =>
      if op == "hex2b64" then
        match Lex.castHexToB64 s with
        | some r => out (str r) (showNats (XSD.b64Octets r)) (showNats (XSD.hexOctets s)) ""
        | none => out "ERR" "ERR" (showNats (XSD.hexOctets s)) ""
      else
        match Lex.castB64ToHex s with
        | some r => out (str r) (showNats (XSD.hexOctets r)) (showNats (XSD.b64Octets s)) ""
        | none => out "ERR" "ERR" (showNats (XSD.b64Octets s)) ""
    | none => "bad-string"
  else if op == "cast" then castAnswer fs
  else if op == "dur" then
    match parseCPs (field fs "S") with
    | some s =>
      let kname := field fs "K"
      let k : Lex.DurKind := if kname == "yearMonthDuration" then .yearMonth
        else if kname == "dayTimeDuration" then .dayTime else .duration
      let m := match Lex.durCtor k s with
        | .ok (mo, us) => s!"ok:{mo}:{us}"
        | .error .value => "ERR:V"
        | .error .overflow => "ERR:O"
      let c := XSD.wsCollapse s
      let kindOk : Bool :=
        if kname == "yearMonthDuration" then !c.contains 'D' && !c.contains 'T'
        else if kname == "dayTimeDuration" then
          !c.contains 'Y' && !((XSD.splitAt (· == 'T') c).1.contains 'M')
        else true
      let sp := match XSD.durationVal? c with
        | some (mo, v) =>
          if !kindOk then "ERR:V"
          else if v.scale ≤ 6 then s!"ok:{mo}:{v.num * 10 ^ (6 - v.scale)}"
          else s!"ok:{mo}:~"          -- more than microseconds: the implementation rounds (quantize)
        | none => "ERR:V"
      out m m sp ""
    | none => "bad-string"
  else if op == "lang" then
    match parseCPs (field fs "S") with
    | some s =>
      let m := match Lex.langCtor s with | some v => "ok:" ++ showCPs v | none => "ERR:V"
      let c := XSD.wsCollapse s
      let sp := if XSD.languageLex c then "ok:" ++ showCPs c else "ERR:V"
      out m m sp ""
    | none => "bad-string"
  else if op == "name" && field fs "K" == "QName" then
    match parseCPs (field fs "S") with
    | some s =>
      let c := XSD.wsCollapse s
      let m := if Lex.matchQName Gen.C10.qnamePFirst Gen.C10.qnamePLater Gen.C10.qnameFirst Gen.C10.qnameLater (Lex.pyStrip s)
        then "ok" else "ERR:V"
      let sp := if XSD.qNameLex c then "ok" else "ERR:V"
      let alike := c.all fun x => (Lex.inRanges Gen.C10.qnameFirst x == XSD.inSet XSD.nameStartNoColon x) &&
        (Lex.inRanges Gen.C10.qnameLater x == XSD.inSet XSD.nameCharNoColon x)
      out m m sp (flags s ++ (if alike then "" else "n"))
    | none => "bad-string"
  else if op == "name" then
    match parseCPs (field fs "S") with
    | some s =>
      let kname := field fs "K"
      let (first, later, sf, sl, lex) :=
        if kname == "Name" then (Gen.C10.nameFirst, Gen.C10.nameLater, XSD.nameStartNoColon ++ XSD.colon,
          XSD.nameCharNoColon ++ XSD.colon, XSD.nameLex)
        else if kname == "NMTOKEN" then (Gen.C10.nmtokenFirst, Gen.C10.nmtokenLater, XSD.nameCharNoColon ++ XSD.colon,
          XSD.nameCharNoColon ++ XSD.colon, XSD.nmtokenLex)
        else (Gen.C10.ncnameFirst, Gen.C10.ncnameLater, XSD.nameStartNoColon, XSD.nameCharNoColon, XSD.ncNameLex)
      let m := match Lex.nameCtor first later s with | some v => "ok:" ++ showCPs v | none => "ERR:V"
      let c := XSD.wsCollapse s
      let sp := if lex c then "ok:" ++ showCPs c else "ERR:V"
      let alike : Bool := match c with
        | [] => true
        | x :: r => (Lex.inRanges first x == XSD.inSet sf x) && r.all fun y => Lex.inRanges later y == XSD.inSet sl y
      out m m sp (flags s ++ (if alike then "" else "n"))
    | none => "bad-string"
  else if op == "dectuple" then
    -- phase 5: a Decimal given by as_tuple() (sign N, coefficient C, exponent -K): model = string_value text,
    -- modelN = the text of format(d,'f') the model derives it from, spec = decimalCanon of the number
    match int? (field fs "C"), int? (field fs "K") with
    | some c, some k =>
      let neg := field fs "N" == "1"
      let d := Lex.pyDecOfTuple neg c.toNat k.toNat
      let fmt := (if neg then "-" else "") ++ str d.ip ++ (if d.fp.isEmpty then "" else "." ++ str d.fp)
      out (str (Lex.decCanon d)) fmt (str (XSD.decimalCanon ⟨if neg then -(c.toNat : Int) else c.toNat, k.toNat⟩)) ""
    | _, _ => "bad-dectuple"
  else if op == "castv" then
    let a := field fs "A"
    let b := field fs "B"
    let v := ((XSD.castVerdict (XSD.tableTypeOf a) (XSD.tableTypeOf b)).map XSD.Verdict.code).getD "?"
    let tv := ((XSD.castVerdict a b).map XSD.Verdict.code).getD "-"
    out tv tv s!"{v}:{if XSD.castAllowed a b then 1 else 0}" ""
  else if op == "qres" then
    let nsField := field fs "N"
    let pairs : Option (List (List Char × List Char)) :=
      if nsField == "-" || nsField == "" then some [] else
        (nsField.splitOn "|").mapM fun e =>
          match e.splitOn "/" with
          | [a, b] => match parseCPs a, parseCPs b with | some x, some y => some (x, y) | _, _ => none
          | _ => none
    let dField := field fs "D"
    match pairs, parseCPs (field fs "S"), (if dField == "-" then some none else (parseCPs dField).map some) with
    | some known, some s, some d =>
      let ns := (match d with | some u => [([], u)] | none => []) ++ known
      let show3 (r : List Char × List Char × List Char) : String := s!"ok:{showCPs r.1}:{showCPs r.2.1}:{showCPs r.2.2}"
      let m := match Lex.qnameMake (Lex.matchQName Gen.C10.qnamePFirst Gen.C10.qnamePLater Gen.C10.qnameFirst Gen.C10.qnameLater) ns s with
        | .ok r => show3 r
        | .error .value => "ERR:V"
        | .error .nokey => "ERR:K"
      let sp := match XSD.castToQName known (d.getD []) s with | some r => show3 r | none => "ERR"
      out m m sp (flags s)
    | _, _, _ => "bad-string"
  else if op == "uri" then
    match parseCPs (field fs "S"), parseCPs (field fs "P") with
    | some s, some path =>
      let m := match Lex.anyUriCtor (field fs "F" == "1") path s with | some v => "ok:" ++ showCPs v | none => "ERR:V"
      let c := XSD.wsCollapse s
      let sp := s!"ok:{showCPs c}:hash={if XSD.atMostOneHash c then 1 else 0}:pct={if XSD.pctEncodedOk c then 1 else 0}" ++
        s!":colon={if XSD.noLeadingColon c then 1 else 0}"
      out m m sp (flags s)
    | _, _ => "bad-string"
  else if op == "str" then
    match parseCPs (field fs "S") with
    | some s =>
      let kname := field fs "K"
      let m := if kname == "token" then (match Lex.tokenCtor s with | some v => "ok:" ++ showCPs v | none => "ERR:V")
        else if kname == "normalizedString" then "ok:" ++ showCPs (Lex.normStrCtor s)
        else "ok:" ++ showCPs s
      let sp := if kname == "token" then "ok:" ++ showCPs (XSD.wsCollapse s)
        else if kname == "normalizedString" then "ok:" ++ showCPs (XSD.wsReplace s)
        else "ok:" ++ showCPs s
      out m m sp (flags s)
    | none => "bad-string"
  else if op == "date" then
    match parseCPs (field fs "S") with
    | some s =>
      let kname := field fs "K"
      let v11 := field fs "V" != "10"
      let r : Except Cal.Err Cal.DT :=
        if kname == "date" then Cal.dateOfLex v11 s
        else if kname == "dateTime" then Cal.dateTimeOfLex v11 s
        else if kname == "dateTimeStamp" then Lex.dateTimeStampOfLex s
        else if kname == "gYear" then Cal.gOfLex .gYear v11 s
        else Cal.gOfLex .gYearMonth v11 s
      let showTz (z : Option Int) : String := match z with | some m => toString m | none => "n"
      let m := match r with
        | .ok v => s!"ok:{v.year}:{v.month}:{v.day}:{v.us}:{showTz v.tz}"
        | .error .value => "ERR:V"
        | .error .overflow => "ERR:O"
        | .error _ => "ERR:?"
      let t := XSD.wsCollapse s
      let f? : Option XSD.DateFields :=
        if kname == "date" then XSD.dateLex v11 t
        else if kname == "dateTime" then XSD.dateTimeLex v11 t
        else if kname == "dateTimeStamp" then XSD.dateTimeStampLex true t
        else if kname == "gYear" then XSD.gYearLex v11 t
        else XSD.gYearMonthLex v11 t
      let sp := match f? with
        | some f => s!"ok:{f.year}:{f.month}:{f.day}:{f.hour}:{f.minute}:{f.second}:{XSD.microTrunc f.frac}:{showTz f.tz}"
        | none => "ERR:V"
      out m m sp (flags s)
    | none => "bad-string"
  else if op == "greg" then
    match parseCPs (field fs "S") with
    | some s =>
      let kname := field fs "K"
      let k : Lex.GKind := if kname == "gDay" then .gDay else if kname == "gMonth" then .gMonth
        else if kname == "gMonthDay" then .gMonthDay else .time
      let showV (v : Lex.DTVal) : String :=
        s!"ok:{v.month}:{v.day}:{v.hour}:{v.minute}:{v.second}:{v.micro}:" ++
          (match v.tz with | some z => toString z | none => "none")
      let m := match Lex.gCtor k s with | some v => showV v | none => "ERR:V"
      let sp := match LexLemmas.specOf k (XSD.wsCollapse s) with
        | some g => showV (LexLemmas.toDT g)
        | none => "ERR:V"
      out m m sp ""
    | none => "bad-string"
  else if op == "tz" then
    match parseCPs (field fs "S") with
    | some s =>
      let m := match Lex.tzParse s with
        | some v => s!"ok:{v}:{showCPs (Lex.tzCanon v)}"
        | none => "ERR:V"
      let sp := match XSD.timezoneVal? s with
        | some v => s!"ok:{v}:{showCPs (XSD.timezoneCanon v)}"
        | none => "ERR:V"
      out m m sp ""
    | none => "bad-string"
  else if op == "tzcanon" then
    match int? (field fs "M") with
    | some v => out (showCPs (Lex.tzCanon v)) (showCPs (Lex.tzCanon v)) (showCPs (XSD.timezoneCanon v)) ""
    | none => "bad-int"
  else "bad-op"

def main : IO Unit := mainLoop answer

/-
Driver for C08.  Request line (fields separated by single spaces):
  item=<atom|-> pos=<n> size=<n> vars=<id>:<atom>,<atom>;<id>:…|_ expr=<tok>~<tok>~…
atoms:  i:<int>   d:nan | d:inf | d:-inf | d:<m>/<k> (= m / 2^k)   s:<hex>.<hex>… (code points,
        `s:` = empty string)   b:0 | b:1
expression tokens (Polish notation, fixed arity):
  <atom>  E (empty)  v<id>  .  P (position())  L (last())
  ,  to  [  !                      two operands
  for<n> / some<n> / every<n>      then n × (<id> <expr>) then the body
  f1:<name> e   f2:<name> e e   f3:<name> e e e
  c:eq|ne|lt|le|gt|ge e e    and e e    or e e    a:+|-|* e e    if e e e
        q:<m>/<k> (xs:decimal m / 10^k)   u:<hex>… (xs:untypedAtomic)   n:<i> (node, pre-order index)
        d:-0 (negative zero);  doc=<hex>…|<hex>…|- … the string values of the nodes (`-` = empty, `_` = no document)
Answer:  model=<result> spec=<result> k=<0|1> m=<0|1> lazy=<result> errs=<codes|_>
         (k: trigger of finding F08b; m: invariant / monotone promotion on a top-level fn:max / fn:min; lazy / errs: the permitted outcomes, Spec.Permitted)
result = `_` (empty) | atoms joined by `,` | ERR:<code>.
Optional field coll=ci: the default collation is html-ascii-case-insensitive.
fn:deep-equal on atomic sequences (phase 5):  deq=<atoms|_>;<atoms|_> [coll=ci]  (atoms joined by `,`; a:<hex>… = xs:anyURI)
         → model=<1|0|ERR:OTHER:OverflowError|ERR:UNSUPPORTED> spec=<1|0> t=<0|1> tn=<0|1> ti=<0|1> (t: `deqTrigger`; tn / ti: some pair satisfies `nanVsHuge` / `infVsHuge`, the inputs of the repaired defects F08ab / F08ac — histogram only) b=<deciding pair>
Kernel probes:  ckey=<hex|->,<hex|-> → string eq / lt under html-ascii-case-insensitive;  lex=<hex|-> → the xs:double of a lexical form or ERR:FORG0001;  rnd=<n>/<d> → the double nearest to n/d;  sig28=<n>/<d> → n/d at 28 significant digits.
-/
import EPV.Proto
import EPV.Spec.FOSeqLazy
import EPV.Spec.FODeepEq
open EPV.Proto EPV.Seq

def hexVal (c : Char) : Option Nat :=
  if '0' ≤ c ∧ c ≤ '9' then some (c.toNat - '0'.toNat)
  else if 'a' ≤ c ∧ c ≤ 'f' then some (c.toNat - 'a'.toNat + 10)
  else none

def parseHex (s : String) : Option Nat :=
  if s.isEmpty then none else s.toList.foldlM (fun acc c => (hexVal c).map (acc * 16 + ·)) 0

def parseStr (s : String) : Option String :=
  if s.isEmpty then some "" else
  ((s.splitOn ".").mapM parseHex).map fun cps => String.ofList (cps.map Char.ofNat)

def parseD (s : String) : Option D :=
  if s == "nan" then some .nan else if s == "inf" then some .pinf else if s == "-inf" then some .ninf
  else if s == "-0" then some .nzero
  else match s.splitOn "/" with
    | [m, k] => do let m ← int? m; let k ← nat? k; pure (.fin m k)
    | _ => none

def parseAtom (s : String) : Option Atom :=
  if s.startsWith "i:" then (int? (s.drop 2).toString).map .int
  else if s.startsWith "d:" then (parseD (s.drop 2).toString).map .dbl
  else if s.startsWith "s:" then (parseStr (s.drop 2).toString).map .str
  else if s.startsWith "u:" then (parseStr (s.drop 2).toString).map .untyped
  else if s.startsWith "n:" then (nat? (s.drop 2).toString).map .node
  else if s.startsWith "q:" then
    match (s.drop 2).toString.splitOn "/" with
    | [m, k] => do let m ← int? m; let k ← nat? k; pure (.dec m k)
    | _ => none
  else if s == "b:1" then some (.bool true)
  else if s == "b:0" then some (.bool false)
  else none

def fn1Of : String → Option Fn1
  | "count" => some .count | "empty" => some .empty | "exists" => some .exists_
  | "head" => some .head | "tail" => some .tail | "reverse" => some .reverse
  | "zero-or-one" => some .zeroOrOne | "one-or-more" => some .oneOrMore
  | "exactly-one" => some .exactlyOne | "sum" => some .sum | "avg" => some .avg
  | "min" => some .min | "max" => some .max | "distinct-values" => some .distinct
  | "string-join" => some .stringJoin | "not" => some .not_ | "boolean" => some .boolean
  | "round" => some .round
  | _ => none

def fn2Of : String → Option Fn2
  | "remove" => some .remove | "index-of" => some .indexOf | "subsequence" => some .subseq
  | "string-join" => some .stringJoin | "sum" => some .sum
  | _ => none

def fn3Of : String → Option Fn3
  | "insert-before" => some .insertBefore | "subsequence" => some .subseq
  | _ => none

def cmpOf : String → Option Cmp
  | "eq" => some .eq | "ne" => some .ne | "lt" => some .lt | "le" => some .le
  | "gt" => some .gt | "ge" => some .ge | _ => none

def arithOf : String → Option Arith
  | "+" => some .add | "-" => some .sub | "*" => some .mul | _ => none

mutual
def parseE : Nat → List String → Option (Expr × List String)
  | 0, _ => none
  | _, [] => none
  | fuel + 1, t :: ts =>
    let bin (mk : Expr → Expr → Expr) : Option (Expr × List String) := do
      let (a, r1) ← parseE fuel ts
      let (b, r2) ← parseE fuel r1
      pure (mk a b, r2)
    if t == "E" then some (.empty, ts)
    else if t == "." then some (.dot, ts)
    else if t == "P" then some (.position, ts)
    else if t == "L" then some (.last, ts)
    else if t == "," then bin .comma
    else if t == "to" then bin .range
    else if t == "[" then bin .filter
    else if t == "!" then bin .map
    else if t == "and" then bin .andE
    else if t == "or" then bin .orE
    else if t == "if" then do
      let (a, r1) ← parseE fuel ts
      let (b, r2) ← parseE fuel r1
      let (c, r3) ← parseE fuel r2
      pure (.ifE a b c, r3)
    else if t.startsWith "v" then (nat? (t.drop 1).toString).map fun n => (.var n, ts)
    else if t.startsWith "c:" then do
      let op ← cmpOf (t.drop 2).toString
      bin (.cmp op)
    else if t.startsWith "a:" then do
      let op ← arithOf (t.drop 2).toString
      bin (.arith op)
    else if t.startsWith "f1:" then do
      let f ← fn1Of (t.drop 3).toString
      let (a, r1) ← parseE fuel ts
      pure (.fn1 f a, r1)
    else if t.startsWith "f2:" then do
      let f ← fn2Of (t.drop 3).toString
      bin (.fn2 f)
    else if t.startsWith "f3:" then do
      let f ← fn3Of (t.drop 3).toString
      let (a, r1) ← parseE fuel ts
      let (b, r2) ← parseE fuel r1
      let (c, r3) ← parseE fuel r2
      pure (.fn3 f a b c, r3)
    else if t.startsWith "for" then do
      let n ← nat? (t.drop 3).toString
      let (bs, r1) ← parseB fuel n ts
      let (body, r2) ← parseE fuel r1
      pure (.forE bs body, r2)
    else if t.startsWith "some" then do
      let n ← nat? (t.drop 4).toString
      let (bs, r1) ← parseB fuel n ts
      let (body, r2) ← parseE fuel r1
      pure (.someE bs body, r2)
    else if t.startsWith "every" then do
      let n ← nat? (t.drop 5).toString
      let (bs, r1) ← parseB fuel n ts
      let (body, r2) ← parseE fuel r1
      pure (.everyE bs body, r2)
    else (parseAtom t).map fun a => (.lit a, ts)
def parseB : Nat → Nat → List String → Option (Binds × List String)
  | 0, _, _ => none
  | _, 0, _ => none
  | fuel + 1, n + 1, ts =>
    match ts with
    | [] => none
    | x :: r0 => do
      let x ← nat? x
      let (e, r1) ← parseE fuel r0
      if n = 0 then pure (.one x e, r1)
      else
        let (rest, r2) ← parseB fuel n r1
        pure (.cons x e rest, r2)
end

def hexOf (n : Nat) : String := String.ofList (Nat.toDigits 16 n)

def normD : Int → Nat → Int × Nat
  | m, 0 => (m, 0)
  | m, k + 1 => if m % 2 = 0 then normD (m / 2) k else (m, k + 1)

def normDec : Int → Nat → Int × Nat
  | m, 0 => (m, 0)
  | m, k + 1 => if m % 10 = 0 then normDec (m / 10) k else (m, k + 1)

def showD : D → String
  | .nan => "d:nan" | .pinf => "d:inf" | .ninf => "d:-inf" | .nzero => "d:-0"
  | .fin m k => let (m', k') := normD m k; s!"d:{m'}/{k'}"

def showAtom : Atom → String
  | .int n => s!"i:{n}"
  | .dbl d => showD d
  | .str s => "s:" ++ ".".intercalate (s.toList.map fun c => hexOf c.toNat)
  | .untyped s => "u:" ++ ".".intercalate (s.toList.map fun c => hexOf c.toNat)
  | .node i => s!"n:{i}"
  | .dec m k => let (m', k') := normDec m k; s!"q:{m'}/{k'}"
  | .bool b => if b then "b:1" else "b:0"

def showErr : Err → String
  | .XPTY0004 => "ERR:XPTY0004" | .FORG0001 => "ERR:FORG0001" | .FORG0003 => "ERR:FORG0003" | .FORG0004 => "ERR:FORG0004"
  | .FORG0005 => "ERR:FORG0005" | .FORG0006 => "ERR:FORG0006" | .XPDY0002 => "ERR:XPDY0002"
  | .XPST0008 => "ERR:XPST0008" | .UNSUPPORTED => "ERR:UNSUPPORTED"

def showR : R → String
  | .error e => showErr e
  | .ok [] => "_"
  | .ok l => ",".intercalate (l.map showAtom)

def parseVars (s : String) : Option Vars :=
  if s == "_" || s == "" then some [] else
  (s.splitOn ";").mapM fun entry =>
    match entry.splitOn ":" with
    | id :: rest => do
      let id ← nat? id
      let body := ":".intercalate rest
      let atoms ← if body == "" then some [] else (body.splitOn ",").mapM parseAtom
      pure (id, atoms)
    | _ => none

def parseDoc (s : String) : Option (List String) :=
  if s == "_" || s == "" then some [] else (s.splitOn "|").mapM fun x => if x == "-" then some "" else parseStr x

def parseDItem (s : String) : Option DItem :=
  if s.startsWith "a:" then (parseStr (s.drop 2).toString).map .uri
  else (parseAtom s).map DItem.ofAtom

def parseDSeq (s : String) : Option (List DItem) :=
  if s == "_" || s == "" then some [] else (s.splitOn ",").mapM parseDItem

def kindOf : DItem → String
  | .int _ => "int" | .dec _ _ => "dec" | .dbl .nan => "nan" | .dbl .pinf => "inf" | .dbl .ninf => "inf"
  | .dbl _ => "dbl" | .str _ => "str" | .bool _ => "bool" | .untyped _ => "untyped" | .uri _ => "uri" | .node _ => "node"

/-- which pair decided the model's answer (for the branch histogram) -/
def deqBranch (cl : Coll) : List DItem → List DItem → String
  | [], [] => "all-equal"
  | [], _ :: _ => "length"
  | _ :: _, [] => "length"
  | a :: as, b :: bs =>
    match deepEqPair cl a b with
    | .ok true => deqBranch cl as bs
    | .ok false => s!"differ:{kindOf a}/{kindOf b}"
    | .error _ => s!"error:{kindOf a}/{kindOf b}"

def answerDeq (fs : List (String × String)) : String :=
  match (field fs "deq").splitOn ";" with
  | [x, y] => match parseDSeq x, parseDSeq y with
    | some xs, some ys =>
      let cl : Coll := if field fs "coll" == "ci" then .asciiCI else .codepoint
      let m := match deepEqual cl xs ys with
        | .ok true => "1" | .ok false => "0"
        | .error .overflow => "ERR:OTHER:OverflowError" | .error .unsupported => "ERR:UNSUPPORTED"
      let s := if DSpec.atomic xs && DSpec.atomic ys then (if DSpec.deepEqual cl xs ys then "1" else "0") else "ERR:UNSUPPORTED"
      s!"model={m} spec={s} t={if deqTrigger xs ys then 1 else 0} tn={if (xs.zip ys).any (fun p => nanVsHuge p.1 p.2) then 1 else 0} ti={if (xs.zip ys).any (fun p => infVsHuge p.1 p.2) then 1 else 0} b={deqBranch cl xs ys}"
    | _, _ => "bad-deq"
  | _ => "bad-deq"

def answer (line : String) : String :=
  let fs := fields line
  if (field fs "deq") != "" then answerDeq fs else
  -- kernel probes: rnd=<n>/<d>  and  sig28=<n>/<d>
  if (field fs "rnd") != "" then
    match (field fs "rnd").splitOn "/" with
    | [n, d] => match int? n, nat? d with
      | some n, some d => showD (rnd n d)
      | _, _ => "bad-rnd"
    | _ => "bad-rnd"
  else if (field fs "lex") != "" then
    match parseStr (if field fs "lex" == "-" then "" else field fs "lex") with
    | some str => (match lexDouble str with | some d => showD d | none => "ERR:FORG0001")
    | none => "bad-lex"
  else if (field fs "ckey") != "" then
    -- collation probe: ckey=<hex|->,<hex|-> → `eq` and `lt` of the two strings under html-ascii-case-insensitive
    match (field fs "ckey").splitOn "," with
    | [a, b] => match parseStr (if a == "-" then "" else a), parseStr (if b == "-" then "" else b) with
      | some x, some y => s!"ceq={if collEq .asciiCI x y then 1 else 0} clt={if collLt .asciiCI x y then 1 else 0}"
      | _, _ => "bad-ckey"
    | _ => "bad-ckey"
  else if (field fs "sig28") != "" then
    match (field fs "sig28").splitOn "/" with
    | [n, d] => match int? n, nat? d with
      | some n, some d => let r := roundSig28 n d; let (m, k) := normDec r.1 r.2; s!"q:{m}/{k}"
      | _, _ => "bad-sig28"
    | _ => "bad-sig28"
  else
  let toks := (field fs "expr").splitOn "~"
  match parseE (toks.length + 1) toks, parseVars (field fs "vars"), nat? (field fs "pos"), nat? (field fs "size"),
      parseDoc (field fs "doc") with
  | some (e, []), some vars, some pos, some size, some doc =>
    let itemS := field fs "item"
    match (if itemS == "-" then some none else (parseAtom itemS).map some) with
    | none => "bad-item"
    | some item =>
      -- default collation of the static context: coll=ci (html-ascii-case-insensitive), absent = code points
      let c : Ctx := { item := item, pos := pos, size := size, vars := vars, doc := doc,
                       coll := if field fs "coll" == "ci" then .asciiCI else .codepoint }
      let m := parseEval e c
      let s := Spec.sem Spec.foSum e c
      -- hypothesis of theorem `min_max_fo_literal` on a top-level fn:max / fn:min: the promotion to
      -- xs:double is monotone on the (converted) argument values; `m=0` reports a failure
      let mono := match e with
        | .fn1 .min a | .fn1 .max a =>
          (match Spec.sem Spec.foSum a c with
           | .ok v => (match Spec.castUntyped (v.map (Spec.atomized c.doc)) with
                       | .ok w => Spec.promotionMonotoneOn w && w.all Spec.goodItem
                       | _ => true)
           | _ => true)
        | _ => true
      -- the outcomes XPath permits (Spec.Permitted): the lazy value, the reachable error codes
      let lzv := (Spec.lz Spec.foSum e c).force
      let cs := (Spec.codes Spec.foSum e c).eraseDups
      let errs := if cs.isEmpty then "_" else ",".intercalate (cs.map showErr)
      s!"model={showR m} spec={showR s} k={if e.loopVarInRange then 1 else 0} m={if mono then 1 else 0} lazy={showR lzv} errs={errs}"
  | some (_, _ :: _), _, _, _, _ => "bad-expr-trailing"
  | none, _, _, _, _ => "bad-expr"
  | _, _, _, _, _ => "bad-line"

def main : IO Unit := mainLoop answer

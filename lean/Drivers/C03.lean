/-
Driver for C03.  One request per line, one answer per line.  Strings travel as dot-separated code
points (`_` = empty string).

H <call>|<call>|...            parse history on ONE instance.  <call> = S:<cps>:<fresh> (string source)
                               or O:<tag>:<fresh>; <fresh> = canonical outcome of the same call on a
                               NEW instance (no spaces, `|`, `:`), supplied by the harness.
   answer: model=<r#cursor|...> spec=<r#cursor|...>   (model: `runHistory` on the cursor model with a
           body that answers <fresh> on a clean cursor and DIRTY otherwise; spec: `freshRuns`)
L v=<ver> [a=2] m=<match>;<match>;...  (a=2: the comment-aware `XPath2Parser.advance`)  <match> = <g><n>:<cps>[:<end offset>], g∈{l,s,n,u,w} the regex group, n = 1 if
                               `name_pattern.match(text)`.
   answer: model=<sym>,<sym>,...;err=<err>;last=<sym> spec=<ok|bad>
E ns=<pfx cps>~<uri cps>;... k=s code=<cps>  |  E ns=... k=q uri=<cps> p=<cps> l=<cps>      `xpath_error`
   answer: model=<class>,<code cps>,<raisedInside> spec=<ok|bad>
X cls=<PyClass> site=<file:function> n=<number of tokens> syms=<cps>,<cps>,...   trigger predicate of the
                               known escapes (EPV.C03Esc.trigger)
   answer: inK=<finding id>#<row index> | inK=-
T                              dump of the trigger table: id;cls;site;sym,sym,..;minToks|...
W k=alpha a=<alphabet cps> n=<int>        `int_to_alphabetic` from `base = len(alphabet)` on (EPV.C03Loops)
   answer: model=<v:cps | x:Class | fuel> spec=<value of the digit string in bijective base len(a)>
W k=args t=<tok>,<tok>,...                `get_argument_tokens`; pre-order token tree, <tok> = <items: 0|1|2><1 if symbol is ','>,
                               identity = position in the list
   answer: model=<v:id.id… | x:Class | fuel> spec=<v:… | x:IndexError>   (spec: recursive `argsSpec`)
W k=desc n=<top-level count> t=<node>,<node>,...   `ElementNode.iter_descendants(with_self=False)`; pre-order,
                               <node> = e<children> | o<children>, identity = position in the list
   answer: model=<v:id.id… | fuel> spec=<v:…> steps=<measure>   (spec: recursive pre-order `Forest.pre`)
W k=walk op=<anc|prec|foll|lang> s=<node>,<node>,... root=<id> doc=<0|1> item=<id> self=<0|1>   the parent walks of
                               EPV/Model/C03Loops2.lean; <node> = <parent id or ->:<1 if EtreeElementNode><1 if xml:lang>,
                               identity = position in the list; `item` = the node the loop starts from
   answer: model=<v:… | fuel> spec=<ok|bad|->  wf=<1 if every parent id is smaller than the child's>
           anc: v:<ids in yield order>, spec = `chainOK`;  prec: v:<top>;<ancestors>;  foll: v:<top>;  lang: v:<id or ->
-/
import EPV.Proto
import EPV.Gen.C03Tables
import EPV.Spec.EscapeTriggers
import EPV.Model.C03Loops
import EPV.Model.C03Loops2
open EPV.Proto EPV.PState EPV.Lexer EPV.XErr

def decodeStr (s : String) : String :=
  if s == "_" || s == "" then "" else
  String.ofList ((s.splitOn ".").map fun t => Char.ofNat ((nat? t).getD 0))

def encodeStr (s : String) : String :=
  if s.isEmpty then "_" else ".".intercalate (s.toList.map fun c => toString c.toNat)

/-! ## H: histories -/

structure Call where
  src : Src
  fresh : String

def parseCall (s : String) : Option Call :=
  match s.splitOn ":" with
  | ["S", cps, fresh] => some ⟨.str (decodeStr cps), fresh⟩
  | ["O", tag, fresh] => some ⟨.other ((nat? tag).getD 0), fresh⟩
  | _ => none

/-- the configuration the driver runs the cursor model with: matches are the characters of the
source; the body answers what a new instance answers — provided the cursor it is started on IS the
one a new instance would have (otherwise `DIRTY`), and it leaves a thoroughly dirty cursor behind -/
def histCfg (calls : List Call) : Config String Char String String where
  start := "(start)"
  tokenize := fun s => match s with | .str t => some t.toList | .other _ => none
  invalidSource := fun s => ((calls.find? (·.src == s)).map (·.fresh)).getD "?"
  body := fun c =>
    let dirty := c.token != "(start)" || c.nextToken != "(start)" || c.nextMatch != none ||
      !c.parseArgs || c.tokens != c.source.toList
    let r := if dirty then "DIRTY" else ((calls.find? (·.src == .str c.source)).map (·.fresh)).getD "?"
    let c' := { c with tokens := c.tokens.drop 1, nextMatch := c.tokens.head?, token := "tok",
                       nextToken := "next", parseArgs := false }
    (if r.startsWith "ok" then .ok r else .error r, c')
  post := .ok

def showCursor (c : Cursor String Char) : String :=
  s!"src={encodeStr c.source},tokens={c.tokens.length},nm={if c.nextMatch.isSome then 1 else 0},t={c.token},nt={c.nextToken},pa={if c.parseArgs then 1 else 0}"

def showRC (rc : Except String String × Cursor String Char) : String :=
  (match rc.1 with | .ok r => r | .error e => e) ++ "#" ++ showCursor rc.2

def answerH (rest : String) : String :=
  match (rest.splitOn "|").mapM parseCall with
  | none => "bad-call"
  | some calls =>
    let cfg := histCfg calls
    let srcs := calls.map (·.src)
    let model := runHistory cfg (Cursor.init cfg.start) srcs
    -- spec: each call on a new instance; the `source` attribute of the reused instance is the text of
    -- the last string call so far (EPV.C03.rejected_source_keeps_text)
    let fresh := freshRuns cfg srcs
    let rec fix (last : String) : List Src → List (Except String String × Cursor String Char) →
        List (Except String String × Cursor String Char)
      | s :: ss, rc :: rcs =>
        let last' := match s with | .str t => t | .other _ => last
        (rc.1, { rc.2 with source := last' }) :: fix last' ss rcs
      | _, _ => []
    let spec := fix "" srcs fresh
    s!"model={"|".intercalate (model.map showRC)} spec={"|".intercalate (spec.map showRC)}"

/-! ## L: lexer -/

def parseMatch (s : String) : Option (Match × Bool) :=
  match s.splitOn ":" with
  | hd :: cps :: rest =>
    let stop := (nat? (rest.headD "0")).getD 0
    let t := decodeStr cps
    let nm := hd.toList.getD 1 '0' == '1'
    match hd.toList.head? with
    | some 'l' => some (⟨t, some t, none, none, none, stop⟩, nm)
    | some 's' => some (⟨t, none, some t, none, none, stop⟩, nm)
    | some 'n' => some (⟨t, none, none, some t, none, stop⟩, nm)
    | some 'u' => some (⟨t, none, none, none, some t, stop⟩, nm)
    | some 'w' => some (⟨t, none, none, none, none, stop⟩, nm)
    | _ => none
  | _ => none

def showErr : Option Err → String
  | none => "-"
  | some (.coded c) => "ERR:" ++ c
  | some (.other c) => "ERR:OTHER:" ++ c

def answerL (fs : List (String × String)) : String :=
  match (EPV.Gen.C03.tables.find? (·.1 == field fs "v")).map (·.2) with
  | none => "bad-version"
  | some tb =>
    let ms := ((field fs "m").splitOn ";").filter (· ≠ "")
    match ms.mapM parseMatch with
    | none => "bad-match"
    | some pairs =>
      let matches_ := pairs.map (·.1)
      let nameSet := (pairs.filter (·.2)).map (·.1.text)
      let start : Tok := ⟨"(start)", "symbol", "(start)"⟩
      let c0 : Cursor Tok Match := { Cursor.init start with tokens := matches_ }
      -- a=2: the live XPath2Parser.advance; `src` = the source, `r` = re-tokenizations `p@<matches>` joined by `~`
      -- (what tokenizer.finditer(source, p) returned in the harness, for every offset p just after a `:)`)
      let src := (decodeStr (field fs "src")).toList
      let retokP : List (Nat × List (Match × Bool)) := (((field fs "r").splitOn "~").filter (· ≠ "")).filterMap fun e =>
        match e.splitOn "@" with
        | [p, ms] => ((((ms.splitOn ";").filter (· ≠ "")).mapM parseMatch).map fun l => ((nat? p).getD 0, l))
        | _ => none
      let tokFrom : Nat → List Match := fun p => (((retokP.find? (·.1 == p)).map (·.2)).getD []).map (·.1)
      let nameSet2 := nameSet ++ (retokP.flatMap fun pr => (pr.2.filter (·.2)).map (·.1.text))
      let o := pyOracles (fun s => nameSet2.contains s)
      let (syms, err, last) :=
        if field fs "a" == "2" then lexAll3 tb o src tokFrom (src.length + matches_.length + 2) c0
        else lexAll tb o (matches_.length + 2) c0
      let okSyms := syms.all tb.has
      let okErr := match err with
        | none => true
        | some (.coded c) => (EPV.Gen.C03.codeMap.cls? c).isSome
        | some (.other _) => false
      let pat := matches_.all FromPattern
      s!"model={",".intercalate syms};err={showErr err};last={last} spec={if okSyms && okErr then "ok" else "bad"} pat={if pat then 1 else 0}"

/-! ## E: xpath_error -/

def answerE (fs : List (String × String)) : String :=
  let nsList := (((field fs "ns").splitOn ";").filter (· ≠ "")).filterMap fun kv =>
    match kv.splitOn "~" with
    | [a, b] => some (decodeStr a, decodeStr b)
    | _ => none
  let pfx := computePrefix nsList
  let arg : CodeArg :=
    if field fs "k" == "q" then .qname (decodeStr (field fs "uri")) (decodeStr (field fs "p")) (decodeStr (field fs "l"))
    else .str (decodeStr (field fs "code"))
  let r := xpathError EPV.Gen.C03.codeMap pfx arg
  let ok := isEPE EPV.Gen.C03.classGraph r.cls && !r.code.isEmpty
  s!"model={r.cls},{encodeStr r.code},{if r.raisedInside then 1 else 0} spec={if ok then "ok" else "bad"}"

/-! ## X / T: trigger predicates of the known escapes -/

def answerX (fs : List (String × String)) : String :=
  let syms := (((field fs "syms").splitOn ",").filter (· ≠ "")).map decodeStr
  match EPV.C03Esc.triggerIdx (field fs "cls") (field fs "site") syms ((nat? (field fs "n")).getD 0) with
  | some i => s!"inK={((EPV.C03Esc.rows.drop i).head?.map (·.id)).getD "-"}#{i}"
  | none => "inK=-"

def answerT : String :=
  "|".intercalate (EPV.C03Esc.rows.map fun r =>
    s!"{r.id};{r.cls};{r.site};{",".intercalate r.anySym};{r.minToks}")

/-! ## W: three more `while` loops (EPV.C03Loops) -/

open EPV.C03Loops in
def showOut {α : Type} (f : α → String) : Out α → String
  | .val a => "v:" ++ f a
  | .escape c => "x:" ++ c
  | .outOfFuel => "fuel"

def showIds (l : List Nat) : String := if l.isEmpty then "_" else ".".intercalate (l.map toString)

open EPV.C03Loops in
def parseTk : Nat → List String → Nat → Option (Tk × List String × Nat)
  | 0, _, _ => none
  | _, [], _ => none
  | fuel + 1, t :: rest, next =>
    let comma := t.toList.getD 1 '0' == '1'
    match t.toList.head? with
    | some '0' => some (.leaf comma next, rest, next + 1)
    | some '1' => do
      let (k0, r1, n1) ← parseTk fuel rest (next + 1)
      pure (.un comma next k0, r1, n1)
    | some '2' => do
      let (k0, r1, n1) ← parseTk fuel rest (next + 1)
      let (k1, r2, n2) ← parseTk fuel r1 n1
      pure (.bin comma next k0 k1, r2, n2)
    | _ => none

open EPV.C03Loops in
def parseForest : Nat → Nat → List String → Nat → Option (Forest × List String × Nat)
  | 0, _, _, _ => none
  | _, 0, toks, next => some (.nil, toks, next)
  | _, _ + 1, [], _ => none
  | fuel + 1, n + 1, t :: rest, next => do
    let el := t.toList.head? == some 'e'
    let k ← nat? (t.drop 1).toString
    let (kids, r1, n1) ← parseForest fuel k rest (next + 1)
    let (sib, r2, n2) ← parseForest fuel n r1 n1
    pure (.cons next el kids sib, r2, n2)

open EPV.C03Loops in
def answerWalk (fs : List (String × String)) : String :=
  let ents : List (Option Nat × Bool × Bool) := (((field fs "s").splitOn ",").filter (· ≠ "")).map fun e =>
    match e.splitOn ":" with
    | [p, fl] => (nat? p, fl.toList.getD 0 '0' == '1', fl.toList.getD 1 '0' == '1')
    | _ => (none, false, false)
  let arr := ents.toArray
  let st : Store := ⟨fun n => (arr[n]?).bind (·.1), fun n => ((arr[n]?).map (·.2.1)).getD false,
                     fun n => ((arr[n]?).map (·.2.2)).getD false⟩
  let wf := (List.range arr.size).all fun n => match st.parent n with | some p => p < n | none => true
  let root := (nat? (field fs "root")).getD 0
  let doc := field fs "doc" == "1"
  let item := (nat? (field fs "item")).getD 0
  let orSelf := field fs "self" == "1"
  let w := if wf then 1 else 0
  match field fs "op" with
  | "anc" =>
    let r := iterAncestors st root doc item orSelf
    let spec := match r with
      | .val l =>
        let chain := (if orSelf then l.dropLast else l).reverse
        let run := doc || item != root
        if (if run then chainOK st root doc item chain else chain.isEmpty) && (!orSelf || l.getLast? == some item)
        then "ok" else "bad"
      | _ => "-"
    s!"model={showOut showIds r} spec={spec} wf={w}"
  | "prec" =>
    s!"model={showOut (fun (r : Nat × List Nat) => s!"{r.1};{showIds r.2}") (precLoop st root doc (item + 2) ⟨item, [item]⟩)} spec=- wf={w}"
  | "foll" => s!"model={showOut toString (follLoop st root (item + 2) item)} spec=- wf={w}"
  | "lang" =>
    s!"model={showOut (fun (o : Option Nat) => (o.map toString).getD "-") (langLoop st (item + 2) (some item))} spec=- wf={w}"
  | _ => "bad-op"

open EPV.C03Loops in
def answerW (fs : List (String × String)) : String :=
  let toks := ((field fs "t").splitOn ",").filter (· ≠ "")
  match field fs "k" with
  | "walk" => answerWalk fs
  | "alpha" =>
    let a := (decodeStr (field fs "a")).toList
    match int? (field fs "n") with
    | none => "bad-int"
    | some n =>
      let r := intToAlphabetic a n
      let v := match r with
        | .val s => toString (alphaValue a (s.toList.filter (· ≠ '-')))
        | _ => "-"
      s!"model={showOut encodeStr r} spec={v}"
  | "args" =>
    match parseTk (toks.length + 1) toks 0 with
    | some (tk, [], _) =>
      let spec := match argsSpec tk with | some l => "v:" ++ showIds l | none => "x:IndexError"
      s!"model={showOut showIds (getArgumentTokens tk)} spec={spec} ok={if tk.spineOK then 1 else 0}"
    | _ => "bad-tree"
  | "desc" =>
    match parseForest (2 * toks.length + 2) ((nat? (field fs "n")).getD 0) toks 0 with
    | some (fo, [], _) =>
      s!"model={showOut showIds (iterDescendants fo)} spec=v:{showIds fo.pre} steps={fo.size}"
    | _ => "bad-forest"
  | _ => "bad-kind"

def answer (line : String) : String :=
  if line.startsWith "X " then answerX (fields (line.drop 2).toString) else
  if line == "T" then answerT else
  if line.startsWith "W " then answerW (fields (line.drop 2).toString) else
  if line.startsWith "H " then answerH (line.drop 2).toString
  else if line.startsWith "L " then answerL (fields (line.drop 2).toString)
  else if line.startsWith "E " then answerE (fields (line.drop 2).toString)
  else "bad-line"

def main : IO Unit := mainLoop answer

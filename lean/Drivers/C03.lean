/-
Driver for C03.  One request per line, one answer per line.  Strings travel as dot-separated code
points (`_` = empty string).

H <call>|<call>|...            parse history on ONE instance.  <call> = S:<cps>:<fresh> (string source)
                               or O:<tag>:<fresh>; <fresh> = canonical outcome of the same call on a
                               NEW instance (no spaces, `|`, `:`), supplied by the harness.
   answer: model=<r#cursor|...> spec=<r#cursor|...>   (model: `runHistory` on the cursor model with a
           body that answers <fresh> on a clean cursor and DIRTY otherwise; spec: `freshRuns`)
L v=<ver> [a=2] m=<match>;<match>;...  (a=2: the comment-aware `XPath2Parser.advance`)  <match> = <g><n>:<cps>[:<end offset>], g∈{l,s,n,u,w} the regex group, n = 1 if
                               `name_pattern.match(text)`.
   answer: model=<sym>,<sym>,...;err=<err>;last=<sym> spec=<ok|bad>
E ns=<pfx cps>~<uri cps>;... k=s code=<cps>  |  E ns=... k=q uri=<cps> p=<cps> l=<cps>      `xpath_error`
   answer: model=<class>,<code cps>,<raisedInside> spec=<ok|bad>
X cls=<PyClass> site=<file:function> n=<number of tokens> syms=<cps>,<cps>,...   trigger predicate of the
                               known escapes (EPV.C03Esc.trigger)
   answer: inK=<finding id>#<row index> | inK=-
T                              dump of the trigger table: id;cls;site;sym,sym,..;minToks|...
-/
import EPV.Proto
import EPV.Gen.C03Tables
import EPV.Spec.EscapeTriggers
open EPV.Proto EPV.PState EPV.Lexer EPV.XErr

def decodeStr (s : String) : String :=
  if s == "_" || s == "" then "" else
  String.ofList ((s.splitOn ".").map fun t => Char.ofNat ((nat? t).getD 0))

def encodeStr (s : String) : String :=
  if s.isEmpty then "_" else ".".intercalate (s.toList.map fun c => toString c.toNat)

/-! ## H: histories -/

structure Call where
  src : Src
  fresh : String

def parseCall (s : String) : Option Call :=
  match s.splitOn ":" with
  | ["S", cps, fresh] => some ⟨.str (decodeStr cps), fresh⟩
  | ["O", tag, fresh] => some ⟨.other ((nat? tag).getD 0), fresh⟩
  | _ => none

/-- the configuration the driver runs the cursor model with: matches are the characters of the
source; the body answers what a new instance answers — provided the cursor it is started on IS the
one a new instance would have (otherwise `DIRTY`), and it leaves a thoroughly dirty cursor behind -/
def histCfg (calls : List Call) : Config String Char String String where
  start := "(start)"
  tokenize := fun s => match s with | .str t => some t.toList | .other _ => none
  invalidSource := fun s => ((calls.find? (·.src == s)).map (·.fresh)).getD "?"
  body := fun c =>
    let dirty := c.token != "(start)" || c.nextToken != "(start)" || c.nextMatch != none ||
      !c.parseArgs || c.tokens != c.source.toList
    let r := if dirty then "DIRTY" else ((calls.find? (·.src == .str c.source)).map (·.fresh)).getD "?"
    let c' := { c with tokens := c.tokens.drop 1, nextMatch := c.tokens.head?, token := "tok",
                       nextToken := "next", parseArgs := false }
    (if r.startsWith "ok" then .ok r else .error r, c')
  post := .ok

def showCursor (c : Cursor String Char) : String :=
  s!"src={encodeStr c.source},tokens={c.tokens.length},nm={if c.nextMatch.isSome then 1 else 0},t={c.token},nt={c.nextToken},pa={if c.parseArgs then 1 else 0}"

def showRC (rc : Except String String × Cursor String Char) : String :=
  (match rc.1 with | .ok r => r | .error e => e) ++ "#" ++ showCursor rc.2

def answerH (rest : String) : String :=
  match (rest.splitOn "|").mapM parseCall with
  | none => "bad-call"
  | some calls =>
    let cfg := histCfg calls
    let srcs := calls.map (·.src)
    let model := runHistory cfg (Cursor.init cfg.start) srcs
    -- spec: each call on a new instance; the `source` attribute of the reused instance is the text of
    -- the last string call so far (EPV.C03.rejected_source_keeps_text)
    let fresh := freshRuns cfg srcs
    let rec fix (last : String) : List Src → List (Except String String × Cursor String Char) →
        List (Except String String × Cursor String Char)
      | s :: ss, rc :: rcs =>
        let last' := match s with | .str t => t | .other _ => last
        (rc.1, { rc.2 with source := last' }) :: fix last' ss rcs
      | _, _ => []
    let spec := fix "" srcs fresh
    s!"model={"|".intercalate (model.map showRC)} spec={"|".intercalate (spec.map showRC)}"

/-! ## L: lexer -/

def parseMatch (s : String) : Option (Match × Bool) :=
  match s.splitOn ":" with
  | hd :: cps :: rest =>
    let stop := (nat? (rest.headD "0")).getD 0
    let t := decodeStr cps
    let nm := hd.toList.getD 1 '0' == '1'
    match hd.toList.head? with
    | some 'l' => some (⟨t, some t, none, none, none, stop⟩, nm)
    | some 's' => some (⟨t, none, some t, none, none, stop⟩, nm)
    | some 'n' => some (⟨t, none, none, some t, none, stop⟩, nm)
    | some 'u' => some (⟨t, none, none, none, some t, stop⟩, nm)
    | some 'w' => some (⟨t, none, none, none, none, stop⟩, nm)
    | _ => none
  | _ => none

def showErr : Option Err → String
  | none => "-"
  | some (.coded c) => "ERR:" ++ c
  | some (.other c) => "ERR:OTHER:" ++ c

def answerL (fs : List (String × String)) : String :=
  match (EPV.Gen.C03.tables.find? (·.1 == field fs "v")).map (·.2) with
  | none => "bad-version"
  | some tb =>
    let ms := ((field fs "m").splitOn ";").filter (· ≠ "")
    match ms.mapM parseMatch with
    | none => "bad-match"
    | some pairs =>
      let matches_ := pairs.map (·.1)
      let nameSet := (pairs.filter (·.2)).map (·.1.text)
      let start : Tok := ⟨"(start)", "symbol", "(start)"⟩
      let c0 : Cursor Tok Match := { Cursor.init start with tokens := matches_ }
      -- a=2: the live XPath2Parser.advance; `src` = the source, `r` = re-tokenizations `p@<matches>` joined by `~`
      -- (what tokenizer.finditer(source, p) returned in the harness, for every offset p just after a `:)`)
      let src := (decodeStr (field fs "src")).toList
      let retokP : List (Nat × List (Match × Bool)) := (((field fs "r").splitOn "~").filter (· ≠ "")).filterMap fun e =>
        match e.splitOn "@" with
        | [p, ms] => ((((ms.splitOn ";").filter (· ≠ "")).mapM parseMatch).map fun l => ((nat? p).getD 0, l))
        | _ => none
      let tokFrom : Nat → List Match := fun p => (((retokP.find? (·.1 == p)).map (·.2)).getD []).map (·.1)
      let nameSet2 := nameSet ++ (retokP.flatMap fun pr => (pr.2.filter (·.2)).map (·.1.text))
      let o := pyOracles (fun s => nameSet2.contains s)
      let (syms, err, last) :=
        if field fs "a" == "2" then lexAll3 tb o src tokFrom (src.length + matches_.length + 2) c0
        else lexAll tb o (matches_.length + 2) c0
      let okSyms := syms.all tb.has
      let okErr := match err with
        | none => true
        | some (.coded c) => (EPV.Gen.C03.codeMap.cls? c).isSome
        | some (.other _) => false
      let pat := matches_.all FromPattern
      s!"model={",".intercalate syms};err={showErr err};last={last} spec={if okSyms && okErr then "ok" else "bad"} pat={if pat then 1 else 0}"

/-! ## E: xpath_error -/

def answerE (fs : List (String × String)) : String :=
  let nsList := (((field fs "ns").splitOn ";").filter (· ≠ "")).filterMap fun kv =>
    match kv.splitOn "~" with
    | [a, b] => some (decodeStr a, decodeStr b)
    | _ => none
  let pfx := computePrefix nsList
  let arg : CodeArg :=
    if field fs "k" == "q" then .qname (decodeStr (field fs "uri")) (decodeStr (field fs "p")) (decodeStr (field fs "l"))
    else .str (decodeStr (field fs "code"))
  let r := xpathError EPV.Gen.C03.codeMap pfx arg
  let ok := isEPE EPV.Gen.C03.classGraph r.cls && !r.code.isEmpty
  s!"model={r.cls},{encodeStr r.code},{if r.raisedInside then 1 else 0} spec={if ok then "ok" else "bad"}"

/-! ## X / T: trigger predicates of the known escapes -/

def answerX (fs : List (String × String)) : String :=
  let syms := (((field fs "syms").splitOn ",").filter (· ≠ "")).map decodeStr
  match EPV.C03Esc.triggerIdx (field fs "cls") (field fs "site") syms ((nat? (field fs "n")).getD 0) with
  | some i => s!"inK={((EPV.C03Esc.rows.drop i).head?.map (·.id)).getD "-"}#{i}"
  | none => "inK=-"

def answerT : String :=
  "|".intercalate (EPV.C03Esc.rows.map fun r =>
    s!"{r.id};{r.cls};{r.site};{",".intercalate r.anySym};{r.minToks}")

def answer (line : String) : String :=
  if line.startsWith "X " then answerX (fields (line.drop 2).toString) else
  if line == "T" then answerT else
  if line.startsWith "H " then answerH (line.drop 2).toString
  else if line.startsWith "L " then answerL (fields (line.drop 2).toString)
  else if line.startsWith "E " then answerE (fields (line.drop 2).toString)
  else "bad-line"

def main : IO Unit := mainLoop answer

/-
Driver for C07.  One request per line, `k=v` fields separated by single spaces.

  k=G m=<v1|v2c|v2|v31> op=<eq|ne|lt|le|gt|ge> l=<seq> r=<seq> [z=<min>]   general comparison  l op r (z: implicit timezone)
  k=V m=… op=… l=<seq> r=<seq>                                      value comparison
  k=B m=… f=<boolean|not|if|blist> l=<seq>                          boolean(S) / not(S) / if (S) then 1 else 0 / token.boolean_value(list)
  k=L m=… f=<and|or> l=<seq> r=<seq>                                S1 and S2 / S1 or S2
  k=R q=<num>/<den>                                                 rounding self-test: toD64 / toD32
  k=C a=<D> b=<D>                                                   isclose self-test
  k=Y t=<local seconds>                                             year self-test: the model's `_year`

<seq>  : `_` (empty) or items separated by `;`
<item> : n:<cps> node with string value | i:<int> | d:<num>/<den> | f:<D> double | g:<D> float
         | s:<cps> string | u:<cps> untypedAtomic | b:0/1 | a:<cps> anyURI | q:<ns>/<pre>/<loc>
         | D:<t>/<tz> date | T:… dateTime | t:… time (local seconds since 0001-01-01, offset minutes or _) | P:<m>/<s> duration | Y:<m> | S:<s>
         | x:<octets> hexBinary | y:<octets> base64Binary
<cps>  : code points separated by `,` (may be empty);  <D> : NaN | INF | -INF | -0 | <num>/<den>

Answer:  model=<outcome> spec=<allowed outcomes joined by `|`, or NA> trig=<finding triggers joined by `,` or ->
outcome: T | F | EMPTY | 1 | 0 | ERR:<code> | ERR:OTHER:<PyClass> | UNSUPPORTED
-/
import EPV.Proto
import EPV.Spec.FOCompare
import EPV.Spec.FOCompareSeqC
import EPV.Spec.FOCompareCompatC
import EPV.Lemmas.CompareFindings
open EPV.Proto EPV.Cmp

def parseCps (s : String) : Option (List Nat) :=
  if s == "" then some [] else (s.splitOn ",").mapM nat?

def parseRat (s : String) : Option Rat :=
  match s.splitOn "/" with
  | [a] => (int? a).map fun n => (n : Rat)
  | [a, b] => do
    let n ← int? a; let d ← nat? b
    if d = 0 then none else pure ((n : Rat) / (d : Rat))
  | _ => none

def parseD (s : String) : Option D :=
  if s == "NaN" then some .nan else if s == "INF" then some .pinf else if s == "-INF" then some .ninf
  else if s == "-0" then some .negZero else (parseRat s).map .fin

def splitTag (s : String) : String × String :=
  match s.splitOn ":" with
  | t :: rest => (t, ":".intercalate rest)
  | [] => ("", "")

/-- `<local seconds>/<tz minutes or _>` -/
def parseDT (s : String) : Option DT :=
  match s.splitOn "/" with
  | [t, z] => do
    let tt ← int? t
    if z == "_" then pure ⟨tt, none⟩ else do let zz ← int? z; pure ⟨tt, some zz⟩
  | _ => none

def parseItem (s : String) : Option Item :=
  let (t, v) := splitTag s
  match t with
  | "n" => (parseCps v).map .node
  | "i" => (int? v).map fun n => .atom (.int n)
  | "d" => (parseRat v).map fun q => .atom (.dec q)
  | "f" => (parseD v).map fun d => .atom (.dbl d)
  | "g" => (parseD v).map fun d => .atom (.flt d)
  | "s" => (parseCps v).map fun c => .atom (.str c)
  | "u" => (parseCps v).map fun c => .atom (.ua c)
  | "b" => if v == "1" then some (.atom (.bool true)) else if v == "0" then some (.atom (.bool false)) else none
  | "a" => (parseCps v).map fun c => .atom (.uri c)
  | "q" => match v.splitOn "/" with
    | [a, b, c] => do
      let x ← parseCps a; let y ← parseCps b; let z ← parseCps c; pure (.atom (.qn x y z))
    | _ => none
  | "D" => (parseDT v).map fun n => .atom (.date n)
  | "T" => (parseDT v).map fun n => .atom (.dtm n)
  | "t" => (parseDT v).map fun n => .atom (.time n)
  | "P" => match v.splitOn "/" with
    | [a, b] => do let x ← int? a; let y ← int? b; pure (.atom (.dur x y))
    | _ => none
  | "Y" => (int? v).map fun n => .atom (.ymd n)
  | "S" => (int? v).map fun n => .atom (.dtd n)
  | "x" => (parseCps v).map fun c => .atom (.hex c)
  | "y" => (parseCps v).map fun c => .atom (.b64 c)
  | _ => none

def parseSeq (s : String) : Option (List Item) :=
  if s == "_" || s == "" then some [] else (s.splitOn ";").mapM parseItem

def parseMode (s : String) : Option Mode :=
  match s with
  | "v1" => some .v1 | "v2c" => some .v2c | "v2" => some .v2 | "v31" => some .v31 | _ => none

def parseOp (s : String) : Option Op :=
  match s with
  | "eq" => some .eq | "ne" => some .ne | "lt" => some .lt | "le" => some .le
  | "gt" => some .gt | "ge" => some .ge | _ => none

def showExc : Exc → String
  | .invalidOperation => "InvalidOperation" | .keyError => "KeyError" | .overflowError => "OverflowError"

def showErr : Err → String
  | .XPTY0004 => "ERR:XPTY0004" | .FORG0001 => "ERR:FORG0001" | .FORG0006 => "ERR:FORG0006"
  | .other e => "ERR:OTHER:" ++ showExc e
  | .unsupported => "UNSUPPORTED"

def showR : R → String
  | .ok true => "T" | .ok false => "F" | .error e => showErr e

def showOR : Except Err (Option Bool) → String
  | .ok (some true) => "T" | .ok (some false) => "F" | .ok none => "EMPTY" | .error e => showErr e

def showOut : EPV.CmpSpec.Out → String
  | .t => "T" | .f => "F" | .empty => "EMPTY" | .err e => showErr e

def showAllowed (a : Option (List EPV.CmpSpec.Out)) : String :=
  match a with
  | none => "NA"
  | some l => if l.isEmpty then "NA" else "|".intercalate ((l.map showOut).eraseDups)

def showTrig (l : List String) : String := if l.isEmpty then "-" else ",".intercalate l

def showD : D → String
  | .nan => "NaN" | .pinf => "INF" | .ninf => "-INF" | .negZero => "-0"
  | .fin q => s!"{q.num}/{q.den}"

def answer (line : String) : String :=
  let fs := fields line
  let k := field fs "k"
  if k == "R" then
    match parseRat (field fs "q") with
    | some q => s!"model={showD (toD64 q)};{showD (toD32 q)} spec=NA trig=-"
    | none => "bad-rat"
  else if k == "Y" then
    match int? (field fs "t") with
    | some t => s!"model={(DT.mk t none).year} spec=NA trig=-"
    | none => "bad-t"
  else if k == "C" then
    match parseD (field fs "a"), parseD (field fs "b") with
    | some a, some b => s!"model={if isclose a b then "T" else "F"} spec=NA trig=-"
    | _, _ => "bad-d"
  else
  match parseMode (field fs "m"), parseSeq (field fs "l") with
  | some m, some l =>
    if k == "B" then
      let f := field fs "f"
      let c := ebvIter l
      let s := EPV.CmpSpec.ebv l
      if f == "boolean" then s!"model={showR c} spec={showAllowed (some [s])} trig=-"
      else if f == "blist" then s!"model={showR (ebvList l)} spec={showAllowed (some [s])} trig=-"
      else if f == "not" then s!"model={showR (notE c)} spec={showAllowed (some [EPV.CmpSpec.notS s])} trig=-"
      else if f == "if" then
        let r : Except Err Nat := ifE c (.ok 1) (.ok 0)
        let sr := match s with | .t => "1" | .f => "0" | o => showOut o
        s!"model={match r with | .ok n => toString n | .error e => showErr e} spec={sr} trig=-"
      else "bad-f"
    else
    match parseSeq (field fs "r") with
    | none => "bad-seq-r"
    | some r =>
      if k == "L" then
        let f := field fs "f"
        let a := ebvIter l
        let b := ebvIter r
        if f == "and" then s!"model={showR (andE a b)} spec={showAllowed (some (EPV.CmpSpec.andS (EPV.CmpSpec.ebv l) (EPV.CmpSpec.ebv r)))} trig=-"
        else if f == "or" then s!"model={showR (orE a b)} spec={showAllowed (some (EPV.CmpSpec.orS (EPV.CmpSpec.ebv l) (EPV.CmpSpec.ebv r)))} trig=-"
        else "bad-f"
      else
      match parseOp (field fs "op") with
      | none => "bad-op"
      | some op =>
        -- z=<implicit timezone of the context in minutes>, absent or `_` = none
        let zs := field fs "z"
        let itz : Option Int := if zs == "" || zs == "_" then none else int? zs
        -- c=ci: the parser's default collation is html-ascii-case-insensitive; absent = Unicode codepoint
        -- (`collation_codepoint`: then these are generalCmpCtx / valueCmpCtx / generalAllowedCtx / valueAllowedCtx)
        let c : Coll := if field fs "c" == "ci" then .asciiCI else .codepoint
        if k == "G" then
          -- phase 5: XPath2Parser(compatibility_mode=True) is specified under every collation by `generalAllowedCompatC`
          -- (= generalAllowedCtx for the codepoint collation: `compat_collation_codepoint`); crule= the rule that decides
          let spec := if m == .v2c then EPV.CmpSpec.generalAllowedCompatC c itz op l r else EPV.CmpSpec.generalAllowedC c itz m op l r
          let crule := if m == .v2c then
              (if EPV.CmpSpec.isSingleBoolS (l.map (EPV.CmpSpec.withImplicitTz itz)) || EPV.CmpSpec.isSingleBoolS (r.map (EPV.CmpSpec.withImplicitTz itz)) then "boolean"
               else if op.isOrd then "number" else "pairs") else "-"
          s!"model={showR (generalCmpC c itz m op l r)} spec={showAllowed spec} trig={showTrig (EPV.CmpFind.trigGeneral m op l r)} crule={crule}"
        else if k == "V" then
          -- phase 5: rule= which of the rules 2-4 of §3.7.1 applies (`seqRule`), spec2= the permitted outcomes
          -- written through the pair rule `pairSpecC` (`valueSeqAllowedC`; = spec by `value_seq_spec_coherent`)
          s!"model={showOR (valueCmpC c itz m op l r)} spec={showAllowed (EPV.CmpSpec.valueAllowedC c itz m op l r)} trig={showTrig (EPV.CmpFind.trigValue m op l r)} rule={(EPV.CmpSpec.seqRule itz m l r).tag} spec2={showAllowed (EPV.CmpSpec.valueSeqAllowedC c itz m op l r)}"
        else "bad-kind"
  | _, _ => "bad-line"

def main : IO Unit := mainLoop answer

/-
Driver for C17.  One request per line, first word = kind, then `k=v` fields (no spaces in values).

Encodings (no spaces):  string  = code points joined by `.`            (empty string = empty text)
  value   = N | T | F | I<int> | D<+|->:<digits>:<decpt> | S<string> | A[v,v,…] | O{S<key>:v,…}
  element = E<n|b|d|s|a|m>(<-|K<string>>;<-|X<string>>;[e,e,…])
  policy  = first | last | reject | retain

  ESC e=<0|1> s=<string>
      -> esc=<model escape_json_string> spec=<RFC per-char map> un=<model unescape(esc)|ERR>
         old=<pinned sequential unescape(esc)|ERR> trig=<f17aTrigger> dec=<spec decodeBody(esc)|ERR>
  UNESC s=<string>          -> un=<model unescape_json_string(s)|ERR>
  SER v=<value>             -> text=<model serialize_to_json> canon=<v> parsed=<spec parseJson(text)|ERR>
                               pj=<model parse-json post-processing (use-first) of parsed>
  PARSE p=<policy> t=<string> -> val=<spec parseJson(t)|ERR> pj=<model post-processing|ERR:code>
                               spec=<F&O duplicates policy on val|ERR>
  J2X p=<policy> [r=<in>x>out;…>] v=<value>   (r = float() roundings of the run, `sign:digits:decpt>sign:digits:decpt`)
                            -> xml=<model json-to-xml|ERR:code> json=<model xml-to-json(xml)|ERR:code>
                               parsed=<spec parseJson(json)|ERR>
  X2J e=<element>           -> json=<model xml-to-json|ERR:code>
  JXE s=<string>            -> j2x=<json-to-xml escape:true text> esc=<escaped attribute> chk=<check_escapes> x2j=<xml-to-json
                               string branch|ERR:code> dec=<spec decodeBody of its body|ERR>
  XESC s=<string>           -> ettext=/etattr=/lxtext= (model of the serializers' escaping) rt=/ra=/rl= (spec XML reader on
                               them) cr=<hasCR>
  XREAD a=<0|1> t=<string>  -> r=<spec XML reader (character data / attribute value) on t|ERR>
  DEC u=<unscaled> s=<scale> -> old=<quantize2UpOld> trig=<f17bTrigger>
  PARSEWS p=<policy> t=<string> -> val=<spec parseJsonWs(t) (RFC 8259 §2 with ws)|ERR> pj=<model post-processing|ERR:code>
                               spec=<F&O duplicates policy on val|ERR> cmp=<spec parseJson(t) (no-ws reader)|ERR>
  SERWS v=<value> w=<ws strings joined by `,`> -> n=<number of tokens of serialize_to_json(v)> cat=<1 iff tokens.flatten = model text>
                               text=<padWith w tokens> parsed=<spec parseJsonWs(text)|ERR> okws=<1 iff every w is whitespace>
  J2XE p=<policy> [r=…] v=<value> -> xml=<model json-to-xml(·, escape:true) with flags: E<tag>(<key>;<escaped-key 0|1><escaped 0|1>;<text>;[…])|ERR>
                               json=<model xml-to-json reading the flags|ERR:code> parsed=<spec parseJson(json)|ERR>
  CRMARK a=<0 text+tails | 1 + attribute values (before the F17x fix) | 2 every string (fixed tree)> p=<pieces `M|U|C|A|R`+string joined by `,`> (markup, ns uri, chars, attr, raw)
                            -> mark=<chosen mark|none> out=<model serialize_to_xml of the element|ERR> want=<wanted output>
                               coll=<markCollides (F17x trigger)> cr=<piecesHaveCR>
-/
import EPV.Proto
import EPV.Model.Json
import EPV.Model.XmlCrMark
import EPV.Model.JsonTokens
import EPV.Model.JsonXmlEsc
open EPV.Proto EPV.Json

def showStr (s : Str) : String := ".".intercalate (s.map toString)

def parseCps (s : String) : Option Str :=
  if s.isEmpty then some [] else (s.splitOn ".").mapM nat?

partial def showVal : JValue → String
  | .null => "N"
  | .bool true => "T"
  | .bool false => "F"
  | .int n => s!"I{n}"
  | .dbl d => s!"D{if d.neg then "-" else "+"}:{String.join (d.digits.map toString)}:{d.decpt}"
  | .str s => "S" ++ showStr s
  | .arr l => "A[" ++ ",".intercalate (l.map showVal) ++ "]"
  | .obj m => "O{" ++ ",".intercalate (m.map fun (k, v) => "S" ++ showStr k ++ ":" ++ showVal v) ++ "}"

partial def showElem : Elem → String
  | .mk tag key text children =>
    let t := match tag with
      | .null => "n" | .boolean => "b" | .number => "d" | .string => "s" | .array => "a" | .map => "m"
    let k := match key with | none => "-" | some k => "K" ++ showStr k
    let x := match text with | none => "-" | some x => "X" ++ showStr x
    s!"E{t}({k};{x};[{",".intercalate (children.map showElem)}])"

partial def showElemE : ElemE → String
  | .mk tag key ek es text children =>
    let t := match tag with
      | .null => "n" | .boolean => "b" | .number => "d" | .string => "s" | .array => "a" | .map => "m"
    let k := match key with | none => "-" | some k => "K" ++ showStr k
    let x := match text with | none => "-" | some x => "X" ++ showStr x
    s!"E{t}({k};{if ek then "1" else "0"}{if es then "1" else "0"};{x};[{",".intercalate (children.map showElemE)}])"

/-- characters up to (not including) the first delimiter -/
def takeTok (cs : List Char) : List Char × List Char :=
  cs.span fun c => !(c == ',' || c == ']' || c == '}' || c == ':' || c == ';' || c == ')')

def cpsOfTok (tok : List Char) : Option Str := parseCps (String.ofList tok)

mutual
partial def decVal : List Char → Option (JValue × List Char)
  | 'N' :: r => some (.null, r)
  | 'T' :: r => some (.bool true, r)
  | 'F' :: r => some (.bool false, r)
  | 'I' :: r =>
    let (tok, r') := takeTok r
    (int? (String.ofList tok)).map fun n => (.int n, r')
  | 'D' :: sg :: ':' :: r =>
    let (ds, r1) := r.span (· != ':')
    match r1 with
    | ':' :: r2 =>
      let (tok, r3) := takeTok r2
      match int? (String.ofList tok) with
      | some pt => some (.dbl ⟨sg == '-', ds.map (fun c => c.toNat - 48), pt⟩, r3)
      | none => none
    | _ => none
  | 'S' :: r =>
    let (tok, r') := takeTok r
    (cpsOfTok tok).map fun s => (.str s, r')
  | 'A' :: '[' :: ']' :: r => some (.arr [], r)
  | 'A' :: '[' :: r => (decVals r).map fun (l, r') => (.arr l, r')
  | 'O' :: '{' :: '}' :: r => some (.obj [], r)
  | 'O' :: '{' :: r => (decMembers r).map fun (m, r') => (.obj m, r')
  | _ => none
partial def decVals (cs : List Char) : Option (List JValue × List Char) :=
  match decVal cs with
  | some (v, ',' :: r) => (decVals r).map fun (l, r') => (v :: l, r')
  | some (v, ']' :: r) => some ([v], r)
  | _ => none
partial def decMembers : List Char → Option (List (Str × JValue) × List Char)
  | 'S' :: r =>
    let (tok, r1) := takeTok r
    match cpsOfTok tok, r1 with
    | some k, ':' :: r2 =>
      match decVal r2 with
      | some (v, ',' :: r3) => (decMembers r3).map fun (m, r') => ((k, v) :: m, r')
      | some (v, '}' :: r3) => some ([(k, v)], r3)
      | _ => none
    | _, _ => none
  | _ => none
end

mutual
partial def decElem : List Char → Option (Elem × List Char)
  | 'E' :: t :: '(' :: r =>
    let tag? : Option Tag := match t with
      | 'n' => some .null | 'b' => some .boolean | 'd' => some .number | 's' => some .string
      | 'a' => some .array | 'm' => some .map | _ => none
    let key? : Option (Option Str × List Char) := match r with
      | '-' :: ';' :: r1 => some (none, r1)
      | 'K' :: r1 =>
        let (tok, r2) := takeTok r1
        match cpsOfTok tok, r2 with
        | some k, ';' :: r3 => some (some k, r3)
        | _, _ => none
      | _ => none
    match tag?, key? with
    | some tag, some (key, r1) =>
      let text? : Option (Option Str × List Char) := match r1 with
        | '-' :: ';' :: r2 => some (none, r2)
        | 'X' :: r2 =>
          let (tok, r3) := takeTok r2
          match cpsOfTok tok, r3 with
          | some x, ';' :: r4 => some (some x, r4)
          | _, _ => none
        | _ => none
      match text? with
      | some (text, '[' :: ']' :: ')' :: r2) => some (.mk tag key text [], r2)
      | some (text, '[' :: r2) =>
        match decElems r2 with
        | some (cs, ')' :: r3) => some (.mk tag key text cs, r3)
        | _ => none
      | _ => none
    | _, _ => none
  | _ => none
partial def decElems (cs : List Char) : Option (List Elem × List Char) :=
  match decElem cs with
  | some (e, ',' :: r) => (decElems r).map fun (l, r') => (e :: l, r')
  | some (e, ']' :: r) => some ([e], r)
  | _ => none
end

def valOf (s : String) : Option JValue :=
  match decVal s.toList with
  | some (v, []) => some v
  | _ => none

def elemOf (s : String) : Option Elem :=
  match decElem s.toList with
  | some (e, []) => some e
  | _ => none

def policyOf (s : String) : DupPolicy :=
  if s == "last" then .useLast else if s == "reject" then .reject
  else if s == "retain" then .retain else .useFirst

def showErr : Err → String
  | .FOJS0003 => "ERR:FOJS0003" | .FOJS0006 => "ERR:FOJS0006" | .FOJS0007 => "ERR:FOJS0007"
  | .other => "ERR:OTHER"

def showOptStr : Option Str → String
  | some s => "ok:" ++ showStr s
  | none => "ERR"

def showOptVal : Option JValue → String
  | some v => showVal v
  | none => "ERR"

def showPj (p : DupPolicy) : Option JValue → String
  | none => "ERR"
  | some v => match pjPost p v with
    | .ok v' => showVal v'
    | .error e => showErr e

def b01 (b : Bool) : String := if b then "1" else "0"

/-- `<sign>:<digits>:<decpt>` -/
def decOf (s : String) : Option Dec :=
  match s.splitOn ":" with
  | [sg, ds, pt] => (int? pt).map fun p => ⟨sg == "-", ds.toList.map (fun c => c.toNat - 48), p⟩
  | _ => none

/-- the table of `float()` roundings performed by the real run: `in>out;in>out;…` (identity elsewhere) -/
def rndOf (s : String) : Dec → Dec :=
  let tbl : List (Dec × Dec) := (s.splitOn ";").filterMap fun e =>
    match e.splitOn ">" with
    | [a, b] => match decOf a, decOf b with
      | some x, some y => some (x, y)
      | _, _ => none
    | _ => none
  fun d => match tbl.find? (·.1 == d) with
    | some (_, y) => y
    | none => d

def answer (line : String) : String :=
  let fs := fields line
  let kind := (line.splitOn " ").headD ""
  if kind == "ESC" then
    match parseCps (field fs "s") with
    | none => "bad-string"
    | some s =>
      let e := field fs "e" == "1"
      let esc := escapeJsonString s e
      let spec := s.flatMap (rfcEscapeChar (fun c => c == 47 || (127 ≤ c && c ≤ 159)) upperHex)
      s!"esc={showStr esc} spec={showStr spec} un={showOptStr (unescapeJsonString esc)} " ++
      s!"old={showOptStr (unescapeSeqOld esc)} trig={b01 (f17aTrigger s)} dec={showOptStr (decodeBody esc)}"
  else if kind == "UNESC" then
    match parseCps (field fs "s") with
    | none => "bad-string"
    | some s => s!"un={showOptStr (unescapeJsonString s)}"
  else if kind == "SER" then
    match valOf (field fs "v") with
    | none => "bad-value"
    | some v =>
      let text := serializeJson v
      let parsed := parseJson text
      s!"text={showStr text} canon={showVal v} parsed={showOptVal parsed} pj={showPj .useFirst parsed}"
  else if kind == "PARSE" then
    match parseCps (field fs "t") with
    | none => "bad-string"
    | some t =>
      let v := parseJson t
      let p := policyOf (field fs "p")
      s!"val={showOptVal v} pj={showPj p v} spec={showOptVal (v.bind (dedupeAll p))}"
  else if kind == "J2X" then
    match valOf (field fs "v") with
    | none => "bad-value"
    | some v =>
      match jsonToXml v (policyOf (field fs "p")) with
      | .error e => s!"xml={showErr e} json=- parsed=-"
      | .ok x =>
        match xmlToJson (rndOf (field fs "r")) x with
        | .error e => s!"xml={showElem x} json={showErr e} parsed=-"
        | .ok j => s!"xml={showElem x} json=ok:{showStr j} parsed={showOptVal (parseJson j)}"
  else if kind == "J2XE" then
    match valOf (field fs "v") with
    | none => "bad-value"
    | some v =>
      match jsonToXmlEsc v (policyOf (field fs "p")) with
      | .error e => s!"xml={showErr e} json=- parsed=-"
      | .ok x =>
        match xmlToJsonE (rndOf (field fs "r")) x with
        | .error e => s!"xml={showElemE x} json={showErr e} parsed=-"
        | .ok j => s!"xml={showElemE x} json=ok:{showStr j} parsed={showOptVal (parseJson j)}"
  else if kind == "X2J" then
    match elemOf (field fs "e") with
    | none => "bad-element"
    | some x =>
      match xmlToJson (rndOf (field fs "r")) x with
      | .error e => s!"json={showErr e}"
      | .ok j => s!"json=ok:{showStr j}"
  else if kind == "JXE" then
    match parseCps (field fs "s") with
    | none => "bad-string"
    | some s =>
      let t := j2xEscapeString s
      let body : Option Str := match x2jStringEscaped t with
        | .ok (_ :: r) => some r.dropLast
        | _ => none
      s!"j2x={showStr t} esc={b01 (t.contains 92)} chk={b01 (checkEscapes t)} " ++
      s!"x2j={match x2jStringEscaped t with | .ok j => "ok:" ++ showStr j | .error e => showErr e} " ++
      s!"dec={showOptStr (body.bind decodeBody)}"
  else if kind == "XESC" then
    match parseCps (field fs "s") with
    | none => "bad-string"
    | some s =>
      s!"ettext={showStr (etEscapeText s)} etattr={showStr (etEscapeAttr s)} lxtext={showStr (lxEscapeText s)} " ++
      s!"rt={showOptStr (xmlReadText (etEscapeText s))} ra={showOptStr (xmlReadAttr (etEscapeAttr s))} " ++
      s!"rl={showOptStr (xmlReadText (lxEscapeText s))} rp={showOptStr (xmlReadText (repoEscapeText 57344 s))} cr={b01 (hasCR s)}"
  else if kind == "XREAD" then
    match parseCps (field fs "t") with
    | none => "bad-string"
    | some t => s!"r={showOptStr (if field fs "a" == "1" then xmlReadAttr t else xmlReadText t)}"
  else if kind == "DEC" then
    match nat? (field fs "u"), nat? (field fs "s") with
    | some u, some sc => s!"old={quantize2UpOld u sc} trig={b01 (f17bTrigger u sc)}"
    | _, _ => "bad-number"
  else if kind == "PARSEWS" then
    match parseCps (field fs "t") with
    | none => "bad-string"
    | some t =>
      let v := parseJsonWs t
      let p := policyOf (field fs "p")
      s!"val={showOptVal v} pj={showPj p v} spec={showOptVal (v.bind (dedupeAll p))} cmp={showOptVal (parseJson t)}"
  else if kind == "SERWS" then
    match valOf (field fs "v"), ((field fs "w").splitOn ",").mapM parseCps with
    | some v, some ws =>
      let toks := jsonTokens v
      let text := padWith ws toks
      s!"n={toks.length} cat={b01 (toks.flatten == serializeJson v)} text={showStr text} " ++
      s!"parsed={showOptVal (parseJsonWs text)} okws={b01 (ws.all (·.all isWs))}"
    | _, _ => "bad-value"
  else if kind == "CRMARK" then
    let pieceOf (x : String) : Option Piece :=
      match x.toList with
      | 'M' :: r => (cpsOfTok r).map Piece.markup
      | 'U' :: r => (cpsOfTok r).map Piece.nsuri
      | 'C' :: r => (cpsOfTok r).map Piece.chars
      | 'A' :: r => (cpsOfTok r).map Piece.attr
      | 'R' :: r => (cpsOfTok r).map Piece.raw
      | _ => none
    match ((field fs "p").splitOn ",").mapM pieceOf with
    | none => "bad-pieces"
    | some ps =>
      let attrs : Scan := if field fs "a" == "0" then .textTail else if field fs "a" == "1" then .values else .all
      let mk := chooseMark (usedChars attrs ps)
      s!"mark={match mk with | some k => toString k | none => "none"} out={showOptStr (serializeRepo attrs ps)} " ++
      s!"want={showStr (wantedOutput ps)} coll={b01 (markCollides attrs ps)} cr={b01 (piecesHaveCR ps)}"
  else "bad-kind"

def main : IO Unit := mainLoop answer

/-
Driver for C20.  One request line = one (schema, instance, path list) case, space-separated tokens in
prefix notation (strings that may contain spaces are `=` followed by dot-separated code points,
`~` is "none"):

  (optionally followed by `W n str*`: value-comparison probes `//*[. = 'lit']`, answered as
   `v<k>|M=<indices or err under the schema>|S=<indices without it>`)
  line    := ("S" | "SU" | "SB" assertion(0|1) elemdecl) schema "T" forest "Q" nq query*      (SU = schema not built: every element xs:anyType)
  schema  := nct ctype* nel elemdecl* nty (name ty)*
  ctype   := "C" name? content np particle* na attrdecl*
  content := "cs" stype | "ce" | "cm" | "cz"
  particle:= "PE" elemdecl k name* | "PA" skip(0|1) ("~" | k ns*)
  elemdecl:= "D" name ty nillable(0|1) default?
  attrdecl:= "A" name stype default?
  ty      := "TS" stype | "TC" id
  stype   := "B" local | "R" name? stype facets | "L" name? stype | "U" name? k stype*
  facets  := ("~" | k str*) min? max?
  forest  := "N" | "E" name k (name str)* xsi forest(kids) forest(rest) | "X" (t|c|p) str forest(rest)
  xsi     := "a" | "u" | "n" name
  query   := "P" dummyDoc(0|1) expr
  expr    := "h" | "r" | "s" expr axis test expr expr | "t" | "p" n | "l" | "le" n | "ex" expr
           | "cg" expr n | "no" expr | "an" expr expr | "or" expr expr
  axis    := c|d|ds|s|a|pa|an|fs|ps     test := "n" name | "*" | "nd" | "se" k name*

Answer: `;`-separated records
  n<idx>|T=<type name or ~>|E=<0/1 xsd_element set>|C=<content kind x,m,e,z,s,u>|M=<model typed value>|S=<spec typed value>|K=<flags>|IM=<bits>|IS=<bits>
  a<owner idx>.<k>|N=<name>|T=<type name>|D=<0/1 defaulted>|M=..|S=..|K=..|IM=..|IS=..
  c|<cache-less walk agrees 0/1>|<all typed 0/1>|<absent default 0/1>
  p<k>|M=<indices>|S=<indices>|K=<flags>
typed value text: `ok[cls=val,…]` (val as `=`code points), `err`, `via`, `none`.
-/
import EPV.Proto
import EPV.Props.C20
import EPV.Props.C20All
open EPV.Proto EPV.Xsd EPV.Xsd.Spec EPV.Xsd.Sel EPV.C20

abbrev P (α : Type) := List String → Option (α × List String)

def decStr (s : String) : Option String :=
  if s == "=" then some "" else
  match s.toList with
  | '=' :: r => ((String.ofList r).splitOn ".").mapM (fun (d : String) => d.toNat?.map Char.ofNat) |>.map String.ofList
  | _ => none

def encStr (s : String) : String := "=" ++ ".".intercalate (s.toList.map fun c => toString c.toNat)

def pStr : P String
  | t :: r => (decStr t).map (·, r)
  | [] => none

def pOptStr : P (Option String)
  | "~" :: r => some (none, r)
  | t :: r => (decStr t).map (fun s => (some s, r))
  | [] => none

def pName : P String
  | t :: r => some (t, r)
  | [] => none

def pOptName : P (Option String)
  | "~" :: r => some (none, r)
  | t :: r => some (some t, r)
  | [] => none

def pNat : P Nat
  | t :: r => t.toNat?.map (·, r)
  | [] => none

def pOptInt : P (Option Int)
  | "~" :: r => some (none, r)
  | t :: r => t.toInt?.map (fun i => (some i, r))
  | [] => none

partial def pMany {α : Type} (p : P α) : Nat → P (List α)
  | 0, ts => some ([], ts)
  | n + 1, ts => do
    let (x, r) ← p ts
    let (xs, r') ← pMany p n r
    pure (x :: xs, r')

def pCounted {α : Type} (p : P α) : P (List α) := fun ts => do
  let (n, r) ← pNat ts
  pMany p n r

def pFacets : P Facets := fun ts => do
  let (en, r) ← (match ts with
    | "~" :: r => some (none, r)
    | _ => (pCounted pStr ts).map fun (l, r) => (some l, r))
  let (mn, r) ← pOptInt r
  let (mx, r) ← pOptInt r
  pure ({ enum := en, minInc := mn, maxInc := mx }, r)

partial def pSType : P SType
  | "B" :: l :: r => (B.all.find? (·.lname == l)).map fun b => (.builtin b, r)
  | "R" :: r => do
    let (n, r) ← pOptName r
    let (b, r) ← pSType r
    let (f, r) ← pFacets r
    pure (.restr n b f, r)
  | "L" :: r => do
    let (n, r) ← pOptName r
    let (i, r) ← pSType r
    pure (.list n i, r)
  | "U" :: r => do
    let (n, r) ← pOptName r
    let (ms, r) ← pCounted pSType r
    pure (.union n ms, r)
  | _ => none

def pTy : P Ty
  | "TS" :: r => (pSType r).map fun (t, r) => (.simple t, r)
  | "TC" :: r => (pNat r).map fun (i, r) => (.complex i, r)
  | _ => none

def pElemDecl : P ElemDecl
  | "D" :: r => do
    let (n, r) ← pName r
    let (ty, r) ← pTy r
    let (nl, r) ← pNat r
    let (d, r) ← pOptStr r
    pure (⟨n, ty, nl == 1, d⟩, r)
  | _ => none

def pAttrDecl : P AttrDecl
  | "A" :: r => do
    let (n, r) ← pName r
    let (t, r) ← pSType r
    let (d, r) ← pOptStr r
    pure (⟨n, t, d⟩, r)
  | _ => none

def pParticle : P Particle
  | "PE" :: r => do
    let (d, r) ← pElemDecl r
    let (sub, r) ← pCounted pName r
    pure (.elem d sub, r)
  | "PA" :: sk :: "~" :: r => some (.any none (sk == "1"), r)
  | "PA" :: sk :: r => (pCounted pName r).map fun (l, r) => (.any (some l) (sk == "1"), r)
  | _ => none

def pContent : P Content
  | "cs" :: r => (pSType r).map fun (t, r) => (.simple t, r)
  | "ce" :: r => some (.elementOnly, r)
  | "cm" :: r => some (.mixed, r)
  | "cz" :: r => some (.empty, r)
  | _ => none

def pCType : P CType
  | "C" :: r => do
    let (n, r) ← pOptName r
    let (c, r) ← pContent r
    let (ps, r) ← pCounted pParticle r
    let (as, r) ← pCounted pAttrDecl r
    pure (⟨n, c, ps, as⟩, r)
  | _ => none

def pSchema : P Schema := fun ts => do
  let (cts, r) ← pCounted pCType ts
  let (els, r) ← pCounted pElemDecl r
  let (tys, r) ← pCounted (fun ts => do
    let (n, r) ← pName ts
    let (t, r) ← pTy r
    pure ((n, t), r)) r
  pure (⟨cts, els, tys⟩, r)

def pXsi : P Xsi
  | "a" :: r => some (.absent, r)
  | "u" :: r => some (.unresolvable, r)
  | "n" :: n :: r => some (.name n, r)
  | _ => none

partial def pForest : P (Forest Unit)
  | "N" :: r => some (.nil, r)
  | "E" :: r => do
    let (n, r) ← pName r
    let (ats, r) ← pCounted (fun ts => do
      let (an, r) ← pName ts
      let (av, r) ← pStr r
      pure ((an, av), r)) r
    let (x, r) ← pXsi r
    let (k, r) ← pForest r
    let (rest, r) ← pForest r
    pure (.elem () n ats x k rest, r)
  | "X" :: k :: r => do
    let kind ← (match k with | "t" => some LeafKind.text | "c" => some .comment | "p" => some .pi | _ => none)
    let (t, r) ← pStr r
    let (rest, r) ← pForest r
    pure (.leaf kind t rest, r)
  | _ => none

def pAxis : P Axis
  | "c" :: r => some (.child, r)
  | "d" :: r => some (.descendant, r)
  | "ds" :: r => some (.descOrSelf, r)
  | "s" :: r => some (.self, r)
  | "a" :: r => some (.attrib, r)
  | "pa" :: r => some (.parent, r)
  | "an" :: r => some (.ancestor, r)
  | "fs" :: r => some (.follSibling, r)
  | "ps" :: r => some (.precSibling, r)
  | _ => none

def pTest : P NTest
  | "n" :: n :: r => some (.name n, r)
  | "*" :: r => some (.star, r)
  | "nd" :: r => some (.node, r)
  | "se" :: r => (pCounted pName r).map fun (ns, r) => (.schemaElem ns, r)
  | _ => none

partial def pExpr : P E
  | "h" :: r => some (.here, r)
  | "r" :: r => some (.root, r)
  | "t" :: r => some (.ptrue, r)
  | "l" :: r => some (.last, r)
  | "p" :: r => (pNat r).map fun (n, r) => (.pos n, r)
  | "le" :: r => (pNat r).map fun (n, r) => (.posLe n, r)
  | "ex" :: r => (pExpr r).map fun (e, r) => (.exist e, r)
  | "no" :: r => (pExpr r).map fun (e, r) => (.not e, r)
  | "cg" :: r => do
    let (e, r) ← pExpr r
    let (n, r) ← pNat r
    pure (.countGt e n, r)
  | "an" :: r => do
    let (a, r) ← pExpr r
    let (b, r) ← pExpr r
    pure (.and a b, r)
  | "or" :: r => do
    let (a, r) ← pExpr r
    let (b, r) ← pExpr r
    pure (.or a b, r)
  | "s" :: r => do
    let (p, r) ← pExpr r
    let (ax, r) ← pAxis r
    let (t, r) ← pTest r
    let (q1, r) ← pExpr r
    let (q2, r) ← pExpr r
    pure (.step p ax t q1 q2, r)
  | _ => none

def pQuery : P (Bool × E)
  | "P" :: d :: r => (pExpr r).map fun (e, r) => ((d == "1", e), r)
  | _ => none

/-! ## printing -/

def showAtom (a : Atom) : String := a.cls.lname ++ encStr a.val

def showTV : TV → String
  | .ok vs => "ok[" ++ ",".intercalate (vs.map showAtom) ++ "]"
  | .err => "err"
  | .viaSchema => "via"

def showSpec : Option (List Atom) → String
  | some vs => "ok[" ++ ",".intercalate (vs.map showAtom) ++ "]"
  | none => "none"

def instBits (vs : List Atom) : String :=
  match vs with
  | [a] => bits (B.all.map fun T => a.instanceOf T)
  | _ => "~"

def tvAtoms : TV → List Atom
  | .ok vs => vs
  | _ => []

/-- trigger flags of decoder findings: none remain (F20c/g/h/i/j are fixed) -/
def flagsFor (_t : Option SType) (_text : String) : String := ""

def showOps (vs : Option (List Atom)) : String :=
  match vs with
  | none => "-"
  | some vs => s!"{opPlus1 vs},{opEq7 vs},{opEqTrue vs},{opEqStr "abc" vs}"

def tvOpt : TV → Option (List Atom)
  | .ok vs => some vs
  | _ => none

/-- `element(*, T?)` on a nilled element of an ATOMIC simple(-content) type: the code
(`_xpath2_operators.py`, fix F20n) tests the prototype values of the node's type against `T`; the
specification requires the declared type to be `T` or derived from it -/
def nilBits (nil : Bool) (ct : Option SType) : String × String :=
  match nil, ct with
  | true, some t =>
    if (atomicBase? t).isSome then
      (bits (B.all.map fun T => t.protos.any fun b => (classOf b).derives T),
       bits (B.all.map fun T => derivesFromB t T))
    else ("~", "~")
  | _, _ => ("~", "~")

def kindChar (s : Schema) (a : Ann) : String :=
  match a.xsdType with
  | none => "u"
  | some ty => match contentKind s ty with
    | .special => "x" | .mixed => "m" | .elementOnly => "e" | .emptyC => "z" | .simpleC _ => "s"

def elemText (a : Ann) (kids : Forest Ann) : String :=
  match firstText kids with
  | some t => t
  | none => (a.xsdElem.bind (·.default)).getD ""

/-- records for a whole annotated forest (`start` = index of its first node) -/
def report (fv : Bool) (s : Schema) : Nat → Forest Ann → List String
  | _, .nil => []
  | start, .leaf _ _ r => report fv s (start + 1) r
  | start, .elem a _ ats _ kids rest =>
    let m := elemTypedValue isValid s a ats kids
    let sp := specElemValue s a ats kids
    let ct := a.xsdType.bind (contentType s)
    let me := s!"n{start}|T={(a.typeName s).getD "~"}|E={if a.xsdElem.isSome then 1 else 0}|C={kindChar s a}|M={showTV m}|S={showSpec sp}|K={flagsFor ct (elemText a kids)}|IM={instBits (tvAtoms m)}|IS={instBits (sp.getD [])}|OM={showOps (tvOpt m)}|OS={showOps sp}|NM={(nilBits (nilled ats) ct).1}|NS={(nilBits (nilled ats) ct).2}"
    let attrs := (attrNodesV fv s a ats).zipIdx.map fun (an, k) =>
      let am := attrTypedValue isValid an
      let asp := specAttrValue an.type an.value
      s!"a{start}.{k}|N={an.name}|T={an.typeName.getD "~"}|D={if an.defaulted then 1 else 0}|M={showTV am}|S={showSpec asp}|K={flagsFor an.type an.value}|IM={instBits (tvAtoms am)}|IS={instBits (asp.getD [])}|OM={showOps (tvOpt am)}|OS={showOps asp}"
    (me :: attrs) ++ report fv s (start + 1 + ats.length) kids ++
      report fv s (start + 1 + ats.length + fsize kids) rest

def absentDefault (s : Schema) : Forest Ann → Bool
  | .nil => false
  | .leaf _ _ r => absentDefault s r
  | .elem a _ ats _ k r => (attrNodes s a ats).any (·.defaulted) || absentDefault s k || absentDefault s r

def showIdx (l : List Nat) : String := if l.isEmpty then "_" else ",".intercalate (l.map toString)

/-- structural equality of annotated forests on what the driver prints (type name + declaration name) -/
def sameAnn (s : Schema) : Forest Ann → Forest Ann → Bool
  | .nil, .nil => true
  | .leaf _ _ r, .leaf _ _ r' => sameAnn s r r'
  | .elem a _ _ _ k r, .elem a' _ _ _ k' r' =>
    a.typeName s == a'.typeName s && (a.xsdElem.map (·.name)) == (a'.xsdElem.map (·.name)) &&
    a.xsdType.isSome == a'.xsdType.isSome && sameAnn s k k' && sameAnn s r r'
  | _, _ => false

def answer (line : String) : String :=
  let toks := (line.splitOn " ").filter (· ≠ "")
  let fv := toks.head? != some "SU"          -- "SU": the schema is not built (not fully valid)
  -- "SB" asr(0|1) elemdecl : the proxy was constructed with this base element
  let (base, toks) : Option BaseElem × List String :=
    match toks with
    | "SB" :: asr :: r =>
      (match pElemDecl r with
       | some (d, r') => (some ⟨d, asr == "1"⟩, "S" :: r')
       | none => (none, []))
    | _ => (none, toks)
  match toks with
  | _ :: r =>
    match pSchema r with
    | none => "bad-schema"
    | some (s, r) =>
      match r with
      | "T" :: r =>
        match pForest r with
        | none => "bad-forest"
        | some (t, r) =>
          match r with
          | "Q" :: r =>
            match pCounted pQuery r with
            | none => "bad-query"
            | some (qs, _) =>
              let ann := if base.isSome then applySchemaB s base t else applySchemaV fv s t
              let recs := report fv s 0 ann
              let absd := absentDefault s ann
              let c := s!"c|{if !fv || sameAnn s ann (applyF s none t) then 1 else 0}|{if allTypedB ann then 1 else 0}|{if absd then 1 else 0}"
              let ps := qs.zipIdx.map fun ((dummy, e), k) =>
                let m := select (Cfg.typed s dummy) (!dummy) ann e
                let sp := select (Cfg.plain dummy) (!dummy) t e
                let fl := ",".intercalate ((if dummy && starAtDoc false e then ["F20b"] else []) ++
                  (if absd then ["F20d"] else []))
                s!"p{k}|M={showIdx m}|S={showIdx sp}|K={fl}"
              -- optional "W" n lit*: the value-comparison probes `//*[. = 'lit']`
              let ws : List String :=
                match (line.splitOn " W ").getD 1 "" |>.splitOn " " |>.filter (· ≠ "") with
                | n :: lits => (lits.take (n.toNat?.getD 0)).filterMap decStr
                | [] => []
              let showV (r : Option (List Nat)) : String := match r with | some l => showIdx l | none => "err"
              let vs := ws.zipIdx.map fun (lit, k) =>
                s!"v{k}|M={showV (selectValEq isValid s lit 0 ann)}|S={showV (selectValEq isValid s lit 0 (clearF t))}"
              ";".intercalate (recs ++ [c] ++ ps ++ vs)
          | _ => "bad-line-Q"
      | _ => "bad-line-T"
  | [] => "bad-line"

/-- phase 5, direct decoder probe: `"DEC" stype str` → the model's `get_atomic_sequence(type, text)`, the
specification value `Spec.decode`, the number of tokens of the text, and whether the text keeps a
white-space character under `strip` / `collapse` (the two facts of `pyDecode_eq_xsdLex_all`) -/
def answerDec (toks : List String) : String :=
  match pSType toks with
  | some (t, [txt]) =>
    match decStr txt with
    | some text =>
      s!"M={showTV (atomicSequence isValid t text)}|S={showSpec (decode t text)}|W={(splitWs text).length}|SW={if noWsL (strip text).toList then 0 else 1}|CW={if noWsL (collapse text).toList then 0 else 1}"
    | none => "bad-text"
  | _ => "bad-dec"

def answerAll (line : String) : String :=
  match (line.splitOn " ").filter (· ≠ "") with
  | "DEC" :: r => answerDec r
  | _ => answer line

def main : IO Unit := mainLoop answerAll

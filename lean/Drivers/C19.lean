/-
Driver for C19.  Strings travel as code points joined by `.` (`_` = empty string).

  PARSE c=<str|NONE>
      -> lc=<N:str|P:str|-> fb=<0|1>            |  ERR:XPTY0004
  DEFCOLL lc=<str>
      -> dc=<str>   |  ERR:OTHER:ValueError        (XPath2Parser's default collation for that LC_COLLATE)
  HIST init=<str> avail=<str;str;..> norm=<req>str;..> env=<str> dec=<str> evs=<tok/tok/..>
      req = N:<str> | P:<str>;  evaluation tokens (prefix form):  E/<coll str|NONE>/<raises: -|n>/<k>  followed by
      k body steps, each an evaluation or `C` (one comparison by the enclosing manager)
      -> model=<obs>|<obs>|.. spec=<T#0#lc#env#dec> br=<number of brackets per evaluation, joined by ,>
      obs = <out>#<lock>#<lc>#<env>#<dec>#<log delta joined by ,>   out in ok, ERR:<code>, HANG
      log entries: name+ / name- (setlocale request accepted / rejected), @name (strcoll/strxfrm under name)
      (nothing is printed after a HANG: the thread never returns)
  THR init=<str> avail=.. norm=.. progs=<prog>|<prog>.. sched=<i.i.i..>
      prog = the evaluation trees of one thread, tokens as in HIST joined by `/`
      every job is compiled to its brackets (`compile`); the configuration after running the schedule and then
      round-robin to quiescence:
      -> model=lock#lc#<per thread: done(0/1);job outcomes(,);locales seen by its comparisons(,)>|..
         maxHolders=<n> badSeen=<n> bracketsOK=<0|1: bracket results = Br.expected> spec=lock#lc
  ENV allow=<0|1|D> env=<k>v;k>v..> name=<str>
      -> model=<str|EMPTY>#<names ;> spec=<EMPTY>#
  XML defuse=<0|1|D> doc=<xmlDecl 0|1>/<leading n>/<-| ext(0|1)~decl~decl..>/<item~item..>
      decl = e:<name>:<value> | p:<name> | x:<name> | u:<name> | E | A | N | C | P
      item = t:<str> | c:<str> | r:<str>
      -> xml=<ok:str|ERR:forbidden|ERR:FODC0006> frag=<..> mustReject=<0|1>
  XMLT defuse=<0|1|D> declok=<0|1> text=<str>            (the gate on the characters: XmlText.scanProlog)
      -> xml=<..> frag=<..> forbidden=<0|1> parsed=<0|1>
  USER init=<str> avail=<str;..> eff=<str> raises=<0|1 per comparison, e.g. 001>   (phase 5b: _locale_call with a raising primitive)
      -> model=<ok|ERR:ValueError|ERR:localeError|HANG>#<lock>#<lc> nofinally=<..>#<lock>#<lc> spec=<lock>#<lc>
  XMLD defuse=<0|1|D> enccls=<ok|wrong|multibyte|unknown: oracle for an encoding name outside the table> text=<str>     (phase 5: the XML declaration parsed exactly, XmlDecl.scanPrologX)
      -> decl=<-|bad|V:ver,E:enc|-,S:y|n|-> gram=<0|1> expat=<0|1> rt=<0|1: spec render of the tree = body>
         cls=<ok|wrong|multibyte|unknown|-> rawenc=<0|1: unusable declared encoding (F19e, fixed)> standalone=<0|1> xml=<..>
-/
import EPV.Proto
import EPV.Spec.GlobalsSpec
import EPV.Spec.GlobalsXmlDeclSpec
import EPV.Model.GlobalsCollRaise
import EPV.Gen.C19Defaults
open EPV.Proto EPV.Globals

def decStr (s : String) : Option String :=
  if s == "_" then some "" else
  (s.splitOn ".").mapM (fun t => (nat? t).map Char.ofNat) |>.map String.ofList

def encStr (s : String) : String :=
  if s.isEmpty then "_" else ".".intercalate (s.toList.map fun c => toString c.toNat)

def decColl (s : String) : Option (Option String) :=
  if s == "NONE" then some none else (decStr s).map some

def decReq (s : String) : Option Req :=
  match s.splitOn ":" with
  | ["N", x] => (decStr x).map .name
  | ["P", x] => (decStr x).map .pair
  | _ => none

def encReq : Req → String
  | .name s => "N:" ++ encStr s
  | .pair s => "P:" ++ encStr s

def showErr : Err → String
  | .XPTY0004 => "ERR:XPTY0004"
  | .FOCH0002 => "ERR:FOCH0002"
  | .localeError => "ERR:OTHER:Error"
  | .valueError => "ERR:OTHER:ValueError"
  | .body _ => "ERR:BODY"

def showOut : Out → String
  | .ok => "ok"
  | .err e => showErr e

def b01 (b : Bool) : String := if b then "1" else "0"

def parseWorld (fs : List (String × String)) : Option World := do
  let av ← ((field fs "avail").splitOn ";" |>.filter (· ≠ "")).mapM decStr
  let nm ← ((field fs "norm").splitOn ";" |>.filter (· ≠ "")).mapM fun kv =>
    match kv.splitOn ">" with
    | [k, v] => do let r ← decReq k; let n ← decStr v; pure (r, n)
    | _ => none
  pure ⟨fun n => av.contains n, fun r => ((nm.find? (·.1 == r)).map (·.2)).getD "?norm-missing?"⟩

/-- prefix-form evaluation trees -/
def parseEv : Nat → List String → Option (Ev × List String)
  | 0, _ => none
  | _ + 1, "C" :: rest => some (.cmp, rest)
  | fuel + 1, "E" :: c :: r :: k :: rest => do
    let coll ← decColl c
    let raises ← if r == "-" then some none else (nat? r).map some
    let n ← nat? k
    let rec many (fuel' : Nat) (n : Nat) (toks : List String) (acc : List Ev) :
        Option (List Ev × List String) :=
      match n with
      | 0 => some (acc.reverse, toks)
      | n + 1 =>
        match fuel' with
        | 0 => none
        | f + 1 =>
          match parseEv fuel toks with
          | some (e, toks') => many f n toks' (e :: acc)
          | none => none
    let (inner, rest') ← many (n + 1) n rest []
    pure (.call (parseColl coll) inner raises, rest')
  | _, _ => none

def parseEvs (fuel : Nat) (toks : List String) : Option (List Ev) :=
  let rec go (f : Nat) (toks : List String) (acc : List Ev) : Option (List Ev) :=
    match f, toks with
    | _, [] => some acc.reverse
    | 0, _ => none
    | f + 1, toks => match parseEv fuel toks with
      | some (e, rest) => go f rest (e :: acc)
      | none => none
  go fuel toks []

def showLog (l : List LogE) : String :=
  ",".intercalate (l.map fun
    | .set n ok => encStr n ++ (if ok then "+" else "-")
    | .coll _ was => "@" ++ encStr was)

def showObs (σ : State) (out : String) (logFrom : Nat) : String :=
  s!"{out}#{b01 σ.lock}#{encStr σ.lc}#{σ.dec}#{(σ.env.map (·.2)).headD ""}#{showLog (σ.log.drop logFrom)}"

def answerHist (fs : List (String × String)) : String :=
  match parseWorld fs, decStr (field fs "init") with
  | some w, some init =>
    let toks := (field fs "evs").splitOn "/" |>.filter (· ≠ "")
    match parseEvs (toks.length + 1) toks with
    | none => "bad-evs"
    | some evs =>
      let σ0 : State := ⟨false, init, [("digest", field fs "env")], field fs "dec", []⟩
      let rec run (evs : List Ev) (σ : State) (acc : List String) : List String :=
        match evs with
        | [] => acc.reverse
        | e :: es =>
          match evalEv w none e σ with
          | .ok out σ' => run es σ' (showObs σ' (showOut out) σ.log.length :: acc)
          | .err x σ' => run es σ' (showObs σ' (showErr x) σ.log.length :: acc)
          | .stuck σ' => (showObs σ' "HANG" σ.log.length :: acc).reverse
      let obs := run evs σ0 []
      let sp := EPV.GlobalsSpec.specObs σ0
      let spec := s!"T#{b01 sp.lock}#{encStr sp.lc}#{sp.dec}#{(sp.env.map (·.2)).headD ""}"
      let br := ",".intercalate (evs.map fun e => toString (compile w none e).length)
      s!"model={"|".intercalate obs} spec={spec} br={br}"
  | _, _ => "bad-world"

/-! threads -/
def holders (c : Thr.Config) : Nat := (c.ts.filter fun t => t.pc.holds).length

def answerThr (fs : List (String × String)) : String :=
  match parseWorld fs, decStr (field fs "init") with
  | some w, some init =>
    let jobs := ((field fs "progs").splitOn "|").mapM fun p =>
      let toks := (p.splitOn "/").filter (· ≠ "")
      parseEvs (toks.length + 1) toks
    let sched := ((field fs "sched").splitOn ".").filterMap nat?
    match jobs with
    | none => "bad-progs"
    | some jobs =>
      let progs := jobs.map fun js => js.flatMap (compile w none)
      let c0 : Thr.Config := ⟨⟨false, init⟩, progs.map Thr.Thread.init⟩
      let stepAt (c : Thr.Config) (i : Nat) : Thr.Config := Thr.runSched w [i] c
      let (c1, mx) := sched.foldl (fun (acc : Thr.Config × Nat) i =>
        let c' := stepAt acc.1 i
        (c', max acc.2 (holders c'))) (c0, 0)
      let n := c1.ts.length
      let total := (progs.map fun p => 8 * p.length + 8).foldl (· + ·) 0
      let rr := (List.range (total + 1)).flatMap fun _ => List.range n
      let (c2, mx2) := rr.foldl (fun (acc : Thr.Config × Nat) i =>
        let c' := stepAt acc.1 i
        (c', max acc.2 (holders c'))) (c1, mx)
      let bad := (c2.ts.map fun t => (t.seen.filter fun (a, b) => a != b).length).foldl (· + ·) 0
      let brOK := c2.ts.all fun t => t.outs == t.prog.map (Br.expected w)
      let thr := (c2.ts.zip jobs).map fun (t, js) =>
        s!"{b01 t.done};{",".intercalate (js.map fun e => showOut (outcome w none e))};{",".intercalate (t.seen.map fun p => encStr p.2)}"
      s!"model={b01 c2.sh.lock}#{encStr c2.sh.lc}#{"|".intercalate thr} maxHolders={mx2} badSeen={bad} bracketsOK={b01 brOK} spec={b01 (EPV.GlobalsSpec.specThreads c0.sh).lock}#{encStr (EPV.GlobalsSpec.specThreads c0.sh).lc}"
  | _, _ => "bad-world"

/-! gates -/
def flagOf (s : String) (dflt : Bool) : Bool := if s == "D" then dflt else s == "1"

def answerEnv (fs : List (String × String)) : String :=
  let env := ((field fs "env").splitOn ";" |>.filter (· ≠ "")).filterMap fun kv =>
    match kv.splitOn ">" with
    | [k, v] => do let a ← decStr k; let b ← decStr v; pure (a, b)
    | _ => none
  match decStr (field fs "name") with
  | none => "bad-name"
  | some name =>
    let allow := flagOf (field fs "allow") EPV.Gen.C19.allowEnvironmentDefault
    let σ : State := ⟨false, "C", env, "", []⟩
    let sh (o : Option String) := match o with | some v => encStr v | none => "EMPTY"
    let names (l : List String) := ";".intercalate (l.map encStr)
    s!"model={sh (envVar allow σ name)}#{names (availEnvVars allow σ)} spec={sh (EPV.GlobalsSpec.specEnvVar env name)}#{names (EPV.GlobalsSpec.specAvailEnvVars env)}"

def parseDecl (s : String) : Option Decl :=
  match s.splitOn ":" with
  | ["e", n, v] => do let a ← decStr n; let b ← decStr v; pure (.entity a b)
  | ["p", n] => (decStr n).map .paramEntity
  | ["x", n] => (decStr n).map .extEntity
  | ["u", n] => (decStr n).map .unparsed
  | ["E"] => some .element
  | ["A"] => some .attlist
  | ["N"] => some .notation
  | ["C"] => some .comment
  | ["P"] => some .pi
  | _ => none

def parseItem (s : String) : Option Item :=
  match s.splitOn ":" with
  | ["t", x] => (decStr x).map .text
  | ["c", x] => (decStr x).map .predef
  | ["r", x] => (decStr x).map .ref
  | _ => none

def parseDoc (s : String) : Option Doc :=
  match s.splitOn "/" with
  | [xd, ld, dt, ct] => do
    let leading ← nat? ld
    let doctype ← if dt == "-" then some none else
      match dt.splitOn "~" with
      | ext :: decls => do
        let ds ← (decls.filter (· ≠ "")).mapM parseDecl
        pure (some (ext == "1", ds))
      | [] => none
    let content ← ((ct.splitOn "~").filter (· ≠ "")).mapM parseItem
    pure ⟨xd == "1", leading, doctype, content⟩
  | _ => none

def showX : Except XErr String → String
  | .ok s => "ok:" ++ encStr s
  | .error .forbidden => "ERR:forbidden"
  | .error .FODC0006 => "ERR:FODC0006"

def answerXml (fs : List (String × String)) : String :=
  match parseDoc (field fs "doc") with
  | none => "bad-doc"
  | some d =>
    let df := flagOf (field fs "defuse") EPV.Gen.C19.defuseXmlDefault
    s!"xml={showX (parseXml df d)} frag={showX (parseXmlFragment df d)} mustReject={b01 (EPV.GlobalsSpec.mustReject d)}"

def showCls : XmlDecl.EncClass → String
  | .ok => "ok" | .wrong => "wrong" | .multibyte => "multibyte" | .unknown => "unknown"

def answerXmlD (fs : List (String × String)) : String :=
  match decStr (field fs "text") with
  | none => "bad-text"
  | some t =>
    let df := flagOf (field fs "defuse") EPV.Gen.C19.defuseXmlDefault
    let cs := t.toList
    let orc : XmlDecl.EncClass := match field fs "enccls" with
      | "ok" => .ok | "wrong" => .wrong | "multibyte" => .multibyte | _ => .unknown
    let pt := XmlDecl.scanPrologX cs
    let intab := match pt.2 with
      | some tr => (match tr.encoding with | some n => (XmlDecl.tableClass n).isSome | none => false)
      | none => false
    let head := XmlDecl.declOf cs
    let decl := match head, pt.2 with
      | none, _ => "-"
      | some _, none => "bad"
      | some _, some tr =>
        let e := match tr.encoding with | some n => String.ofList n | none => "-"
        let sd := match tr.standalone with | some true => "y" | some false => "n" | none => "-"
        s!"V:{String.ofList tr.version},E:{e},S:{sd}"
    let gram := match pt.2 with | some tr => EPV.GlobalsSpec.XmlDeclGrammar.grammatical tr | none => false
    let ex := match pt.2 with | some tr => EPV.GlobalsSpec.XmlDeclGrammar.expatAccepts tr | none => false
    let rt := match head, pt.2 with
      | some (body, _), some tr => EPV.GlobalsSpec.XmlDeclGrammar.render tr == body
      | _, _ => false
    let cls := match pt.2 with
      | some tr => (match tr.encoding with | some n => showCls (XmlDecl.encClass orc n) | none => "-")
      | none => "-"
    s!"decl={decl} gram={b01 gram} expat={b01 ex} rt={b01 rt} cls={cls} rawenc={b01 (XmlDecl.rawEncoding orc cs)} intable={b01 intab} standalone={b01 pt.1.standalone} xml={showX (XmlDecl.parseXmlTextX orc df t)}"

def showRes (r : Res Unit) : String :=
  let k := match r with
    | .ok _ _ => "ok"
    | .err .valueError _ => "ERR:ValueError"
    | .err .localeError _ => "ERR:localeError"
    | .err _ _ => "ERR:other"
    | .stuck _ => "HANG"
  let σ := CollRaise.final r
  s!"{k}#{b01 σ.lock}#{encStr σ.lc}"

def answerUseR (fs : List (String × String)) : String :=
  match ((field fs "avail").splitOn ";" |>.filter (· ≠ "")).mapM decStr, decStr (field fs "init"), decStr (field fs "eff") with
  | some av, some init, some eff =>
    let w : World := ⟨fun n => av.contains n, fun _ => eff⟩
    let σ0 : State := ⟨false, init, [], "", []⟩
    let rs := (field fs "raises").toList.map (· == '1')
    let nofin := match rs with
      | [r] => showRes (CollRaise.useLocNoFinally w eff r σ0)
      | _ => "-"
    let sp := EPV.GlobalsSpec.specObs σ0
    s!"model={showRes (CollRaise.useMany w eff rs σ0)} nofinally={nofin} spec={b01 sp.lock}#{encStr sp.lc}"
  | _, _, _ => "bad-args"

def answer (line : String) : String :=
  let l := line.trimAscii.toString
  let (cmd, rest) := match l.splitOn " " with
    | c :: r => (c, " ".intercalate r)
    | [] => ("", "")
  let fs := fields rest
  match cmd with
  | "PARSE" =>
    match decColl (field fs "c") with
    | none => "bad-coll"
    | some c =>
      match parseColl c with
      | .error e => showErr e
      | .ok m => s!"lc={match m.lc with | some r => encReq r | none => "-"} fb={b01 m.fallback}"
  | "DEFCOLL" =>
    match decStr (field fs "lc") with
    | none => "bad-lc"
    | some lc => match defaultCollation lc with
      | some c => "dc=" ++ encStr c
      | none => "ERR:OTHER:ValueError"
  | "HIST" => answerHist fs
  | "THR" => answerThr fs
  | "ENV" => answerEnv fs
  | "XML" => answerXml fs
  | "XMLD" => answerXmlD fs
  | "USER" => answerUseR fs
  | "XMLT" =>
    match decStr (field fs "text") with
    | none => "bad-text"
    | some t =>
      let df := flagOf (field fs "defuse") EPV.Gen.C19.defuseXmlDefault
      let p := XmlText.scanProlog t.toList
      s!"xml={showX (parseXmlText df t)} frag={showX (parseXmlFragmentText df (field fs "declok" == "1") t)} forbidden={b01 p.forbidden} parsed={b01 (XmlText.parseText t.toList).isSome}"
  | _ => "bad-cmd"

def main : IO Unit := mainLoop answer

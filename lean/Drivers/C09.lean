/-
Driver for C09.  Request line:   <op>|<arg>|<arg>|...
  string argument  : space separated decimal code points (empty field = empty string)
  numeric argument : `nan` `inf` `-inf` or `<num>/<den>` (exact rational, den > 0)
  integer sequence : space separated (possibly negative) decimals
  case table       : comma separated `cp:cp cp ...` entries (upper-case / lower-case), then
                     for lower-case two more fields: cased code points, case-ignorable code points
Answer:            <model value>|<spec value>
  values: `S:<code points>`  `B:0|1`  `I:<int>`  `L:<ints>`  `ERR:<code>`
ops: substring2 substring3 before after contains starts ends translate normalize concat join
     length compare cpequal s2cp cp2s upper lower encode iri html
-/
import EPV.Proto
import EPV.Model.Strings
open EPV.Proto
open EPV.FOStrings (Str Num Err)
open EPV

def parseNats (s : String) : Option (List Nat) :=
  let t := s.trimAscii.toString
  if t == "" then some [] else (t.splitOn " ").mapM nat?

def parseInts (s : String) : Option (List Int) :=
  let t := s.trimAscii.toString
  if t == "" then some [] else (t.splitOn " ").mapM int?

def parseNum (s : String) : Option Num :=
  match s.trimAscii.toString with
  | "nan" => some .nan
  | "inf" => some .pinf
  | "-inf" => some .ninf
  | t => match t.splitOn "/" with
    | [a, b] => do
      let n ← int? a
      let d ← nat? b
      if d = 0 then none else pure (.fin n d)
    | _ => none

def showNats (l : List Nat) : String := " ".intercalate (l.map toString)
def showInts (l : List Int) : String := " ".intercalate (l.map toString)

def vS (s : Str) : String := "S:" ++ showNats s
def vB (b : Bool) : String := if b then "B:1" else "B:0"
def vI (i : Int) : String := "I:" ++ toString i
def vL (l : List Int) : String := "L:" ++ showInts l
def vE : Except Err Str → String
  | .ok s => vS s
  | .error .FOCH0001 => "ERR:FOCH0001"
  | .error .encode => "ERR:OTHER:UnicodeEncodeError"

/-- `cp:cp cp,cp:cp` -/
def parseTable (s : String) : Option (List (Nat × Str)) :=
  let t := s.trimAscii.toString
  if t == "" then some [] else
  (t.splitOn ",").mapM fun e =>
    match e.splitOn ":" with
    | [k, v] => do
      let k ← nat? k
      let v ← parseNats v
      pure (k, v)
    | _ => none

def tableFun (t : List (Nat × Str)) (c : Nat) : Str :=
  match t.lookup c with
  | some v => v
  | none => [c]

def pair (m s : String) : String := m ++ "|" ++ s

def answer (line : String) : String :=
  match line.splitOn "|" with
  | "concat" :: args =>
    match args.mapM parseNats with
    | some l => pair (vS (Strings.concat l)) (vS (FOStrings.concat l))
    | none => "bad-arg"
  | "join" :: sep :: items =>
    match parseNats sep, items.mapM parseNats with
    | some sep, some l => pair (vS (Strings.stringJoin l sep)) (vS (FOStrings.stringJoin l sep))
    | _, _ => "bad-arg"
  | ["substring2", s, a] =>
    match parseNats s, parseNum a with
    | some s, some a => pair (vS (Strings.substring2 s a)) (vS (FOStrings.substring2 s a))
    | _, _ => "bad-arg"
  | ["substring3", s, a, b] =>
    match parseNats s, parseNum a, parseNum b with
    | some s, some a, some b => pair (vS (Strings.substring3 s a b)) (vS (FOStrings.substring3 s a b))
    | _, _, _ => "bad-arg"
  | [op, s, t] =>
    if op == "cp2s" || op == "upper" then
      if op == "cp2s" then
        match parseInts s with
        | some l => if t == "" then pair (vE (Strings.codepointsToString l)) (vE (FOStrings.codepointsToString l)) else "bad-arg"
        | none => "bad-arg"
      else
        match parseNats s, parseTable t with
        | some s, some tb => pair (vS (Strings.upperCase (tableFun tb) s)) (vS (FOStrings.upperCase (tableFun tb) s))
        | _, _ => "bad-arg"
    else
    match parseNats s, parseNats t with
    | some s, some t =>
      match op with
      | "before" => pair (vS (Strings.substringBefore s t)) (vS (FOStrings.substringBefore s t))
      | "after" => pair (vS (Strings.substringAfter s t)) (vS (FOStrings.substringAfter s t))
      | "contains" => pair (vB (Strings.contains s t)) (vB (FOStrings.contains s t))
      | "starts" => pair (vB (Strings.startsWith s t)) (vB (FOStrings.startsWith s t))
      | "ends" => pair (vB (Strings.endsWith s t)) (vB (FOStrings.endsWith s t))
      | "compare" => pair (vI (Strings.compare s t)) (vI (FOStrings.compare s t))
      | "cpequal" => pair (vB (Strings.codepointEqual s t)) (vB (FOStrings.codepointEqual s t))
      | _ => "bad-op"
    | _, _ => "bad-arg"
  | ["lower", s, t, cs, ig] =>
    match parseNats s, parseTable t, parseNats cs, parseNats ig with
    | some s, some tb, some cs, some ig =>
      pair (vS (Strings.lowerCase (tableFun tb) cs.contains ig.contains s))
        (vS (FOStrings.lowerCase (tableFun tb) cs.contains ig.contains s))
    | _, _, _, _ => "bad-arg"
  | ["translate", s, m, t] =>
    match parseNats s, parseNats m, parseNats t with
    | some s, some m, some t => pair (vS (Strings.translate s m t)) (vS (FOStrings.translate s m t))
    | _, _, _ => "bad-arg"
  | [op, s] =>
    match parseNats s with
    | some s =>
      match op with
      | "normalize" => pair (vS (Strings.normalizeSpace s)) (vS (FOStrings.normalizeSpace s))
      | "length" => pair (vI (Strings.stringLength s)) (vI (FOStrings.stringLength s))
      | "s2cp" => pair (vL (Strings.stringToCodepoints s)) (vL (FOStrings.stringToCodepoints s))
      | "encode" => pair (vE (Strings.encodeForUri s)) (vE (FOStrings.encodeForUri s))
      | "iri" => pair (vE (Strings.iriToUri s)) (vE (FOStrings.iriToUri s))
      | "html" => pair (vE (Strings.escapeHtmlUri s)) (vE (FOStrings.escapeHtmlUri s))
      | _ => "bad-op"
    | none => "bad-arg"
  | _ => "bad-line"

def main : IO Unit := mainLoop answer

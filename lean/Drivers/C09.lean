/-
Driver for C09.  Request line:   <op>|<arg>|<arg>|...
  string argument  : space separated decimal code points (empty field = empty string,
                     `-` = the empty sequence where the signature says xs:string?)
  numeric argument : `nan` `inf` `-inf` or `<num>/<den>` (exact rational, den > 0)
  integer sequence : space separated (possibly negative) decimals
  case table       : comma separated `cp:cp cp ...` entries (upper-case / lower-case), then
                     for lower-case two more fields: cased code points, case-ignorable code points
Answer:            <model value>|<spec value>
  values: `S:<code points>`  `B:0|1`  `I:<int>`  `L:<ints>` (`L:` = empty sequence)  `ERR:<code>`
ops: conv ctoken cp2sx substring2 substring3 before after contains starts ends translate translate1 normalize concat join
     length compare cpequal s2cp cp2s upper lower encode iri html
     upperG lowerG (case tables of EPV/Gen/C09Case.lean, regenerated from the live CPython)
     hbefore hafter hcontains hstarts hends hcompare (HTML ASCII case-insensitive collation)
     tok1|<string or ->  one-argument fn:tokenize (3.1): `T:<cps>;<cps>…` (`T:-` = empty sequence), answer
          <model>|<spec tokenize(normalize-space(s),' ')>|<holds FF/VT 0/1 (histogram only; F09o is fixed)>|<spec, max-runs reading>|<branch>
-/
import EPV.Proto
import EPV.Model.Strings
import EPV.Gen.C09Case
import EPV.Model.StringsTokenize1
import EPV.Spec.FOTokenize1
open EPV.Proto
open EPV.FOStrings (Str Num Err)
open EPV

def parseNats (s : String) : Option (List Nat) :=
  let t := s.trimAscii.toString
  if t == "" then some [] else (t.splitOn " ").mapM nat?

def parseInts (s : String) : Option (List Int) :=
  let t := s.trimAscii.toString
  if t == "" then some [] else (t.splitOn " ").mapM int?

def parseNum (s : String) : Option Num :=
  match s.trimAscii.toString with
  | "nan" => some .nan
  | "inf" => some .pinf
  | "-inf" => some .ninf
  | t => match t.splitOn "/" with
    | [a, b] => do
      let n ← int? a
      let d ← nat? b
      if d = 0 then none else pure (.fin n d)
    | _ => none

def showNats (l : List Nat) : String := " ".intercalate (l.map toString)
def showInts (l : List Int) : String := " ".intercalate (l.map toString)

def vS (s : Str) : String := "S:" ++ showNats s
def vB (b : Bool) : String := if b then "B:1" else "B:0"
def vI (i : Int) : String := "I:" ++ toString i
def vL (l : List Int) : String := "L:" ++ showInts l
def vE : Except Err Str → String
  | .ok s => vS s
  | .error .FOCH0001 => "ERR:FOCH0001"
  | .error .encode => "ERR:OTHER:UnicodeEncodeError"

/-- `cp:cp cp,cp:cp` -/
def parseTable (s : String) : Option (List (Nat × Str)) :=
  let t := s.trimAscii.toString
  if t == "" then some [] else
  (t.splitOn ",").mapM fun e =>
    match e.splitOn ":" with
    | [k, v] => do
      let k ← nat? k
      let v ← parseNats v
      pure (k, v)
    | _ => none

open EPV.Strings (tableFun inRanges)

/-- a string or `-` (the empty sequence) -/
def parseOStr (s : String) : Option (Option Str) :=
  if s.trimAscii.toString == "-" then some none else (parseNats s).map some

def vOI : Option Int → String
  | some i => vI i
  | none => "L:"
def vOB : Option Bool → String
  | some b => vB b
  | none => "L:"
def vT : Except FOStrings.TypeErr Str → String
  | .ok s => vS s
  | .error .XPTY0004 => "ERR:XPTY0004"

def pair (m s : String) : String := m ++ "|" ++ s

def parsePos (s : String) : Option Strings.PosArg :=
  match s.splitOn ":" with
  | ["n", v] => (parseNum v).map .num
  | ["u", v] => (parseNum v).map .untyped
  | ["s", v] => (parseNum v).map .string
  | _ => none

def vX : Except Strings.SubErr Str → String
  | .ok s => vS s
  | .error .FORG0006 => "ERR:FORG0006"

abbrev md := Strings.argDefault
abbrev sd := FOStrings.orEmpty

def parseBool01 (s : String) : Option Bool :=
  if s == "1" then some true else if s == "0" then some false else none

/-- `B;1` `I;-12` `D;<neg>;<digits>;<exp>` `F;nan` `F;inf` `F;-inf` `F;<neg>;<digits>;<decpt>` -/
def parseNumArg (s : String) : Option FOStrings.NumArg :=
  match s.splitOn ";" with
  | ["B", b] => (parseBool01 b).map .bool
  | ["I", v] => (int? v).map .int
  | ["D", n, c, e] => do
    let n ← parseBool01 n; let c ← parseNats c; let e ← int? e
    pure (.dec n c e)
  | ["F", "nan"] => some .fnan
  | ["F", "inf"] => some (.finf false)
  | ["F", "-inf"] => some (.finf true)
  | ["F", n, ds, p] => do
    let n ← parseBool01 n; let ds ← parseNats ds; let p ← int? p
    pure (.flt n ds p)
  | _ => none

/-- a sequence of strings: `T:<cps>;<cps>` (`T:-` = the empty sequence; an empty token shows as nothing between `;`) -/
def vToks (l : List Str) : String :=
  if l.isEmpty then "T:-" else "T:" ++ ";".intercalate (l.map showNats)

def answerBase (line : String) : String :=
  match line.splitOn "|" with
  | ["tok1", a] =>
    match parseOStr a with
    | none => "bad-arg"
    | some o =>
      let m := Strings.fnTokenize1 o
      let branch := match o with
        | none => "empty-sequence"
        | some s => if s.isEmpty then "zero-length" else if m.isEmpty then "whitespace-only"
                    else if m.length == 1 then "one-token" else "tokens"
      vToks m ++ "|" ++ vToks (FOStrings.fnTokenize1 o) ++ "|" ++
        (if Strings.hasFfVt o then "1" else "0") ++ "|" ++
        vToks (match o with | none => [] | some s => FOStrings.maxRuns s) ++ "|" ++ branch
  | ["cp2sx", items] =>       -- items: `i:<int>` `u:<int>` `u:-` (untyped, not an integer) `b` `s` `o`
    let parseItem (t : String) : Option FOStrings.CpItem :=
      match t.splitOn ":" with
      | ["i", v] => (int? v).map .int
      | ["u", "-"] => some (.untyped none)
      | ["u", v] => (int? v).map fun x => .untyped (some x)
      | ["b"] => some .bool
      | ["s"] => some .str
      | ["o"] => some .other
      | _ => none
    let toks := (items.trimAscii.toString.splitOn " ").filter (· ≠ "")
    match toks.mapM parseItem with
    | none => "bad-arg"
    | some l =>
      let show1 (r : Except FOStrings.CpErr Str) : String :=
        match r with
        | .ok s => vS s
        | .error .FOCH0001 => "ERR:FOCH0001" | .error .XPTY0004 => "ERR:XPTY0004"
        | .error .FORG0001 => "ERR:FORG0001" | .error .FORG0006 => "ERR:FORG0006"
      show1 (Strings.codepointsToStringItems l) ++ "|" ++ show1 (FOStrings.codepointsToStringItems l) ++ "|" ++
        (if Strings.cpItemsTrigger l then "1" else "0")
  | "ctoken" :: col :: tok :: input =>
    match parseNats tok, input.mapM parseNats with
    | some tok, some input =>
      let c : FOStrings.Collation := if col == "h" then .htmlAscii else .codepoint
      pair (vB (Strings.containsToken c input tok)) (vB (FOStrings.containsToken c input tok))
    | _, _ => "bad-arg"
  | "concat" :: args =>
    match args.mapM parseOStr with
    | some l => pair (vS (Strings.concat (l.map md))) (vS (FOStrings.concat (l.map sd)))
    | none => "bad-arg"
  | "join" :: sep :: items =>
    match parseOStr sep, items.mapM parseNats with
    | some sep, some l => pair (vT (Strings.fnStringJoin l sep)) (vT (FOStrings.fnStringJoin l sep))
    | _, _ => "bad-arg"
  | ["substring2x", s, a] =>        -- position arguments with a kind prefix: n / u / s
    match parseOStr s, parsePos a with
    | some s, some a =>
      pair (vX (Strings.fnSubstring2 s a)) (vS (FOStrings.substring2 (sd s) a.value))
        ++ "|" ++ (if a.isString then "1" else "0")
    | _, _ => "bad-arg"
  | ["substring3x", s, a, b] =>
    match parseOStr s, parsePos a, parsePos b with
    | some s, some a, some b =>
      pair (vX (Strings.fnSubstring3 s a b)) (vS (FOStrings.substring3 (sd s) a.value b.value))
        ++ "|" ++ (if a.isString || b.isString then "1" else "0")
    | _, _, _ => "bad-arg"
  | ["substring2", s, a] =>
    match parseOStr s, parseNum a with
    | some s, some a => pair (vS (Strings.substring2 (md s) a)) (vS (FOStrings.substring2 (sd s) a))
    | _, _ => "bad-arg"
  | ["substring3", s, a, b] =>
    match parseOStr s, parseNum a, parseNum b with
    | some s, some a, some b =>
      pair (vS (Strings.substring3 (md s) a b)) (vS (FOStrings.substring3 (sd s) a b))
    | _, _, _ => "bad-arg"
  | ["cp2s", l, _] =>
    match parseInts l with
    | some l => pair (vE (Strings.codepointsToString l)) (vE (FOStrings.codepointsToString l))
    | none => "bad-arg"
  | ["upper", s, t] =>
    match parseOStr s, parseTable t with
    | some s, some tb =>
      pair (vS (Strings.upperCase (tableFun tb) (md s))) (vS (FOStrings.upperCase (tableFun tb) (sd s)))
    | _, _ => "bad-arg"
  | ["lower", s, t, cs, ig] =>
    match parseOStr s, parseTable t, parseNats cs, parseNats ig with
    | some s, some tb, some cs, some ig =>
      pair (vS (Strings.lowerCase (tableFun tb) cs.contains ig.contains (md s)))
        (vS (FOStrings.lowerCase (tableFun tb) cs.contains ig.contains (sd s)))
    | _, _, _, _ => "bad-arg"
  | ["translate", s, m, t] =>
    match parseOStr s, parseOStr m, parseOStr t with
    | some s, some m, some t => pair (vT (Strings.fnTranslate false s m t)) (vT (FOStrings.fnTranslate s m t))
    | _, _, _ => "bad-arg"
  | ["translate1", s, m, t] =>     -- XPath 1.0 / compatibility mode
    match parseOStr s, parseOStr m, parseOStr t with
    | some s, some m, some t => pair (vT (Strings.fnTranslate true s m t)) (vS (FOStrings.fnTranslate10 s m t))
    | _, _, _ => "bad-arg"
  | [op, s, t] =>
    match parseOStr s, parseOStr t with
    | some s, some t =>
      match op with
      | "before" => pair (vS (Strings.substringBefore (md s) (md t))) (vS (FOStrings.substringBefore (sd s) (sd t)))
      | "after" => pair (vS (Strings.substringAfter (md s) (md t))) (vS (FOStrings.substringAfter (sd s) (sd t)))
      | "contains" => pair (vB (Strings.contains (md s) (md t))) (vB (FOStrings.contains (sd s) (sd t)))
      | "starts" => pair (vB (Strings.startsWith (md s) (md t))) (vB (FOStrings.startsWith (sd s) (sd t)))
      | "ends" => pair (vB (Strings.endsWith (md s) (md t))) (vB (FOStrings.endsWith (sd s) (sd t)))
      | "compare" => pair (vOI (Strings.noneIfEitherNone Strings.compare s t)) (vOI (FOStrings.lift2 FOStrings.compare s t))
      | "cpequal" => pair (vOB (Strings.noneIfEitherNone Strings.codepointEqual s t))
          (vOB (FOStrings.lift2 FOStrings.codepointEqual s t))
      | "hbefore" => pair (vS (Strings.substringBeforeC .htmlAscii (md s) (md t))) (vS (FOStrings.substringBeforeC .htmlAscii (sd s) (sd t)))
      | "hafter" => pair (vS (Strings.substringAfterC .htmlAscii (md s) (md t))) (vS (FOStrings.substringAfterC .htmlAscii (sd s) (sd t)))
      | "hcontains" => pair (vB (Strings.containsC .htmlAscii (md s) (md t))) (vB (FOStrings.containsC .htmlAscii (sd s) (sd t)))
      | "hstarts" => pair (vB (Strings.startsWithC .htmlAscii (md s) (md t))) (vB (FOStrings.startsWithC .htmlAscii (sd s) (sd t)))
      | "hends" => pair (vB (Strings.endsWithC .htmlAscii (md s) (md t))) (vB (FOStrings.endsWithC .htmlAscii (sd s) (sd t)))
      | "hcompare" => pair (vOI (Strings.noneIfEitherNone (Strings.compareC .htmlAscii) s t))
          (vOI (FOStrings.lift2 (FOStrings.compareC .htmlAscii) s t))
      | _ => "bad-op"
    | _, _ => "bad-arg"
  | [op, s] =>
    match parseOStr s with
    | some s =>
      match op with
      | "upperG" => pair (vS (Strings.upperCase (tableFun Gen.C09.upperTable) (md s)))
          (vS (FOStrings.upperCase (tableFun Gen.C09.upperTable) (sd s)))
      | "lowerG" => pair (vS (Strings.lowerCase (tableFun Gen.C09.lowerTable) (inRanges Gen.C09.casedRanges)
            (inRanges Gen.C09.ignorableRanges) (md s)))
          (vS (FOStrings.lowerCase (tableFun Gen.C09.lowerTable) (inRanges Gen.C09.casedRanges)
            (inRanges Gen.C09.ignorableRanges) (sd s)))
      | "normalize" => pair (vS (Strings.normalizeSpace (md s))) (vS (FOStrings.normalizeSpace (sd s)))
      | "length" => pair (vI (Strings.stringLength (md s))) (vI (FOStrings.stringLength (sd s)))
      | "s2cp" => pair (vL (Strings.stringToCodepoints (md s))) (vL (FOStrings.stringToCodepoints (sd s)))
      | "encode" => pair (vE (Strings.encodeForUri (md s))) (vE (FOStrings.encodeForUri (sd s)))
      | "iri" => pair (vE (Strings.iriToUri (md s))) (vE (FOStrings.iriToUri (sd s)))
      | "html" => pair (vE (Strings.escapeHtmlUri (md s))) (vE (FOStrings.escapeHtmlUri (sd s)))
      | _ => "bad-op"
    | none => "bad-arg"
  | _ => "bad-line"

/-- `conv|<numarg>|<position>|<op>|<args…>`: the argument at `<position>` (0-based among `<args…>`,
written `@` there) is a number or boolean converted by `string_value` (model) / XPath 1.0 `string()`
(spec) before the string function `<op>` is applied; `conv|<numarg>` alone answers the conversion.
A third answer field tells whether the F09g trigger predicate holds. -/
def answer (line : String) : String :=
  match line.splitOn "|" with
  | "conv1" :: na :: rest =>       -- the XPath 1.0 parser: callers go through compat_string_value
    match parseNumArg na with
    | none => "bad-num"
    | some a =>
      let m := Strings.compatStringValue true a
      let s := FOStrings.xp1String a
      match rest with
      | [] => vS m ++ "|" ++ vS s ++ "|0"
      | _ =>
        let sub (v : Str) : String := "|".intercalate (rest.map fun f => if f == "@" then showNats v else f)
        match (answerBase (sub m)).splitOn "|", (answerBase (sub s)).splitOn "|" with
        | [mm, _], [_, ss] => mm ++ "|" ++ ss ++ "|0"
        | _, _ => "bad-conv " ++ answerBase (sub m)
  | "conv" :: na :: rest =>
    match parseNumArg na with
    | none => "bad-num"
    | some a =>
      let m := Strings.stringValue a
      let s := FOStrings.xp1String a
      let k := if Strings.xp1Trigger a then "1" else "0"
      match rest with
      | [] => vS m ++ "|" ++ vS s ++ "|" ++ k
      | _ =>
        let sub (v : Str) : String := "|".intercalate (rest.map fun f => if f == "@" then showNats v else f)
        match (answerBase (sub m)).splitOn "|", (answerBase (sub s)).splitOn "|" with
        | [mm, _], [_, ss] => mm ++ "|" ++ ss ++ "|" ++ k
        | _, _ => "bad-conv " ++ answerBase (sub m)
  | _ => answerBase line

def main : IO Unit := mainLoop answer

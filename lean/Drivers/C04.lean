/-
Driver for C04.  Request line:
  V=<10|20|30|31|120|130|131> T=<tok>,<tok>,...
tokens: `a<k>.<n>` operand of kind k, `t<n>` type, `o<i>` operator = row i of the generated table of
that version, `c<0|1>` closer `)` / `]`.
Answer:  model=<tree|ERR:syntax|ERR:fuel|ERR:unmodelled> spec=<tree|ERR> trig=<finding ids,…|-> rel=<0|1> chain=<0|1> src=<code points|->
  chain : the pieces of the rendered `source` text are separable and the text lexes back to the input's lexemes;
  src : the `source` text of the model's tree (model of XPathToken.source), as code points
  model : the Pratt model with the generated table;  spec : the EBNF reference parser with the W3C
  level table of the version;  trig : trigger predicates of the known findings that hold for this input;
  rel : the model's tree is a relaxed derivation whose yield is the input (what `pratt_derives` proves), the
        reference parser's tree is an EBNF derivation with that yield, and if it passes the table's guards the
        model returns it (what `pratt_complete` proves) — run-time cross-checks, 0 = something is inconsistent.
trees:  k.n | _ | (G<sym> e) | (P<sym> x) | (B<sym> l r) | (T<sym> l n) | (X<sym> l e) | (A<sym> l f a)
-/
import EPV.Proto
import EPV.Gen.C04Tables
import EPV.Lemmas.PrattTables
import EPV.Lemmas.PrattComplete
import EPV.Model.PrattLexer
import EPV.Lemmas.PrattSource
import EPV.Spec.EBNFKw
open EPV.Proto EPV.Syn EPV.Pratt EPV.Gen.C04

def parseTok (s : String) : Option Tok :=
  match s.toList with
  | 'a' :: rest =>
    match (String.ofList rest).splitOn "." with
    | [k, n] => do let k ← nat? k; let n ← nat? n; pure (.atom k n)
    | _ => none
  | 't' :: rest => (nat? (String.ofList rest)).map .ty
  | 'o' :: rest => (nat? (String.ofList rest)).map .op
  | 'c' :: rest => (nat? (String.ofList rest)).map .close
  | 'k' :: rest => (nat? (String.ofList rest)).map .close   -- keyword of the ExprSingle layer (EPV/Model/PrattKw.lean)
  | _ => none

partial def showTree (rows : List Row) : Tree → String
  | .nil => "_"
  | .atom k n => s!"{k}.{n}"
  | .group g _ e => s!"(G{symOf rows g} {showTree rows e})"
  | .pre p x => s!"(P{symOf rows p} {showTree rows x})"
  | .bin o l r => s!"(B{symOf rows o} {showTree rows l} {showTree rows r})"
  | .typed o l n => s!"(T{symOf rows o} {showTree rows l} #{n})"
  | .post o _ l e => s!"(X{symOf rows o} {showTree rows l} {showTree rows e})"
  | .arrow o l f a => s!"(A{symOf rows o} {showTree rows l} {showTree rows f} {showTree rows a})"

def showErr : Err → String
  | .syntax => "ERR:syntax"
  | .fuel => "ERR:fuel"
  | .unmodelled => "ERR:unmodelled"

structure Ver where
  n : Nat
  rows : List Row
  w3c : List Level      -- the W3C level table (the specification)
  impl : List Level     -- the level table the code is proved consistent with
  ep : Bool
  txt : EPV.Source.TextTbl   -- lexical side: symbol texts, `source` styles, tokenizer classes

def versions : List Ver := [
  ⟨10, opTable_v10, levels10, levels10impl, false, textTbl_v10⟩,
  ⟨20, opTable_v20, levels20, levels20impl, true, textTbl_v20⟩,
  ⟨30, opTable_v30, levels30, levels30, true, textTbl_v30⟩,
  ⟨31, opTable_v31, levels31, levels31, true, textTbl_v31⟩,
  -- the 2.0+ parsers built with compatibility_mode=True: same grammar, own generated tables
  ⟨120, opTable_v20c, levels20, levels20impl, true, textTbl_v20⟩,
  ⟨130, opTable_v30c, levels30, levels30, true, textTbl_v30⟩,
  ⟨131, opTable_v31c, levels31, levels31, true, textTbl_v31⟩]


/-! keyword ExprSingle layer (phase 5): `V=<ver> KW=1 T=<tok>,…` with keyword tokens `k<2..12>` -/
partial def showX (rows : List Row) : EPV.Kw.XTree → String
  | .leaf t => showTree rows t
  | .seq o l r => s!"(B{symOf rows o} {showX rows l} {showX rows r})"
  | .ite _ c a b => s!"(I {showX rows c} {showX rows a} {showX rows b})"
  | .bind q v r b => s!"(Q{q} {showTree rows v} {showX rows r} {showX rows b})"

def leavesX : EPV.Kw.XTree → List Tree
  | .leaf t => [t]
  | .seq _ l r => leavesX l ++ leavesX r
  | .ite _ c a b => leavesX c ++ leavesX a ++ leavesX b
  | .bind _ v r b => v :: (leavesX r ++ leavesX b)

def idxOf (rows : List Row) (s : String) : Nat := EPV.Kw.symIdx rows s

/-- answer: model=<xtree|ERR:…> spec=<xtree|ERR> trig=<F04p,F04q|-> kwop=<0|1> rel=<0|1>
  rel: run-time cross-check of the proved statements (`kw_inv`: yield; relaxed derivation) -/
def answerKw (V : Ver) (toks : List Tok) : String :=
  let lp := idxOf V.rows "("
  let comma := idxOf V.rows ","
  let T := tableOf V.rows
  let m := EPV.Kw.xparse T lp comma toks
  let s := EPV.Kw.xebnfParse (gramOf V.w3c V.ep (syms V.rows)) lp comma toks
  let ms := match m with | .ok t => showX V.rows t | .error e => showErr e
  let ss := match s with | some t => showX V.rows t | none => "ERR"
  let trig : List String :=
    -- the findings of the operator fragment, per leaf
    (match s, m with
     | none, .ok t => if (leavesX t).any (fun l => trigF04b V.rows V.impl V.ep (specParse V.w3c V.ep V.rows l.yield) l.yield) then ["F04b"] else []
     | some t, _ => if (leavesX t).any (trigF04d (V.n % 100) V.rows) then ["F04d"] else []
     | _, _ => []) ++
    -- F04r: a bare `?` after `(` / `,` is read as an argument placeholder (only when model and reference both reject)
    (match s, m with
     | none, .error _ => if EPV.Kw.placeholderAt T (idxOf V.rows "?") lp comma toks then ["F04r"] else []
     | _, _ => [])
  let rel := (match m with
    | .ok t => decide (t.yield = toks) && EPV.Kw.xwf false (gramOf V.impl V.ep (syms V.rows)) lp comma false t
    | .error _ => true) &&
    (match s with
    | some t => decide (t.yield = toks) && EPV.Kw.xwf true (gramOf V.w3c V.ep (syms V.rows)) lp comma false t
    | none => true) && EPV.Kw.commaOnly V.rows comma
  s!"model={ms} spec={ss} trig={if trig.isEmpty then "-" else ",".intercalate trig} kwop={if EPV.Kw.kwOperand toks then 1 else 0} rel={if rel then 1 else 0}"

def lexTables (v : Nat) : Option (EPV.Lexer.Classes × List EPV.Lexer.Alt) :=
  match v % 100 with
  | 10 => some (classes_v10, alts_v10)
  | 20 => some (classes_v20, alts_v20)
  | 30 => some (classes_v30, alts_v30)
  | 31 => some (classes_v31, alts_v31)
  | _ => none

/-- `V=<ver> LEX=<alternative index> S=<code points>`: length matched by that alternative at the start of the text -/
def answerLex (v : Nat) (fs : List (String × String)) : String :=
  match lexTables v, nat? (field fs "LEX"), ((field fs "S").splitOn "," |>.filter (· ≠ "")).mapM nat? with
  | some (C, alts), some i, some cps =>
    match alts[i]? with
    | some A => match EPV.Lexer.matchLen C A cps with
      | some n => s!"len={n}"
      | none => "len=-"
    | none => "bad-alt"
  | _, _, _ => "bad-lex"

def answer (line : String) : String :=
  let fs := fields line
  match nat? (field fs "V") with
  | none => "bad-version"
  | some v =>
    if (field fs "LEX") ≠ "" then answerLex v fs else
    match versions.find? (·.n == v) with
    | none => "bad-version"
    | some V =>
      let ts := (field fs "T").splitOn "," |>.filter (· ≠ "")
      match ts.mapM parseTok with
      | none => "bad-token"
      | some toks0 =>
        -- lexical constraint on occurrence indicators: `T * * 2` is `T* * 2` (both the model and the reference
        -- parser read the normalised token list; the real parser reads the text of the original one)
        let toks := normalize V.rows toks0
        if (field fs "KW") ≠ "" then answerKw V toks else
        let m := modelParse V.rows toks
        let s := specParse V.w3c V.ep V.rows toks
        let ms := match m with | .ok t => showTree V.rows t | .error e => showErr e
        let ss := match s with | some t => showTree V.rows t | none => "ERR"
        let trig : List String :=
          (if trigF04b V.rows V.impl V.ep s toks then ["F04b"] else []) ++
          (match s with
           | some t =>
             (if v == 10 && trigF04a V.rows t then ["F04a"] else []) ++
             (if trigF04d (v % 100) V.rows t then ["F04d"] else [])
           | none => [])
        let rel := match m with
          | .ok t => decide (t.yield = toks) && derivableR (gramOf V.impl V.ep (syms V.rows)) 0 t
          | .error _ => true
        -- run-time cross-checks of the reference parser against the proved statements
        let chk := match s with
          | some t =>
            decide (t.yield = toks) && derivable (gramOf V.w3c V.ep (syms V.rows)) 0 t &&
              (!(derivable (gramOf V.impl V.ep (syms V.rows)) 0 t && guardsPass (tableOf V.rows) t) ||
                (match m with | .ok t' => t' == t | .error _ => false))
          | none =>
            -- the reference parser is not proved complete (`ebnf_complete`): at least, when it rejects, the
            -- model's tree must not be a strict derivation of the W3C level table
            (match m with
             | .ok t' => !(derivable (gramOf V.w3c V.ep (syms V.rows)) 0 t')
             | .error _ => true)
        -- textual `source` of the model's tree, and whether its pieces are separable / lex back to the tokens
        let (srcS, chain) := match m with
          | .ok t =>
            let ps := EPV.Source.render V.txt t
            let text := EPV.Source.textOf ps
            let ok := EPV.Source.chainOK V.txt ps &&
              (EPV.Source.lexAll V.txt text.length text == some (toks.flatMap (EPV.Source.tokLex V.txt)))
            (",".intercalate (text.map toString), ok)
          | .error _ => ("-", true)
        s!"model={ms} spec={ss} trig={if trig.isEmpty then "-" else ",".intercalate trig} rel={if rel && chk then 1 else 0} chain={if chain then 1 else 0} src={srcS}"

def main : IO Unit := mainLoop answer

/-
Driver for C02.  Request line (fields `k=v` separated by single spaces, values without spaces):

  T lib=E|L tree=0|1 frag=N|T|F ns=<nsmap> path=<i.j.k|_> pro=<list> top=<node|_> epi=<list> ops=<op;op;…|_>

  string  ::= `~` (None) | `'` chars, a char being [A-Za-z0-9] or `_<hex code point>_`
  nsmap   ::= n , (prefix , uri)*n                       -- comma separated tokens
  node    ::= E , name , nsmap , n , (name , value)*n , text , n , node*n , tail
            | C , text , tail  |  P , target , content , tail
  list    ::= n , node*n
  op      ::= is:a:b | prec:a:b | foll:a:b | union:xs:ys | inter:xs:ys | except:xs:ys
            | inner:xs | outer:xs | root:a            -- xs ::= i.j.k | _  (indices into `iter`)
            | chain:xs:ys:zs                          -- `$A | $B | $C`
            | lzsub:k | descsub:k                     -- iter_lazy (all built) / iter_descendants of element k
            | croot:c:k | cprec:c:a:b | cfoll:c:a:b   -- context root = node c (`-` = context without root)
            | reget:N|T|F:k                           -- get_node_tree(node k, fragment)
            | ecmp:is|prec|foll:L|R:k | eroot         -- empty operand
            | citem:k                                 -- XPathContext(root, item=<wrapped object of node k>).item
            | px:<i|s|r|q>:<focus>:<op>:<E1>:<E2>     -- operator with PATH operands evaluated at focus node `focus`
                 (form: item= / `$f/(…)` / `(//*)[k]/(…)` / predicate `$f[…]`; op: union bar inter except is prec foll
                  inner outer root comma; E: path codes of EPV/Spec/XDMTree.lean `pathEval`)
  lz=<i.j|_>/<i.j|_>  elements (indices) whose namespace nodes / attributes are built for the `lazy1` answer

Answer:  model=<dump> spec=<dump> ops=<m/s;m/s;…|_> lazy0=<idxs> lazy1=<idxs> desc=<idxs>
  (`lazy0`: root.iter_lazy() with nothing built, `lazy1`: with the `lz` state, `desc`: root.iter_descendants();
   croot/cprec/cfoll: any context root of the tree or none; since fix-c02-5 no finding region inside one tree)
  model dump: `ERR:type` | `ERR:bad` | nodes `kind,name,pos,parentIdx,sv` joined by `|`
  spec  dump: `ERR` | nodes `kind,name,parentIdx,sv` in document order joined by `|`
  kinds: D E N A T C P.  ops: model/spec, booleans T F, lists i.j.k or _, `-` = empty / error.
-/
import EPV.Proto
import EPV.Spec.XDMTree
import EPV.Model.BuilderIters
import EPV.Model.BuilderNav
import EPV.Spec.XDMNav
open EPV.Proto EPV.Builder EPV.XDM

abbrev P := StateT (List String) Option

def tok : P String := do
  match (← get) with
  | [] => failure
  | t :: r => set r; pure t

def hexVal (s : String) : Option Nat :=
  s.toList.foldl (fun acc c => acc.bind fun n =>
    if c.isDigit then some (n * 16 + (c.toNat - '0'.toNat))
    else if 'a' ≤ c ∧ c ≤ 'f' then some (n * 16 + (c.toNat - 'a'.toNat + 10))
    else if 'A' ≤ c ∧ c ≤ 'F' then some (n * 16 + (c.toNat - 'A'.toNat + 10))
    else none) (some 0)

/-- decode `'abc_20_d` → "abc d" -/
def decodeChars : List String → Bool → List Char → Option (List Char)
  | [], _, acc => some acc.reverse
  | piece :: rest, esc, acc =>
    if esc then (hexVal piece).bind fun n => decodeChars rest false (Char.ofNat n :: acc)
    else decodeChars rest true (piece.toList.reverse ++ acc)

def decodeStr (s : String) : Option (Option String) :=
  if s == "~" then some none
  else if s.startsWith "'" then
    (decodeChars ((s.drop 1).toString.splitOn "_") false []).map fun cs => some (String.ofList cs)
  else none

def hexDigits (n : Nat) : String := String.ofList (Nat.toDigits 16 n)

def encodeStr : Option String → String
  | none => "~"
  | some s => "'" ++ String.join (s.toList.map fun c =>
      if c.isAlphanum then c.toString else "_" ++ hexDigits c.toNat ++ "_")

def pOptStr : P (Option String) := do
  let t ← tok
  match decodeStr t with
  | some o => pure o
  | none => failure

def pStr : P String := do
  match (← pOptStr) with
  | some s => pure s
  | none => failure

def pNat : P Nat := do
  match nat? (← tok) with
  | some n => pure n
  | none => failure

def pTimes {α : Type} (p : P α) : Nat → P (List α)
  | 0 => pure []
  | n + 1 => do let a ← p; let r ← pTimes p n; pure (a :: r)

def pNsMap : P NsMap := do
  let n ← pNat
  pTimes (do let k ← pOptStr; let v ← pStr; pure (k, v)) n

partial def pNode : P XTree := do
  match (← tok) with
  | "E" =>
    let name ← pStr
    let m ← pNsMap
    let na ← pNat
    let attrib ← pTimes (do let k ← pStr; let v ← pStr; pure (k, v)) na
    let text ← pOptStr
    let nk ← pNat
    let kids ← pTimes pNode nk
    let tail ← pOptStr
    pure (.elem name m attrib text kids tail)
  | "C" => do let s ← pStr; let tail ← pOptStr; pure (.comment s tail)
  | "P" => do let t ← pStr; let s ← pStr; let tail ← pOptStr; pure (.pi t s tail)
  | _ => failure

def pList : P (List XTree) := do
  let n ← pNat
  pTimes pNode n

def runP {α : Type} (p : P α) (s : String) : Option α :=
  match p.run (s.splitOn ",") with
  | some (a, []) => some a
  | _ => none

def kindChar : Kind → String
  | .document => "D" | .element => "E" | .namespace => "N" | .attribute => "A"
  | .text => "T" | .comment => "C" | .pi => "P"

def parseIdxs (s : String) : Option (List Nat) :=
  if s == "_" || s == "" then some [] else (s.splitOn ".").mapM nat?

def showIdxs (l : List Nat) : String :=
  if l.isEmpty then "_" else ".".intercalate (l.map toString)

def showB (b : Bool) : String := if b then "T" else "F"
def showOB : Option Bool → String
  | some b => showB b
  | none => "-"
def showON : Option Nat → String
  | some n => toString n
  | none => "-"

def parseInput (fs : List (String × String)) : Option Input := do
  let lxml ← match field fs "lib" with | "L" => some true | "E" => some false | _ => none
  let isTree ← match field fs "tree" with | "1" => some true | "0" => some false | _ => none
  let fragment ← match field fs "frag" with
    | "N" => some none | "T" => some (some true) | "F" => some (some false) | _ => none
  let ns ← runP pNsMap (field fs "ns")
  let path ← parseIdxs (field fs "path")
  let pro ← runP pList (field fs "pro")
  let epi ← runP pList (field fs "epi")
  let top ← if field fs "top" == "_" then some none else (runP pNode (field fs "top")).map some
  pure { cfg := { lxml := lxml, namespaces := ns, fragment := fragment }, isTree := isTree,
         prolog := pro, top := top, epilog := epi, path := path }

def modelDump (nodes : List Rec) : String :=
  "|".intercalate <| (List.range nodes.length).map fun k =>
    let r := nodes[k]!
    let par := match parentIdx nodes k with | some q => toString q | none => "-1"
    s!"{kindChar r.kind},{encodeStr r.name},{r.pos},{par},{encodeStr (some r.sv)}"

def specDump (items : List Item) : String :=
  "|".intercalate <| items.map fun it =>
    let par := match it.parent with | some q => toString q | none => "-1"
    s!"{kindChar it.kind},{encodeStr it.name},{par},{encodeStr (some it.sv)}"

def idxOfPos (nodes : List Rec) (p : Nat) : String :=
  match nodes.findIdx? (·.pos == p) with
  | some k => toString k
  | none => "?"

def showPosList (nodes : List Rec) : Option (List Nat) → String
  | some l => if l.isEmpty then "_" else ".".intercalate (l.map (idxOfPos nodes))
  | none => "ERR"

def posOfIdx (nodes : List Rec) (k : Nat) : Nat := (nodes[k]?.map (·.pos)).getD 0

/-- `c` in scope of context root `cr` (spec side): the node itself or one of its descendants -/
def inScopeOf (items : List Item) (cr : Option Nat) (k : Nat) : Bool :=
  match cr with
  | none => false
  | some c => k == c || isAncestor items c k items.length

def parseCtx (s : String) : Option (Option Nat) := if s == "-" then some none else (nat? s).map some

def answerTreeOp (root : PNode) (nodes : List Rec) (items : List Item) (op : String) : Option String :=
  let allBuilt : LazyState := ⟨nodes.map (·.pos), nodes.map (·.pos)⟩
  match op.splitOn ":" with
  | ["px", form, fo, opn, c1, c2] => match nat? fo with
    | none => some "bad"
    | some focus =>
      let e1 : Nat → List Nat := fun f => pathEval items f c1
      let e2 : Nat → List Nat := fun f => pathEval items f c2
      let n := items.length
      let single (l : List Nat) : Option Nat := l.head?
      -- value: (list result, or boolean result)
      let setRes : Option (List Nat × List Nat) :=
        if opn == "union" || opn == "bar" then
          some (opAtFocus (opUnion nodes) e1 e2 focus, specUnion n (e1 focus) (e2 focus))
        else if opn == "inter" then some (opAtFocus (opIntersect nodes) e1 e2 focus, specIntersect n (e1 focus) (e2 focus))
        else if opn == "except" then some (opAtFocus (opExcept nodes) e1 e2 focus, specExcept n (e1 focus) (e2 focus))
        else if opn == "inner" then
          some (opAtFocus (fun a b => opInnermost nodes (a ++ b)) e1 e2 focus, specInnermost items (e1 focus ++ e2 focus))
        else if opn == "outer" then
          some (opAtFocus (fun a b => opOutermost nodes (a ++ b)) e1 e2 focus, specOutermost items (e1 focus ++ e2 focus))
        else if opn == "comma" then
          some (opAtFocus (fun a b => a ++ b) e1 e2 focus, e1 focus ++ e2 focus)   -- sequence concatenation
        else if opn == "root" then
          some (((single (e1 focus)).bind (opRoot nodes)).toList, ((single (e1 focus)).bind (specRoot n)).toList)
        else none
      let boolRes : Option (Option Bool × Option Bool) :=
        match single (e1 focus), single (e2 focus) with
        | some a, some b =>
          if opn == "is" then some (some (opIs a b), some (specIs a b))
          else if opn == "prec" then some (opPrecedes nodes a b, some (specPrecedes a b))
          else if opn == "foll" then some (opFollows nodes a b, some (specFollows a b))
          else none
        | _, _ => if opn == "is" || opn == "prec" || opn == "foll" then some (none, none) else none
      -- a path step `$f/(E)` returns its node results without duplicates in document order (XPath 3.1 §3.3.1)
      let step := form == "s" || form == "r"
      let wrapL (l : List Nat) : String := if form == "q" then (if l.isEmpty then "_" else toString focus) else showIdxs l
      let wrapB (b : Option Bool) : String :=
        if form == "q" then (if b == some true then toString focus else "_") else showOB b
      let isCmp := opn == "is" || opn == "prec" || opn == "foll"
      if isCmp && ((e1 focus).length > 1 || (e2 focus).length > 1) && (e1 focus).length > 0
          && ((e2 focus).length > 0 || (e1 focus).length > 1) then
        -- a node comparison needs single nodes: XPTY0004 (XPath 3.1 §3.7.2); the left operand is examined first
        some "ERR:XPTY0004/ERR:XPTY0004"
      else
      match setRes, boolRes with
      | some (m, sp), _ =>
        if step then some s!"{wrapL (opUnion nodes m [])}/{wrapL (specUnion n sp [])}"
        else some s!"{wrapL m}/{wrapL sp}"
      | none, some (m, sp) => some s!"{wrapB m}/{wrapB sp}"
      | none, none => some "bad"
  | ["ecmp", _, _, _] => some "-/-"      -- an empty operand: the comparison is the empty sequence
  | ["eroot"] => some "-/-"               -- fn:root(()) = ()
  | ["citem", k] => some s!"{k}/{k}"      -- tree.elements maps the wrapped object of node k to node k
  | ["chain", xs, ys, zs] => match parseIdxs xs, parseIdxs ys, parseIdxs zs with
    | some xs, some ys, some zs =>
      some s!"{showIdxs (opUnion nodes (xs ++ ys) zs)}/{showIdxs (specUnion items.length (xs ++ ys) zs)}"
    | _, _, _ => some "bad"
  | ["nav", k] => match nat? k with
    -- phase 5: the link-reading API on node k: parent, children, iter_ancestors, root_node, descendant-or-self
    | some k =>
      let navs := navOf root
      let q := posOfIdx nodes k
      let ix (l : List Nat) : String := if l.isEmpty then "_" else ".".intercalate (l.map (idxOfPos nodes))
      let m := s!"{match navParent navs q with | some p => idxOfPos nodes p | none => "-"},{ix (navChildren navs q)},{ix (navIterAncestors navs q)},{idxOfPos nodes (navRootNode navs q)},{ix (navDescendants navs q)}"
      let sp := s!"{showON (specParent items k)},{showIdxs (specChildren items k)},{showIdxs (specAncestors items k)},0,{showIdxs (specDescOrSelf items k)}"
      some s!"{m}/{sp}"
    | none => some "bad"
  | ["lzsub", k] => match nat? k with
    | some k => match nodeAt root (posOfIdx nodes k) with
      | some sub =>
        let sp := (List.range items.length).filter fun j => j == k || isAncestor items k j items.length
        some s!"{showPosList nodes (iterLazyElem allBuilt sub)}/{showIdxs sp}"
      | none => some "bad"
    | none => some "bad"
  | ["descsub", k] => match nat? k with
    | some k => match nodeAt root (posOfIdx nodes k) with
      | some sub =>
        let sp := (List.range items.length).filter fun j =>
          (j == k || isAncestor items k j items.length) &&
          ((items[j]?.map fun it => it.kind != .namespace && it.kind != .attribute).getD false)
        some s!"{showPosList nodes (iterDescElem sub)}/{showIdxs sp}"
      | none => some "bad"
    | none => some "bad"
  | ["croot", c, k] => match parseCtx c, nat? k with
    | some cr, some k =>
      let m := ctxGetRoot root (cr.map (posOfIdx nodes)) allBuilt (posOfIdx nodes k)
      let inS := inScopeOf items cr k
      let sp := if inS then cr else some 0
      some s!"{match m with | some p => idxOfPos nodes p | none => "-"}/{showON sp}"
    | _, _ => some "bad"
  | [nm, c, a, b] =>
    if nm == "cprec" || nm == "cfoll" then
      match parseCtx c, nat? a, nat? b with
      | some cr, some a, some b =>
        let m := ctxPrecedes root (cr.map (posOfIdx nodes)) (nm == "cfoll") (posOfIdx nodes a) (posOfIdx nodes b)
        let sp := if nm == "cfoll" then specFollows a b else specPrecedes a b
        some s!"{showOB m}/{showB sp}"
      | _, _, _ => some "bad"
    else none
  | ["reget", f, k] =>
    let frag : Option (Option Bool) := match f with
      | "N" => some none | "T" => some (some true) | "F" => some (some false) | _ => none
    match frag, nat? k with
    | some fr, some k =>
      match reget fr root (posOfIdx nodes k) with
      | .error .missingRoot => some "ERR:missingRoot/-"
      | .error .noSuchNode => some "bad"
      | .ok r =>
        let showRecs (l : List Rec) : String := ".".intercalate (l.map fun x => toString x.pos)
        let sub := (iterAt none r.tree r.ret).getD []
        let par := match sub.head? with
          | some h => (match h.parent with | some q => toString q | none => "-1")
          | none => "?"
        some s!"{r.ret},{par},{showRecs sub},{showRecs (iter r.tree)}/-"
    | _, _ => some "bad"
  | _ => none

def answerOp (nodes : List Rec) (items : List Item) (op : String) : String :=
  let n := items.length
  match op.splitOn ":" with
  | ["is", a, b] => match nat? a, nat? b with
    | some a, some b => s!"{showB (opIs a b)}/{showB (specIs a b)}"
    | _, _ => "bad"
  | ["prec", a, b] => match nat? a, nat? b with
    | some a, some b => s!"{showOB (opPrecedes nodes a b)}/{showB (specPrecedes a b)}"
    | _, _ => "bad"
  | ["foll", a, b] => match nat? a, nat? b with
    | some a, some b => s!"{showOB (opFollows nodes a b)}/{showB (specFollows a b)}"
    | _, _ => "bad"
  | ["union", xs, ys] => match parseIdxs xs, parseIdxs ys with
    | some xs, some ys => s!"{showIdxs (opUnion nodes xs ys)}/{showIdxs (specUnion n xs ys)}"
    | _, _ => "bad"
  | ["inter", xs, ys] => match parseIdxs xs, parseIdxs ys with
    | some xs, some ys => s!"{showIdxs (opIntersect nodes xs ys)}/{showIdxs (specIntersect n xs ys)}"
    | _, _ => "bad"
  | ["except", xs, ys] => match parseIdxs xs, parseIdxs ys with
    | some xs, some ys => s!"{showIdxs (opExcept nodes xs ys)}/{showIdxs (specExcept n xs ys)}"
    | _, _ => "bad"
  | ["inner", xs] => match parseIdxs xs with
    | some xs => s!"{showIdxs (opInnermost nodes xs)}/{showIdxs (specInnermost items xs)}"
    | _ => "bad"
  | ["outer", xs] => match parseIdxs xs with
    | some xs => s!"{showIdxs (opOutermost nodes xs)}/{showIdxs (specOutermost items xs)}"
    | _ => "bad"
  | ["root", a] => match nat? a with
    | some a => s!"{showON (opRoot nodes a)}/{showON (specRoot n a)}"
    | _ => "bad"
  | _ => "bad"

def answer (line : String) : String :=
  let fs := fields line
  match parseInput fs with
  | none => "bad-line"
  | some inp =>
    let spec := specItems inp
    let specS := match spec with
      | none => "ERR"
      | some items => specDump items
    match build inp with
    | .error .typeError => s!"model=ERR:type spec={specS} ops=_"
    | .error .badInput => s!"model=ERR:bad spec={specS} ops=_"
    | .ok root =>
      let nodes := iter root
      let opsF := field fs "ops"
      let ops := if opsF == "_" || opsF == "" then [] else opsF.splitOn ";"
      let items := spec.getD []
      let opsS := if ops.isEmpty then "_" else ";".intercalate (ops.map fun op =>
        match answerTreeOp root nodes items op with
        | some a => a
        | none => answerOp nodes items op)
      let lzParts := (field fs "lz").splitOn "/"
      let nsB := ((parseIdxs (lzParts.getD 0 "_")).getD []).map (posOfIdx nodes)
      let atB := ((parseIdxs (lzParts.getD 1 "_")).getD []).map (posOfIdx nodes)
      let lazy0 := showPosList nodes (iterLazy ⟨[], []⟩ root)
      let lazy1 := showPosList nodes (iterLazy ⟨nsB, atB⟩ root)
      let desc := showPosList nodes (iterDescendants root)
      s!"model={modelDump nodes} spec={specS} ops={opsS} lazy0={lazy0} lazy1={lazy1} desc={desc}"

def main : IO Unit := mainLoop answer

/-
Driver for C13.  Request line:
  W=<base>,<len> I=<entries> OPS=<op>;<op>;...
entries: comma separated `n` or `a-b` (half-open [a,b)), `_` for the empty list.
ops: `add <entry>` `disc <entry>` `ior <entries>` `isub <entries>` `iand <entries>` `ixor <entries>`
Answer: for the initial state and after every op, separated by `|`:
  <model list>#<spec membership bits over the window>#<spec canonical list>#<safe: 1 if no unsafe add since the last canonical model state>#<okd: 0 once a list-operand ^= had overlapping entries (F13d)>
followed by `|C:<model complement list or ERR>`.
-/
import EPV.Proto
import EPV.Spec.SetSpec
import EPV.Model.CharSubsetParse
import EPV.Spec.CharGroupStrict
import EPV.Gen.C13Blocks
open EPV.Proto EPV.USet

def parseEntry (s : String) : Option CP :=
  match s.splitOn "-" with
  | [a] => (nat? a).map .one
  | [a, b] => do let x ← nat? a; let y ← nat? b; pure (.rng x y)
  | _ => none

def parseEntries (s : String) : Option (List CP) :=
  if s == "_" || s == "" then some [] else (s.splitOn ",").mapM parseEntry

def showEntry : CP → String
  | .one n => toString n
  | .rng a b => s!"{a}-{b}"

def showEntries (l : List CP) : String :=
  if l.isEmpty then "_" else ",".intercalate (l.map showEntry)

/-- driver-level operations: the proved core `Op`s plus `update` / `difference_update`
(iterable or string argument, through `iter_code_points(reverse=True)`) -/
inductive DOp where
  | core (op : Op) | upd (o : List CP) | dupd (o : List CP)
  | iorl (o : List CP) | isubl (o : List CP) | iandl (o : List CP) | ixorl (o : List CP)
  | upds (s : List Nat) | dupds (s : List Nat)   -- update / difference_update with a character-subset string
  | rsubl (o : List CP)                           -- `iterable - self` (reflected difference)
  | selfop (k : Nat)                              -- `s |= s` (0), `s -= s` (1), `s &= s` (2), `s ^= s` (3)

def dstep (l : List CP) : DOp → List CP
  | .upds s => (updateStr l s.toArray).getD l        -- error case handled by `dstepErr`
  | .dupds s => (differenceUpdateStr l s.toArray).getD l
  | .core op => step l op
  | .upd o => update l o
  | .dupd o => differenceUpdate l o
  | .iorl o => iorList l o
  | .isubl o => isubList l o
  | .iandl o => iandList l o
  | .ixorl o => ixorList l o
  | .rsubl o => rsubList l o
  | .selfop 0 => iorSelf l
  | .selfop 1 => isubSelf l
  | .selfop 2 => iandSelf l
  | .selfop _ => ixorSelf l

def parseOp (s : String) : Option DOp :=
  match s.trimAscii.toString.splitOn " " with
  | ["upd", e] => (parseEntries e).map .upd
  | ["dupd", e] => (parseEntries e).map .dupd
  | ["upds", e] => ((e.splitOn ".").filter (· ≠ "") |>.mapM nat?).map .upds
  | ["dupds", e] => ((e.splitOn ".").filter (· ≠ "") |>.mapM nat?).map .dupds
  | ["iorl", e] => (parseEntries e).map .iorl
  | ["isubl", e] => (parseEntries e).map .isubl
  | ["iandl", e] => (parseEntries e).map .iandl
  | ["ixorl", e] => (parseEntries e).map .ixorl
  | ["rsubl", e] => (parseEntries e).map .rsubl
  | ["iorself", _] => some (.selfop 0)
  | ["isubself", _] => some (.selfop 1)
  | ["iandself", _] => some (.selfop 2)
  | ["ixorself", _] => some (.selfop 3)
  | other => (parseCore other).map .core
where parseCore : List String → Option Op
  | ["add", e] => (parseEntry e).map .add
  | ["disc", e] => (parseEntry e).map .discard
  | ["ior", e] => (parseEntries e).map .ior
  | ["isub", e] => (parseEntries e).map .isub
  | ["iand", e] => (parseEntries e).map .iand
  | ["ixor", e] => (parseEntries e).map .ixor
  | _ => none

def foldSafe (l : List CP) (vs : List CP) : Bool :=
  (vs.foldl (fun (acc : List CP × Bool) v => (add v acc.1, acc.2 && addSafe v acc.1)) (l, true)).2

def opSafe (l : List CP) : DOp → Bool
  | .upd o | .iorl o => foldSafe l (iterCodePoints true o)
  | .upds s => foldSafe l (iterCodePoints true ((iterparse s.toArray).getD []))
  | .dupds _ => true
  | .dupd _ | .isubl _ | .iandl _ => true
  | .rsubl o => foldSafe [] (iterCodePoints true o)
  | .selfop 0 => (l.reverse.foldl (fun (acc : List CP × Bool) v => (add v acc.1, acc.2 && addSafe v acc.1)) (l, true)).2
  | .selfop _ => true
  | .ixorl o => ((iter (ofList o)).foldl (fun (acc : List CP × Bool) n =>
      if contains n acc.1 then (discard (.one n) acc.1, acc.2)
      else (add (.one n) acc.1, acc.2 && addSafe (.one n) acc.1)) (l, true)).2
  | .core op => coreSafe op
where coreSafe : Op → Bool
  | .add v => addSafe v l
  | .ior o => (o.reverse.foldl (fun (acc : List CP × Bool) v => (add v acc.1, acc.2 && addSafe v acc.1)) (l, true)).2
  | .ixor o => ((iter o).foldl (fun (acc : List CP × Bool) n =>
      if contains n acc.1 then (discard (.one n) acc.1, acc.2)
      else (add (.one n) acc.1, acc.2 && addSafe (.one n) acc.1)) (l, true)).2
  | _ => true

def argsValid : DOp → Bool
  | .upd o | .dupd o | .iorl o | .isubl o | .iandl o | .ixorl o | .rsubl o => o.all CP.validArg
  | .selfop _ => true
  | .upds _ | .dupds _ => true
  | .core op => coreValid op
where coreValid : Op → Bool
  | .add v => v.validArg
  | .discard v => v.validArg
  | .ior o | .isub o | .iand o | .ixor o => o.all CP.validArg

/-- the set a character-subset text adds / removes according to the specification: the grammar's
set where the grammar gives one, nothing where it demands an error; in the lenient zone (`unspec`)
there is no specification and the model's own reading is carried along so that later states stay
comparable (the harness then checks model = implementation only) -/
def strSet (s : List Nat) : List CP :=
  match strictGroup s with
  | .ok S => S
  | .error => []
  | .unspec => (iterparse s.toArray).getD []

/-! block-table histories (`EPV.BlockBuild`).  Request `BH <ev> <ev> …` with `i<x.y.z>` (install),
`b<name id>` (block look-up), `c` (category look-up).  Answer
`<model view: run with copy>#<spec view: blocksFor of the last installed version>#<view of the aliasing (no-copy) variant>#<same|mutated: the shared base after the run with copy>` -/
open EPV.BlockBuild EPV.Gen.C13Blocks in
def answerBH (line : String) : String :=
  let toks := (line.splitOn " ").filter (· ≠ "") |>.drop 1
  let evs : Option (List Event) := toks.mapM fun t =>
    if t.startsWith "i" then ((t.drop 1).toString.splitOn ".").mapM nat? |>.map Event.install
    else if t.startsWith "b" then (nat? (t.drop 1).toString).map Event.lookBlock
    else if t == "c" then some Event.lookCat else none
  let showView (a : Option Acc) : String :=
    match a with
    | none => "NONE"
    | some a => ";".intercalate ((view keys a).map fun (n, v) =>
        s!"{n}=" ++ (match v with | some l => showEntries l | none => "KEYERR"))
  match evs with
  | none => "bad-events"
  | some evs =>
    let p := runEvents true items { shared := base, installed := none } evs
    let m := showView (p.installed.map (·.acc))
    let s := showView ((lastInstall evs).map (blocksFor base items))
    let a := showView (tableAfter false base items evs)
    s!"{m}#{s}#{a}#{if p.shared == base then "same" else "mutated"}"

def answer (line : String) : String :=
  if line.startsWith "BH" then answerBH line else
  let fs := fields line
  match (field fs "W").splitOn ",", parseEntries (field fs "I") with
  | [b, n], some init =>
    match nat? b, nat? n with
    | some base, some len =>
      let opsStr := ((line.splitOn "OPS=").getD 1 "").splitOn ";" |>.filter (· ≠ "")
      match opsStr.mapM parseOp with
      | none => "bad-op"
      | some ops =>
        if !(ops.all argsValid) then "bad-arg" else
        let bits0 := (List.range len).map fun i => decide (memL (base + i) init)
        let shift (o : List CP) : List CP := o   -- entries are absolute
        let specStepW (S : List Bool) (dop : DOp) : List Bool :=
          (List.range len).map fun i =>
            let x := base + i
            let sx := S.getD i false
            match dop with
            | .upds s => sx || decide (memL x (strSet s))
            | .dupds s => sx && !decide (memL x (strSet s))
            | .upd o | .iorl o => sx || decide (memL x o)
            | .dupd o | .isubl o => sx && !decide (memL x o)
            | .iandl o => sx && decide (memL x o)
            | .ixorl o => (sx && !decide (memL x o)) || (!sx && decide (memL x o))
            | .rsubl o => decide (memL x o) && !sx
            | .selfop 0 | .selfop 2 => sx
            | .selfop _ => false
            | .core op =>
            match op with
            | .add v => sx || decide (v.mem x)
            | .discard v => sx && !decide (v.mem x)
            | .ior o => sx || decide (memL x (shift o))
            | .isub o => sx && !decide (memL x o)
            | .iand o => sx && decide (memL x o)
            | .ixor o => (sx && !decide (memL x o)) || (!sx && decide (memL x o))
        let show1 (l : List CP) (S : List Bool) (safe : Bool) (okd : Bool := true) : String :=
          s!"{showEntries l}#{bits S}#{showEntries (canonOfBits base S)}#{if safe then 1 else 0}#{if okd then 1 else 0}"
        -- F13d trigger: a `^=` whose plain-list operand has overlapping entries (so iterating it repeats code points)
        let opOkD : DOp → Bool
          | .ixorl _ => true
          | _ => true
        let (_, _, _, outs, lfin, _) := ops.foldl (fun (st : List CP × List Bool × Bool × List String × List CP × Bool) op =>
            let (l, S, safe, outs, _, okd) := st
            let okd' := okd && opOkD op
            let safe' := (if decide (Canon l) then true else safe) && opSafe l op
            let merr := match op with
              | .upds s | .dupds s => (iterparse s.toArray).isNone
              | _ => false
            let serr : Bool := match op with
              | .upds s | .dupds s => decide (strictGroup s = .error)
              | _ => false
            let suns : Bool := match op with
              | .upds s | .dupds s => decide (strictGroup s = .unspec)
              | _ => false
            let l' := dstep l op
            let S' := specStepW S op
            (l', S', safe', outs ++ [(if merr then "MERR " else "") ++ (if serr then "SERR " else "") ++ (if suns then "SUNS " else "") ++ show1 l' S' safe' okd'], l', okd')) (init, bits0, true, [show1 init bits0 true], init, true)
        let c := match complement lfin with
          | some cl => showEntries cl
          | none => "ERR"
        "|".intercalate outs ++ "|C:" ++ c
    | _, _ => "bad-window"
  | _, _ => "bad-line"

def main : IO Unit := mainLoop answer

/-
Driver for C06.  Request line:
  v=<10|20|30|31> op=<add|sub|mul|div|idiv|mod|neg|pos|abs|floor|ceiling|round1|round|rhe> a=<val> b=<val|_> p=<int|_>
values:  i:<int>   d:<coefficient>:<scale>   D:<num>/<den> | D:NaN | D:INF | D:-INF | D:0 | D:-0   F:… (xs:float)
         E  (the empty sequence, XPath 2.0+)
         S:<code points separated by '.'>  (a string operand, XPath 1.0 parser only; `S:` = empty string)
Answer:  model=<res> spec=<res> specI=<res|_> flags=<comma separated | _> mraw=<typed model result>
results: i:<n>  d:<num>/<den>  D:<num>/<den>|D:NaN|…  F:…  ERR:<code>;  for v=10: N:<num>/<den>|N:NaN|… (the
         XPath 1.0 number the result denotes, type tag dropped)
spec   = F&O result with the decimal context (28 digits, half-even) applied to xs:decimal results
specI  = for xs:float-typed operations: the F&O result computed with the rounding `implR` (binary64 + clamp)
flags (trigger predicates computed from the input only):
  F06c  xs:float involved and an operand or the exact result is not a binary32 value kept by `Float`
  F06p  fn:round / round-half-to-even leave the 2000-digit local decimal context
  F06v  XPath 1.0: integer/decimal literals computed exactly, value differs from IEEE arithmetic
  sterr idiv with an empty operand: XPST0005 is a permitted static error (no spec comparison)
  idef  idiv/mod on decimals whose quotient has more than 28 digits (no spec comparison)
  fhyp  xs:float-typed operation inside the hypotheses of float_ops_eq_spec_up_to_rounding: impl must equal specI
  safe  round / round-half-to-even inside `roundSafe` (integer/decimal coefficient < 10^2000, precision ≤ scale):
        F06p is impossible (theorem roundSafe_excludes_F06p), impl must equal spec, no tag accepted
  ovf   an integer operand beyond the xs:double range meets a float (FOAR0002 or ±INF both conform: no spec comparison)
The model is run with the concrete round-to-nearest-even `FOArith.ieee` for `R`.
-/
import EPV.Proto
import EPV.Spec.FOArith
import EPV.Model.Arith
import EPV.Model.ArithRoundSafe
open EPV.Proto EPV.FOArith EPV.Arith

def parseRat (s : String) : Option Rat :=
  match s.splitOn "/" with
  | [a, b] => do let x ← int? a; let y ← nat? b; if y = 0 then none else pure ((x : Rat) / (y : Rat))
  | [a] => (int? a).map fun x => (x : Rat)
  | _ => none

def parseDbl (s : String) : Option Dbl :=
  if s == "NaN" then some .nan
  else if s == "INF" then some (.inf false)
  else if s == "-INF" then some (.inf true)
  else if s == "0" then some (.zero false)
  else if s == "-0" then some (.zero true)
  else (parseRat s).bind fun q => if q = 0 then none else some (.fin q)

def parseNum (s : String) : Option Num :=
  match s.splitOn ":" with
  | ["i", n] => (int? n).map .int
  | ["d", n, sc] => do let x ← int? n; let k ← nat? sc; pure (.dec x k)
  | ["D", d] => (parseDbl d).map .dbl
  | ["F", d] => (parseDbl d).map .flt
  | _ => none

def parseOpnd (s : String) : Option Opnd :=
  if s.startsWith "S:" then
    let body := (s.drop 2).toString
    if body == "" then some (.str [])
    else (body.splitOn ".").mapM (fun t => (nat? t).map Char.ofNat) |>.map .str
  else (parseNum s).map .num

def showRat (q : Rat) : String := s!"{q.num}/{q.den}"

def showDbl : Dbl → String
  | .nan => "NaN" | .inf false => "INF" | .inf true => "-INF"
  | .zero false => "0" | .zero true => "-0" | .fin q => showRat q

def showX : XVal → String
  | .integer n => s!"i:{n}"
  | .decimal q => s!"d:{showRat q}"
  | .float d => s!"F:{showDbl d}"
  | .double d => s!"D:{showDbl d}"

def showErr : Err → String
  | .FOAR0001 => "ERR:FOAR0001" | .FOAR0002 => "ERR:FOAR0002" | .XPTY0004 => "ERR:XPTY0004"
  | .XPST0017 => "ERR:XPST0017" | .FOCA0002 => "ERR:FOCA0002" | .other => "ERR:OTHER"
  | .XPST0005 => "ERR:XPST0005"

def showRes : Except Err XVal → String
  | .ok v => showX v
  | .error e => showErr e

def showN : Except Err XVal → String
  | .ok v => s!"N:{showDbl v.num10}"
  | .error e => showErr e

def parseVer (s : String) : Option Ver :=
  if s == "10" then some .v10 else if s == "20" then some .v20
  else if s == "30" then some .v30 else if s == "31" then some .v31 else none

def binOp? (s : String) : Option BinOp :=
  match s with
  | "add" => some .add | "sub" => some .sub | "mul" => some .mul
  | "div" => some .div | "idiv" => some .idiv | "mod" => some .mod | _ => none

def unOp? (s : String) (p : Int) : Option UnOp :=
  match s with
  | "neg" => some .neg | "pos" => some .pos | "abs" => some .abs | "floor" => some .floor
  | "ceiling" => some .ceiling | "round1" => some (.round 0) | "round" => some (.round p)
  | "rhe" => some (.rhe p) | _ => none

def flagsStr (l : List (Bool × String)) : String :=
  let on := l.filterMap fun (b, s) => if b then some s else none
  if on.isEmpty then "_" else ",".intercalate on

/-- `Float.__new__` applied to an xs:float result (idempotent on everything the code produces) -/
def clampX : XVal → XVal
  | .float d => .float (mkFloat d)
  | v => v

def answer10 (R : Rounding) (fs : List (String × String)) : String :=
  let opS := field fs "op"
  match parseOpnd (field fs "a") with
  | none => "bad-a"
  | some a =>
    match binOp? opS, parseOpnd (field fs "b") with
    | some op, some b =>
      let m := model10Bin R op a b
      let s := spec10Bin R op (absOpnd a) (absOpnd b)
      let fl := flagsStr [(trigF06v_bin R op a b, "F06v")]
      s!"model={showN (m.map absNum)} spec={showN s} specI=_ flags={fl} mraw={showRes (m.map absNum)}"
    | some _, none => "bad-b"
    | none, _ =>
      match unOp? opS 0 with
      | none => "bad-op"
      | some op =>
        let m := model10Un R op a
        let s := spec10Un R op (absOpnd a)
        let fl := flagsStr [(trigF06v_un R op a, "F06v"), (trigF06p op (toDbl10 R (conv10 R a)), "F06p")]
        s!"model={showN (.ok (absNum m))} spec={showN (.ok s)} specI=_ flags={fl} mraw={showX (absNum m)}"

def answer (line : String) : String :=
  let fs := fields line
  let R := EPV.FOArith.ieee
  match parseVer (field fs "v") with
  | none => "bad-line"
  | some .v10 => answer10 R fs
  | some v =>
    let opS := field fs "op"
    let p : Int := (int? (field fs "p")).getD 0
    let aS := field fs "a"
    let bS := field fs "b"
    if aS == "E" || bS == "E" then
      -- an empty-sequence operand (XPath 2.0+)
      let a? := if aS == "E" then some none else (parseNum aS).map some
      let b? := if bS == "E" then some none else (parseNum bS).map some
      match binOp? opS, a?, b? with
      | some op, some a, some b =>
        let showE : Except Err (Option XVal) → String
          | .ok (some x) => showX x | .ok none => "EMPTY" | .error e => showErr e
        let m := (modelBinE R v op a b).map (Option.map absNum)
        let s := specBinE R op (a.map absNum) (b.map absNum)
        let fl := if op == .idiv then "sterr" else "_"
        s!"model={showE m} spec={showE s} specI=_ flags={fl} mraw={showE m}"
      | none, some a, _ =>
        match unOp? opS p with
        | none => "bad-op"
        | some op =>
          let showO : Option XVal → String | some x => showX x | none => "EMPTY"
          let m := (modelUnE R v op a).map absNum
          let s := specUnE R op (a.map absNum)
          s!"model={showO m} spec={showO s} specI=_ flags=_ mraw={showO m}"
      | _, _, _ => "bad-operand"
    else
    match parseNum aS with
    | none => "bad-a"
    | some a =>
      match binOp? opS, parseNum bS with
      | some op, some b =>
        let m := modelBin R v op a b
        let s := (specBin R op (absNum a) (absNum b)).map ctxDec
        let si := if floatTyped a b then showRes ((specBin (implR R) op (absNum a) (absNum b)).map clampX) else "_"
        let fl := flagsStr [
          (trigF06c_bin op a b, "F06c"), (trigQuot28 op a b, "idef"), (trigOvf R a b, "ovf"),
          (floatTyped a b && floatHyp R op a b, "fhyp")]
        s!"model={showRes (m.map absNum)} spec={showRes s} specI={si} flags={fl} mraw={showRes (m.map absNum)}"
      | some _, none => "bad-b"
      | none, _ =>
        match unOp? opS p with
        | none => "bad-op"
        | some op =>
          let m := modelUn R v op a
          -- the decimal context applies to the arithmetic `-x`, `+x`, abs(x); floor/ceiling build an exact Decimal
          let s0 := specUn R op (absNum a)
          let s := match op with | .neg | .pos | .abs => ctxDec s0 | _ => s0
          let si := if isFlt a then showX (clampX (specUn (implR R) op (absNum a))) else "_"
          let fl := flagsStr [(trigF06c_un op a, "F06c"), (trigF06p op a, "F06p"), (isFlt a, "fhyp"), (roundSafeOp op a, "safe")]
          s!"model={showX (absNum m)} spec={showX s} specI={si} flags={fl} mraw={showX (absNum m)}"

def main : IO Unit := mainLoop answer

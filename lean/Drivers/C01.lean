/-
Driver for C01.  Request line (fields separated by single spaces, no spaces inside values):
  M=<doc|dummy|frag> T=<rec>;<rec>;... E=<tok>~<tok>~... C=<ctx index>,<ctx index>,... | *
rec  = <kind>,<uri>,<name>,<parent or ->,<size>     kind ∈ D E A N T C P
expr = Polish notation:  s <axis> <test> | sa <axis> <test> (abbreviated child/@) | c | u | p E E | sl E E | ds E E | r0 | r E | dr E | g E
       | un E E | count E | n <k> | pos | last | cmp <op> E E | and E E | or E E | not E
test = node | text | comment | pi | pi:<target> | any | q:<uri>:<local> | ns:<uri>
Answer:  wf=<0|1> ty=<path|num|bool|none> R=<ctx>:<model>:<spec>:<inK>|...
value = N<i>,<i>,... | B0 | B1 | #<k> | ERR;  inK = 1 (F01b trigger) + 2 (F01c trigger) + 4 (F01i trigger)
-/
import EPV.Proto
import EPV.Spec.XPath1Paths
open EPV.Proto EPV.XP

def parseKind : String → Option Kind
  | "D" => some .doc | "E" => some .elem | "A" => some .attr | "N" => some .ns
  | "T" => some .text | "C" => some .comment | "P" => some .pi | _ => none

def parseRec (s : String) : Option Rec :=
  match s.splitOn "," with
  | [k, u, n, p, z] => do
    let kind ← parseKind k
    let size ← nat? z
    let parent ← if p == "-" then some none else (nat? p).map some
    pure { kind, uri := u, name := n, parent, size }
  | _ => none

def parseAxis : String → Option Axis
  | "self" => some .self | "child" => some .child | "descendant" => some .descendant
  | "descendant-or-self" => some .descendantOrSelf | "parent" => some .parent
  | "ancestor" => some .ancestor | "ancestor-or-self" => some .ancestorOrSelf
  | "following-sibling" => some .followingSibling | "preceding-sibling" => some .precedingSibling
  | "following" => some .following | "preceding" => some .preceding
  | "attribute" => some .attribute | "namespace" => some .namespace | _ => none

def parseTest (s : String) : Option Test :=
  match s.splitOn ":" with
  | ["node"] => some .node | ["text"] => some .text | ["comment"] => some .comment
  | ["pi"] => some (.pi none) | ["pi", t] => some (.pi (some t))
  | ["any"] => some .any
  | ["q", u, l] => some (.name u l)
  | ["ns", u] => some (.nsAny u)
  | _ => none

def parseCmp : String → Option Cmp
  | "eq" => some .eq | "ne" => some .ne | "lt" => some .lt | "le" => some .le
  | "gt" => some .gt | "ge" => some .ge | _ => none

partial def parseE : List String → Option (Expr × List String)
  | "s" :: ax :: t :: rest => do
    let ax ← parseAxis ax; let t ← parseTest t; pure (.step ax t false, rest)
  | "sa" :: ax :: t :: rest => do
    let ax ← parseAxis ax; let t ← parseTest t; pure (.step ax t true, rest)
  | "c" :: rest => some (.ctxItem, rest)
  | "u" :: rest => some (.parentAbbr, rest)
  | "r0" :: rest => some (.rootOnly, rest)
  | "pos" :: rest => some (.position, rest)
  | "last" :: rest => some (.last, rest)
  | "n" :: k :: rest => (nat? k).map fun k => (.num k, rest)
  | "p" :: rest => bin .pred rest
  | "sl" :: rest => bin .slash rest
  | "ds" :: rest => bin .dslash rest
  | "un" :: rest => bin .union rest
  | "count" :: rest => un .count rest
  | "and" :: rest => bin .and rest
  | "or" :: rest => bin .or rest
  | "cmp" :: op :: rest => do let op ← parseCmp op; bin (.cmp op) rest
  | "r" :: rest => un .root rest
  | "dr" :: rest => un .droot rest
  | "g" :: rest => un .paren rest
  | "not" :: rest => un .not rest
  | _ => none
where
  bin (f : Expr → Expr → Expr) (rest : List String) : Option (Expr × List String) := do
    let (l, rest) ← parseE rest
    let (r, rest) ← parseE rest
    pure (f l r, rest)
  un (f : Expr → Expr) (rest : List String) : Option (Expr × List String) := do
    let (e, rest) ← parseE rest
    pure (f e, rest)

def showVal : Val → String
  | .nodes l => "N" ++ ",".intercalate (l.map toString)
  | .bool b => if b then "B1" else "B0"
  | .num k => s!"#{k}"
  | .err => "ERR"

def parseMode : String → Option Mode
  | "doc" => some .doc | "dummy" => some .dummy | "frag" => some .frag | _ => none

def answer (line : String) : String :=
  let fs := fields line
  match parseMode (field fs "M"), ((field fs "T").splitOn ";").mapM parseRec,
        parseE ((field fs "E").splitOn "~") with
  | some m, some a, some (e, []) =>
    let wf := wfArr m a
    let tyS := match ty e with
      | some .path => "path" | some .num => "num" | some .bool => "bool" | none => "none"
    let cs := field fs "C"
    let ctxs : List Nat := if cs == "*" then List.range a.length else
      (cs.splitOn ",").filterMap nat?
    let outs := ctxs.map fun c =>
      let f : Focus := ⟨c, 1, 1⟩
      let mv := eval m a e f
      let sv := Spec.sem m a e f
      let k := (if safeG (fun ax _ n => okF01b a ax n) m a e f then 0 else 1) +
               (if safeG (fun ax _ n => okF01c a ax n) m a e f then 0 else 2) +
               (if safeG (fun ax ab n => okF01i m ax ab n) m a e f then 0 else 4)
      s!"{c}:{showVal mv}:{showVal sv}:{k}"
    s!"wf={if wf then 1 else 0} ty={tyS} R={"|".intercalate outs}"
  | none, _, _ => "bad-mode"
  | _, none, _ => "bad-tree"
  | _, _, _ => "bad-expr"

def main : IO Unit := mainLoop answer

/-
Driver for C01.  Request line (fields separated by single spaces, no spaces inside values):
  M=<doc|dummy|frag> T=<rec>;<rec>;... X=<nested tree> E=<tok>~<tok>~... C=<ctx index>,<ctx index>,... | *
rec  = <kind>,<uri>,<name>,<parent or ->,<size>     kind ∈ D E A N T C P
expr = Polish notation:  s <axis> <test> | sa <axis> <test> (abbreviated child/@) | c | u | p E E | sl E E | ds E E | r0 | r E | dr E | g E
       | un E E | count E | n <k> | pos | last | cmp <op> E E | and E E | or E E | not E
test = node | text | comment | pi | pi:<target> | any | q:<uri>:<local> | ns:<uri>
With OP=state (no E): the generator traces of EPV/Model/AxesState.lean, see `answerState`.
Optional F=<position>,<size> and AX=<axis> = initial position/size/axis arguments of the context.
Answer:  wf=<0|1> fl=<0|1: T = flatten X> ty=<path|num|bool|none>
         R=<ctx>:<model>:<spec|NA>:<inK>:<item,axis,pos,size left in the caller's context (evalS)>:<evalS value = eval value>:<evaluate() 1.0/2.0>:<evaluate() 3.0/3.1>|...   (L = list, I = single node)
value = N<i>,<i>,... | B0 | B1 | #<k> | ERR;  inK = 0 (no finding triggers left)
Phase 5: SE=<sequence expression> instead of E=:  sexpr = b <expr> | cm S S (`(l, r)`) | bg S S (`l ! r`) | ssl S <expr> (`(l)/r`) | sf S <expr> (`(l)[p]`) | sn S <expr> (`l/r`, r number-valued)
Answer:  wf= fl= sty=<nodes|items|none> R=<ctx>:<seval>:<ssem>|...   sequence = Q<item>,<item>… (item n<i> | #<k>) | ERR
-/
import EPV.Proto
import EPV.Spec.XPath1Paths
import EPV.Model.AxesTree
import EPV.Model.AxesState
import EPV.Model.AxesEvalState
import EPV.Model.AxesEvaluate
import EPV.Spec.AxesSeqOps
open EPV.Proto EPV.XP

def parseKind : String → Option Kind
  | "D" => some .doc | "E" => some .elem | "A" => some .attr | "N" => some .ns
  | "T" => some .text | "C" => some .comment | "P" => some .pi | _ => none

def parseRec (s : String) : Option Rec :=
  match s.splitOn "," with
  | [k, u, n, p, z] => do
    let kind ← parseKind k
    let size ← nat? z
    let parent ← if p == "-" then some none else (nat? p).map some
    pure { kind, uri := u, name := n, parent, size }
  | _ => none

def parseAxis : String → Option Axis
  | "self" => some .self | "child" => some .child | "descendant" => some .descendant
  | "descendant-or-self" => some .descendantOrSelf | "parent" => some .parent
  | "ancestor" => some .ancestor | "ancestor-or-self" => some .ancestorOrSelf
  | "following-sibling" => some .followingSibling | "preceding-sibling" => some .precedingSibling
  | "following" => some .following | "preceding" => some .preceding
  | "attribute" => some .attribute | "namespace" => some .namespace | _ => none

def parseTest (s : String) : Option Test :=
  match s.splitOn ":" with
  | ["node"] => some .node | ["text"] => some .text | ["comment"] => some .comment
  | ["pi"] => some (.pi none) | ["pi", t] => some (.pi (some t))
  | ["any"] => some .any
  | ["q", u, l] => some (.name u l)
  | ["ns", u] => some (.nsAny u)
  | _ => none

def parseCmp : String → Option Cmp
  | "eq" => some .eq | "ne" => some .ne | "lt" => some .lt | "le" => some .le
  | "gt" => some .gt | "ge" => some .ge | _ => none

partial def parseE : List String → Option (Expr × List String)
  | "s" :: ax :: t :: rest => do
    let ax ← parseAxis ax; let t ← parseTest t; pure (.step ax t false, rest)
  | "sa" :: ax :: t :: rest => do
    let ax ← parseAxis ax; let t ← parseTest t; pure (.step ax t true, rest)
  | "c" :: rest => some (.ctxItem, rest)
  | "u" :: rest => some (.parentAbbr, rest)
  | "r0" :: rest => some (.rootOnly, rest)
  | "pos" :: rest => some (.position, rest)
  | "last" :: rest => some (.last, rest)
  | "n" :: k :: rest => (nat? k).map fun k => (.num k, rest)
  | "lit" :: ng :: k :: rest => (nat? k).map fun k => (.lit (ng == "1") k, rest)
  | "p" :: rest => bin .pred rest
  | "sl" :: rest => bin .slash rest
  | "ds" :: rest => bin .dslash rest
  | "un" :: rest => bin .union rest
  | "count" :: rest => un .count rest
  | "and" :: rest => bin .and rest
  | "or" :: rest => bin .or rest
  | "cmp" :: op :: rest => do let op ← parseCmp op; bin (.cmp op) rest
  | "r" :: rest => un .root rest
  | "dr" :: rest => un .droot rest
  | "g" :: rest => un .paren rest
  | "not" :: rest => un .not rest
  | _ => none
where
  bin (f : Expr → Expr → Expr) (rest : List String) : Option (Expr × List String) := do
    let (l, rest) ← parseE rest
    let (r, rest) ← parseE rest
    pure (f l r, rest)
  un (f : Expr → Expr) (rest : List String) : Option (Expr × List String) := do
    let (e, rest) ← parseE rest
    pure (f e, rest)

/-! nested tree:  E~uri~name~#ns~pfx…~#attrs~(uri~local)…~#kids~kid… | L~T|C|P~name ;
    root: doc~#kids~kid… | dummy~E… | frag~E… -/
def takeN {α} (f : List String → Option (α × List String)) : Nat → List String → Option (List α × List String)
  | 0, ts => some ([], ts)
  | n + 1, ts => do
    let (x, ts) ← f ts
    let (xs, ts) ← takeN f n ts
    pure (x :: xs, ts)

def forestOf : List XNode → XForest
  | [] => .nil
  | k :: ks => .cons k (forestOf ks)

partial def parseNode : List String → Option (XNode × List String)
  | "L" :: k :: nm :: rest =>
    match k with
    | "T" => some (.leaf .text nm, rest)
    | "C" => some (.leaf .comment nm, rest)
    | "P" => some (.leaf .pi nm, rest)
    | _ => none
  | "E" :: u :: n :: nn :: rest => do
    let nn ← nat? nn
    let (nss, rest) ← takeN (fun ts => match ts with | t :: r => some (t, r) | [] => none) nn rest
    match rest with
    | na :: rest => do
      let na ← nat? na
      let (attrs, rest) ← takeN (fun ts => match ts with | x :: y :: r => some ((x, y), r) | _ => none) na rest
      match rest with
      | nk :: rest => do
        let nk ← nat? nk
        let (kids, rest) ← takeN parseNode nk rest
        pure (.elem u n nss attrs (forestOf kids), rest)
      | [] => none
    | [] => none
  | _ => none

def parseRoot : List String → Option Root
  | "doc" :: nk :: rest => do
    let nk ← nat? nk
    let (kids, rest) ← takeN parseNode nk rest
    if rest.isEmpty then pure (.doc (forestOf kids)) else none
  | "dummy" :: rest =>
    match parseNode rest with
    | some (.elem u n nss attrs kids, []) => some (.dummy u n nss attrs kids)
    | _ => none
  | "frag" :: rest =>
    match parseNode rest with
    | some (.elem u n nss attrs kids, []) => some (.frag u n nss attrs kids)
    | _ => none
  | _ => none

def showVal : Val → String
  | .nodes l => "N" ++ ",".intercalate (l.map toString)
  | .bool b => if b then "B1" else "B0"
  | .num k => s!"#{k}"
  | .dec ng k => s!"#{if ng then "-" else ""}{k}/10"
  | .err => "ERR"

def parseMode : String → Option Mode
  | "doc" => some .doc | "dummy" => some .dummy | "frag" => some .frag | _ => none

def axisName : Axis → String
  | .self => "self" | .child => "child" | .descendant => "descendant"
  | .descendantOrSelf => "descendant-or-self" | .parent => "parent" | .ancestor => "ancestor"
  | .ancestorOrSelf => "ancestor-or-self" | .followingSibling => "following-sibling"
  | .precedingSibling => "preceding-sibling" | .following => "following" | .preceding => "preceding"
  | .attribute => "attribute" | .namespace => "namespace"

def allAxes : List Axis :=
  [.self, .child, .descendant, .descendantOrSelf, .parent, .ancestor, .ancestorOrSelf, .followingSibling,
   .precedingSibling, .following, .preceding, .attribute, .namespace]

def showCtx (c : Ctx) : String :=
  s!"{c.item},{match c.axis with | some ax => axisName ax | none => "-"}"

def showTrace (r : List (Nat × Ctx) × Ctx) : String :=
  ";".intercalate (r.1.map fun yc => s!"{yc.1},{showCtx yc.2}") ++ "/" ++ showCtx r.2

/-- OP=state: for every context node and every iterator the model's trace (value, item, axis at each
yield / item, axis after exhaustion), entered with axis None.  `ctx:axis:trace` joined by `|` -/
def answerState (m : Mode) (a : Arr) (ctxs : List Nat) : String :=
  "|".intercalate (ctxs.flatMap fun c =>
    let st : Ctx := ⟨c, none⟩
    (allAxes.map fun ax => s!"{c}:{axisName ax}:{showTrace (exec (prog m a ax st) st)}") ++
    [s!"{c}:dslash:{showTrace (exec (progDslash m a st) st)}"])

def answerExpr (line : String) (m : Mode) (a : Arr) (e : Expr) : String :=
  let fs := fields line
  let wf := wfArr m a
  -- the harness' array must be `Root.flatten` of the nested tree it also sends (X=…), for which
  -- `flatten_WF` is a theorem
  let fl := match parseRoot ((field fs "X").splitOn "~") with
    | some r => decide (r.flatten = a) && decide (r.mode = m)
    | none => false
  let tyS := match ty e with
    | some .path => "path" | some .num => "num" | some .bool => "bool" | some .dec => "dec" | none => "none"
  let cs := field fs "C"
  let ctxs : List Nat := if cs == "*" then List.range a.length else
    (cs.splitOn ",").filterMap nat?
  -- optional initial `position=`, `size=` (F=pos,size) and `axis=` (AX=<axis name>) of the context
  let (p0, s0) := match (field fs "F").splitOn "," with
    | [p, z] => ((nat? p).getD 1, (nat? z).getD 1)
    | _ => (1, 1)
  let ax0 := parseAxis (field fs "AX")
  let outs := ctxs.map fun c =>
    let f : Focus := ⟨c, p0, s0⟩
    -- the state-threading evaluator: value and the state the caller's context is left in
    let rs := evalS m a e ⟨c, ax0, p0, s0⟩
    let mv := if ax0.isSome then rs.1 else eval m a e f
    let sv := Spec.sem m a e f
    let k := 0   -- (no known finding left: the trigger field of the protocol stays 0)
    let fin := s!"{rs.2.item},{match rs.2.axis with | some ax => axisName ax | none => "-"},{rs.2.pos},{rs.2.size}"
    let same := if rs.1 == eval m a e f then 1 else 0
    let showPy (p : PyVal) : String := match p with
      | .seq l => "L" ++ ",".intercalate (l.map toString)
      | .node n => s!"I{n}"
      | .num k => s!"#{k}" | .dec ng k => s!"#{if ng then "-" else ""}{k}/10"
      | .bool b => if b then "B1" else "B0" | .err => "ERR"
    s!"{c}:{showVal mv}:{if ax0.isSome then "NA" else showVal sv}:{k}:{fin}:{same}:{showPy (evaluate false m a e f)}:{showPy (evaluate true m a e f)}"
  s!"wf={if wf then 1 else 0} fl={if fl then 1 else 0} ty={tyS} R={"|".intercalate outs}"

/-! phase 5: sequence expressions (`,` `!`) -/
partial def parseSE : List String → Option (SExpr × List String)
  | "b" :: rest => do let (e, rest) ← parseE rest; pure (.base e, rest)
  | "cm" :: rest => do
    let (l, rest) ← parseSE rest; let (r, rest) ← parseSE rest; pure (.comma l r, rest)
  | "bg" :: rest => do
    let (l, rest) ← parseSE rest; let (r, rest) ← parseSE rest; pure (.bang l r, rest)
  | "ssl" :: rest => do
    let (l, rest) ← parseSE rest; let (r, rest) ← parseE rest; pure (.slash l r, rest)
  | "sn" :: rest => do
    let (l, rest) ← parseSE rest; let (r, rest) ← parseE rest; pure (.slashNum l r, rest)
  | "sf" :: rest => do
    let (l, rest) ← parseSE rest; let (p, rest) ← parseE rest; pure (.filter l p, rest)
  | _ => none

def showSeq : Option (List Item) → String
  | some l => "Q" ++ ",".intercalate (l.map fun i => match i with | .node n => s!"n{n}" | .num k => s!"#{k}")
  | none => "ERR"

def answerSeq (line : String) (m : Mode) (a : Arr) (e : SExpr) : String :=
  let fs := fields line
  let wf := wfArr m a
  let fl := match parseRoot ((field fs "X").splitOn "~") with
    | some r => decide (r.flatten = a) && decide (r.mode = m)
    | none => false
  let tyS := match sty e with | some true => "nodes" | some false => "items" | none => "none"
  let cs := field fs "C"
  let ctxs : List Nat := if cs == "*" then List.range a.length else (cs.splitOn ",").filterMap nat?
  let outs := ctxs.map fun c =>
    let f : Focus := ⟨c, 1, 1⟩
    s!"{c}:{showSeq (seval m a e f)}:{showSeq (Spec.ssem m a e f)}"
  s!"wf={if wf then 1 else 0} fl={if fl then 1 else 0} sty={tyS} R={"|".intercalate outs}"

def answer (line : String) : String :=
  let fs := fields line
  match parseMode (field fs "M"), ((field fs "T").splitOn ";").mapM parseRec with
  | some m, some a =>
    if field (fields line) "OP" == "state" then
      let cs := field (fields line) "C"
      let ctxs : List Nat := if cs == "*" then List.range a.length else (cs.splitOn ",").filterMap nat?
      s!"wf={if wfArr m a then 1 else 0} S={answerState m a ctxs}"
    else if field (fields line) "SE" != "" then
      match parseSE ((field (fields line) "SE").splitOn "~") with
      | some (e, []) => answerSeq line m a e
      | _ => "bad-sexpr"
    else match parseE ((field (fields line) "E").splitOn "~") with
    | some (e, []) => answerExpr line m a e
    | _ => "bad-expr"
  | none, _ => "bad-mode"
  | _, none => "bad-tree"

def main : IO Unit := mainLoop answer

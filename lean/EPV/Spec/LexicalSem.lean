/-
Specification for C05: the standard lexically scoped, side-effect free semantics of the XPath
3.1 binding constructs, written from the W3C text (not from the Python code).  Core Lean only.

* XPath 3.1 §2.1.2 dynamic context: *variable values* is a map; evaluating an expression never
  changes the dynamic context of the expression that contains it.  Hence the environment is
  only passed DOWN (`sem … ρ`), never returned, and the caller's objects (`Heap`) are read-only.
* §3.9.1 / §3.12 `for $x in R return B`: B is evaluated once per item of R with `$x` bound to
  that item, results concatenated in order; the scope of `$x` is B (not R).
* §3.10 / §3.15 `let $x := E return B`: scope of `$x` is B.
* §3.13 `some` / `every`: B evaluated for the items of R; existential / universal.  (The text
  allows any evaluation order and allows an error to be masked by a decisive tuple; this
  definition uses document order and stops at the first decisive tuple.)
* §3.1.7 inline function expression: the function item's *nonlocal variable bindings* are the
  in-scope variables of the expression (`Item.fn ps body ρ`).
* §3.2.2 dynamic function call: the body is evaluated with variable values = nonlocal variable
  bindings + one binding per parameter.  NOTHING of the caller's variables is visible.
* F&O 3.1 §9.6.1 fn:adjust-dateTime-to-timezone: a NEW value; with one argument the implicit
  timezone is the target, `()` as second argument removes the timezone.
* F&O 3.1 §9.7 op:subtract-dateTimes, §9.5.* timezone-from-dateTime: a value without timezone
  uses the implicit timezone of the dynamic context.

The value domain (`Item`, `Expr`, `addItems`, `subPure`, `ebv`, `genEq`, `tzItem`) is shared with
the model; everything about environments is independent of it.
-/
import EPV.Model.Scope
namespace EPV.Scope

section
variable (sm : Expr → Env → Except Err Val)

def semFor (x : Name) (body : Expr) (ρ : Env) : List Item → Except Err Val
  | [] => .ok []
  | it :: rest =>
    match sm body ((x, [it]) :: ρ) with
    | .error e => .error e
    | .ok v =>
      match semFor x body ρ rest with
      | .error e => .error e
      | .ok vs => .ok (v ++ vs)

def semQuant (isSome : Bool) (x : Name) (body : Expr) (ρ : Env) : List Item → Except Err Bool
  | [] => .ok (!isSome)
  | it :: rest =>
    match sm body ((x, [it]) :: ρ) with
    | .error e => .error e
    | .ok v =>
      match ebv v with
      | .error e => .error e
      | .ok b => if b == isSome then .ok isSome else semQuant isSome x body ρ rest

def semArgs (ρ : Env) : List Expr → Except Err (List Val)
  | [] => .ok []
  | a :: as =>
    match sm a ρ with
    | .error e => .error e
    | .ok v =>
      match semArgs ρ as with
      | .error e => .error e
      | .ok vs => .ok (v :: vs)

/-- both operands as single items; `none` when one of them is the empty sequence
(XPath 3.1 §3.5: an empty operand makes an arithmetic expression empty) -/
def semOperands (a b : Expr) (ρ : Env) : Except Err (Option (Item × Item)) :=
  match sm a ρ with
  | .error e => .error e
  | .ok [] => .ok none
  | .ok [x] =>
    match sm b ρ with
    | .error e => .error e
    | .ok [] => .ok none
    | .ok [y] => .ok (some (x, y))
    | .ok _ => .error .type
  | .ok _ => .error .type

/-- §3.2.2: parameters + nonlocal bindings, nothing else -/
def semApply (ps : List Name) (body : Expr) (cap : Env) (args : List Val) : Except Err Val :=
  if ps.length ≠ args.length then .error .type else sm body (ps.zip args ++ cap)

end

/-- `sem tz h n e ρ`: value of `e` in environment `ρ`, implicit timezone `tz`, caller's objects
`h`; `n` bounds the nesting depth of the evaluation (so that the definition is total). -/
def sem (tz : Option Int) (h : Heap) : Nat → Expr → Env → Except Err Val
  | 0, _, _ => .error .fuel
  | n + 1, e, ρ =>
    match e with
    | .int k => .ok [.int k]
    | .var x =>
      match ρ.lookup x with
      | some v => .ok v
      | none => .error .unbound
    | .empty => .ok []
    | .paren e => sem tz h n e ρ
    | .seq a b =>
      match sem tz h n a ρ with
      | .error e => .error e
      | .ok va =>
        match sem tz h n b ρ with
        | .error e => .error e
        | .ok vb => .ok (va ++ vb)
    | .add a b =>
      match semOperands (sem tz h n) a b ρ with
      | .error e => .error e
      | .ok none => .ok []
      | .ok (some (x, y)) =>
        match addItems x y with
        | some r => .ok [r]
        | none => .error .type
    | .sub a b =>
      match semOperands (sem tz h n) a b ρ with
      | .error e => .error e
      | .ok none => .ok []
      | .ok (some (x, y)) =>
        match subPure tz h x y with
        | some r => .ok [r]
        | none => .error .type
    | .eq a b =>
      match sem tz h n a ρ with
      | .error e => .error e
      | .ok va =>
        match sem tz h n b ρ with
        | .error e => .error e
        | .ok vb =>
          match genEq va vb with
          | .error e => .error e
          | .ok r => .ok [.bool r]
    | .dt l z => .ok [.dtv l z]
    | .tzOf e =>
      match sem tz h n e ρ with
      | .error e => .error e
      | .ok v => tzItem h v
    | .letE x e body =>
      match sem tz h n e ρ with
      | .error e => .error e
      | .ok v => sem tz h n body ((x, v) :: ρ)
    | .forE x r body =>
      match sem tz h n r ρ with
      | .error e => .error e
      | .ok vs => semFor (sem tz h n) x body ρ vs
    | .someE x r body =>
      match sem tz h n r ρ with
      | .error e => .error e
      | .ok vs =>
        match semQuant (sem tz h n) true x body ρ vs with
        | .error e => .error e
        | .ok b => .ok [.bool b]
    | .everyE x r body =>
      match sem tz h n r ρ with
      | .error e => .error e
      | .ok vs =>
        match semQuant (sem tz h n) false x body ρ vs with
        | .error e => .error e
        | .ok b => .ok [.bool b]
    | .fn ps body => .ok [.fn ps body ρ]
    | .call0 f =>
      match sem tz h n f ρ with
      | .error e => .error e
      | .ok [.fn ps body cap] => semApply (sem tz h n) ps body cap []
      | .ok _ => .error .type
    | .call f a =>
      match sem tz h n f ρ with
      | .error e => .error e
      | .ok [.fn ps body cap] =>
        match semArgs (sem tz h n) ρ (argToks a) with
        | .error e => .error e
        | .ok vs => semApply (sem tz h n) ps body cap vs
      | .ok _ => .error .type
    | .durLit s => .ok [.dur s]
    | .adjust1 e =>
      match sem tz h n e ρ with
      | .error e => .error e
      | .ok [] => .ok []
      | .ok [x] =>
        match deref h x with
        | some d => let r := adjustPure d tz; .ok [.dtv r.1 r.2]
        | none => .error .type
      | .ok _ => .error .type
    | .adjust2 e z =>
      match sem tz h n e ρ with
      | .error e => .error e
      | .ok v =>
        if v.length > 1 then .error .type else
        match sem tz h n z ρ with
        | .error e => .error e
        | .ok vz =>
          match targetOf vz with
          | .error e => .error e
          | .ok target =>
            match v with
            | [x] =>
              match deref h x with
              | some d => let r := adjustPure d target; .ok [.dtv r.1 r.2]
              | none => .error .type
            | _ => .ok []

def semOut (tz : Option Int) (h : Heap) (n : Nat) (e : Expr) (ρ : Env) : Out :=
  match sem tz h n e ρ with
  | .ok v => .ok (obs h v)
  | .error er => .err er

/-! ### static scoping (XPath 3.1 §2.1.1 *in-scope variables*, error XPST0008)

`WS exact S e`: every variable reference of `e` that sits inside an inline function body is
bound by a parameter, by a binder inside that body, or by a variable of `S` in scope where the
function is *defined*.  With `exact = false` the same is required of references outside function
bodies.  `lex` says whether the callee sees its closure only (F05c repaired): then a function body
inherits the mode of its surroundings, and `WS true true S e` holds for every `e`.
`WS false true (dom ρ) e` is the complement of the trigger predicate of finding F05c. -/
def WS (lex : Bool) (exact : Bool) (S : List Name) : Expr → Bool
  | .int _ => true
  | .var x => exact || S.contains x
  | .empty => true
  | .paren e => WS lex exact S e
  | .seq a b => WS lex exact S a && WS lex exact S b
  | .add a b => WS lex exact S a && WS lex exact S b
  | .sub a b => WS lex exact S a && WS lex exact S b
  | .eq a b => WS lex exact S a && WS lex exact S b
  | .dt _ _ => true
  | .tzOf e => WS lex exact S e
  | .letE x e b => WS lex exact S e && WS lex exact (x :: S) b
  | .forE x r b => WS lex exact S r && WS lex exact (x :: S) b
  | .someE x r b => WS lex exact S r && WS lex exact (x :: S) b
  | .everyE x r b => WS lex exact S r && WS lex exact (x :: S) b
  | .fn ps b => WS lex (exact && lex) (ps ++ S) b
  | .call0 f => WS lex exact S f
  | .call f a => WS lex exact S f && WS lex exact S a
  | .durLit _ => true
  | .adjust1 e => WS lex exact S e
  | .adjust2 e z => WS lex exact S e && WS lex exact S z

def dom (ρ : Env) : List Name := ρ.map (·.1)

/-- no inline function expression occurs in `e` -/
def noFn : Expr → Bool
  | .int _ | .var _ | .empty | .dt _ _ | .durLit _ => true
  | .paren e | .tzOf e | .call0 e | .adjust1 e => noFn e
  | .seq a b | .add a b | .sub a b | .eq a b | .call a b | .adjust2 a b => noFn a && noFn b
  | .letE _ e b | .forE _ e b | .someE _ e b | .everyE _ e b => noFn e && noFn b
  | .fn _ _ => false

end EPV.Scope

/-
C03 — trigger predicates of the KNOWN escapes (findings F03b, F03e, F03g, F03h, F03i, F03j, F03k of
findings/C03.json).  The table was audited on the reference tree: every row has a witness input in findings/C03.json that
reproduces it, and the symbol lists are pruned to symbols observed with that escape.
Core Lean only; evaluated by the driver (`X` request) so that the harness tags a
disagreement with a finding id only when this predicate holds for the failing call.

An escape is keyed on the CALL SITE — exception class + innermost `elementpath` frame
(`<file>:<function>`) — plus a syntactic predicate on the input: one of the listed symbols occurs
among the tokenizer's symbol/name tokens of the source, and the source has at least `minToks`
tokens.  `site = "*"` matches any frame (only for RecursionError, whose innermost frame is wherever
the interpreter's limit was hit); `":evaluate__*"` matches the `evaluate__…` method of any function token.  Any escape that matches no row is reported as a violation.
-/
namespace EPV.C03Esc

structure Row where
  id : String
  cls : String
  site : String
  anySym : List String
  minToks : Nat
  deriving Repr

def rows : List Row := [
  -- F03b: a sequence-type token used as an operand: XPathToken.evaluate and .select call each other
  ⟨"F03b", "RecursionError", "*", ["empty-sequence"], 0⟩,
  -- F03e: no depth guard in the recursive-descent parser / evaluator
  ⟨"F03e", "RecursionError", "*", [], 150⟩,
  -- F03g: an operand of an unexpected item type (or lexical form) reaches Python code unchecked
  ⟨"F03g", "AssertionError", "xpath1/_xpath1_functions.py:evaluate__ceiling_and_floor_functions", ["floor", "ceiling"], 0⟩,
  ⟨"F03g", "AssertionError", "xpath1/_xpath1_functions.py:evaluate__round", ["round"], 0⟩,
  ⟨"F03g", "AssertionError", "xpath30/_xpath30_functions.py:__call__", ["function"], 0⟩,
  ⟨"F03g", "TypeError", "xpath2/_xpath2_functions.py:evaluate__years_from_duration", ["years-from-duration"], 0⟩,
  ⟨"F03g", "AttributeError", "xpath_tokens/tokens.py:led", ["NOTATION"], 0⟩,
  ⟨"F03g", "IndexError", "xpath_tokens/base.py:get_results", ["array"], 0⟩,
  ⟨"F03g", "TypeError", "xpath30/xpath30_helpers.py:int_to_alphabetic", ["format-integer"], 0⟩,
  ⟨"F03g", "ValueError", "datatypes/qname.py:__init__", ["function-name", "#"], 0⟩,
  ⟨"F03g", "ElementPathKeyError", "sequence_types.py:is_instance", ["element"], 0⟩,
  ⟨"F03g", "ValueError", "helpers.py:get_double", ["floor", "ceiling", "untypedAtomic"], 0⟩,
  ⟨"F03g", "ValueError", "namespaces.py:get_expanded_name", ["instance", "castable", "cast", "treat"], 0⟩,
  ⟨"F03g", "TypeError", "serialization.py:serialize_to_xml", ["serialize"], 0⟩,
  ⟨"F03g", "AssertionError", "xpath2/_xpath2_constructors.py:evaluate__datetime_stamp_type", ["dateTimeStamp"], 0⟩,
  ⟨"F03g", "IndexError", "xpath30/xpath30_helpers.py:format_digits", ["format-integer"], 0⟩,
  ⟨"F03g", "TypeError", "xpath30/xpath30_helpers.py:roman_num", ["format-integer"], 0⟩,
  ⟨"F03g", "AssertionError", "xpath_tokens/functions.py:to_partial_function", ["?"], 0⟩,
  -- (schema-bound parser: static evaluation over the schema context passes schema nodes as positions)
  ⟨"F03g", "TypeError", "xpath31/_xpath31_functions.py:evaluate__array_subarray", ["subarray"], 0⟩,
  -- F03h: numeric / temporal overflow and runaway computations are not caught
  ⟨"F03h", "OverflowError", "xpath2/_xpath2_operators.py:evaluate__range_expression", ["to"], 0⟩,
  ⟨"F03h", "Hang", "xpath30/_xpath30_functions.py:evaluate__exp10", ["exp10"], 0⟩,
  ⟨"F03h", "InvalidOperation", "datatypes/datetime.py:__mul__", ["implicit-timezone"], 0⟩,
  ⟨"F03h", "OverflowError", "xpath30/xpath30_helpers.py:roman_num", ["format-integer"], 0⟩,
  ⟨"F03h", "MemoryError", "xpath30/xpath30_helpers.py:roman_num", ["format-integer"], 0⟩,
  ⟨"F03h", "OverflowError", "datatypes/datetime.py:fromduration", ["dayTimeDuration"], 0⟩,
  ⟨"F03h", "MemoryError", "xpath2/_xpath2_operators.py:evaluate__range_expression", ["to"], 0⟩,
  ⟨"F03h", "OverflowError", "xpath30/_xpath30_functions.py:evaluate__exp10", ["exp10"], 0⟩,
  ⟨"F03h", "Hang", "xpath30/_xpath30_functions.py:evaluate__pow", ["pow"], 0⟩,
  ⟨"F03h", "OverflowError", "datatypes/datetime.py:_compare_durations", ["dayTimeDuration"], 0⟩,
  ⟨"F03h", "Hang", "xpath2/_xpath2_functions.py:evaluate__round_half_to_even", ["round-half-to-even"], 0⟩,
  -- F03j: xs:NOTATION used as a function item
  ⟨"F03j", "NotImplementedError", "xpath2/_xpath2_constructors.py:cast__notation_type", ["NOTATION"], 0⟩
]

/-- `"*"` matches any frame, `":prefix*"` any frame whose function name starts with `prefix`,
anything else must equal the observed `<file>:<function>` -/
def siteMatch (pat site : String) : Bool :=
  pat == "*" || pat == site ||
  (pat.startsWith ":" && pat.endsWith "*" &&
    (((site.splitOn ":").getD 1 "").startsWith ((pat.drop 1).toString.dropEnd 1).toString))

def rowMatches (r : Row) (cls site : String) (syms : List String) (ntoks : Nat) : Bool :=
  r.cls == cls && siteMatch r.site site &&
  (r.anySym.isEmpty || r.anySym.any syms.contains) && decide (r.minToks ≤ ntoks)

/-- index of the first row whose trigger predicate holds for this escape, if any.  The harness accepts
the row only if the row's own witness (findings/C03.json) still escapes in the same run: a row whose
defect has been repaired cannot tag anything. -/
def triggerIdx (cls site : String) (syms : List String) (ntoks : Nat) : Option Nat :=
  rows.findIdx? fun r => rowMatches r cls site syms ntoks

/-- the finding whose trigger predicate holds for this escape, if any -/
def trigger (cls site : String) (syms : List String) (ntoks : Nat) : Option String :=
  (rows.find? fun r => rowMatches r cls site syms ntoks).map (·.id)

end EPV.C03Esc

/-
Specification side of the keyword ExprSingle layer (C04, phase 5), written from XPath 2.0 A.1 [2] Expr, [4] ExprSingle,
[5] ForExpr, [6] QuantifiedExpr, [7] IfExpr and XPath 3.0 A.1 [11] LetExpr (one binding clause), over the level table
`G` of `EPV/Spec/EBNF.lean`:

  Expr       ::= ExprSingle ("," ExprSingle)*
  ExprSingle ::= "if" "(" Expr ")" "then" ExprSingle "else" ExprSingle
               | ("for"|"let"|"some"|"every") VarRef ("in"|":=") ExprSingle ("return"|"satisfies") ExprSingle
               | OrExpr                                   -- level 1 of the level table (level 0 is `,`)

`xwf strict G x`: every node of `x` is an instance of these productions (leaves: `derivable G 1`, resp. the relaxed
grammar of the operator fragment); `xebnf`: executable recursive-descent reference parser (leaves by `ebnf G _ 1`).
Core Lean only.
-/
import EPV.Spec.EBNF
import EPV.Model.PrattKw
namespace EPV.Kw
open EPV.Syn

def XTree.isSeq : XTree → Bool | .seq .. => true | _ => false

/-- `x` derives from ExprSingle (`single = true`) or Expr; `strict = false` relaxes only the operator-fragment
leaves (laxities L1–L4 of `wf false`) -/
def xwf (strict : Bool) (G : Gram) (lp comma : Nat) : Bool → XTree → Bool
  | _, .leaf t => if strict then derivable G 1 t else (wf false G t && (decide (1 ≤ lvl G t) || t.isPre))
  | single, .seq o l r => !single && o == comma && xwf strict G lp comma false l && xwf strict G lp comma true r
  | _, .ite g c a b => g == lp && xwf strict G lp comma false c && xwf strict G lp comma true a && xwf strict G lp comma true b
  | _, .bind q v r b => isBinder q && (match v with | .atom 2 _ => true | _ => false)
      && xwf strict G lp comma true r && xwf strict G lp comma true b

mutual
def xebnfSingle (G : Gram) (lp comma : Nat) : Nat → List Tok → Option (XTree × List Tok)
  | 0, _ => none
  | f + 1, .close q :: rest =>
    if q == 8 then
      match rest with
      | .op g :: rest1 =>
        if g != lp then none else
        match xebnfExpr G lp comma f rest1 with
        | some (c, .close 0 :: .close 2 :: rest2) =>
          match xebnfSingle G lp comma f rest2 with
          | some (a, .close 3 :: rest3) =>
            match xebnfSingle G lp comma f rest3 with
            | some (b, rest4) => some (.ite g c a b, rest4)
            | none => none
          | _ => none
        | _ => none
      | _ => none
    else if isBinder q then
      match rest with
      | .atom 2 n :: .close s :: rest1 =>
        if s != sepOf q then none else
        match xebnfSingle G lp comma f rest1 with
        | some (r, .close e :: rest2) =>
          if e != finOf q then none else
          match xebnfSingle G lp comma f rest2 with
          | some (b, rest3) => some (.bind q (.atom 2 n) r b, rest3)
          | none => none
        | _ => none
      | _ => none
    else none
  | _ + 1, toks =>
    match ebnf G ((toks.length + 2) * (G.top + 3)) 1 toks with
    | some (t, rest) => some (.leaf t, rest)
    | none => none
def xebnfExpr (G : Gram) (lp comma : Nat) : Nat → List Tok → Option (XTree × List Tok)
  | 0, _ => none
  | f + 1, toks =>
    match xebnfSingle G lp comma f toks with
    | some (l, rest) => xebnfTail G lp comma f l rest
    | none => none
def xebnfTail (G : Gram) (lp comma : Nat) : Nat → XTree → List Tok → Option (XTree × List Tok)
  | 0, _, _ => none
  | f + 1, l, .op o :: rest =>
    if o == comma then
      match xebnfSingle G lp comma f rest with
      | some (r, rest') => xebnfTail G lp comma f (.seq o l r) rest'
      | none => none
    else some (l, .op o :: rest)
  | _ + 1, l, toks => some (l, toks)
end

def xebnfParse (G : Gram) (lp comma : Nat) (toks : List Tok) : Option XTree :=
  match xebnfExpr G lp comma (2 * toks.length + 3) toks with
  | some (x, []) => some x
  | _ => none

end EPV.Kw

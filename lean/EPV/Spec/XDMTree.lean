/-
Specification side of C02, written from the XQuery and XPath Data Model 3.1 (XDM) and from the
documented contract of `get_node_tree`; it shares only the *input* types (`XTree`, `Input`, `Kind`)
with the model and never mentions positions.

* XDM §6.1 / §6.2 — one Document node (optional), one Element node per element information item,
  §6.2.1: "The namespaces property of an element is the set of in-scope namespace bindings" – the
  `xml` prefix is always bound (§6.4.1 / Namespaces in XML §3), one Namespace node per binding;
  one Attribute node per attribute; children = text, element, comment, PI in the order of appearance.
* XDM §2.4 document order — "the root node is the first node; every node occurs before all of its
  children and descendants; namespace nodes immediately follow the element node with which they are
  associated; attribute nodes immediately follow the namespace nodes of the element node; the
  relative order of siblings is the order in which they occur in the children property of their
  parent; children and descendants occur before following siblings".
* XDM §6.1.2 / §6.2.2 string-value of a document/element = concatenation of the string-values of all
  its Text node descendants in document order; §6.3.2 attribute = its value, §6.4.2 namespace = its
  URI, §6.5.2 PI = content, §6.6.2 comment = content, §6.7.2 text = content.
* ElementTree data binding: `elem.text` / `elem.tail` that is not `None` is a text chunk (the text
  child before the first child element / after the end tag of `elem`, a child of `elem`'s parent).
* XPath 3.1 §3.7.2 node comparisons (`is`, `<<`, `>>`), §3.4.2 `union` / `intersect` / `except`
  ("… eliminate duplicate nodes … returned in document order"), F&O 3.1 §14.9 `fn:root`,
  §14.10 `fn:innermost`, §14.11 `fn:outermost`.

A node is identified by its index in document order (`Item.idx`).
-/
import EPV.Model.Builder
namespace EPV.XDM
open EPV.Builder

/-- one XDM node: index in document order, kind, name, index of its parent, string value of the
leaf kinds (`content`; for documents and elements the string value is `sv`, filled from the text
descendants) -/
structure Item where
  idx : Nat
  kind : Kind
  name : Option String
  parent : Option Nat
  sv : String
  deriving Repr, DecidableEq, Inhabited

mutual
/-- the string values of the Text node descendants of a node, in document order -/
def textsOne : XTree → List String
  | .elem _ _ _ text kids _ => optList text ++ textsKids kids
  | .comment .. => []
  | .pi .. => []
/-- … of a list of siblings, each followed by its tail chunk -/
def textsKids : List XTree → List String
  | [] => []
  | t :: ts => textsOne t ++ optList t.tail ++ textsKids ts
end

/-- XDM §6.2.2 -/
def stringValue (t : XTree) : String := concat (textsOne t)

/-- in-scope namespace bindings of an element: lxml reports them per element; an `xml.etree` tree
has none of its own and is given the `namespaces` argument of the call -/
def inScope (c : Cfg) (own : NsMap) : NsMap := if c.lxml then own else c.namespaces

/-- items with consecutive indices from `i` -/
def number {α : Type} (f : Nat → α → Item) (i : Nat) : List α → List Item
  | [] => []
  | a :: l => f i a :: number f (i + 1) l

/-- namespace nodes of the element `e`: the always-present `xml` binding, then the other bindings -/
def nsItems (e : Nat) (i : Nat) (m : NsMap) : List Item :=
  { idx := i, kind := .namespace, name := some "xml", parent := some e, sv := xmlNamespace } ::
  number (fun j (kv : Option String × String) =>
      { idx := j, kind := .namespace, name := kv.1, parent := some e, sv := kv.2 })
    (i + 1) (m.filter fun kv => kv.1 != some "xml")

def attrItems (e : Nat) (i : Nat) (a : Attrib) : List Item :=
  number (fun j (kv : String × String) =>
      { idx := j, kind := .attribute, name := some kv.1, parent := some e, sv := kv.2 }) i a

def textItem (par : Option Nat) (i : Nat) (o : Option String) : List Item :=
  match o with
  | none => []
  | some s => [{ idx := i, kind := .text, name := none, parent := par, sv := s }]

mutual
/-- the nodes of the subtree of `t` in document order (XDM §2.4), `i` = index of `t` itself -/
def itemsOne (c : Cfg) (par : Option Nat) (i : Nat) : XTree → List Item
  | .elem name nsmap attrib text kids tail =>
      let ns := nsItems i (i + 1) (inScope c nsmap)
      let ats := attrItems i (i + 1 + ns.length) attrib
      let tx := textItem (some i) (i + 1 + ns.length + ats.length) text
      { idx := i, kind := .element, name := some name, parent := par,
        sv := stringValue (.elem name nsmap attrib text kids tail) } ::
      (ns ++ ats ++ tx ++ itemsKids c i (i + 1 + ns.length + ats.length + tx.length) kids)
  | .comment s _ => [{ idx := i, kind := .comment, name := none, parent := par, sv := s }]
  | .pi t s _ => [{ idx := i, kind := .pi, name := some t, parent := par, sv := s }]
/-- the children `ts` of node `par`, the first of them getting index `i` -/
def itemsKids (c : Cfg) (par : Nat) (i : Nat) : List XTree → List Item
  | [] => []
  | t :: ts =>
      let a := itemsOne c (some par) i t
      let tl := textItem (some par) (i + a.length) t.tail
      a ++ tl ++ itemsKids c par (i + a.length + tl.length) ts
end

/-- document-level comments / PIs (children of the document node `0`) -/
def siblingItems (i : Nat) : List XTree → List Item
  | [] => []
  | .comment s _ :: ts => { idx := i, kind := .comment, name := none, parent := some 0, sv := s } :: siblingItems (i + 1) ts
  | .pi t s _ :: ts => { idx := i, kind := .pi, name := some t, parent := some 0, sv := s } :: siblingItems (i + 1) ts
  | .elem .. :: ts => siblingItems i ts

/-- the XDM tree of a whole document: document node, prolog, top element subtree, epilog -/
def documentItems (c : Cfg) (prolog : List XTree) (top : Option XTree) (epilog : List XTree) : List Item :=
  match top with
  | none => [{ idx := 0, kind := .document, name := none, parent := none, sv := "" }]
  | some e =>
      let pro := siblingItems 1 prolog
      let r := itemsOne c (some 0) (1 + pro.length) e
      { idx := 0, kind := .document, name := none, parent := none, sv := stringValue e } ::
      (pro ++ r ++ siblingItems (1 + pro.length + r.length) epilog)

/-- Which XDM tree `get_node_tree(root, namespaces, fragment=…)` denotes (docstring of `get_node_tree`):
`fragment=True` — the element alone, an ElementTree is skipped; `fragment=False` — a document, a
dummy one around a bare Element (for lxml the document the element lives in); default — the root
node kind is preserved, except that an lxml top element with document-level siblings is given its
document.  The `tail` of the root element is not part of the tree.  `none` = the call is an error. -/
def specItems (i : Input) : Option (List Item) :=
  match i.top with
  | none =>
      if !i.isTree then none
      else if i.cfg.lxml && i.cfg.fragment == some true then none   -- no fragment of an empty tree
      else some (documentItems i.cfg [] none [])
  | some top =>
      if !i.cfg.lxml then
        -- xml.etree: no document-level siblings, an Element does not know its document
        if (i.isTree && i.cfg.fragment != some true) || (!i.isTree && i.cfg.fragment == some false)
        then some (documentItems i.cfg [] (some top) [])
        else some (itemsOne i.cfg none 0 top)
      else
        match subtreeAt top i.path with
        | none => none
        | some e =>
          if i.cfg.fragment == some true then some (itemsOne i.cfg none 0 e)
          else if i.isTree || i.cfg.fragment == some false
                  || (i.path == [] && (!i.prolog.isEmpty || !i.epilog.isEmpty))
          then some (documentItems i.cfg i.prolog (some top) i.epilog)
          else some (itemsOne i.cfg none 0 e)

/-! ### operators (nodes = indices in document order) -/

def specIs (a b : Nat) : Bool := a == b
def specPrecedes (a b : Nat) : Bool := a < b
def specFollows (a b : Nat) : Bool := a > b

/-- the members of `n = {0..n-1}` satisfying `p`, in document order, without duplicates -/
def select (n : Nat) (p : Nat → Bool) : List Nat := (List.range n).filter p

def specUnion (n : Nat) (xs ys : List Nat) : List Nat := select n fun i => xs.contains i || ys.contains i
def specIntersect (n : Nat) (xs ys : List Nat) : List Nat := select n fun i => xs.contains i && ys.contains i
def specExcept (n : Nat) (xs ys : List Nat) : List Nat := select n fun i => xs.contains i && !ys.contains i

/-- `a` is a proper ancestor of `d`: reachable from `d` by following `parent` (at most `fuel` steps) -/
def isAncestor (items : List Item) (a : Nat) : Nat → Nat → Bool
  | _, 0 => false
  | d, fuel + 1 => match items[d]? with
    | some it => match it.parent with
      | some q => q == a || isAncestor items a q fuel
      | none => false
    | none => false

/-- fn:innermost: the nodes of the input that are not an ancestor of another node of the input -/
def specInnermost (items : List Item) (xs : List Nat) : List Nat :=
  select items.length fun i => xs.contains i && !xs.any fun j => isAncestor items i j items.length
/-- fn:outermost: the nodes of the input that have no ancestor in the input -/
def specOutermost (items : List Item) (xs : List Nat) : List Nat :=
  select items.length fun i => xs.contains i && !xs.any fun j => isAncestor items j i items.length
/-- fn:root -/
def specRoot (n : Nat) (i : Nat) : Option Nat := if i < n then some 0 else none

/-! ### a few path forms, evaluated on the item list from a focus node (document-rooted trees)

XPath 3.1 §3.3: every operand of an operator is evaluated in the dynamic context (focus) of the
operator expression itself.  Codes: `D<n>` = `//n`, `T` = `/*`, `K<n>` = `/*/n` (absolute);
`c<n>` = `n`, `d<n>` = `.//n`, `p` = `..`, `s` = `.`, `t` = `@*` (relative to the focus);
`I<n>`/`O<n>` = `innermost(//n)`/`outermost(//n)`, `i<n>`/`o<n>` = the same over `.//n`;
`<n>` is a local name or `*`; a trailing `1` takes the first node in document order (`(E)[1]`). -/

def elemNamed (it : Item) (n : String) : Bool :=
  it.kind == .element && (n == "*" || it.name == some n)

def pathEvalCore (items : List Item) (focus : Nat) (form : Char) (n : String) : List Nat :=
  let all := List.range items.length
  let get (i : Nat) : Option Item := items[i]?
  match form with
  | 'D' => all.filter fun i => (get i).any (elemNamed · n)
  | 'T' => all.filter fun i => (get i).any fun it => it.kind == .element && it.parent == some 0
  | 'K' => all.filter fun i => (get i).any fun it => elemNamed it n &&
      (it.parent.bind get).any fun pit => pit.kind == .element && pit.parent == some 0
  | 'c' => all.filter fun i => (get i).any fun it => elemNamed it n && it.parent == some focus
  | 'd' => all.filter fun i => (get i).any fun it => elemNamed it n && isAncestor items focus i items.length
  | 'p' => ((get focus).bind (·.parent)).toList
  | 's' => [focus]
  | 't' => all.filter fun i => (get i).any fun it => it.kind == .attribute && it.parent == some focus
  | 'I' => specInnermost items (all.filter fun i => (get i).any (elemNamed · n))         -- innermost(//n)
  | 'O' => specOutermost items (all.filter fun i => (get i).any (elemNamed · n))         -- outermost(//n)
  | 'i' => specInnermost items (all.filter fun i => (get i).any fun it =>
      elemNamed it n && isAncestor items focus i items.length)                          -- innermost(.//n)
  | 'o' => specOutermost items (all.filter fun i => (get i).any fun it =>
      elemNamed it n && isAncestor items focus i items.length)                          -- outermost(.//n)
  | _ => []

def pathEval (items : List Item) (focus : Nat) (code : String) : List Nat :=
  match code.toList with
  | [] => []
  | form :: rest =>
    let first := rest.getLast? == some '1'
    let name := String.ofList (if first then rest.dropLast else rest)
    let r := pathEvalCore items focus form name
    if first then r.take 1 else r

end EPV.XDM

/-
Specification side of C09: the string functions of XPath 1.0 §4.2 and of
"XPath and XQuery Functions and Operators 3.1" (F&O) §5.2–§5.5, §6, written from the text of the
recommendations, independently of the Python code.  Core Lean only.

Value domains
* a string is its sequence of code points, `Str := List Nat` (F&O §5: "a string is a sequence of
  characters", a character is a code point; so `string-length` is `List.length` by construction);
* a numeric argument is `Num`: `NaN`, `±INF` or a finite value given *exactly* as the rational
  `num/den` (`den > 0`; a finite double is a dyadic rational, an `xs:decimal`/`xs:integer` is a
  rational too).  `-0` is the rational 0.  Arithmetic on finite values is exact (see the
  assumption on `substring3` below).
-/
namespace EPV.FOStrings

abbrev Str := List Nat

inductive Num where
  | nan | pinf | ninf
  | fin (num : Int) (den : Nat)
  deriving DecidableEq, Repr, Inhabited

/-- well-formed: positive denominator -/
def Num.wf : Num → Prop
  | .fin _ d => 0 < d
  | _ => True

instance : (x : Num) → Decidable x.wf
  | .fin _ d => inferInstanceAs (Decidable (0 < d))
  | .nan => isTrue trivial | .pinf => isTrue trivial | .ninf => isTrue trivial

/-! ### F&O §4.4.4 `fn:round` — "the nearest (that is, numerically closest) value to $arg that is
a multiple of ten to the power of minus $precision [here: an integer]. If two such values are
equally near, the function returns the one that is closest to positive infinity."  NaN and ±INF are
returned unchanged. -/

/-- declarative reading: `r` is the rounding of `n/d` iff `r - 1/2 ≤ n/d < r + 1/2` -/
def IsRoundHalfUp (n : Int) (d : Nat) (r : Int) : Prop :=
  2 * r * d - d ≤ 2 * n ∧ 2 * n < 2 * r * d + d

/-- executable reading: `floor(x + 1/2)` -/
def roundHalfUp (n : Int) (d : Nat) : Int := (2 * n + d) / (2 * d)

/-- the value space of `fn:round($x)` for an `xs:double` argument: integer, NaN or ±INF -/
inductive XInt where
  | nan | pinf | ninf
  | fin (v : Int)
  deriving DecidableEq, Repr

def round : Num → XInt
  | .nan => .nan | .pinf => .pinf | .ninf => .ninf
  | .fin n d => .fin (roundHalfUp n d)

/-- IEEE addition on the rounded values (`INF + -INF = NaN`) -/
def XInt.add : XInt → XInt → XInt
  | .nan, _ => .nan | _, .nan => .nan
  | .pinf, .ninf => .nan | .ninf, .pinf => .nan
  | .pinf, _ => .pinf | _, .pinf => .pinf
  | .ninf, _ => .ninf | _, .ninf => .ninf
  | .fin a, .fin b => .fin (a + b)

/-- `x le p` for a finite position `p` (comparisons with NaN are false) -/
def XInt.leInt : XInt → Int → Bool
  | .nan, _ => false | .pinf, _ => false | .ninf, _ => true
  | .fin a, p => decide (a ≤ p)

/-- `p lt x` -/
def XInt.gtInt : XInt → Int → Bool
  | .nan, _ => false | .pinf, _ => true | .ninf, _ => false
  | .fin a, p => decide (p < a)

/-- the characters of `s` whose 1-based position `p` (counted from `p0`) satisfies `keep p` -/
def selectPos (keep : Int → Bool) : Nat → Str → Str
  | _, [] => []
  | p, c :: cs => if keep p then c :: selectPos keep (p + 1) cs else selectPos keep (p + 1) cs

/-- F&O §5.4.3 / XPath 1.0 §4.2, two arguments: "the characters in `$sourceString` whose position
`$p` satisfies `fn:round($start) <= $p`". -/
def substring2 (s : Str) (a : Num) : Str :=
  selectPos (fun p => (round a).leInt p) 1 s

/-- F&O §5.4.3, three arguments: "the characters in `$sourceString` whose position `$p` satisfies
`fn:round($start) <= $p and $p < fn:round($start) + fn:round($length)`".
ASSUMPTION (stated in docs/C09.md): the sum is taken exactly; in `xs:double` arithmetic the sum of
two integers is exact unless its magnitude exceeds 2^53, where exact and rounded sum lie on the
same side of every position of a string shorter than 2^53 characters. -/
def substring3 (s : Str) (a b : Num) : Str :=
  selectPos (fun p => (round a).leInt p && ((round a).add (round b)).gtInt p) 1 s

/-! ### F&O §5.5 functions based on substring matching (Unicode code-point collation) -/

/-- `t` occurs in `s` -/
def Contains (s t : Str) : Prop := ∃ u v, s = u ++ t ++ v

/-- `t` occurs in `s` at offset `i` -/
def OccursAt (s t : Str) (i : Nat) : Prop := ∃ u v, s = u ++ t ++ v ∧ u.length = i

/-- executable: the first offset `i ≤ |s|` at which `t` occurs, by trying every offset -/
def firstOcc (s t : Str) : Option Nat :=
  (List.range (s.length + 1)).find? fun i => (s.drop i).take t.length == t

def contains (s t : Str) : Bool := (firstOcc s t).isSome

/-- F&O §5.5.4 `fn:substring-before`: the part of `$arg1` that precedes the *first* occurrence of
`$arg2`; `""` if `$arg1` does not contain `$arg2` (and `""` when `$arg2` is empty: first occurrence
at offset 0). -/
def substringBefore (s t : Str) : Str :=
  match firstOcc s t with
  | none => []
  | some i => s.take i

/-- F&O §5.5.5 `fn:substring-after`: the part that follows the first occurrence. -/
def substringAfter (s t : Str) : Str :=
  match firstOcc s t with
  | none => []
  | some i => s.drop (i + t.length)

/-- F&O §5.5.2 `fn:starts-with` -/
def StartsWith (s t : Str) : Prop := ∃ v, s = t ++ v
def startsWith (s t : Str) : Bool := s.take t.length == t

/-- F&O §5.5.3 `fn:ends-with` -/
def EndsWith (s t : Str) : Prop := ∃ u, s = u ++ t
def endsWith (s t : Str) : Bool := decide (t.length ≤ s.length) && s.drop (s.length - t.length) == t

/-! ### F&O §5.4.13 `fn:translate` (XPath 1.0 §4.2 `translate`)
"Every character in `$arg` that does not appear in `$mapString` is unchanged.  Every character that
appears at some position M in `$mapString`, where `$transString` is M or more characters in length,
is replaced by the character at position M in `$transString`.  Every character that appears at
position M where `$transString` is less than M characters in length is omitted.  If `$mapString`
contains duplicates the first occurrence determines the replacement." -/

/-- 0-based position of the first occurrence of `c` in `m` -/
def firstPos (c : Nat) : Str → Option Nat
  | [] => none
  | x :: xs => if x = c then some 0 else (firstPos c xs).map (· + 1)

def translateChar (map trans : Str) (c : Nat) : Str :=
  match firstPos c map with
  | none => [c]
  | some m => (trans[m]?).toList

def translate (arg map trans : Str) : Str := arg.flatMap (translateChar map trans)

/-! ### F&O §5.4.5 `fn:normalize-space`
"stripping leading and trailing whitespace and replacing sequences of one or more adjacent
whitespace characters with a single space, #x20"; whitespace is the XML `S` production:
#x20 | #x9 | #xD | #xA. -/

def isWs (c : Nat) : Bool := c == 0x20 || c == 0x9 || c == 0xD || c == 0xA

/-- strip leading and trailing whitespace -/
def trim (s : Str) : Str := ((s.dropWhile isWs).reverse.dropWhile isWs).reverse

/-- replace every maximal run of whitespace by one #x20 -/
def collapse : Str → Str
  | [] => []
  | [c] => [if isWs c then 0x20 else c]
  | c :: d :: cs =>
    if isWs c then (if isWs d then collapse (d :: cs) else 0x20 :: collapse (d :: cs))
    else c :: collapse (d :: cs)

def normalizeSpace (s : Str) : Str := collapse (trim s)

/-! ### F&O §5.4.1 `fn:concat`, §5.4.2 `fn:string-join`, §5.4.4 `fn:string-length` -/

def concat (args : List Str) : Str := args.flatten

def stringJoin (items : List Str) (sep : Str) : Str := sep.intercalate items

def stringLength (s : Str) : Nat := s.length

/-! ### F&O §5.3.6 `fn:compare`, §5.3.8 `fn:codepoint-equal` with the Unicode code-point collation
(§5.3.2: "strings are compared by the code points of their characters"): the first position at
which the strings differ decides; a proper prefix is less. -/

/-- `a` sorts before `b` -/
inductive CpLt : Str → Str → Prop
  | nil (b : Nat) (bs : Str) : CpLt [] (b :: bs)
  | head (a b : Nat) (as bs : Str) : a < b → CpLt (a :: as) (b :: bs)
  | tail (a : Nat) (as bs : Str) : CpLt as bs → CpLt (a :: as) (a :: bs)

/-- executable three-way comparison: −1, 0, 1 -/
def compare : Str → Str → Int
  | [], [] => 0
  | [], _ :: _ => -1
  | _ :: _, [] => 1
  | a :: as, b :: bs => if a < b then -1 else if b < a then 1 else compare as bs

def codepointEqual (a b : Str) : Bool := decide (a = b)

/-! ### F&O §5.2.1 `fn:codepoints-to-string`, §5.2.2 `fn:string-to-codepoints`
"[err:FOCH0001] is raised if any of the codepoints in `$arg` is not a permitted XML character":
XML 1.0 production [2] Char ::= #x9 | #xA | #xD | [#x20-#xD7FF] | [#xE000-#xFFFD] | [#x10000-#x10FFFF]. -/

def IsXmlChar (v : Int) : Prop :=
  v = 0x9 ∨ v = 0xA ∨ v = 0xD ∨ (0x20 ≤ v ∧ v ≤ 0xD7FF) ∨ (0xE000 ≤ v ∧ v ≤ 0xFFFD) ∨
    (0x10000 ≤ v ∧ v ≤ 0x10FFFF)

instance (v : Int) : Decidable (IsXmlChar v) := by unfold IsXmlChar; infer_instance

inductive Err where
  | FOCH0001
  | encode   -- not an F&O error: a string holding a surrogate code point has no UTF-8 form
  deriving DecidableEq, Repr

def codepointsToString (l : List Int) : Except Err Str :=
  l.mapM fun v => if IsXmlChar v then .ok v.toNat else .error .FOCH0001

def stringToCodepoints (s : Str) : List Int := s.map fun (c : Nat) => (c : Int)

/-! ### F&O §5.4.7/§5.4.8 `fn:upper-case` / `fn:lower-case`
Defined by the Unicode default case conversion; the mapping tables are a parameter (`up c` is the
full upper-case mapping of the single character `c`).  Upper-casing is context free; lower-casing
is context free except for the Final_Sigma condition of SpecialCasing.txt (U+03A3). -/

def upperCase (up : Nat → Str) (s : Str) : Str := s.flatMap up

/-- Final_Sigma (Unicode §3.13 Table 3-17): "C is preceded by a sequence consisting of a cased letter
and then zero or more case-ignorable characters, and C is not followed by a sequence consisting of
zero or more case-ignorable characters and then a cased letter" — in the reading shared by ICU and
CPython: going outwards from C the case-ignorable characters are skipped first, then the next
character is tested for Cased.  `revBefore` = the characters before C, nearest first. -/
def finalSigma (cased ign : Nat → Bool) (revBefore after : Str) : Bool :=
  (match revBefore.dropWhile ign with
    | c :: _ => cased c
    | [] => false) &&
  !(match after.dropWhile ign with
    | c :: _ => cased c
    | [] => false)

/-- lower-casing, position by position: U+03A3 becomes U+03C2 in Final_Sigma context and U+03C3
otherwise; every other character is replaced by its full lower-case mapping `lo c`. -/
def lowerCase (lo : Nat → Str) (cased ign : Nat → Bool) (s : Str) : Str :=
  (List.range s.length).flatMap fun i =>
    match s[i]? with
    | none => []
    | some c =>
      if c = 0x3A3 then
        [if finalSigma cased ign (s.take i).reverse (s.drop (i + 1)) then 0x3C2 else 0x3C3]
      else lo c

/-! ### F&O §6.1 `fn:encode-for-uri`, §6.2 `fn:iri-to-uri`, §6.3 `fn:escape-html-uri`
Each character outside the function's allowed set "is replaced by its percent-encoded form: the
character is converted to UTF-8 octets and each octet is written `%HH`" with upper-case hexadecimal
digits. -/

/-- RFC 3629 §3 UTF-8 encoding of one code point; surrogates and values above #x10FFFF have none -/
def utf8 (c : Nat) : Option (List Nat) :=
  if c < 0x80 then some [c]
  else if c < 0x800 then some [0xC0 + c / 64, 0x80 + c % 64]
  else if 0xD800 ≤ c ∧ c ≤ 0xDFFF then none
  else if c < 0x10000 then some [0xE0 + c / 4096, 0x80 + c / 64 % 64, 0x80 + c % 64]
  else if c < 0x110000 then
    some [0xF0 + c / 262144, 0x80 + c / 4096 % 64, 0x80 + c / 64 % 64, 0x80 + c % 64]
  else none

def hexDigit (n : Nat) : Nat := if n < 10 then 0x30 + n else 0x41 + (n - 10)

/-- `%HH` -/
def pct (b : Nat) : Str := [0x25, hexDigit (b / 16), hexDigit (b % 16)]

def isAlnum (c : Nat) : Bool :=
  (0x30 ≤ c && c ≤ 0x39) || (0x41 ≤ c && c ≤ 0x5A) || (0x61 ≤ c && c ≤ 0x7A)

/-- §6.1: "all characters are escaped except the unreserved characters of RFC 3986: upper- and
lower-case letters A-Z, digits 0-9, HYPHEN-MINUS, LOW LINE, FULL STOP, TILDE" -/
def unreserved (c : Nat) : Bool := isAlnum c || c == 0x2D || c == 0x5F || c == 0x2E || c == 0x7E

/-- §6.2: "all characters are escaped except printable ASCII (#x20–#x7E) … but the following
printable ASCII characters are invalid in an IRI and are escaped: `<` `>` `"` space `{` `}` `|` `\`
`^` and backtick" -/
def iriAllowed (c : Nat) : Bool :=
  0x21 ≤ c && c ≤ 0x7E &&
    !(c == 0x3C || c == 0x3E || c == 0x22 || c == 0x7B || c == 0x7D || c == 0x7C || c == 0x5C ||
      c == 0x5E || c == 0x60)

/-- §6.3: "all characters are escaped other than printable ASCII characters (codepoints 32 to 126)" -/
def htmlAllowed (c : Nat) : Bool := 32 ≤ c && c ≤ 126

def escapeChar (allowed : Nat → Bool) (c : Nat) : Except Err Str :=
  if allowed c then .ok [c]
  else match utf8 c with
    | some bs => .ok (bs.flatMap pct)
    | none => .error .encode

def escape (allowed : Nat → Bool) (s : Str) : Except Err Str :=
  (s.mapM (escapeChar allowed)).map List.flatten

def encodeForUri := escape unreserved
def iriToUri := escape iriAllowed
def escapeHtmlUri := escape htmlAllowed

/-! ### Arguments of type `xs:string?`
F&O words it per function: "If the value of `$arg` is the empty sequence, the function returns the
zero-length string" (substring, string-length → 0, normalize-space, upper-case, lower-case,
translate, encode-for-uri, iri-to-uri, escape-html-uri, substring-before/after), "the empty
sequence is interpreted as the zero-length string" (contains, starts-with, ends-with, concat),
"returns the empty sequence if either argument is the empty sequence" (compare, codepoint-equal),
`string-to-codepoints(())` is `()`.  `translate`'s 2nd/3rd argument and `string-join`'s separator
are `xs:string`: the empty sequence is a type error [err:XPTY0004]. -/

/-- "the empty sequence is interpreted as the zero-length string" -/
def orEmpty : Option Str → Str
  | none => []
  | some s => s

/-- result is the empty sequence when an argument is -/
def lift2 {α : Type} (f : Str → Str → α) : Option Str → Option Str → Option α
  | some a, some b => some (f a b)
  | _, _ => none

inductive TypeErr where
  | XPTY0004
  deriving DecidableEq, Repr

/-- an `xs:string` (not optional) argument -/
def required : Option Str → Except TypeErr Str
  | none => .error .XPTY0004
  | some s => .ok s

def fnTranslate (arg map trans : Option Str) : Except TypeErr Str := do
  let m ← required map
  let t ← required trans
  pure (translate (orEmpty arg) m t)

/-- XPath 1.0 §4.2 (and the XPath 1.0 compatibility mode of 2.0): every argument of `translate` "is
converted to a string as if by calling the string function"; the string value of an empty node-set
is the empty string (§4.2 `string`). -/
def fnTranslate10 (arg map trans : Option Str) : Str :=
  translate (orEmpty arg) (orEmpty map) (orEmpty trans)

def fnStringJoin (items : List Str) (sep : Option Str) : Except TypeErr Str := do
  let s ← required sep
  pure (stringJoin items s)

/-! ### F&O 3.1 §5.3.4 the HTML ASCII case-insensitive collation, §5.5 substring matching with a collation
"The collation is defined … comparison of two strings `$A`, `$B`: compare
`fn:translate($A, 'ABCDEFGHIJKLMNOPQRSTUVWXYZ', 'abcdefghijklmnopqrstuvwxyz')` with the same for `$B`
using the Unicode codepoint collation."  A collation unit is one code point, so the functions of §5.5
match `$arg2` against the factors of `$arg1` of the same length, unit by unit, and return parts of
the *original* `$arg1`. -/

inductive Collation where
  | codepoint | htmlAscii
  deriving DecidableEq, Repr

def upperAZ : Str := List.range' 65 26
def lowerAZ : Str := List.range' 97 26

def htmlFold (s : Str) : Str := translate s upperAZ lowerAZ

/-- the string whose code points are compared under the collation -/
def collKey : Collation → Str → Str
  | .codepoint, s => s
  | .htmlAscii, s => htmlFold s

def compareC (col : Collation) (a b : Str) : Int := compare (collKey col a) (collKey col b)

def firstOccC (col : Collation) (s t : Str) : Option Nat := firstOcc (collKey col s) (collKey col t)

def containsC (col : Collation) (s t : Str) : Bool := (firstOccC col s t).isSome

def startsWithC (col : Collation) (s t : Str) : Bool := startsWith (collKey col s) (collKey col t)

def endsWithC (col : Collation) (s t : Str) : Bool := endsWith (collKey col s) (collKey col t)

def substringBeforeC (col : Collation) (s t : Str) : Str :=
  match firstOccC col s t with
  | none => []
  | some i => s.take i

def substringAfterC (col : Collation) (s t : Str) : Str :=
  match firstOccC col s t with
  | none => []
  | some i => s.drop (i + t.length)

/-! ### F&O 3.1 §5.4.? `fn:contains-token`
"Leading and trailing whitespace is trimmed from the supplied value of `$token`. If the trimmed value
is a zero-length string, the function returns false.  The function returns true if and only if there
is a string in `$input` which, after tokenizing at whitespace boundaries, contains a token that is
equal to the trimmed value of `$token` under the rules of the selected collation":
`some $t in $input ! fn:tokenize(.) satisfies compare($t, trim($token), $collation) eq 0`, where
`fn:tokenize($s)` is `fn:tokenize(fn:normalize-space($s), ' ')` (the empty sequence for `''`). -/

/-- `fn:tokenize($s, ' ')` for a non-empty `$s`: split at every single space -/
def splitSpace : Str → List Str
  | [] => [[]]
  | c :: cs =>
    match splitSpace cs with
    | [] => [[]]
    | w :: ws => if c = 0x20 then [] :: w :: ws else (c :: w) :: ws

/-- `fn:tokenize($s)` (one argument) -/
def tokenize1 (s : Str) : List Str :=
  match normalizeSpace s with
  | [] => []
  | ns => splitSpace ns

def containsToken (col : Collation) (input : List Str) (token : Str) : Bool :=
  let tok := trim token
  if tok.isEmpty then false
  else input.any fun s => (tokenize1 s).any fun t => compareC col t tok == 0

/-! ### XPath 1.0 §4.2 `string()` of a number or boolean (the conversion applied to every non-string
argument of the 1.0 string functions)
"NaN is converted to the string NaN; positive zero and negative zero to 0; positive infinity to
Infinity, negative infinity to -Infinity; if the number is an integer, the number is represented in
decimal form as a Number with no decimal point and no leading zeros, preceded by a minus sign if the
number is negative; otherwise, the number is represented in decimal form as a Number including a
decimal point with at least one digit before the decimal point and at least one digit after the
decimal point, preceded by a minus sign if negative; there must be no leading zeros before the decimal
point apart possibly from the one required digit immediately before the decimal point; beyond the one
required digit after the decimal point there must be as many, but only as many, more digits as are
needed to uniquely distinguish the number from all other IEEE 754 numeric values."  The boolean false
value is converted to the string false, true to true.

A finite number is given by its decimal digits: `digits = [d1, …, dn]` and the position of the point
`dot`, value `0.d1…dn × 10^dot`.  For a double the digits are the shortest digit string that
distinguishes it (the last clause of the quotation); they are an input here (computed by the
platform's `dtoa`, trusted). -/

inductive NumArg where
  | bool (b : Bool)
  | int (v : Int)
  /-- `decimal.Decimal`: sign, coefficient digits, exponent (value `digits × 10^exp`) -/
  | dec (neg : Bool) (digits : List Nat) (exp : Int)
  | fnan
  | finf (neg : Bool)
  /-- finite float: sign, shortest round-trip digits, decimal point position -/
  | flt (neg : Bool) (digits : List Nat) (decpt : Int)
  deriving DecidableEq, Repr

def digitChars (ds : List Nat) : Str := ds.map (0x30 + ·)

def natDigits (n : Nat) : List Nat := (Nat.toDigits 10 n).map fun c => c.toNat - 0x30

def zeros (n : Nat) : List Nat := List.replicate n 0

def stripLeadingZeros (ds : List Nat) : List Nat := ds.dropWhile (· == 0)
def stripTrailingZeros (ds : List Nat) : List Nat := (ds.reverse.dropWhile (· == 0)).reverse

/-- canonical XPath 1.0 text of the non-negative value `0.d1…dn × 10^dot` with sign `neg` -/
def canonNumber (neg : Bool) (digits : List Nat) (dot : Int) : Str :=
  let lead := (digits.takeWhile (· == 0)).length
  let ds := stripTrailingZeros (stripLeadingZeros digits)
  let dot := dot - lead
  if ds.isEmpty then [0x30]        -- positive and negative zero
  else
    let sign : Str := if neg then [0x2D] else []
    let n := ds.length
    if dot ≥ n then sign ++ digitChars (ds ++ zeros (dot - n).toNat)          -- an integer
    else if dot ≤ 0 then sign ++ [0x30, 0x2E] ++ digitChars (zeros (-dot).toNat ++ ds)
    else sign ++ digitChars (ds.take dot.toNat) ++ [0x2E] ++ digitChars (ds.drop dot.toNat)

def xp1String : NumArg → Str
  | .bool true => [116, 114, 117, 101]
  | .bool false => [102, 97, 108, 115, 101]
  | .int v => (if v < 0 then [0x2D] else []) ++ digitChars (natDigits v.natAbs)
  | .dec neg digits exp => canonNumber neg digits (digits.length + exp)
  | .fnan => [78, 97, 78]
  | .finf false => [73, 110, 102, 105, 110, 105, 116, 121]
  | .finf true => [0x2D, 73, 110, 102, 105, 110, 105, 116, 121]
  | .flt neg digits decpt => canonNumber neg digits decpt

/-! ### The default collation (XPath 3.1 §2.1.1 static context; F&O §5.3.1 "Choosing a collation")
"If the function specifies an explicit collation … otherwise the default collation from the static
context is used."  The 2-argument forms of contains, starts-with, ends-with, substring-before,
substring-after and compare are the 3-argument forms with the static default substituted. -/

def chosenCollation (default : Collation) (arg : Option Collation) : Collation :=
  match arg with
  | some c => c
  | none => default

/-! ### Repeated evaluation (XPath 3.1 §3.9 `for`)
`for $x in X, $y in Y return f($x, $y)` is the concatenation, in order, of the results of `f` on every
pair: every call is evaluated on its own bindings only. -/

def forProduct2 {α : Type} (f : Str → Str → α) (xs ys : List Str) : List α :=
  xs.flatMap fun x => ys.map fun y => f x y

def forProduct3 {α : Type} (f : Str → Str → Str → α) (xs ys zs : List Str) : List α :=
  xs.flatMap fun x => ys.flatMap fun y => zs.map fun z => f x y z

/-! ### Final_Sigma, literal reading of Unicode Table 3-17
"C is preceded by a sequence consisting of a cased letter and then zero or more case-ignorable
characters" = there is a split `before = pre ++ [x] ++ ys` with `x` Cased and every `ys` Case_Ignorable;
"C is not followed by a sequence consisting of zero or more case-ignorable characters and then a cased
letter".  (The executable forms below decide exactly these existential statements, going outwards
from C.)  The reading used by ICU and CPython (`finalSigma`: skip the case-ignorables, then test Cased)
differs from it only on characters that are both Cased and Case_Ignorable. -/

/-- `xs` = the characters next to C, nearest first: does `xs = ys ++ x :: _` hold with all `ys`
Case_Ignorable and `x` Cased? -/
def reachesCased (cased ign : Nat → Bool) : Str → Bool
  | [] => false
  | x :: rest => cased x || (ign x && reachesCased cased ign rest)

def finalSigmaLiteral (cased ign : Nat → Bool) (revBefore after : Str) : Bool :=
  reachesCased cased ign revBefore && !reachesCased cased ign after

def lowerCaseLiteral (lo : Nat → Str) (cased ign : Nat → Bool) (s : Str) : Str :=
  (List.range s.length).flatMap fun i =>
    match s[i]? with
    | none => []
    | some c =>
      if c = 0x3A3 then
        [if finalSigmaLiteral cased ign (s.take i).reverse (s.drop (i + 1)) then 0x3C2 else 0x3C3]
      else lo c

/-! ### `fn:codepoints-to-string` on arbitrary items (function conversion rules, XPath 3.1 §3.1.5.2)
An `xs:untypedAtomic` item is cast to `xs:integer` ([err:FORG0001] if its lexical form is not an
integer); any other item that is not an `xs:integer` is a type error [err:XPTY0004]. -/

inductive CpItem where
  | int (v : Int)
  /-- an untyped item (or a node, atomized): the integer its lexical form denotes, if any -/
  | untyped (v : Option Int)
  | bool
  | str
  /-- any other atomic value (xs:double, xs:decimal with a fraction, …) -/
  | other
  deriving DecidableEq, Repr

inductive CpErr where
  | FOCH0001 | XPTY0004 | FORG0001 | FORG0006
  deriving DecidableEq, Repr

def cpItemValue : CpItem → Except CpErr Int
  | .int v => .ok v
  | .untyped (some v) => .ok v
  | .untyped none => .error .FORG0001
  | .bool => .error .XPTY0004
  | .str => .error .XPTY0004
  | .other => .error .XPTY0004

/-- items are converted and checked in sequence order; the first error is reported -/
def codepointsToStringItems : List CpItem → Except CpErr Str
  | [] => .ok []
  | it :: rest =>
    match cpItemValue it with
    | .error e => .error e
    | .ok v =>
      if IsXmlChar v then
        match codepointsToStringItems rest with
        | .ok r => .ok (v.toNat :: r)
        | .error e => .error e
      else .error .FOCH0001

end EPV.FOStrings

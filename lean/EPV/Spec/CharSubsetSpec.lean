/-
Specification of the character-subset strings accepted by `UnicodeSubset.update(str)`:
the positive character group of XSD 1.1 part 2 appendix G (`posCharGroup ::= (charRange |
charClassEsc)+`, `seRange ::= charOrEsc '-' charOrEsc`, `SingleCharEsc ::= '\' [-|.^?*+{}()\[\]\\…]`),
restricted to single characters, ranges and single-character escapes.  Written from the grammar,
independently of the Python parser: first tokenise into atoms, then read `a '-' b` as a range.
A hyphen directly after a range is a literal hyphen.  `none` = not in the (modelled) grammar.
-/
import EPV.Model.CharSubsetParse
namespace EPV.USet

/-- atoms: (code point, was it written with a backslash) -/
def groupAtoms : List Nat → Option (List (Nat × Bool))
  | [] => some []
  | [92] => none
  | 92 :: c :: rest =>
    if isEscapable c || c == 92 then (groupAtoms rest).map ((c, true) :: ·) else none
  | c :: rest => if isBracket c then none else (groupAtoms rest).map ((c, false) :: ·)

def specGroupGo : Bool → List (Nat × Bool) → Option (List CP)
  | _, [] => some []
  | true, (45, false) :: rest => (specGroupGo false rest).map (.one 45 :: ·)   -- hyphen right after a range
  | _, a :: (45, false) :: b :: rest =>
    if a.1 > b.1 then none else (specGroupGo true rest).map (.rng a.1 (b.1 + 1) :: ·)
  | _, a :: rest => (specGroupGo false rest).map (.one a.1 :: ·)

/-- the set of code points denoted by a character-subset string -/
def specGroup (s : List Nat) : Option (List CP) := (groupAtoms s).bind (specGroupGo false)

end EPV.USet

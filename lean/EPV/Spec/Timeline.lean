/-
Specification for C11: the proleptic Gregorian timeline of XSD 1.1 Part 2 (§3.3.7 dateTime,
§D.2.1 "the seven-property model", §E.3.2 `daysInMonth`, §E.3.4 `timeOnTimeline`) and
F&O 3.1 §9 (comparison and arithmetic on durations, dates and times).

Written independently of the model (EPV/Model/Calendar.lean); core Lean only.

* Years are *astronomical*: 1 is 1 CE, 0 is 1 BCE, -1 is 2 BCE (the XSD 1.1 `year` property).
  XSD 1.0 has no year 0: its lexical year `-n` is n BCE, i.e. astronomical `1 - n`
  (`astroOfLex10`); XSD 1.1 lexical years are astronomical (`astroOfLex11`).
* The day number of a date is defined **definitionally** as the sum of the lengths of the years
  and months that precede it (`daysBeforeYear`, `daysBeforeMonth`): no closed form, no division.
* `instant` = µs since 0001-01-01T00:00:00Z; a value without timezone is placed as if UTC
  (F&O: the implicit timezone, here Z, which is what the library's comparison uses by default).
* Executable counterparts used by the driver (`daysBeforeYearC`, `civil`) are closed forms;
  EPV/Lemmas/CalendarSpec.lean proves them equal to / inverse of the definitional ones.
-/
namespace EPV.Timeline

abbrev US : Int := 86400000000
abbrev UM : Int := 60000000

/-- XSD 1.1 §E.3.2: February has 29 days when the year is divisible by 400, or by 4 and not by 100 -/
def isLeap (a : Int) : Bool := a % 400 == 0 || (a % 4 == 0 && a % 100 != 0)

def yearLen (a : Int) : Int := if isLeap a then 366 else 365

/-- `daysInMonth(y, m)` of XSD 1.1 §E.3.2 -/
def monthLen (a : Int) (m : Int) : Int :=
  if m = 2 then (if isLeap a then 29 else 28)
  else if m = 4 ∨ m = 6 ∨ m = 9 ∨ m = 11 then 30
  else 31

/-- `yearLen 1 + … + yearLen n` -/
def sumYearsUp : Nat → Int
  | 0 => 0
  | n + 1 => sumYearsUp n + yearLen (n + 1)

/-- `yearLen 0 + yearLen (-1) + … + yearLen (-(n-1))` -/
def sumYearsDown : Nat → Int
  | 0 => 0
  | n + 1 => sumYearsDown n + yearLen (-(n : Int))

/-- days from 0001-01-01 to the 1st of January of astronomical year `a` (negative before year 1) -/
def daysBeforeYear (a : Int) : Int :=
  if a ≥ 1 then sumYearsUp (a - 1).toNat else -sumYearsDown (1 - a).toNat

/-- `monthLen a 1 + … + monthLen a k` -/
def sumMonths (a : Int) : Nat → Int
  | 0 => 0
  | k + 1 => sumMonths a k + monthLen a (k + 1)

def daysBeforeMonth (a m : Int) : Int := sumMonths a (m - 1).toNat

/-- day number of the date, 0001-01-01 is day 0 -/
def dayNum (a m d : Int) : Int := daysBeforeYear a + daysBeforeMonth a m + (d - 1)

/-- a date/time value in the seven-property model (second and fraction merged into µs of the day) -/
structure Val where
  year : Int          -- astronomical
  month : Int
  day : Int
  us : Int            -- µs since midnight
  tz : Option Int     -- minutes
  deriving DecidableEq, Repr, Inhabited

def Val.Valid (v : Val) : Prop :=
  1 ≤ v.month ∧ v.month ≤ 12 ∧ 1 ≤ v.day ∧ v.day ≤ monthLen v.year v.month ∧ 0 ≤ v.us ∧ v.us < US

instance (v : Val) : Decidable v.Valid := by unfold Val.Valid; exact inferInstance

/-- local time on the timeline (µs since 0001-01-01T00:00:00 in the value's own timezone) -/
def Val.localT (v : Val) : Int := dayNum v.year v.month v.day * US + v.us

/-- `timeOnTimeline` (XSD 1.1 §E.3.4) in µs, implicit timezone UTC -/
def Val.instant (v : Val) : Int :=
  v.localT - (match v.tz with | none => 0 | some z => z * UM)

/-! ### lexical year ↔ astronomical year -/

/-- XSD 1.0 (§3.2.7.1, no year zero, `-0001` is 1 BCE) -/
def astroOfLex10 (n : Int) : Option Int := if n = 0 then none else some (if n < 0 then n + 1 else n)
/-- XSD 1.1 (§3.3.7.2: `0000` is 1 BCE) -/
def astroOfLex11 (n : Int) : Option Int := some n
def lex10OfAstro (a : Int) : Int := if a ≤ 0 then a - 1 else a
def lex11OfAstro (a : Int) : Int := a

/-! ### executable closed forms (proved equal to the definitions in Lemmas/CalendarSpec.lean) -/

def daysBeforeYearC (a : Int) : Int :=
  365 * (a - 1) + (a - 1) / 4 - (a - 1) / 100 + (a - 1) / 400

def daysBeforeMonthC (a m : Int) : Int :=
  let l : Int := if isLeap a then 1 else 0
  if m ≤ 1 then 0 else if m = 2 then 31 else if m = 3 then 59 + l else if m = 4 then 90 + l
  else if m = 5 then 120 + l else if m = 6 then 151 + l else if m = 7 then 181 + l
  else if m = 8 then 212 + l else if m = 9 then 243 + l else if m = 10 then 273 + l
  else if m = 11 then 304 + l else 334 + l

def dayNumC (a m d : Int) : Int := daysBeforeYearC a + daysBeforeMonthC a m + (d - 1)

/-- the year containing day number `n`: an estimate from the mean year length, corrected by at most one -/
def yearOfDay (n : Int) : Int :=
  let a := (n * 400) / 146097 + 1
  if daysBeforeYearC (a + 1) ≤ n then a + 1 else if daysBeforeYearC a ≤ n then a else a - 1

/-- month and day of the 0-based day-of-year `r`, by walking the months from `m` (fuel = months left) -/
def monthOfDoy (a : Int) : Nat → Int → Int → Int × Int
  | 0, m, r => (m, r + 1)
  | k + 1, m, r => if r < monthLen a m then (m, r + 1) else monthOfDoy a k (m + 1) (r - monthLen a m)

/-- (year, month, day) of day number `n` -/
def civil (n : Int) : Int × Int × Int :=
  let a := yearOfDay n
  let (m, d) := monthOfDoy a 11 1 (n - daysBeforeYearC a)
  (a, m, d)

/-- the value with timezone `tz` whose local time on the timeline is `t` -/
def ofLocal (t : Int) (tz : Option Int) : Val :=
  let (a, m, d) := civil (t / US)
  ⟨a, m, d, t % US, tz⟩

/-- `instant` through the closed forms (what the driver evaluates) -/
def Val.localC (v : Val) : Int := dayNumC v.year v.month v.day * US + v.us
def Val.instantC (v : Val) : Int := v.localC - (match v.tz with | none => 0 | some z => z * UM)

/-- the instant under an implicit timezone of `itz` minutes (F&O 3.1 §9.2/§9.4: a value without timezone
is compared using the implicit timezone of the dynamic context) -/
def Val.instantI (itz : Int) (v : Val) : Int :=
  (dayNumC v.year v.month v.day * US + v.us) - (match v.tz with | none => itz | some z => z) * UM

/-! ### operations (F&O 3.1 §9) -/

/-- `op:add-dayTimeDuration-to-dateTime`: same timezone, instant moved by `dur` -/
def addDur (v : Val) (dur : Int) : Val := ofLocal (v.localC + dur) v.tz

/-- `op:add-dayTimeDuration-to-date` (§9.7.?): the date part of the dateTime `v`T00:00:00 + dur -/
def addDurDate (v : Val) (dur : Int) : Val := { ofLocal (v.localC + dur) v.tz with us := 0 }

/-- `op:add-yearMonthDuration-to-dateTime` (XSD 1.1 §E.3.3 dateTimePlusDuration): month arithmetic on
the astronomical year, day clamped to the length of the target month -/
def addYM (v : Val) (months : Int) : Val :=
  let t := v.year * 12 + (v.month - 1) + months
  let a := t / 12
  let m := t % 12 + 1
  { v with year := a, month := m, day := min v.day (monthLen a m) }

/-- `op:subtract-dateTimes`: elapsed µs -/
def diff (a b : Val) : Int := a.instantC - b.instantC

/-- `fn:adjust-dateTime-to-timezone` (§9.6.1) -/
def adjust (v : Val) (tz : Option Int) : Val :=
  match v.tz, tz with
  | some _, some z => ofLocal (v.instantC + z * UM) (some z)
  | _, _ => { v with tz := tz }

/-- `fn:adjust-date-to-timezone` (§9.6.2): the date is treated as the dateTime `00:00:00` of that day,
adjusted, and the date part is kept -/
def adjustDate (v : Val) (tz : Option Int) : Val :=
  match v.tz, tz with
  | some _, some z => { ofLocal ({ v with us := 0 }.instantC + z * UM) (some z) with us := 0 }
  | _, _ => { v with tz := tz }

/-- value of the lexical form `(year, month, day, hh:mm:ss.µs)` where `24:00:00` is the first instant
of the following day (XSD 1.1 §3.3.7.2) -/
def ofFields (a m d h mi s us : Int) (tz : Option Int) : Val :=
  if h = 24 then ofLocal (dayNumC a m d * US + US) tz
  else ⟨a, m, d, ((h * 60 + mi) * 60 + s) * 1000000 + us, tz⟩

/-- F&O §9.5: the components of the local value; the year in the lexical numbering of the XSD version -/
def components (v11 : Bool) (v : Val) : List Int :=
  [if v11 then lex11OfAstro v.year else lex10OfAstro v.year, v.month, v.day,
   v.us / 3600000000, v.us / 60000000 % 60, v.us % 60000000]

/-! ### xs:time (F&O 3.1 §9.4.? time comparison on a common reference day, §9.7 arithmetic, §9.6.3 adjust) -/

/-- a time value: µs since midnight and an optional timezone -/
structure TVal where
  us : Int
  tz : Option Int
  deriving DecidableEq, Repr, Inhabited

/-- position of the time on the common reference day, implicit timezone `itz` minutes -/
def TVal.key (itz : Int) (t : TVal) : Int := t.us - (match t.tz with | none => itz | some z => z) * UM

/-- `op:add-dayTimeDuration-to-time`: the time of day moved by the duration, modulo 24 h, same timezone -/
def TVal.add (t : TVal) (dur : Int) : TVal := ⟨(t.us + dur) % US, t.tz⟩

/-- `fn:adjust-time-to-timezone` -/
def TVal.adjust (t : TVal) (tz : Option Int) : TVal :=
  match t.tz, tz with
  | some z0, some z => ⟨(t.us + (z - z0) * UM) % US, some z⟩
  | _, _ => ⟨t.us, tz⟩

/-- `op:subtract-times` -/
def TVal.diff (itz : Int) (a b : TVal) : Int := a.key itz - b.key itz

/-! ### arithmetic on durations (F&O 3.1 §8.4) -/

/-- `fn:round` of the rational `num / den` (`den > 0`): nearest integer, ties towards positive infinity;
computed from the floor quotient and the remainder -/
def roundHalfUp (num den : Int) : Int :=
  let q := num / den
  if 2 * (num - q * den) ≥ den then q + 1 else q

/-- `r` is `fn:round (num / den)` -/
def IsRoundHalfUp (num den r : Int) : Prop := 2 * (r * den) - den ≤ 2 * num ∧ 2 * num < 2 * (r * den) + den

/-- `r` is a nearest integer of `num / den`, the even one on a tie -/
def IsRoundHalfEven (num den r : Int) : Prop :=
  -den ≤ 2 * (num - r * den) ∧ 2 * (num - r * den) ≤ den ∧
  ((2 * (num - r * den) = den ∨ 2 * (num - r * den) = -den) → r % 2 = 0)

/-- nearest integer of `num / den` (`den > 0`), ties to even, by comparing the distances to the two
neighbouring integers -/
def roundNearestEven (num den : Int) : Int :=
  let lo := num / den
  let dlo := num - lo * den          -- distance to lo (times den)
  let dhi := (lo + 1) * den - num    -- distance to lo + 1
  if dlo < dhi then lo else if dhi < dlo then lo + 1 else if lo % 2 = 0 then lo else lo + 1

/-- order of durations (XSD 1.1 §3.3.6.2): `d1 op d2` holds iff `t + d1 op t + d2` for each of the four
reference dateTimes 1696-09-01T00:00:00Z, 1697-02-01T00:00:00Z, 1903-03-01T00:00:00Z, 1903-07-01T00:00:00Z;
a duration is (months, µs) -/
def durationCmp (op : Int → Int → Bool) (m1 s1 m2 s2 : Int) : Bool :=
  let refs : List Val := [⟨1696, 9, 1, 0, some 0⟩, ⟨1697, 2, 1, 0, some 0⟩, ⟨1903, 3, 1, 0, some 0⟩, ⟨1903, 7, 1, 0, some 0⟩]
  refs.all fun t => op ((addYM t m1).instantC + s1) ((addYM t m2).instantC + s2)

end EPV.Timeline

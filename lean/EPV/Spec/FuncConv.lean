/-
C18 — specification of the FUNCTION CONVERSION RULES, XPath 3.1 §3.1.5.2 (XPath 1.0 compatibility mode off).

"The function conversion rules are used to convert an argument value to its expected type":
  * If the expected type is a sequence of a generalized atomic type (possibly with an occurrence indicator):
      1. atomization (§2.6.2, fn:data) is applied to the given value: an atomic value stays, a node gives its typed
         value (without a schema: xs:untypedAtomic for document / element / attribute / text nodes, xs:string for comment /
         processing-instruction / namespace nodes — XDM 3.1 §6.x.2 dm:typed-value), an array gives the atomization of its
         members, any other function item (a map too) raises err:FOTY0013;
      2. each item of the atomized sequence that is of type xs:untypedAtomic is cast to the expected generalized atomic
         type (err:XPTY0117 if that type is namespace-sensitive: xs:QName, xs:NOTATION);
      3. numeric items that can be promoted to the expected atomic type (B.1 Type Promotion: xs:float → xs:double,
         xs:decimal → xs:float, xs:decimal → xs:double, including the types derived from the source) are promoted;
      4. xs:anyURI items are promoted to xs:string when that is the expected type (B.1 URI promotion).
  * (function coercion, for a TypedFunctionTest: not specified here — see `funcItemTestArg`.)
  * "If, after the above conversions, the resulting value does not match the expected type according to the rules for
    SequenceType Matching, a type error is raised [err:XPTY0004]."

The cast of an xs:untypedAtomic (F&O 3.1 §19) is a parameter: values are abstracted to their class, `cast c t` is the class
of the value cast to the atomic type `t` (`c` itself when the cast fails: the value then cannot match and the conversion
is an error; the model has one "type error" code, the code of a failing cast — FORG0001 — is not compared).  Promotions
never fail: their result is a value of exactly the expected type (`clsOf`).
Only the data types `Ty`, `Item` and the specification `specMatch` / `derives` of `Spec/XPathTypes.lean` are used; none of
the model's functions.
-/
import EPV.Spec.XPathTypes
namespace EPV.SeqType

/-- what the rules delegate: the cast of F&O §19 on classes, and the class of the typed value of a schemaless node -/
structure ConvCfg where
  /-- class of an xs:untypedAtomic value of class `c` cast to the atomic type `t` (`c` when the cast fails: it depends
  on the value) -/
  cast : Nat → Nat → Nat
  /-- class of the typed value of a schemaless node of the given kind -/
  nodeCls : Kind → Nat
  /-- the class of the values whose dynamic type is exactly the given type: a promotion (B.1) never fails and its result
  has exactly the expected type -/
  clsOf : XsdT → Nat

mutual
/-- fn:data (§2.6.2) of one item; `none` = err:FOTY0013 -/
def specData (cfg : ConvCfg) : Item → Option (List Item)
  | .atom c => some [.atom c]
  | .node k _ _ _ => some [.atom (cfg.nodeCls k)]
  | .func _ _ => none
  | .map _ => none
  | .array ms => specDataMs cfg ms
def specDataMs (cfg : ConvCfg) : List (List Item) → Option (List Item)
  | [] => some []
  | m :: ms => match specDataSeq cfg m, specDataMs cfg ms with
    | some a, some b => some (a ++ b)
    | _, _ => none
def specDataSeq (cfg : ConvCfg) : List Item → Option (List Item)
  | [] => some []
  | x :: xs => match specData cfg x, specDataSeq cfg xs with
    | some a, some b => some (a ++ b)
    | _, _ => none
end

/-- rules 2-4 for one atomic item of class `c` against the expected atomic type `t`; `none` = err:XPTY0117.
An item that already is an instance of the expected type is not touched (nothing of 2-4 applies to it, except for an
xs:untypedAtomic against xs:untypedAtomic / xs:anyAtomicType, where the cast is the identity / not defined). -/
def specConvCls (st : SpecTables) (cfg : ConvCfg) (t c : Nat) : Option Nat :=
  match st.clsTy c, st.atomTy t with
  | some d, some e =>
    if derives d e then some c
    else if d == .untypedAtomic then
      (if e == .QName || e == .NOTATION then none else some (cfg.cast c t))          -- rule 2
    else if e == .double && (derives d .float || derives d .decimal) then some (cfg.clsOf .double)   -- rule 3
    else if e == .float && derives d .decimal then some (cfg.clsOf .float)            -- rule 3
    else if e == .string && derives d .anyURI then some (cfg.clsOf .string)           -- rule 4
    else some c
  | _, _ => some c

def specConvItem (st : SpecTables) (cfg : ConvCfg) (t : Nat) : Item → Option Item
  | .atom c => (specConvCls st cfg t c).map Item.atom
  | _ => none                       -- cannot occur after atomization

def specConvItems (st : SpecTables) (cfg : ConvCfg) (t : Nat) : List Item → Option (List Item)
  | [] => some []
  | x :: xs => match specConvItem st cfg t x, specConvItems st cfg t xs with
    | some a, some b => some (a :: b)
    | _, _ => none

/-- **the function conversion rules** for an expected type that is no typed function test: the converted value, or
`none` = a type error (XPTY0004, FOTY0013, XPTY0117, or the error of a failing cast).  `xs:numeric` (a union type) is
left to plain matching here: its rule 2 (cast to xs:double) is modelled (`castNumRow`) but not specified. -/
def specConvert (st : SpecTables) (sub : Ty → Ty → Bool) (cfg : ConvCfg) (T : Ty) (v : List Item) : Option (List Item) :=
  match T with
  | .leaf (.atomic t) _ =>
    match specDataSeq cfg v with
    | none => none
    | some d => match specConvItems st cfg t d with
      | none => none
      | some d' => if specMatch st sub T d' then some d' else none
  | T => if specMatch st sub T v then some v else none

end EPV.SeqType

/-
C02 (phase 5) — XDM 3.1 §5 accessors / XPath 3.1 §3.3.2.1 axes on the item list of the spec
(`Spec/XDMTree.lean`): dm:parent, dm:children (attribute and namespace nodes are not children),
ancestor axis (transitive closure of parent, in document order), fn:root, descendant-or-self axis
(transitive closure of child).  Independent of the model: everything is a filter over the indices.
-/
import EPV.Spec.XDMTree
namespace EPV.XDM
open EPV.Builder

def isChildKind (k : Kind) : Bool := k != .namespace && k != .attribute

def specParent (items : List Item) (k : Nat) : Option Nat := (items[k]?).bind (·.parent)

def specChildren (items : List Item) (k : Nat) : List Nat :=
  select items.length fun j => match items[j]? with
    | some it => it.parent == some k && isChildKind it.kind
    | none => false

/-- ancestor axis, document order -/
def specAncestors (items : List Item) (k : Nat) : List Nat :=
  select items.length fun a => isAncestor items a k items.length

/-- descendant-or-self axis, document order -/
def specDescOrSelf (items : List Item) (k : Nat) : List Nat :=
  select items.length fun j => j == k ||
    (isAncestor items k j items.length && ((items[j]?.map fun it => isChildKind it.kind).getD false))

end EPV.XDM

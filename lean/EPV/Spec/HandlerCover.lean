/-
C03 — static exception closure of the arithmetic `try` blocks (written from the Python library
reference: built-in exception hierarchy, `decimal` signals, `int()/float()/math.*` errors).
Core Lean only.

For every `try … except` of the operator / function modules whose body contains arithmetic
(`/ // % **`, `int() float() Decimal() math.*`; generated table `EPV.Gen.C03.tryTable`), every
exception class the standard library can raise from that operation must be caught by one of the
handlers — or be one of the `knownGaps` of the reference tree (a static over-approximation: several are
unreachable, several are the escapes of finding F03h).  A class dropped from a handler (e.g.
`InvalidOperation` from `idiv`'s `except (OverflowError, InvalidOperation)`) breaks
`EPV.C03.arith_handlers_cover_partial` and sends the check into its failing-input search.
-/
import EPV.Model.XPathError
namespace EPV.C03Cover
open EPV.XErr

/-- class ↦ direct bases (Python 3.12 built-ins and `decimal`) -/
def pyGraph : Graph := [
  ("ZeroDivisionError", ["ArithmeticError"]), ("OverflowError", ["ArithmeticError"]),
  ("FloatingPointError", ["ArithmeticError"]), ("DecimalException", ["ArithmeticError"]),
  ("InvalidOperation", ["DecimalException"]), ("DivisionByZero", ["DecimalException", "ZeroDivisionError"]),
  ("Overflow", ["DecimalException"]), ("ArithmeticError", ["Exception"]), ("ValueError", ["Exception"]),
  ("TypeError", ["Exception"]), ("LookupError", ["Exception"]), ("IndexError", ["LookupError"]),
  ("KeyError", ["LookupError"]), ("UnicodeError", ["ValueError"]), ("Exception", ["BaseException"])]

/-- what the standard library may raise from one operation kind (operands may be `int`, `float`,
`Decimal`): `Decimal` division signals InvalidOperation (DivisionImpossible / DivisionUndefined) and
DivisionByZero; `int()/float()/math.*` raise ValueError / OverflowError -/
def raisable : String → List String
  | "div" | "floordiv" | "mod" => ["ZeroDivisionError", "InvalidOperation"]
  | "pow" => ["ZeroDivisionError", "OverflowError", "InvalidOperation"]
  | "int()" | "float()" | "math()" => ["ValueError", "OverflowError"]
  | "Decimal()" => ["InvalidOperation"]
  | _ => []

def covers (handlers : List String) (cls : String) : Bool :=
  handlers.any fun h => isSubclass pyGraph h pyGraph.length cls

/-- (function, operation kind, class) not caught on the reference tree -/
def knownGaps : List (String × String × String) := [
  ("evaluate__avg", "div", "InvalidOperation"),
  ("evaluate__avg", "div", "ZeroDivisionError"),
  ("evaluate__avg", "float()", "OverflowError"),
  ("evaluate__avg", "float()", "ValueError"),
  ("evaluate__ceiling_and_floor_functions", "math()", "OverflowError"),
  ("evaluate__ceiling_and_floor_functions", "math()", "ValueError"),
  ("evaluate__div_operator", "Decimal()", "InvalidOperation"),
  ("evaluate__div_operator", "div", "InvalidOperation"),
  ("evaluate__idiv_operator", "int()", "ValueError"),
  ("evaluate__idiv_operator", "math()", "OverflowError"),
  ("evaluate__idiv_operator", "math()", "ValueError"),
  ("evaluate__mod_operator", "math()", "OverflowError"),
  ("evaluate__mod_operator", "math()", "ValueError"),
  ("evaluate__pow", "float()", "OverflowError"),
  ("evaluate__pow", "float()", "ValueError"),
  ("evaluate__pow", "pow", "InvalidOperation"),
  ("evaluate__pow", "pow", "OverflowError"),
  ("evaluate__pow", "pow", "ZeroDivisionError"),
  ("evaluate__round_half_to_even", "float()", "ValueError"),
  ("evaluate__substring", "math()", "OverflowError"),
  ("evaluate__substring", "math()", "ValueError"),
  -- helper `double` of numeric_equal_promoted (xpath2/_xpath2_functions.py, added by a C08 fix): float(x)
  -- of a numeric operand, only OverflowError handled; ValueError needs a non-numeric x: unreachable
  ("double", "float()", "ValueError"),
  -- math:exp after the `fix:` that returns INF on overflow: math.exp raises ValueError for no float
  ("evaluate__exp", "math()", "ValueError"),
  -- fn:codepoints-to-string: int(UntypedAtomic) goes through int(str): ValueError only (handled)
  ("evaluate__codepoints_to_string", "int()", "OverflowError"),
  -- idiv on doubles: float(op) of an operand already known to be numeric: no ValueError
  ("evaluate__idiv_operator", "float()", "ValueError")]

/-- one generated row: file, function, operation kinds in the `try` body, handler classes -/
abbrev TryRow := String × String × List String × List String

def rowOK (r : TryRow) : Bool :=
  r.2.2.1.all fun k => (raisable k).all fun cls =>
    covers r.2.2.2 cls || knownGaps.contains (r.2.1, k, cls)

/-- the rows that are NOT covered (printed by the harness when the theorem breaks) -/
def uncovered (t : List TryRow) : List (String × String × String) :=
  t.flatMap fun r => r.2.2.1.flatMap fun k => ((raisable k).filter fun cls =>
    !(covers r.2.2.2 cls || knownGaps.contains (r.2.1, k, cls))).map fun cls => (r.2.1, k, cls)

/-! ## conversions, encodings and table look-ups with NO enclosing handler

`int()/float()/Decimal()` calls, `.encode()/.decode()`/`codecs.*` calls and subscript look-ups in the
per-call tables (`namespaces`, `variables`, `documents`, `collections`, `text_resources`, `symbol_table`,
`decimal_formats`, `variable_types`) that sit in an `evaluate…/select…/cast…/nud…/led…` method of the
operator / function / token modules and are NOT inside the body of any `try` with handlers of that
method (generated table `EPV.Gen.C03.unguardedSites`).  Each is a place where ValueError /
OverflowError / InvalidOperation / UnicodeError / KeyError can leave the method unless the operand's
type or the key has been checked before.  The baseline below is the reviewed state of the reference
tree; a new unguarded site breaks `EPV.C03.unguarded_sites_baseline`. -/
def unguardedBaseline : List (String × String × String) := [
  ("xpath1/_xpath1_operators.py", "evaluate__div_operator", "float()"),          -- operands are numeric (ArithmeticProxy)
  ("xpath2/_xpath2_constructors.py", "cast__numeric_types", "Decimal()"),        -- Decimal(0): a constant argument cannot raise (b5fb608)
  ("xpath2/_xpath2_functions.py", "evaluate__avg", "Decimal()"),                 -- Decimal(len(values)) / Decimal(int)
  ("xpath2/_xpath2_functions.py", "evaluate__avg", "int()"),
  ("xpath2/_xpath2_functions.py", "evaluate__codepoints_to_string", "int()"),    -- F03g: int(UntypedAtomic('x')) -> ValueError
  ("xpath2/_xpath2_functions.py", "evaluate__days_from_duration", "int()"),      -- int of a Decimal component
  ("xpath2/_xpath2_functions.py", "evaluate__from_datetime_functions", "Decimal()"),
  ("xpath2/_xpath2_functions.py", "evaluate__hours_from_duration", "int()"),
  ("xpath2/_xpath2_functions.py", "evaluate__minutes_from_duration", "int()"),
  ("xpath2/_xpath2_functions.py", "evaluate__round_half_to_even", "float()"),
  ("xpath2/_xpath2_functions.py", "evaluate__seconds_from_time", "Decimal()"),
  ("xpath2/_xpath2_functions.py", "evaluate__timezone_from_datetime", "Decimal()"),
  ("xpath2/_xpath2_functions.py", "select__subsequence", "float()"),
  ("xpath30/_xpath30_functions.py", "evaluate__exp10", "float()"),               -- F03h: float(10 ** huge)
  ("xpath30/_xpath30_functions.py", "evaluate__format_number", "Decimal()"),
  ("xpath30/_xpath30_functions.py", "evaluate__format_number", "int()"),
  ("xpath30/_xpath30_functions.py", "evaluate__log", "float()"),
  ("xpath30/_xpath30_functions.py", "evaluate__log10", "float()"),
  ("xpath30/_xpath30_functions.py", "evaluate__pow", "float()"),
  ("xpath30/_xpath30_functions.py", "evaluate__unparsed_text", "lookup:text_resources"),   -- guarded by `uri in …`
  ("xpath_tokens/base.py", "cast_to_primitive_type", "lookup:symbol_table"),
  ("xpath_tokens/tokens.py", "evaluate", "lookup:variables"),
  ("xpath_tokens/tokens.py", "nud", "lookup:symbol_table")]

/-! ## per-call table look-ups and the handlers that guard them

Generated table `EPV.Gen.C03.lookupSites` = every subscript look-up `X.<table>[key]` (tables: namespaces,
variables, documents, collections, text_resources, symbol_table, decimal_formats, variable_types) in the
operator / function / token modules as (file, method, table, handler classes of the innermost enclosing
`try`, "" if none).  A look-up that loses its `except KeyError` (or whose handler is narrowed) is a changed
row and breaks `EPV.C03.lookup_sites_baseline`. -/
def lookupBaseline : List (String × String × String × String) := [
  ("xpath2/_xpath2_functions.py", "evaluate__collection", "collections", "KeyError,TypeError"),
  ("xpath2/_xpath2_functions.py", "evaluate__doc_functions", "documents", "KeyError,TypeError"),
  ("xpath2/_xpath2_operators.py", "evaluate__cast_expressions", "symbol_table", "KeyError"),
  ("xpath30/_xpath30_functions.py", "evaluate__format_number", "decimal_formats", "KeyError"),
  ("xpath30/_xpath30_functions.py", "evaluate__function_lookup", "symbol_table", "KeyError"),
  ("xpath30/_xpath30_functions.py", "evaluate__unparsed_text", "text_resources", ""),      -- guarded by `uri in context.text_resources`
  ("xpath30/_xpath30_operators.py", "evaluate__function_reference", "symbol_table", "KeyError"),
  -- a type name without a constructor token (xs:anyAtomicType; xs:numeric before 3.1): the value is left alone
  ("xpath_tokens/base.py", "cast_to_primitive_type", "symbol_table", "KeyError"),
  ("xpath_tokens/tokens.py", "evaluate", "variables", ""),                                 -- inside the KeyError handler, guarded by `in`
  ("xpath_tokens/tokens.py", "evaluate", "variables", "KeyError"),
  ("xpath_tokens/tokens.py", "led", "namespaces", "KeyError"),
  ("xpath_tokens/tokens.py", "nud", "symbol_table", ""),                                   -- the '(name)' class: registered (specials_registered)
  ("xpath_tokens/tokens.py", "nud", "symbol_table", "KeyError")]

/-! ## `while` loops of the package and their termination arguments

Generated table `EPV.Gen.C03.whileLoops` = every `while` statement of elementpath/**/*.py as
(file, function, loop test).  Each must be listed here with its termination argument; a new or edited
loop breaks `EPV.C03.while_loops_baseline`.  `proved` = a theorem of this property covers the loop on
its model; `argued` = argument by reading, checked by the hang watchdog of the exploration only. -/
def whileBaseline : List (String × String × String × String) := [
  ("decoder.py", "_iter_values", "depth <= 15 and type_ is not None", "argued: depth counter bounded by 15"),
  ("etree.py", "etree_iter_text", "True", "argued: iterator stack over a finite element tree (added by a C02 fix)"),
  ("etree.py", "etree_tostring", "lines and (not lines[-1].strip())", "argued: pops one line per iteration"),
  ("regex/patterns.py", "parse_character_class", "True", "argued: pos advances by >= 1 per iteration, breaks on ']' or raises at end of pattern"),
  ("regex/patterns.py", "translate_pattern", "pos < pattern_len", "argued: pos strictly increases"),
  ("regex/patterns.py", "translate_pattern", "pos < pattern_len and pattern[pos] == ' '", "argued: pos += 1"),
  ("regex/patterns.py", "translate_pattern", "pattern[pos] != '}'", "argued: pos += 1, IndexError -> coded error at end of pattern"),
  ("regex/unicode_subsets.py", "iterparse_unicode_data", "cp < maxunicode", "argued: cp strictly increases"),
  ("regex/unicode_subsets.py", "get_categories", "cpa_int is not None and cpa_int <= cp_int", "argued: consumes an iterator"),
  ("tdop.py", "iter", "True", "argued: explicit stack over a finite token tree; returns when the stack is empty"),
  ("tdop.py", "advance_until", "True", "proved: untilLoop is structural on the pending matches (advance_until_total)"),
  ("tdop.py", "expression", "rbp < self.next_token.lbp", "proved in part: every iteration calls advance(), which consumes a match or raises at (end) (advance_consumes); (end).lbp = 0"),
  ("tree_builders.py", "build_node_tree", "True", "argued: iterator stack over a finite element tree"),
  ("tree_builders.py", "build_lxml_node_tree", "True", "argued: iterator stack over a finite element tree"),
  ("tree_builders.py", "build_schema_node_tree", "True", "argued: iterator stack, schema recursion cut by the ancestors list"),
  ("xpath1/_xpath1_functions.py", "evaluate__lang", "node is not None", "proved: lang_loop_terminates on every store whose parents precede their children (EPV.C03Loops, Store.WF: document-order numbering, checked on the live trees every run; on a cyclic parent chain the loop does hang)"),
  ("xpath2/_xpath2_functions.py", "evaluate__lang", "node is not None", "proved: lang_loop_terminates (the same loop as xpath1 evaluate__lang)"),
  ("xpath1/_xpath1_operators.py", "select__predicate", "step.symbol == '[' and step.label != 'array'", "argued: walks down the finite left spine of predicates"),
  ("xpath2/_xpath2_functions.py", "select__one_or_more", "True", "argued: consumes a generator, StopIteration ends it"),
  ("xpath2/_xpath2_operators.py", "nud__quantified_expressions", "True", "argued: each iteration advances over `$var in expr`; breaks unless next token is ','; advance consumes (advance_consumes)"),
  ("xpath2/_xpath2_operators.py", "nud__for_expression", "True", "argued: as nud__quantified_expressions"),
  ("xpath2/xpath2_parser.py", "advance", "comment_level", "proved: comment_scan_terminates (raw-source scan: the offset grows by >= 2 per iteration inside the source)"),
  ("xpath2/xpath2_parser.py", "advance", "self.next_token.symbol == '(:'", "proved: advance3_total (each iteration re-tokenizes after the comment: the end offset of next_match strictly grows; assumes finditer(source, p) yields matches after p)"),
  ("xpath30/_xpath30_functions.py", "nud", "self.parser.next_token.symbol != ')'", "argued: each iteration advances over a parameter; advance consumes or raises at (end)"),
  ("xpath30/_xpath30_functions.py", "nud", "True", "argued: as above, breaks unless next token is ','"),
  ("xpath30/_xpath30_functions.py", "append_sequence_type", "tk.symbol == '(' and len(tk) == 1", "argued: tk = tk[0] descends one level of the finite token tree built by the parse per iteration (added by fix-c18-6, parenthesised item types)"),
  ("xpath30/_xpath30_functions.py", "evaluate__format_integer", "chr(cp - 1).isdigit()", "argued: cp decreases, at most 9 steps inside a digit block"),
  ("xpath30/_xpath30_functions.py", "evaluate__format_number", "v > 10 ** num_digits", "argued: v divided by 10 per iteration"),
  ("xpath30/_xpath30_functions.py", "evaluate__format_number", "v < 10 ** num_digits", "argued: v multiplied by 10 per iteration, v > 0 checked before"),
  ("xpath30/_xpath30_functions.py", "evaluate__format_number", "v < 10", "argued: v multiplied by 10 per iteration, v > 0"),
  ("xpath30/_xpath30_functions.py", "evaluate__analyze_string", "k < len(input_string)", "argued: k advances to the end of each match or by 1"),
  ("xpath30/_xpath30_operators.py", "nud__let_expression", "True", "argued: as nud__quantified_expressions"),
  ("xpath30/xpath30_helpers.py", "int_to_alphabetic", "num >= 0", "proved: int_to_alphabetic_total / alpha_loop_terminates (EPV.C03Loops: measure num + 1; a value for every number and non-empty alphabet)"),
  ("xpath30/xpath30_helpers.py", "format_digits", "num_digit", "argued: consumes one digit of a finite string per iteration"),
  ("xpath30/xpath30_helpers.py", "format_digits", "result and category(result[-1]) not in ('Nd', 'Nl', 'No', 'Lu', 'Ll', 'Lt', 'Lm', 'Lo')", "argued: pops one element per iteration"),
  ("xpath30/xpath30_helpers.py", "parse_datetime_marker", "pch != '#' and (not pch.isdigit())", "argued: index decreases over a finite string"),
  ("xpath31/_xpath31_operators.py", "nud__square_array_constructor", "True", "argued: each iteration parses one member; advance consumes or raises at (end)"),
  ("xpath_context.py", "iter_product", "True", "argued: odometer over finitely many finite selectors; returns when the first is exhausted"),
  ("xpath30/_xpath30_functions.py", "evaluate__path", "node is not None and node is not context.root", "argued: parent walk from the item up to the context root or to the top (added by the fn:path repair for rooted sub-tree contexts, b1f05c0): the same shape as iter_ancestors — one `.parent` step per iteration, ends at `None` on every store whose parents precede their children (Store.WF, checked on the live trees every run); no other operation in the body"),
  ("xpath_context.py", "iter_ancestors", "parent is not None", "proved: anc_loop_terminates / iter_ancestors_total on every store whose parents precede their children (EPV.C03Loops, Store.WF: document-order numbering, checked on the live trees every run; on a cyclic parent chain the loop does hang)"),
  ("xpath_context.py", "iter_preceding", "root.parent is not None", "proved: prec_loop_terminates (Store.WF; the descendants walk that follows is iter_descendants_total)"),
  ("xpath_context.py", "iter_followings", "root.parent is not None and root is not self.root", "proved: foll_loop_terminates (Store.WF)"),
  ("xpath_nodes.py", "iter_lazy", "True", "argued: iterator stack over a finite tree"),
  ("xpath_nodes.py", "iter_descendants", "True", "proved in part: ElementNode.iter_descendants — iter_descendants_total (EPV.C03Loops: measure 2*pending nodes + stack height; yields the pre-order); the SchemaElementNode variant (same test, `elements` set cuts reference cycles) stays argued"),
  ("xpath_nodes.py", "apply_schema", "isinstance(root_node.parent, EtreeElementNode)", "argued: parent chain"),
  ("xpath_nodes.py", "apply_schema", "True", "argued: iterator stack over a finite tree"),
  ("xpath_nodes.py", "iter", "True", "argued: iterator stack over a finite tree"),
  ("xpath_tokens/arrays.py", "nud", "True", "argued: one member per iteration; advance consumes or raises at (end)"),
  ("xpath_tokens/base.py", "get_argument_tokens", "True", "proved: get_argument_tokens_total (EPV.C03Loops: fuel = depth of the left spine + 1; equals the recursive argument list, IndexError exactly for a ',' token with < 2 items)"),
  ("xpath_tokens/functions.py", "nud", "True", "argued: one argument per iteration; advance consumes or raises at (end)"),
  ("xpath_tokens/functions.py", "nud", "k < min_args", "argued: k += 1 per iteration"),
  ("xpath_tokens/functions.py", "nud", "max_args is None or k < max_args", "argued: one argument per iteration; breaks unless next token is ','; advance consumes or raises at (end)"),
  ("xpath_tokens/maps.py", "nud", "True", "argued: one entry per iteration; advance consumes or raises at (end)")]

def whileListed (w : String × String × String) : Bool :=
  whileBaseline.any fun b => b.1 == w.1 && b.2.1 == w.2.1 && b.2.2.1 == w.2.2

end EPV.C03Cover

/-
C03 — static exception closure of the arithmetic `try` blocks (written from the Python library
reference: built-in exception hierarchy, `decimal` signals, `int()/float()/math.*` errors).
Core Lean only.

For every `try … except` of the operator / function modules whose body contains arithmetic
(`/ // % **`, `int() float() Decimal() math.*`; generated table `EPV.Gen.C03.tryTable`), every
exception class the standard library can raise from that operation must be caught by one of the
handlers — or be one of the `knownGaps` of the reference tree (a static over-approximation: several are
unreachable, several are the escapes of finding F03h).  A class dropped from a handler (e.g.
`InvalidOperation` from `idiv`'s `except (OverflowError, InvalidOperation)`) breaks
`EPV.C03.arith_handlers_cover_partial` and sends the check into its failing-input search.
-/
import EPV.Model.XPathError
namespace EPV.C03Cover
open EPV.XErr

/-- class ↦ direct bases (Python 3.12 built-ins and `decimal`) -/
def pyGraph : Graph := [
  ("ZeroDivisionError", ["ArithmeticError"]), ("OverflowError", ["ArithmeticError"]),
  ("FloatingPointError", ["ArithmeticError"]), ("DecimalException", ["ArithmeticError"]),
  ("InvalidOperation", ["DecimalException"]), ("DivisionByZero", ["DecimalException", "ZeroDivisionError"]),
  ("Overflow", ["DecimalException"]), ("ArithmeticError", ["Exception"]), ("ValueError", ["Exception"]),
  ("TypeError", ["Exception"]), ("LookupError", ["Exception"]), ("IndexError", ["LookupError"]),
  ("KeyError", ["LookupError"]), ("UnicodeError", ["ValueError"]), ("Exception", ["BaseException"])]

/-- what the standard library may raise from one operation kind (operands may be `int`, `float`,
`Decimal`): `Decimal` division signals InvalidOperation (DivisionImpossible / DivisionUndefined) and
DivisionByZero; `int()/float()/math.*` raise ValueError / OverflowError -/
def raisable : String → List String
  | "div" | "floordiv" | "mod" => ["ZeroDivisionError", "InvalidOperation"]
  | "pow" => ["ZeroDivisionError", "OverflowError", "InvalidOperation"]
  | "int()" | "float()" | "math()" => ["ValueError", "OverflowError"]
  | "Decimal()" => ["InvalidOperation"]
  | _ => []

def covers (handlers : List String) (cls : String) : Bool :=
  handlers.any fun h => isSubclass pyGraph h pyGraph.length cls

/-- (function, operation kind, class) not caught on the reference tree -/
def knownGaps : List (String × String × String) := [
  ("evaluate__avg", "div", "InvalidOperation"),
  ("evaluate__avg", "div", "ZeroDivisionError"),
  ("evaluate__avg", "float()", "OverflowError"),
  ("evaluate__avg", "float()", "ValueError"),
  ("evaluate__ceiling_and_floor_functions", "math()", "OverflowError"),
  ("evaluate__ceiling_and_floor_functions", "math()", "ValueError"),
  ("evaluate__div_operator", "Decimal()", "InvalidOperation"),
  ("evaluate__div_operator", "div", "InvalidOperation"),
  ("evaluate__idiv_operator", "int()", "ValueError"),
  ("evaluate__idiv_operator", "math()", "OverflowError"),
  ("evaluate__idiv_operator", "math()", "ValueError"),
  ("evaluate__mod_operator", "math()", "OverflowError"),
  ("evaluate__mod_operator", "math()", "ValueError"),
  ("evaluate__pow", "float()", "OverflowError"),
  ("evaluate__pow", "float()", "ValueError"),
  ("evaluate__pow", "pow", "InvalidOperation"),
  ("evaluate__pow", "pow", "OverflowError"),
  ("evaluate__pow", "pow", "ZeroDivisionError"),
  ("evaluate__round_half_to_even", "float()", "ValueError"),
  ("evaluate__substring", "math()", "OverflowError"),
  ("evaluate__substring", "math()", "ValueError"),
  -- helper `double` of numeric_equal_promoted (xpath2/_xpath2_functions.py, added by a C08 fix): float(x)
  -- of a numeric operand, only OverflowError handled; ValueError needs a non-numeric x: unreachable
  ("double", "float()", "ValueError")]

/-- one generated row: file, function, operation kinds in the `try` body, handler classes -/
abbrev TryRow := String × String × List String × List String

def rowOK (r : TryRow) : Bool :=
  r.2.2.1.all fun k => (raisable k).all fun cls =>
    covers r.2.2.2 cls || knownGaps.contains (r.2.1, k, cls)

/-- the rows that are NOT covered (printed by the harness when the theorem breaks) -/
def uncovered (t : List TryRow) : List (String × String × String) :=
  t.flatMap fun r => r.2.2.1.flatMap fun k => ((raisable k).filter fun cls =>
    !(covers r.2.2.2 cls || knownGaps.contains (r.2.1, k, cls))).map fun cls => (r.2.1, k, cls)

end EPV.C03Cover

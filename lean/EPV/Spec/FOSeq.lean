/-
Specification side of C08, written from the W3C texts and independent of the model's loops:

* XPath 3.1 (https://www.w3.org/TR/xpath-31/) §3.3.1 (comma), §3.3.1 (range `to`),
  §3.3.3 / §3.2.2 (filter expressions, predicates), §3.9 (`for`), §3.12 (quantified
  expressions), §3.15 (simple map `!`), §2.4.3 (effective boolean value);
* XPath and XQuery Functions and Operators 3.1 (https://www.w3.org/TR/xpath-functions-31/)
  §14.1 (empty, exists, head, tail, insert-before, remove, reverse, subsequence),
  §14.2 (distinct-values, index-of), §14.3 (zero-or-one, one-or-more, exactly-one),
  §14.4 (count, avg, max, min, sum), §5.4.2 (string-join), §4.4.4 (round), §7.3.1 (boolean).

Only the value types (`D`, `Atom`, `Err`, `Expr`) are shared with the model.  Where the W3C
texts leave a choice to the implementation (which operand error is reported; whether a
quantifier stops at the first decisive tuple, XPath §2.3.4 and §3.12), the specification
fixes: operands left to right, binding sequences evaluated completely before iterating,
quantifiers stop at the first decisive tuple.
-/
import EPV.Model.SeqFuns
namespace EPV.Seq.Spec
open EPV.Seq

/-! ## xs:double as an extended real (IEEE 754 / F&O §4.2, §4.3) -/

/-- the exact value of a finite double as a fraction with positive denominator -/
def D.frac? : D → Option (Int × Int)
  | .fin m k => some (m, (2 : Int) ^ k)
  | _ => none

/-- `op:numeric-less-than`: NaN is unordered; -INF < every finite < +INF; finite values by
their exact value -/
def ltD (a b : D) : Prop :=
  match a, b with
  | .nan, _ | _, .nan => False
  | .ninf, .ninf => False
  | .ninf, _ => True
  | _, .ninf => False
  | .pinf, _ => False
  | _, .pinf => True
  | .fin m k, .fin m' k' => m * (2 : Int) ^ k' < m' * (2 : Int) ^ k

/-- `op:numeric-equal` -/
def eqD (a b : D) : Prop :=
  match a, b with
  | .nan, _ | _, .nan => False
  | .ninf, .ninf => True
  | .pinf, .pinf => True
  | .fin m k, .fin m' k' => m * (2 : Int) ^ k' = m' * (2 : Int) ^ k
  | _, _ => False

instance (a b : D) : Decidable (ltD a b) := by
  unfold ltD; split <;> infer_instance
instance (a b : D) : Decidable (eqD a b) := by
  unfold eqD; split <;> infer_instance

/-- `le` = `lt or eq` (XPath §3.7.1) -/
def leD (a b : D) : Prop := ltD a b ∨ eqD a b
instance (a b : D) : Decidable (leD a b) := by unfold leD; infer_instance

/-- `op:numeric-add` on doubles, exact on finite operands (IEEE rounding is not part of
this specification) -/
def addD (a b : D) : D :=
  match a, b with
  | .nan, _ | _, .nan => .nan
  | .fin m k, .fin m' k' => .fin (m * (2 : Int) ^ k' + m' * (2 : Int) ^ k) (k + k')
  | .pinf, .ninf | .ninf, .pinf => .nan
  | .pinf, _ | _, .pinf => .pinf
  | .ninf, _ | _, .ninf => .ninf

/-- `fn:round` (F&O §4.4.4): the nearest integer, ties towards positive infinity, i.e.
⌊x + 1/2⌋; NaN and ±INF are returned unchanged. -/
def roundD : D → D
  | .fin m k => .fin (Int.fdiv (2 * m + (2 : Int) ^ k) ((2 : Int) ^ (k + 1))) 0
  | d => d

def ofPos (p : Nat) : D := .fin (Int.ofNat p) 0

/-! ## F&O §14 on lists -/

section Structural
variable {α : Type}

/-- items with their 1-based positions -/
def positions (xs : List α) : List (α × Nat) := xs.zipIdx 1

/-- keep the items whose position satisfies `p` -/
def filterPos (p : Nat → Bool) (xs : List α) : List α :=
  ((positions xs).filter fun t => p t.2).map Prod.fst

/-- §14.1.5 fn:insert-before: "all items of $target whose index is less than $position, followed
by all items of $inserts, followed by the remaining elements of $target"; "if $position is less
than one, the effective value of $position is one; if $position is greater than the number of
items in $target, then the effective value … is … the number of items plus 1". -/
def insertBefore (target : List α) (position : Int) (inserts : List α) : List α :=
  let p : Nat := if position < 1 then 1
    else if position > (target.length : Int) then target.length + 1 else position.toNat
  target.take (p - 1) ++ inserts ++ target.drop (p - 1)

/-- §14.1.8 fn:remove: "all items of $target whose index is not equal to $position" -/
def remove (target : List α) (position : Int) : List α :=
  filterPos (fun i => decide ((i : Int) ≠ position)) target

/-- §14.1.9 fn:reverse -/
def reverse (xs : List α) : List α := xs.reverse

/-- §14.1.10 fn:subsequence, two arguments:
`$sourceSeq[fn:round($startingLoc) le position()]` -/
def subsequence2 (xs : List α) (start : D) : List α :=
  filterPos (fun i => decide (leD (roundD start) (ofPos i))) xs

/-- three arguments: `$sourceSeq[fn:round($startingLoc) le position() and position() lt
fn:round($startingLoc) + fn:round($length)]` -/
def subsequence3 (xs : List α) (start len : D) : List α :=
  filterPos (fun i => decide (leD (roundD start) (ofPos i)) &&
    decide (ltD (ofPos i) (addD (roundD start) (roundD len)))) xs

/-- §14.1.3 fn:head = `$arg[1]` -/
def head (xs : List α) : List α := xs.take 1
/-- §14.1.4 fn:tail = `subsequence($arg, 2)` -/
def tail (xs : List α) : List α := xs.drop 1
/-- §14.4.1 fn:count -/
def count (xs : List α) : Nat := xs.length

/-- §14.3 cardinality functions -/
def zeroOrOne (xs : List α) : Except Err (List α) :=
  if xs.length ≤ 1 then .ok xs else .error .FORG0003
def oneOrMore (xs : List α) : Except Err (List α) :=
  if 1 ≤ xs.length then .ok xs else .error .FORG0004
def exactlyOne (xs : List α) : Except Err (List α) :=
  if xs.length = 1 then .ok xs else .error .FORG0005

end Structural

/-- XPath §3.3.1 range expression: the integers from `a` to `b` in increasing order; empty
when `a > b` -/
def rangeTo (a b : Int) : List Int :=
  (List.range (b + 1 - a).toNat).map fun (i : Nat) => a + Int.ofNat i

/-! ## comparisons of atomic items (`eq`, XPath §3.7.1 / F&O operator mapping) -/

inductive Kind where | num | str | bool deriving DecidableEq

def kind : Atom → Kind
  | .int _ | .dbl _ => .num
  | .str _ => .str
  | .bool _ => .bool

/-- numeric items promoted to xs:double (exact for the integers of the model) -/
def numVal : Atom → D
  | .int n => .fin n 0
  | .dbl d => d
  | _ => .nan

def strLtSpec (s t : String) : Prop := s.toList.map Char.toNat < t.toList.map Char.toNat
instance (s t : String) : Decidable (strLtSpec s t) := by unfold strLtSpec; infer_instance

/-- `a eq b` where it is defined (`none`: the operand types are not comparable → XPTY0004) -/
def eqAtom? (a b : Atom) : Option Bool :=
  match a, b with
  | .str s, .str t => some (s == t)
  | .bool x, .bool y => some (x == y)
  | a, b => if kind a = .num ∧ kind b = .num then some (decide (eqD (numVal a) (numVal b))) else none

/-- `a lt b` where it is defined -/
def ltAtom? (a b : Atom) : Option Bool :=
  match a, b with
  | .str s, .str t => some (decide (strLtSpec s t))
  | .bool x, .bool y => some (!x && y)
  | a, b => if kind a = .num ∧ kind b = .num then some (decide (ltD (numVal a) (numVal b))) else none

/-- value comparison of two single items (XPath §3.7.1) -/
def compareAtoms (op : Cmp) (a b : Atom) : Except Err Bool :=
  match eqAtom? a b, ltAtom? a b, ltAtom? b a with
  | some e, some l, some g =>
    .ok (match op with
      | .eq => e | .ne => !e | .lt => l | .le => l || e | .gt => g | .ge => g || e)
  | _, _, _ => .error .XPTY0004

/-- §14.2.2 fn:index-of: "the positions of items equal to $search … items that cannot be
compared, because the eq operator is not defined for their types, are considered to be
distinct" -/
def indexOf (xs : Seq) (v : Atom) : Seq :=
  ((positions xs).filter fun t => eqAtom? t.1 v == some true).map fun t => Atom.int t.2

/-- equality used by fn:distinct-values (§14.2.1): `eq`, except that NaN equals NaN; values
of non-comparable types are distinct -/
def sameValue (a b : Atom) : Bool :=
  (a == .dbl .nan && b == .dbl .nan) || eqAtom? a b == some true

/-- §14.2.1 fn:distinct-values, with the (permitted) choice "first occurrence, in order" -/
def distinctValues : Seq → Seq
  | [] => []
  | x :: xs => x :: (distinctValues xs).filter fun y => !sameValue x y

/-- F&O §7.3.1 fn:boolean / XPath §2.4.3 effective boolean value (atomic items only) -/
def ebv (s : Seq) : Except Err Bool :=
  match s with
  | [] => .ok false
  | [.bool b] => .ok b
  | [.str t] => .ok (t.length ≠ 0)
  | [.int n] => .ok (n ≠ 0)
  | [.dbl d] => .ok (!(d == .nan) && !decide (eqD d (.fin 0 0)))
  | _ => .error .FORG0006

/-! ### aggregates (§14.4) -/

def allKind (k : Kind) (s : Seq) : Bool := s.all fun a => kind a == k
def allInt (s : Seq) : Bool := s.all fun a => match a with | .int _ => true | _ => false

/-- §14.4.5 fn:sum: empty → `$zero` (default 0); all values must be numeric (FORG0006
otherwise); integers add as integers, otherwise all values are promoted to xs:double -/
def fnSum (s : Seq) (zero : Option Seq) : R :=
  match s with
  | [] => match zero with
    | none => .ok [.int 0]
    | some [] => .ok []
    | some [z] => .ok [z]
    | some _ => .error .XPTY0004
  | _ =>
    if !allKind .num s then .error .FORG0006
    else if allInt s then .ok [.int ((s.map fun a => match a with | .int n => n | _ => 0).sum)]
    else .ok [.dbl ((s.map numVal).foldl addD (.fin 0 0))]

/-- §14.4.2 fn:avg = sum divided by count; the quotient is reported exactly -/
def fnAvg (s : Seq) : Except Err AvgRes :=
  match s with
  | [] => .ok .empty
  | _ =>
    if !allKind .num s then .error .FORG0006
    else if allInt s then .ok (.intQ ((s.map fun a => match a with | .int n => n | _ => 0).sum) s.length)
    else .ok (.dblQ ((s.map numVal).foldl addD (.fin 0 0)) s.length)

/-- the greatest (`isMax`) or least element w.r.t. a strict order `lt`; among equal
candidates the earliest (any choice is permitted by §14.4.3) -/
def extremum {β : Type} (lt : β → β → Bool) (isMax : Bool) : β → List β → β
  | b, [] => b
  | b, x :: xs => extremum lt isMax (if (if isMax then lt b x else lt x b) then x else b) xs

/-- §14.4.3 fn:max / §14.4.4 fn:min: all values of one comparable kind (FORG0006 otherwise);
numeric values are promoted to a common type (xs:double as soon as one double occurs); if any
value is NaN the result is NaN -/
def fnMinMax (isMax : Bool) (s : Seq) : R :=
  match s with
  | [] => .ok []
  | a :: rest =>
    if allKind .str s then
      match a with
      | .str t => .ok [.str (extremum (fun x y => decide (strLtSpec x y)) isMax t
          (rest.filterMap fun | .str u => some u | _ => none))]
      | _ => .error .FORG0006
    else if allKind .bool s then
      match a with
      | .bool b => .ok [.bool (extremum (fun x y => !x && y) isMax b
          (rest.filterMap fun | .bool u => some u | _ => none))]
      | _ => .error .FORG0006
    else if allKind .num s then
      if allInt s then
        match a with
        | .int n => .ok [.int (extremum (fun x y => decide (x < y)) isMax n
            (rest.filterMap fun | .int u => some u | _ => none))]
        | _ => .error .FORG0006
      else if s.any (· == .dbl .nan) then .ok [.dbl .nan]
      else .ok [.dbl (extremum (fun x y => decide (ltD x y)) isMax (numVal a) (rest.map numVal))]
    else .error .FORG0006

/-- the string value of an atomic item (only the lexical forms the model covers) -/
def stringOf? : Atom → Option String
  | .str s => some s
  | .int n => some (toString n)
  | .bool true => some "true"
  | .bool false => some "false"
  | .dbl _ => none

/-- §5.4.2 fn:string-join: the string values separated by `$separator` (default "") -/
def fnStringJoin (s : Seq) (sep : Option Seq) : R :=
  match s.mapM stringOf? with
  | none => .error .UNSUPPORTED
  | some strs =>
    match sep with
    | none => .ok [.str (String.intercalate "" strs)]
    | some [.str t] => .ok [.str (String.intercalate t strs)]
    | some _ => .error .XPTY0004

/-- §4.4.4 fn:round on `xs:numeric?` -/
def fnRound (s : Seq) : R :=
  match s with
  | [] => .ok []
  | [.int n] => .ok [.int n]
  | [.dbl d] => .ok [.dbl (roundD d)]
  | _ => .error .XPTY0004

/-- function conversion rules for an `xs:integer` parameter -/
def asInteger : Seq → Except Err Int
  | [.int n] => .ok n
  | _ => .error .XPTY0004

/-- function conversion rules for an `xs:double` parameter (integers are promoted) -/
def asDouble : Seq → Except Err D
  | [.int n] => .ok (.fin n 0)
  | [.dbl d] => .ok d
  | _ => .error .XPTY0004

def avgToSeq : AvgRes → R
  | .empty => .ok []
  | .intQ n d => if d ≠ 0 ∧ n % (d : Int) = 0 then .ok [.int (n / (d : Int))] else .error .UNSUPPORTED
  | .dblQ n d => if d = 1 then .ok [.dbl n] else .error .UNSUPPORTED

def applyFn1 (f : Fn1) (v : Seq) : R :=
  match f with
  | .count => .ok [.int (count v)]
  | .empty => .ok [.bool (decide (v.length = 0))]
  | .exists_ => .ok [.bool (decide (v.length ≠ 0))]
  | .head => .ok (head v)
  | .tail => .ok (tail v)
  | .reverse => .ok (reverse v)
  | .zeroOrOne => zeroOrOne v
  | .oneOrMore => oneOrMore v
  | .exactlyOne => exactlyOne v
  | .sum => fnSum v none
  | .avg => (fnAvg v).bind avgToSeq
  | .min => fnMinMax false v
  | .max => fnMinMax true v
  | .distinct => .ok (distinctValues v)
  | .stringJoin => fnStringJoin v none
  | .not_ => (ebv v).map fun b => [.bool (!b)]
  | .boolean => (ebv v).map fun b => [.bool b]
  | .round => fnRound v

def applyFn2 (f : Fn2) (va vb : Seq) : R :=
  match f with
  | .remove => (asInteger vb).map fun p => remove va p
  | .indexOf => match vb with
    | [x] => .ok (indexOf va x)
    | _ => .error .XPTY0004
  | .subseq => (asDouble vb).map fun s => subsequence2 va s
  | .stringJoin => fnStringJoin va (some vb)
  | .sum => fnSum va (some vb)

def applyFn3 (f : Fn3) (va vb vc : Seq) : R :=
  match f with
  | .insertBefore => (asInteger vb).map fun p => insertBefore va p vc
  | .subseq => (asDouble vb).bind fun s => (asDouble vc).map fun l => subsequence3 va s l

/-! ## Expression semantics (XPath 3.1 §3) -/

/-- all results, left to right, first error wins -/
def collect {β γ : Type} (f : β → Except Err (List γ)) : List β → Except Err (List γ)
  | [] => .ok []
  | b :: bs => do
    let x ← f b
    let rest ← collect f bs
    pure (x ++ rest)

/-- the items of `xs` (with position and size) that satisfy `test`, left to right -/
def keepWhere {β : Type} (test : β → Except Err Bool) : List β → Except Err (List β)
  | [] => .ok []
  | b :: bs => do
    let k ← test b
    let rest ← keepWhere test bs
    pure (if k then b :: rest else rest)

/-- existential with the left-to-right, stop-at-first-witness strategy of XPath §3.12 -/
def existsM {β : Type} (test : β → Except Err Bool) : List β → Except Err Bool
  | [] => .ok false
  | b :: bs => do
    if ← test b then pure true else existsM test bs

def forallM {β : Type} (test : β → Except Err Bool) : List β → Except Err Bool
  | [] => .ok true
  | b :: bs => do
    if ← test b then forallM test bs else pure false

/-- XPath §3.3.3: a predicate whose value is a single numeric is true iff it equals (`eq`) the
context position; otherwise its effective boolean value is taken -/
def predicateTruth (pos : Nat) (v : Seq) : Except Err Bool :=
  match v with
  | [.int n] => .ok (decide (eqD (ofPos pos) (.fin n 0)))
  | [.dbl d] => .ok (decide (eqD (ofPos pos) d))
  | _ => ebv v

def atMostOne : Seq → Except Err (Option Atom)
  | [] => .ok none
  | [a] => .ok (some a)
  | _ => .error .XPTY0004

/-- operand of `to`: `xs:integer?` -/
def atMostInt : Seq → Except Err (Option Int)
  | [] => .ok none
  | [.int n] => .ok (some n)
  | _ => .error .XPTY0004

def bind1 (c : Ctx) (x : Nat) (v : Atom) : Ctx := { c with vars := (x, [v]) :: c.vars }

/-- numeric operand of an arithmetic operator (XPath §3.5): empty → empty result -/
def numericOperand : Seq → Except Err (Option Atom)
  | [] => .ok none
  | [a] => if kind a = .num then .ok (some a) else .error .XPTY0004
  | _ => .error .XPTY0004

def mulD (a b : D) : D := D.mul a b

def arith (op : Arith) (a b : Atom) : Atom :=
  match a, b with
  | .int x, .int y => .int (match op with | .add => x + y | .sub => x - y | .mul => x * y)
  | a, b => .dbl (match op with
    | .add => addD (numVal a) (numVal b)
    | .sub => addD (numVal a) (D.neg (numVal b))
    | .mul => mulD (numVal a) (numVal b))

mutual
/-- the value of an expression in a dynamic context -/
def sem : Expr → Ctx → R
  | .lit a, _ => .ok [a]
  | .empty, _ => .ok []
  | .var x, c => match lookupVar x c.vars with
    | some v => .ok v
    | none => .error .XPST0008
  | .dot, c => match c.item with
    | some a => .ok [a]
    | none => .error .XPDY0002
  | .position, c => .ok [.int c.pos]
  | .last, c => .ok [.int c.size]
  -- §3.3.1: concatenation
  | .comma a b, c => do
    let va ← sem a c
    let vb ← sem b c
    pure (va ++ vb)
  -- §3.3.1: range; an empty operand gives the empty sequence
  | .range a b, c => do
    match ← (sem a c).bind atMostInt with
    | none => pure []
    | some lo =>
      match ← (sem b c).bind atMostInt with
      | none => pure []
      | some hi => pure ((rangeTo lo hi).map Atom.int)
  -- §3.3.3: filter — inner focus: item, its 1-based position, the size of the sequence
  | .filter e p, c => do
    let s ← sem e c
    let kept ← keepWhere (fun t : Atom × Nat => do
        let v ← sem p { c with item := some t.1, pos := t.2, size := s.length }
        predicateTruth t.2 v) (positions s)
    pure (kept.map Prod.fst)
  -- §3.15: simple map — the concatenation of the results for every item, in order
  | .map a b, c => do
    let s ← sem a c
    collect (fun t : Atom × Nat => sem b { c with item := some t.1, pos := t.2, size := s.length })
      (positions s)
  -- §3.9: for
  | .forE bs r, c => semFor bs c (fun c' => sem r c')
  -- §3.12: quantified expressions
  | .someE bs t, c => do
    let r ← semSome bs c (fun c' => (sem t c').bind ebv)
    pure [.bool r]
  | .everyE bs t, c => do
    let r ← semEvery bs c (fun c' => (sem t c').bind ebv)
    pure [.bool r]
  | .fn1 f a, c => (sem a c).bind (applyFn1 f)
  | .fn2 f a b, c =>
    match f with
    | .stringJoin => do
      let va ← sem a c
      let vb ← sem b c
      applyFn2 f va vb
    | .sum => do
      -- `$zero` is needed only for an empty input (§2.3.4 allows not evaluating it otherwise)
      let va ← sem a c
      if va.length = 0 then
        let vb ← sem b c
        applyFn2 f va vb
      else applyFn1 .sum va
    | _ => do
      let vb ← sem b c
      let va ← sem a c
      applyFn2 f va vb
  | .fn3 f a b d, c =>
    match f with
    | .insertBefore => do
      let vb ← sem b c
      let va ← sem a c
      let vd ← sem d c
      applyFn3 f va vb vd
    | .subseq => do
      let vb ← sem b c
      let vd ← sem d c
      let va ← sem a c
      applyFn3 f va vb vd
  -- §3.7.1 value comparison: an empty operand gives the empty sequence
  | .cmp op a b, c => do
    let x ← (sem a c).bind atMostOne
    let y ← (sem b c).bind atMostOne
    match x, y with
    | some x, some y => let r ← compareAtoms op x y; pure [.bool r]
    | _, _ => pure []
  -- §3.8 logical expressions (left to right, short-circuit)
  | .andE a b, c => do
    if ← (sem a c).bind ebv then
      let r ← (sem b c).bind ebv
      pure [.bool r]
    else pure [.bool false]
  | .orE a b, c => do
    if ← (sem a c).bind ebv then pure [.bool true]
    else
      let r ← (sem b c).bind ebv
      pure [.bool r]
  -- §3.5 arithmetic on integers and doubles
  | .arith op a b, c => do
    match ← (sem a c).bind numericOperand with
    | none => pure []
    | some x =>
      match ← (sem b c).bind numericOperand with
      | none => pure []
      | some y => pure [arith op x y]
  | .ifE t a b, c => do
    if ← (sem t c).bind ebv then sem a c else sem b c

/-- §3.9: `for $x in E1, $y in E2 … return R` = `for $x in E1 return for $y in E2 … return R`;
a single `for` concatenates the results for the items of its binding sequence in order -/
def semFor : Binds → Ctx → (Ctx → R) → R
  | .one x e, c, body => do
    let s ← sem e c
    collect (fun v => body (bind1 c x v)) s
  | .cons x e rest, c, body => do
    let s ← sem e c
    collect (fun v => semFor rest (bind1 c x v) body) s

/-- §3.12: `some` is true iff the test holds for at least one binding tuple -/
def semSome : Binds → Ctx → (Ctx → Except Err Bool) → Except Err Bool
  | .one x e, c, test => do
    let s ← sem e c
    existsM (fun v => test (bind1 c x v)) s
  | .cons x e rest, c, test => do
    let s ← sem e c
    existsM (fun v => semSome rest (bind1 c x v) test) s

/-- §3.12: `every` is true iff the test holds for every binding tuple -/
def semEvery : Binds → Ctx → (Ctx → Except Err Bool) → Except Err Bool
  | .one x e, c, test => do
    let s ← sem e c
    forallM (fun v => test (bind1 c x v)) s
  | .cons x e rest, c, test => do
    let s ← sem e c
    forallM (fun v => semEvery rest (bind1 c x v) test) s
end

end EPV.Seq.Spec

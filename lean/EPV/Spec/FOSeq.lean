/-
Specification side of C08, written from the W3C texts and independent of the model's loops:

* XPath 3.1 (https://www.w3.org/TR/xpath-31/) §3.3.1 (comma), §3.3.1 (range `to`),
  §3.3.3 / §3.2.2 (filter expressions, predicates), §3.9 (`for`), §3.12 (quantified
  expressions), §3.15 (simple map `!`), §2.4.3 (effective boolean value), §2.6.2 (atomization),
  §B.1 (type promotion);
* XPath and XQuery Functions and Operators 3.1 (https://www.w3.org/TR/xpath-functions-31/)
  §14.1 (empty, exists, head, tail, insert-before, remove, reverse, subsequence),
  §14.2 (distinct-values, index-of), §14.3 (zero-or-one, one-or-more, exactly-one),
  §14.4 (count, avg, max, min, sum), §5.4.2 (string-join), §4.4.4 (round), §7.3.1 (boolean),
  §19.1.2.2 (cast of xs:untypedAtomic to xs:double).

Only the value types (`XV`, `D`, `Atom`, `Err`, `Expr`) and the arithmetic kernel
(EPV/Model/SeqFunsNum.lean: exact order of extended values, `rnd` = IEEE 754 round-to-nearest,
`D.add`/`D.mul`, `roundSig28`, `lexDouble` = lexical mapping of xs:double) are shared with the model.  Where the W3C texts leave a choice to
the implementation (which operand error is reported; whether a quantifier stops at the first
decisive tuple, XPath §2.3.4 and §3.12), this specification (`sem`) fixes: operands left to right,
binding sequences evaluated completely before iterating, quantifiers stop at the first decisive
tuple.  The *set* of outcomes that §2.3.4 permits is specified in EPV/Spec/FOSeqLazy.lean.
-/
import EPV.Model.SeqFuns
namespace EPV.Seq.Spec
open EPV.Seq

/-! ## xs:double (IEEE 754 / F&O §4.2, §4.3) -/

/-- `op:numeric-less-than` / `op:numeric-equal` on doubles: the order of the exact values,
NaN unordered, -0 = +0 -/
def ltD (a b : D) : Bool := XV.lt a.val b.val
def eqD (a b : D) : Bool := XV.eqv a.val b.val
/-- `le` = `lt or eq` (XPath §3.7.1) -/
def leD (a b : D) : Bool := ltD a b || eqD a b

/-- `fn:round` (F&O §4.4.4): the nearest integer, ties towards positive infinity, i.e.
⌊x + 1/2⌋; NaN, ±INF and ±0 are returned unchanged; a negative argument that rounds to zero
gives negative zero. -/
def roundD : D → D
  | .fin m k =>
    let f := Int.fdiv (2 * m + (2 : Int) ^ k) ((2 : Int) ^ (k + 1))
    if f = 0 ∧ m < 0 then .nzero else .fin f 0
  | d => d

def ofPos (p : Nat) : D := .fin (Int.ofNat p) 0

/-! ## F&O §14 on lists -/

section Structural
variable {α : Type}

/-- items with their 1-based positions -/
def positions (xs : List α) : List (α × Nat) := xs.zipIdx 1

/-- keep the items whose position satisfies `p` -/
def filterPos (p : Nat → Bool) (xs : List α) : List α :=
  ((positions xs).filter fun t => p t.2).map Prod.fst

/-- §14.1.5 fn:insert-before: "all items of $target whose index is less than $position, followed
by all items of $inserts, followed by the remaining elements of $target"; "if $position is less
than one, the effective value of $position is one; if $position is greater than the number of
items in $target, then the effective value … is … the number of items plus 1". -/
def insertBefore (target : List α) (position : Int) (inserts : List α) : List α :=
  let p : Nat := if position < 1 then 1
    else if position > (target.length : Int) then target.length + 1 else position.toNat
  target.take (p - 1) ++ inserts ++ target.drop (p - 1)

/-- §14.1.8 fn:remove: "all items of $target whose index is not equal to $position" -/
def remove (target : List α) (position : Int) : List α :=
  filterPos (fun i => decide ((i : Int) ≠ position)) target

/-- §14.1.9 fn:reverse -/
def reverse (xs : List α) : List α := xs.reverse

/-- §14.1.10 fn:subsequence, two arguments:
`$sourceSeq[fn:round($startingLoc) le position()]` -/
def subsequence2 (xs : List α) (start : D) : List α :=
  filterPos (fun i => leD (roundD start) (ofPos i)) xs

/-- three arguments: `$sourceSeq[fn:round($startingLoc) le position() and position() lt
fn:round($startingLoc) + fn:round($length)]`; `+` is `op:numeric-add` on xs:double -/
def subsequence3 (xs : List α) (start len : D) : List α :=
  filterPos (fun i => leD (roundD start) (ofPos i) &&
    ltD (ofPos i) (D.add (roundD start) (roundD len))) xs

/-- §14.1.3 fn:head = `$arg[1]` -/
def head (xs : List α) : List α := xs.take 1
/-- §14.1.4 fn:tail = `subsequence($arg, 2)` -/
def tail (xs : List α) : List α := xs.drop 1
/-- §14.4.1 fn:count -/
def count (xs : List α) : Nat := xs.length

/-- §14.3 cardinality functions -/
def zeroOrOne (xs : List α) : Except Err (List α) :=
  if xs.length ≤ 1 then .ok xs else .error .FORG0003
def oneOrMore (xs : List α) : Except Err (List α) :=
  if 1 ≤ xs.length then .ok xs else .error .FORG0004
def exactlyOne (xs : List α) : Except Err (List α) :=
  if xs.length = 1 then .ok xs else .error .FORG0005

/-- the greatest (`isMax`) or least element w.r.t. a strict order `lt`; among equal
candidates the earliest (any choice is permitted by §14.4.3) -/
def extremum {β : Type} (lt : β → β → Bool) (isMax : Bool) : β → List β → β
  | b, [] => b
  | b, x :: xs => extremum lt isMax (if (if isMax then lt b x else lt x b) then x else b) xs

end Structural

/-- XPath §3.3.1 range expression: the integers from `a` to `b` in increasing order; empty
when `a > b` -/
def rangeTo (a b : Int) : List Int :=
  (List.range (b + 1 - a).toNat).map fun (i : Nat) => a + Int.ofNat i

/-! ## atomic items: kinds, atomization, promotion, `eq` -/

inductive Kind where | num | str | bool | node deriving DecidableEq

/-- xs:untypedAtomic is compared as xs:string (F&O §14.2.1, §14.2.2; XPath §3.7.1) -/
def kind : Atom → Kind
  | .int _ | .dec _ _ | .dbl _ => .num
  | .str _ | .untyped _ => .str
  | .bool _ => .bool
  | .node _ => .node

/-- XPath §2.6.2 atomization: the typed value of a node of an untyped document is its string
value as xs:untypedAtomic -/
def atomized (doc : List String) (a : Atom) : Atom :=
  match a with
  | .node i => .untyped (doc.getD i "")
  | a => a

def stringOfKey : Atom → String
  | .str s => s
  | .untyped s => s
  | _ => ""

def isDouble : Atom → Bool | .dbl _ => true | _ => false

/-- the exact value of a numeric item / its value after the cast to xs:double (XPath §B.1) -/
def exact : Atom → XV
  | .int n => .q n 1
  | .dec m k => .q m (10 ^ k)
  | .dbl d => d.val
  | _ => .nan

def toDouble : Atom → D
  | .int n => D.ofInt n
  | .dec m k => rnd m (10 ^ k)
  | .dbl d => d
  | _ => .nan

/-- `op:numeric-equal` / `op:numeric-less-than` after type promotion: xs:double as soon as one
operand is an xs:double, the exact xs:decimal order otherwise -/
def numEq (a b : Atom) : Bool :=
  if isDouble a || isDouble b then eqD (toDouble a) (toDouble b) else XV.eqv (exact a) (exact b)
def numLt (a b : Atom) : Bool :=
  if isDouble a || isDouble b then ltD (toDouble a) (toDouble b) else XV.lt (exact a) (exact b)

def strLtSpec (s t : String) : Prop := s.toList.map Char.toNat < t.toList.map Char.toNat
instance (s t : String) : Decidable (strLtSpec s t) := by unfold strLtSpec; infer_instance

/-- `a eq b` where it is defined (`none`: the operand types are not comparable → XPTY0004) -/
def eqAtom? (a b : Atom) : Option Bool :=
  match kind a, kind b with
  | .num, .num => some (numEq a b)
  | .str, .str => some (stringOfKey a == stringOfKey b)
  | .bool, .bool => some (a == b)
  | _, _ => none

/-- `a lt b` where it is defined -/
def ltAtom? (a b : Atom) : Option Bool :=
  match kind a, kind b with
  | .num, .num => some (numLt a b)
  | .str, .str => some (decide (strLtSpec (stringOfKey a) (stringOfKey b)))
  | .bool, .bool => some (a == .bool false && b == .bool true)
  | _, _ => none

/-- value comparison of two single atomic items (XPath §3.7.1) -/
def compareAtoms (op : Cmp) (a b : Atom) : Except Err Bool :=
  match eqAtom? a b, ltAtom? a b, ltAtom? b a with
  | some e, some l, some g =>
    .ok (match op with
      | .eq => e | .ne => !e | .lt => l | .le => l || e | .gt => g | .ge => g || e)
  | _, _, _ => .error .XPTY0004

/-- `a eq b` under a collation (F&O §5.3: xs:string / xs:untypedAtomic values are compared by the
collation; the other types as above) -/
def eqAtomC? (cl : Coll) (a b : Atom) : Option Bool :=
  match kind a, kind b with
  | .str, .str => some (collEq cl (stringOfKey a) (stringOfKey b))
  | _, _ => eqAtom? a b

/-- §14.2.2 fn:index-of on the atomized sequence: "the positions of items equal to $search …
items that cannot be compared, because the eq operator is not defined for their types, are
considered to be distinct" -/
def indexOf (cl : Coll) (xs : Seq) (v : Atom) : Seq :=
  ((positions xs).filter fun t => eqAtomC? cl t.1 v == some true).map fun t => Atom.int t.2

/-- equality used by fn:distinct-values (§14.2.1): `eq`, except that NaN equals NaN; values
of non-comparable types are distinct -/
def sameValue (cl : Coll) (a b : Atom) : Bool :=
  (a == .dbl .nan && b == .dbl .nan) || eqAtomC? cl a b == some true

/-- §14.2.1 fn:distinct-values: the items that are not equal to an item kept before them, in
order.  When `eq` is transitive on the input this is "the first occurrence of every class of
equal values"; when it is not (values of different numeric types that are equal only after
promotion) the number and choice of the results is implementation-dependent, subject to the
constraints (a) no two results are equal, (b) every input item equals some result — this
choice satisfies them (theorem `distinct_values_constraints`). -/
def distinctFrom (cl : Coll) (kept : Seq) : Seq → Seq
  | [] => []
  | x :: xs =>
    if kept.any (fun y => sameValue cl y x) then distinctFrom cl kept xs
    else x :: distinctFrom cl (kept ++ [x]) xs

/-- the one-argument form uses the default collation of the static context, the two-argument form
the collation named by `$collation` -/
def distinctValues (cl : Coll) (xs : Seq) : Seq := distinctFrom cl [] xs

/-- F&O §7.3.1 fn:boolean / XPath §2.4.3 effective boolean value -/
def ebv (s : Seq) : Except Err Bool :=
  match s with
  | [] => .ok false
  | .node _ :: _ => .ok true
  | [.bool b] => .ok b
  | [.str t] => .ok (t.length ≠ 0)
  | [.untyped t] => .ok (t.length ≠ 0)
  | [.int n] => .ok (n ≠ 0)
  | [.dec m _] => .ok (m ≠ 0)
  | [.dbl d] => .ok (!(d == .nan) && !eqD d (.fin 0 0))
  | _ => .error .FORG0006

/-! ### aggregates (§14.4) -/

def allKind (k : Kind) (s : Seq) : Bool := s.all fun a => kind a == k
def allInt (s : Seq) : Bool := s.all fun a => match a with | .int _ => true | _ => false
def anyDouble (s : Seq) : Bool := s.any isDouble
/-- nodes and xs:untypedAtomic values are cast to xs:double (`castUntyped`, `castNodes`, `avgItems`)
before the cores `sumCore` / `avgCore` / `minMaxCore` see them; the cores reject them -/
def outsideAgg (s : Seq) : Bool :=
  s.any fun a => match a with | .node _ | .untyped _ => true | _ => false

/-- exact sum of integers and decimals as `m / 10^k` -/
def exactSum (s : Seq) : Int × Nat :=
  s.foldl (fun acc a => match a with
    | .int n => (acc.1 + n * 10 ^ acc.2, acc.2)
    | .dec m k => (acc.1 * 10 ^ k + m * 10 ^ acc.2, acc.2 + k)
    | _ => acc) (0, 0)

/-- `$c[1] + ($c[2] + (… + $c[n]))` with `op:numeric-add` on xs:double (§14.4.5) -/
def sumDoubles : List D → D
  | [] => .fin 0 0
  | [x] => x
  | x :: y :: rest => D.add x (sumDoubles (y :: rest))

/-- The summation of xs:double values is a parameter of the specification; `foSum` is the
definition of F&O §14.4.5 and the only instance in use (elementpath follows it since fix F08q). -/
structure Summation where
  sumD : List D → D        -- the sum of the promoted values (at least one value)
  avgD : Seq → D           -- the sum of a numeric sequence that contains an xs:double, for fn:avg

def foSum : Summation :=
  { sumD := sumDoubles, avgD := fun s => sumDoubles (s.map toDouble) }

/-- the cast of an xs:untypedAtomic value to xs:double (F&O §19.1.2.2: the lexical space of
xs:double after whitespace collapse; FORG0001 otherwise) -/
def castDouble (s : String) : Except Err D :=
  match lexDouble s with
  | some d => .ok d
  | none => .error .FORG0001

/-- "Values of type xs:untypedAtomic are cast to xs:double" (§14.4.2–§14.4.5), items in order -/
def castUntyped : Seq → Except Err Seq
  | [] => .ok []
  | .untyped t :: rest => do
    let d ← castDouble t
    let r ← castUntyped rest
    pure (.dbl d :: r)
  | a :: rest => do
    let r ← castUntyped rest
    pure (a :: r)

/-- fn:sum applied to nodes: their typed values (xs:untypedAtomic) are cast to xs:double; a node
whose string value is not in the lexical space of xs:double gives FORG0001 -/
def castNodes (doc : List String) : Seq → Except Err Seq
  | [] => .ok []
  | .node i :: rest =>
    match lexDouble (doc.getD i "") with
    | none => .error .FORG0001
    | some d => do
      let r ← castNodes doc rest
      pure (.dbl d :: r)
  | a :: rest => do
    let r ← castNodes doc rest
    pure (a :: r)

/-- fn:avg on the atomized sequence, in item order: xs:untypedAtomic is cast, an xs:boolean is
not a numeric value (FORG0006) -/
def avgItems : Seq → Except Err Seq
  | [] => .ok []
  | .untyped t :: rest => do
    let d ← castDouble t
    let r ← avgItems rest
    pure (.dbl d :: r)
  | .bool _ :: _ => .error .FORG0006
  | a :: rest => do
    let r ← avgItems rest
    pure (a :: r)

/-- §14.4.5 fn:sum: empty → `$zero` (default 0); all values must be numeric (FORG0006
otherwise); one value → that value; integers / decimals add exactly, otherwise all values are
promoted to xs:double -/
def sumCore (sm : Summation) (s : Seq) (zero : Option Seq) : R :=
  if outsideAgg s then .error .UNSUPPORTED else
  match s with
  | [] => match zero with
    | none => .ok [.int 0]
    | some [] => .ok []
    | some [z] => .ok [z]
    | some _ => .error .XPTY0004
  | [a] => if kind a == .num then .ok [a] else .error .FORG0006
  | _ =>
    if !allKind .num s then .error .FORG0006
    else if anyDouble s then .ok [.dbl (sm.sumD (s.map toDouble))]
    else if allInt s then .ok [.int (exactSum s).1]
    else .ok [.dec (exactSum s).1 (exactSum s).2]

/-- §14.4.2 fn:avg = sum divided by count; xs:decimal division is rounded to 28 significant
digits (the precision is implementation-defined), xs:double division is IEEE; a mean of integers
that is an integer is delivered exactly, as xs:integer (a subtype of the xs:decimal F&O asks for) -/
def avgCore (sm : Summation) (s : Seq) : R :=
  if outsideAgg s then .error .UNSUPPORTED else
  match s with
  | [] => .ok []
  | _ =>
    if !allKind .num s then .error .FORG0006
    else if anyDouble s then .ok [.dbl ((sm.avgD s).divNat s.length)]
    else
      let t := exactSum s
      if allInt s ∧ t.1 % (Int.ofNat s.length) = 0 then .ok [.int (t.1 / Int.ofNat s.length)]   -- exact
      else
        let r := roundSig28 t.1 (10 ^ t.2 * s.length)
        .ok [.dec r.1 r.2]

/-- §14.4.3 fn:max / §14.4.4 fn:min: all values of one comparable kind (FORG0006 otherwise).
Numeric values: the greatest / least value; it is delivered as xs:double as soon as one double
occurs (NaN if any value is NaN).  F&O converts every value to xs:double before comparing;
IEEE rounding is monotone, so the converted extremum is the conversion of the exact extremum,
which is what is specified here. -/
def minMaxCore (cl : Coll) (isMax : Bool) (s : Seq) : R :=
  if outsideAgg s then .error .UNSUPPORTED else
  match s with
  | [] => .ok []
  | a :: rest =>
    if allKind .str s then
      .ok [.str (extremum (fun x y => collLt cl x y) isMax (stringOfKey a) (rest.map stringOfKey))]
    else if allKind .bool s then
      .ok [.bool (extremum (fun x y => !x && y) isMax (a == .bool true) (rest.map (· == .bool true)))]
    else if allKind .num s then
      if anyDouble s then
        if s.any (· == .dbl .nan) then .ok [.dbl .nan]
        else .ok [.dbl (toDouble (extremum (fun x y => XV.lt (exact x) (exact y)) isMax a rest))]
      else .ok [extremum (fun x y => XV.lt (exact x) (exact y)) isMax a rest]
    else .error .FORG0006

/-- §14.4.3 / §14.4.4 read word by word, for numeric input that contains an xs:double: every
value is converted to xs:double; the result is "an item of the converted sequence such that no
other item is greater (less)"; which one of several such items is implementation-dependent. -/
def IsExtremeOfConverted (isMax : Bool) (s : Seq) (r : D) : Prop :=
  r ∈ s.map toDouble ∧ ∀ y ∈ s.map toDouble, (if isMax then D.lt r y else D.lt y r) = false

/-- "the promotion to xs:double is monotone on the values of `s`": whenever the promoted `x` is
below the promoted `y`, the exact `x` is below the exact `y`.  True for every sequence of
representable doubles, integers and decimals because IEEE 754 round-to-nearest is monotone; that
is theorem `rnd_mono` (EPV/Lemmas/SeqFunsRnd.lean), from which `promotionMonotoneOn_of_good` derives the
condition for every sequence whose doubles satisfy `goodItem`; the driver still evaluates it on every
fn:max / fn:min it runs. -/
def promotionMonotoneOn (s : Seq) : Bool :=
  s.all fun x => s.all fun y => !(D.lt (toDouble x) (toDouble y)) || XV.lt (exact x) (exact y)

/-- representation invariant of the items: a `.dbl d` is a binary64 value (`D.isRep`: NaN, ±INF, −0 or
a dyadic that round-to-nearest maps to itself).  The type `D` also has dyadics with more than 53
significant bits, which no xs:double denotes. -/
def goodItem : Atom → Bool
  | .dbl d => d.isRep
  | _ => true

/-- fn:sum / fn:avg / fn:max / fn:min on arbitrary items: untyped values and nodes are cast first -/
def fnSum (sm : Summation) (doc : List String) (s : Seq) (zero : Option Seq) : R :=
  ((castUntyped s).bind (castNodes doc)).bind fun v => sumCore sm v zero
def fnAvg (sm : Summation) (doc : List String) (s : Seq) : R :=
  (avgItems (s.map (atomized doc))).bind (avgCore sm)
def fnMinMax (cl : Coll) (doc : List String) (isMax : Bool) (s : Seq) : R :=
  (castUntyped (s.map (atomized doc))).bind (minMaxCore cl isMax)

/-- the string value of an item (only the lexical forms the model covers) -/
def stringOf? (doc : List String) : Atom → Option String
  | .str s => some s
  | .untyped s => some s
  | .node i => some (doc.getD i "")
  | .int n => some (toString n)
  | .bool true => some "true"
  | .bool false => some "false"
  | .dec _ _ => none
  | .dbl _ => none

/-- §5.4.2 fn:string-join: the string values separated by `$separator` (default "") -/
def fnStringJoin (doc : List String) (s : Seq) (sep : Option Seq) : R :=
  match s.mapM (stringOf? doc) with
  | none => .error .UNSUPPORTED
  | some strs =>
    match sep with
    | none => .ok [.str (String.intercalate "" strs)]
    | some [.str t] => .ok [.str (String.intercalate t strs)]
    | some _ => .error .XPTY0004

/-- §4.4.4 fn:round on `xs:numeric?`: ⌊x + 1/2⌋ -/
def fnRound (s : Seq) : R :=
  match s with
  | [] => .ok []
  | [.int n] => .ok [.int n]
  | [.dec m k] => .ok [.dec (Int.fdiv (2 * m + (10 : Int) ^ k) (2 * (10 : Int) ^ k)) 0]
  | [.dbl d] => .ok [.dbl (roundD d)]
  | [.untyped _] => .error .UNSUPPORTED
  | [.node _] => .error .UNSUPPORTED
  | _ => .error .XPTY0004

/-- function conversion rules for an `xs:integer` parameter -/
def asInteger : Seq → Except Err Int
  | [.int n] => .ok n
  | [.untyped _] => .error .UNSUPPORTED
  | [.node _] => .error .UNSUPPORTED
  | _ => .error .XPTY0004

/-- `fn:round` of an `xs:double` parameter (xs:integer and xs:decimal arguments are promoted first;
xs:untypedAtomic and node arguments are outside the modelled fragment) -/
def asRoundedDouble : Seq → Except Err D
  | [.int n] => .ok (roundD (D.ofInt n))
  | [.dbl d] => .ok (roundD d)
  | [.dec m k] => .ok (roundD (rnd m (10 ^ k)))
  | [.untyped _] => .error .UNSUPPORTED
  | [.node _] => .error .UNSUPPORTED
  | _ => .error .XPTY0004

/-- fn:subsequence on rounded arguments -/
def subsequence2R {α : Type} (xs : List α) (s : D) : List α :=
  filterPos (fun i => leD s (ofPos i)) xs
def subsequence3R {α : Type} (xs : List α) (s l : D) : List α :=
  filterPos (fun i => leD s (ofPos i) && ltD (ofPos i) (D.add s l)) xs

def applyFn1 (sm : Summation) (cl : Coll) (doc : List String) (f : Fn1) (v : Seq) : R :=
  match f with
  | .count => .ok [.int (count v)]
  | .empty => .ok [.bool (decide (v.length = 0))]
  | .exists_ => .ok [.bool (decide (v.length ≠ 0))]
  | .head => .ok (head v)
  | .tail => .ok (tail v)
  | .reverse => .ok (reverse v)
  | .zeroOrOne => zeroOrOne v
  | .oneOrMore => oneOrMore v
  | .exactlyOne => exactlyOne v
  | .sum => fnSum sm doc v none
  | .avg => fnAvg sm doc v
  | .min => fnMinMax cl doc false v
  | .max => fnMinMax cl doc true v
  | .distinct => .ok (distinctValues cl (v.map (atomized doc)))
  | .stringJoin => fnStringJoin doc v none
  | .not_ => (ebv v).map fun b => [.bool (!b)]
  | .boolean => (ebv v).map fun b => [.bool b]
  | .round => fnRound v

def applyFn2 (sm : Summation) (cl : Coll) (doc : List String) (f : Fn2) (va vb : Seq) : R :=
  match f with
  | .remove => (asInteger vb).map fun p => remove va p
  | .indexOf => match vb with
    | [x] => .ok (indexOf cl (va.map (atomized doc)) (atomized doc x))
    | _ => .error .XPTY0004
  | .subseq => (asRoundedDouble vb).map fun s => subsequence2R va s
  | .stringJoin => fnStringJoin doc va (some vb)
  | .sum => fnSum sm doc va (some vb)

def applyFn3 (f : Fn3) (va vb vc : Seq) : R :=
  match f with
  | .insertBefore => (asInteger vb).map fun p => insertBefore va p vc
  | .subseq => (asRoundedDouble vb).bind fun s => (asRoundedDouble vc).map fun l => subsequence3R va s l

/-! ## Expression semantics (XPath 3.1 §3) -/

/-- all results, left to right, first error wins -/
def collect {β γ : Type} (f : β → Except Err (List γ)) : List β → Except Err (List γ)
  | [] => .ok []
  | b :: bs => do
    let x ← f b
    let rest ← collect f bs
    pure (x ++ rest)

/-- the items of `xs` (with position and size) that satisfy `test`, left to right -/
def keepWhere {β : Type} (test : β → Except Err Bool) : List β → Except Err (List β)
  | [] => .ok []
  | b :: bs => do
    let k ← test b
    let rest ← keepWhere test bs
    pure (if k then b :: rest else rest)

/-- existential with the left-to-right, stop-at-first-witness strategy of XPath §3.12 -/
def existsM {β : Type} (test : β → Except Err Bool) : List β → Except Err Bool
  | [] => .ok false
  | b :: bs => do
    if ← test b then pure true else existsM test bs

def forallM {β : Type} (test : β → Except Err Bool) : List β → Except Err Bool
  | [] => .ok true
  | b :: bs => do
    if ← test b then forallM test bs else pure false

/-- XPath §3.3.3: a predicate whose value is a single numeric is true iff it equals (`eq`) the
context position; otherwise its effective boolean value is taken.  (Positions are below 2^53,
where the promotion of the position to xs:double is the identity: the exact values are compared.) -/
def predicateTruth (pos : Nat) (v : Seq) : Except Err Bool :=
  match v with
  | [a] => if kind a == .num then .ok (XV.eqv (.q (Int.ofNat pos) 1) (exact a)) else ebv v
  | _ => ebv v

def atMostOne : Seq → Except Err (Option Atom)
  | [] => .ok none
  | [a] => .ok (some a)
  | _ => .error .XPTY0004

/-- operand of `to`: `xs:integer?` (untyped / node operands: outside the fragment) -/
def atMostInt : Seq → Except Err (Option Int)
  | [] => .ok none
  | [.int n] => .ok (some n)
  | [.untyped _] => .error .UNSUPPORTED
  | [.node _] => .error .UNSUPPORTED
  | _ => .error .XPTY0004

def bind1 (c : Ctx) (x : Nat) (v : Atom) : Ctx := { c with vars := (x, [v]) :: c.vars }

/-- numeric operand of an arithmetic operator (XPath §3.5): empty → empty result -/
def numericOperand : Seq → Except Err (Option Atom)
  | [] => .ok none
  | [a] =>
    if kind a = .num then .ok (some a)
    else match a with
      | .untyped _ | .node _ => .error .UNSUPPORTED
      | _ => .error .XPTY0004
  | _ => .error .XPTY0004

/-- a non-double numeric as the exact fraction `m / 10^k` -/
def decOf : Atom → Int × Nat
  | .int n => (n, 0)
  | .dec m k => (m, k)
  | _ => (0, 0)

/-- `op:numeric-add/subtract/multiply` (XPath §3.5, §B.1): xs:integer stays xs:integer,
xs:decimal is exact, xs:double as soon as one operand is an xs:double -/
def arith (op : Arith) (a b : Atom) : Atom :=
  match a, b with
  | .int x, .int y => .int (match op with | .add => x + y | .sub => x - y | .mul => x * y)
  | a, b =>
    if isDouble a || isDouble b then
      .dbl (match op with
        | .add => D.add (toDouble a) (toDouble b)
        | .sub => D.add (toDouble a) (D.neg (toDouble b))
        | .mul => D.mul (toDouble a) (toDouble b))
    else
      let x := decOf a
      let y := decOf b
      match op with
      | .add => .dec (x.1 * 10 ^ y.2 + y.1 * 10 ^ x.2) (x.2 + y.2)
      | .sub => .dec (x.1 * 10 ^ y.2 + (-y.1) * 10 ^ x.2) (x.2 + y.2)
      | .mul => .dec (x.1 * y.1) (x.2 + y.2)

mutual
/-- the value of an expression in a dynamic context -/
def sem (sm : Summation) : Expr → Ctx → R
  | .lit a, _ => .ok [a]
  | .empty, _ => .ok []
  | .var x, c => match lookupVar x c.vars with
    | some v => .ok v
    | none => .error .XPST0008
  | .dot, c => match c.item with
    | some a => .ok [a]
    | none => .error .XPDY0002
  | .position, c => .ok [.int c.pos]
  | .last, c => .ok [.int c.size]
  -- §3.3.1: concatenation
  | .comma a b, c => do
    let va ← sem sm a c
    let vb ← sem sm b c
    pure (va ++ vb)
  -- §3.3.1: range; an empty operand gives the empty sequence
  | .range a b, c => do
    match ← (sem sm a c).bind atMostInt with
    | none => pure []
    | some lo =>
      match ← (sem sm b c).bind atMostInt with
      | none => pure []
      | some hi => pure ((rangeTo lo hi).map Atom.int)
  -- §3.3.3: filter — inner focus: item, its 1-based position, the size of the sequence
  | .filter e p, c => do
    let s ← sem sm e c
    let kept ← keepWhere (fun t : Atom × Nat => do
        let v ← sem sm p { c with item := some t.1, pos := t.2, size := s.length }
        predicateTruth t.2 v) (positions s)
    pure (kept.map Prod.fst)
  -- §3.15: simple map — the concatenation of the results for every item, in order
  | .map a b, c => do
    let s ← sem sm a c
    collect (fun t : Atom × Nat => sem sm b { c with item := some t.1, pos := t.2, size := s.length })
      (positions s)
  -- §3.9: for
  | .forE bs r, c => semFor sm bs c (fun c' => sem sm r c')
  -- §3.12: quantified expressions
  | .someE bs t, c => do
    let r ← semSome sm bs c (fun c' => (sem sm t c').bind ebv)
    pure [.bool r]
  | .everyE bs t, c => do
    let r ← semEvery sm bs c (fun c' => (sem sm t c').bind ebv)
    pure [.bool r]
  | .fn1 f a, c => (sem sm a c).bind (applyFn1 sm c.coll c.doc f)
  | .fn2 f a b, c =>
    match f with
    | .stringJoin => do
      let va ← sem sm a c
      let vb ← sem sm b c
      applyFn2 sm c.coll c.doc f va vb
    | .sum => do
      -- `$zero` is needed only for an empty input (§2.3.4 allows not evaluating it otherwise)
      let va ← sem sm a c
      if va.length = 0 then
        let vb ← sem sm b c
        applyFn2 sm c.coll c.doc f va vb
      else applyFn1 sm c.coll c.doc .sum va
    | _ => do
      let vb ← sem sm b c
      let va ← sem sm a c
      applyFn2 sm c.coll c.doc f va vb
  | .fn3 f a b d, c =>
    match f with
    | .insertBefore => do
      let vb ← sem sm b c
      let va ← sem sm a c
      let vd ← sem sm d c
      applyFn3 f va vb vd
    | .subseq => do
      let vb ← sem sm b c
      let vd ← sem sm d c
      let va ← sem sm a c
      applyFn3 f va vb vd
  -- §3.7.1 value comparison: an empty operand gives the empty sequence
  | .cmp op a b, c => do
    let x ← (sem sm a c).bind fun v => atMostOne (v.map (atomized c.doc))
    let y ← (sem sm b c).bind fun v => atMostOne (v.map (atomized c.doc))
    match x, y with
    | some x, some y => let r ← compareAtoms op x y; pure [.bool r]
    | _, _ => pure []
  -- §3.8 logical expressions (left to right, short-circuit)
  | .andE a b, c => do
    if ← (sem sm a c).bind ebv then
      let r ← (sem sm b c).bind ebv
      pure [.bool r]
    else pure [.bool false]
  | .orE a b, c => do
    if ← (sem sm a c).bind ebv then pure [.bool true]
    else
      let r ← (sem sm b c).bind ebv
      pure [.bool r]
  -- §3.5 arithmetic on integers and doubles
  | .arith op a b, c => do
    match ← (sem sm a c).bind numericOperand with
    | none => pure []
    | some x =>
      match ← (sem sm b c).bind numericOperand with
      | none => pure []
      | some y => pure [arith op x y]
  | .ifE t a b, c => do
    if ← (sem sm t c).bind ebv then sem sm a c else sem sm b c

/-- §3.9: `for $x in E1, $y in E2 … return R` = `for $x in E1 return for $y in E2 … return R`;
a single `for` concatenates the results for the items of its binding sequence in order -/
def semFor (sm : Summation) : Binds → Ctx → (Ctx → R) → R
  | .one x e, c, body => do
    let s ← sem sm e c
    collect (fun v => body (bind1 c x v)) s
  | .cons x e rest, c, body => do
    let s ← sem sm e c
    collect (fun v => semFor sm rest (bind1 c x v) body) s

/-- §3.12: `some` is true iff the test holds for at least one binding tuple -/
def semSome (sm : Summation) : Binds → Ctx → (Ctx → Except Err Bool) → Except Err Bool
  | .one x e, c, test => do
    let s ← sem sm e c
    existsM (fun v => test (bind1 c x v)) s
  | .cons x e rest, c, test => do
    let s ← sem sm e c
    existsM (fun v => semSome sm rest (bind1 c x v) test) s

/-- §3.12: `every` is true iff the test holds for every binding tuple -/
def semEvery (sm : Summation) : Binds → Ctx → (Ctx → Except Err Bool) → Except Err Bool
  | .one x e, c, test => do
    let s ← sem sm e c
    forallM (fun v => test (bind1 c x v)) s
  | .cons x e rest, c, test => do
    let s ← sem sm e c
    forallM (fun v => semEvery sm rest (bind1 c x v) test) s
end

end EPV.Seq.Spec

/-
Specification side of C17, phase 5: RFC 8259 §2 *with insignificant whitespace*.

    JSON-text = ws value ws
    begin-array = ws %x5B ws   begin-object = ws %x7B ws   end-array = ws %x5D ws   end-object = ws %x7D ws
    name-separator = ws %x3A ws   value-separator = ws %x2C ws
    ws = *( %x20 / %x09 / %x0A / %x0D )

`parseJsonWs` is the reader of complete JSON texts; strings (§7) and numbers (§6) are read by the
token readers of `Spec/RFC8259.lean` (no whitespace inside a token).  Core Lean only.

`Pads toks text`: `text` is the token sequence `toks` with an arbitrary whitespace string before
every token and at the end — the set of ALL texts that differ from the compact text
`toks.flatten` by insignificant whitespace only.
-/
import EPV.Spec.RFC8259
namespace EPV.Json

/-- RFC 8259 §2 `ws`: space, horizontal tab, line feed, carriage return -/
def isWs (c : Nat) : Bool := c == 32 || c == 9 || c == 10 || c == 13

/-- skips `ws` -/
def skipWs : Str → Str
  | [] => []
  | c :: t => if isWs c then skipWs t else c :: t

mutual
/-- `value` at the head of the text (the caller has skipped `ws`); returns the text after the value -/
def parseValueWF : Nat → Str → Option (JValue × Str)
  | 0, _ => none
  | _ + 1, [] => none
  | f + 1, c :: t =>
    if c = 91 then                                   -- begin-array = ws [ ws
      match skipWs t with
      | 93 :: r => some (.arr [], r)
      | t' => mapFst JValue.arr (parseElemsWF f t')
    else if c = 123 then                             -- begin-object = ws { ws
      match skipWs t with
      | 125 :: r => some (.obj [], r)
      | t' => mapFst JValue.obj (parseMembersWF f t')
    else if c = 34 then mapFst JValue.str (parseStrF t.length t)
    else if c = 110 then
      match t with
      | 117 :: 108 :: 108 :: r => some (.null, r)
      | _ => none
    else if c = 116 then
      match t with
      | 114 :: 117 :: 101 :: r => some (.bool true, r)
      | _ => none
    else if c = 102 then
      match t with
      | 97 :: 108 :: 115 :: 101 :: r => some (.bool false, r)
      | _ => none
    else parseNum (c :: t)
/-- `value *( ws "," ws value ) ws "]"` -/
def parseElemsWF : Nat → Str → Option (List JValue × Str)
  | 0, _ => none
  | f + 1, s =>
    match parseValueWF f s with
    | some (v, r) =>
      match skipWs r with
      | 44 :: r' => mapFst (v :: ·) (parseElemsWF f (skipWs r'))
      | 93 :: r' => some ([v], r')
      | _ => none
    | none => none
/-- `member *( ws "," ws member ) ws "}"`, `member = string ws ":" ws value` -/
def parseMembersWF : Nat → Str → Option (List (Str × JValue) × Str)
  | 0, _ => none
  | f + 1, s =>
    match s with
    | 34 :: t =>
      match parseStrF t.length t with
      | some (k, r) =>
        match skipWs r with
        | 58 :: r1 =>
          match parseValueWF f (skipWs r1) with
          | some (v, r2) =>
            match skipWs r2 with
            | 44 :: r3 => mapFst ((k, v) :: ·) (parseMembersWF f (skipWs r3))
            | 125 :: r3 => some ([(k, v)], r3)
            | _ => none
          | none => none
        | _ => none
      | none => none
    | _ => none
end

/-- a complete JSON text, RFC 8259 §2: `ws value ws` -/
def parseJsonWs (s : Str) : Option JValue :=
  match parseValueWF (s.length + 1) (skipWs s) with
  | some (v, r) => match skipWs r with
    | [] => some v
    | _ => none
  | none => none

/-- `text` = the tokens `toks` in order, an arbitrary `ws` string before each and one at the end -/
inductive Pads : List Str → Str → Prop
  | nil (w : Str) : w.all isWs = true → Pads [] w
  | cons (w tok : Str) (toks : List Str) (text : Str) :
      w.all isWs = true → Pads toks text → Pads (tok :: toks) (w ++ tok ++ text)

end EPV.Json

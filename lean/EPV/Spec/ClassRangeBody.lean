/-
C12, phase 5.  The XSD group grammar ([76]-[81] of XSD 1.1 part 2, appendix G) restricted to bracket
expressions `[` `^`? body `]` whose body is made of *plain* characters (no backslash, hyphen, bracket)
and ranges `a-b` between plain characters: a decision procedure that reads such a text and says whether
the grammar has a parse (`ok`: every range is ordered, production [81] "it is an error if s > e"),
has none (`reversed`), or the text is outside this fragment (`outside`).

Written from the grammar; independent of the scanner model and of the recogniser `pClass`.
Theorem `EPV.C12.charclass_scan_ranges_decides` (Props/C12Ranges.lean) shows that the transcribed
scanner `parseClassM` and the recogniser `pClass` both follow this verdict on every such text.
The driver prints the verdict (`rb=`), the harness compares it with the real code on every run.
-/
import EPV.Model.CharClass
namespace EPV.Regex

/-- a character that needs no escape and has no role inside a group: not `\`, `-`, `[`, `]` -/
def plainB (c : Ch) : Bool := c != 92 && c != 45 && c != 91 && c != 93

/-- reads a group text made of plain characters and ranges with plain end points:
`some true` — every range is ordered; `some false` — some range is reversed; `none` — outside the fragment -/
def rangeBody : List Ch → Option Bool
  | [] => some true
  | [a] => if plainB a then some true else none
  | [a, h] => if plainB a then rangeBody [h] else none
  | a :: h :: b :: rest =>
    if plainB a then
      if h == 45 then
        (if plainB b then (rangeBody rest).map (fun ok => decide (a ≤ b) && ok) else none)
      else rangeBody (h :: b :: rest)
    else none

inductive RBVerdict where
  | ok | reversed | outside
  deriving Repr, DecidableEq

def RBVerdict.show : RBVerdict → String
  | .ok => "ok" | .reversed => "rev" | .outside => "na"

/-- `^` at the beginning of a bracket expression is the negation sign -/
def stripCaret : List Ch → Bool × List Ch
  | 94 :: rest => (true, rest)
  | inp => (false, inp)

/-- the verdict on the text after the opening `[` : `^`? body `]`, with a non-empty body -/
def rangeClassVerdict (inp : List Ch) : RBVerdict × Bool :=
  let p := stripCaret inp
  if p.2.getLast? == some 93 && !p.2.dropLast.isEmpty then
    match rangeBody p.2.dropLast with
    | some true => (.ok, p.1)
    | some false => (.reversed, p.1)
    | none => (.outside, p.1)
  else (.outside, p.1)

end EPV.Regex

namespace EPV.Regex
/-- tests on literals: `a-cx]`, `^z-a]`, `a-]`, `^]` -/
example : rangeClassVerdict [97, 45, 99, 120, 93] = (.ok, false) ∧ rangeClassVerdict [94, 122, 45, 97, 93] = (.reversed, true) ∧
    rangeClassVerdict [97, 45, 93] = (.outside, false) ∧ rangeClassVerdict [94, 93] = (.outside, true) := by decide
end EPV.Regex

/-
Specification side of C17, written from the standards, independent of the model.  Core Lean only.

* RFC 8259 §3 (values), §4 (objects), §5 (arrays), §6 (numbers), §7 (strings): the JSON data model
  `JValue` and a reference reader `parseJson` for JSON texts *without insignificant whitespace*
  (the output alphabet of every serializer of the repository).  Strings are lists of code points;
  `\uXXXX` escapes are decoded, a high/low surrogate pair denotes one code point (§7, last paragraphs).
* RFC 8259 §7: the characters that MUST be escaped (`"`, `\`, U+0000..U+001F) and the minimal
  per-character escape map `rfcEscapeChar` with the optional escapes as a parameter.
* F&O 3.1 §17.5.1 (fn:parse-json): `duplicates` policies on the pairs of an object (`dedupe`).
* XML 1.0 §2.2 `Char` (what F&O §17.4 / §17.5 allow in result strings): `isXmlChar`.
-/
namespace EPV.Json

abbrev Str := List Nat

/-- A finite decimal floating number `(-1)^neg × 0.d₁d₂…dₖ × 10^decpt` (digits are values 0..9).
Normal form (`Dec.wf`): `d₁ ≠ 0`, `dₖ ≠ 0`, or the zero `digits = [0], decpt = 1`. -/
structure Dec where
  neg : Bool
  digits : List Nat
  decpt : Int
  deriving Repr, DecidableEq, Inhabited

/-- RFC 8259 §3.  Numbers keep the distinction "integer literal" / "literal with fraction or
exponent" because every JSON reader involved (Python `json`, fn:parse-json of the repository) does. -/
inductive JValue where
  | null
  | bool (b : Bool)
  | int (n : Int)
  | dbl (d : Dec)
  | str (s : Str)
  | arr (l : List JValue)
  | obj (m : List (Str × JValue))
  deriving Repr, Inhabited

/-! ## §7 strings -/

/-- RFC 8259 §7: "All Unicode characters may be placed within the quotation marks, except for the
characters that MUST be escaped: quotation mark, reverse solidus, and the control characters
(U+0000 through U+001F)." -/
def mustEscape (c : Nat) : Bool := c == 34 || c == 92 || c < 32

def hexDigitVal? (c : Nat) : Option Nat :=
  if 48 ≤ c ∧ c ≤ 57 then some (c - 48)
  else if 65 ≤ c ∧ c ≤ 70 then some (c - 55)
  else if 97 ≤ c ∧ c ≤ 102 then some (c - 87)
  else none

/-- four hex digits at the head of the text: their value and the remaining text -/
def hex4? : Str → Option (Nat × Str)
  | a :: b :: c :: d :: r =>
    match hexDigitVal? a, hexDigitVal? b, hexDigitVal? c, hexDigitVal? d with
    | some x, some y, some z, some w => some (4096 * x + 256 * y + 16 * z + w, r)
    | _, _, _, _ => none
  | _ => none

/-- §7 two-character escapes -/
def simpleEscape? (e : Nat) : Option Nat :=
  if e = 34 then some 34 else if e = 92 then some 92 else if e = 47 then some 47
  else if e = 98 then some 8 else if e = 102 then some 12 else if e = 110 then some 10
  else if e = 114 then some 13 else if e = 116 then some 9 else none

def consStr (c : Nat) : Option (Str × Str) → Option (Str × Str)
  | some (s, r) => some (c :: s, r)
  | none => none

/-- reads `*char quotation-mark` (the opening quotation mark already consumed): the denoted string
and the text after the closing quotation mark.  Fuel = number of characters that may be read. -/
def parseStrF : Nat → Str → Option (Str × Str)
  | 0, _ => none
  | _ + 1, [] => none
  | f + 1, c :: t =>
    if c = 34 then some ([], t)
    else if c = 92 then
      match t with
      | [] => none
      | e :: r =>
        if e = 117 then
          match hex4? r with
          | none => none
          | some (v, r') =>
            if 0xD800 ≤ v ∧ v ≤ 0xDBFF then
              match r' with
              | 92 :: 117 :: r2 =>
                match hex4? r2 with
                | some (w, r3) =>
                  if 0xDC00 ≤ w ∧ w ≤ 0xDFFF then
                    consStr (0x10000 + (v - 0xD800) * 1024 + (w - 0xDC00)) (parseStrF f r3)
                  else consStr v (parseStrF f r')
                | none => consStr v (parseStrF f r')
              | _ => consStr v (parseStrF f r')
            else consStr v (parseStrF f r')
        else
          match simpleEscape? e with
          | some d => consStr d (parseStrF f r)
          | none => none
    else if c < 32 then none
    else consStr c (parseStrF f t)

/-- what the body of a JSON string (the text between the quotation marks) denotes -/
def decodeBody (t : Str) : Option Str :=
  match parseStrF (t.length + 1) (t ++ [34]) with
  | some (s, []) => some s
  | _ => none

/-- RFC 8259 §7 per-character escape map.  `extra c` = the optional escapes an encoder chooses in
addition to the mandatory ones (`/` is written `\/`, any other optional character `\uXXXX`);
`hex` renders one hex digit (upper or lower case, both are allowed). -/
def rfcEscapeChar (extra : Nat → Bool) (hex : Nat → Nat) (c : Nat) : Str :=
  if c = 34 then [92, 34] else if c = 92 then [92, 92]
  else if c = 8 then [92, 98] else if c = 12 then [92, 102] else if c = 10 then [92, 110]
  else if c = 13 then [92, 114] else if c = 9 then [92, 116]
  else if c = 47 ∧ extra c then [92, 47]
  else if c < 32 ∨ (extra c ∧ c < 0x10000) then
    [92, 117, hex (c / 4096 % 16), hex (c / 256 % 16), hex (c / 16 % 16), hex (c % 16)]
  else [c]

def upperHex (d : Nat) : Nat := if d < 10 then 48 + d else 55 + d
def lowerHex (d : Nat) : Nat := if d < 10 then 48 + d else 87 + d

/-! ## §6 numbers -/

def isDigit (c : Nat) : Bool := 48 ≤ c && c ≤ 57

/-- longest prefix of digits (as values 0..9) and the rest -/
def spanDigits : Str → List Nat × Str
  | [] => ([], [])
  | c :: t => if isDigit c then let (d, r) := spanDigits t; ((c - 48) :: d, r) else ([], c :: t)

def digitsVal (ds : List Nat) : Nat := ds.foldl (fun a d => 10 * a + d) 0

def stripLeadingZeros : List Nat → Int → List Nat × Int
  | 0 :: t, pt => stripLeadingZeros t (pt - 1)
  | l, pt => (l, pt)

def stripTrailingZeros (l : List Nat) : List Nat := (l.reverse.dropWhile (· == 0)).reverse

/-- the decimal number with digit string `ds` and the decimal point after `pt` digits, in normal form -/
def normDec (neg : Bool) (ds : List Nat) (pt : Int) : Dec :=
  let (l, pt') := stripLeadingZeros ds pt
  let l' := stripTrailingZeros l
  if l' = [] then ⟨neg, [0], 1⟩ else ⟨neg, l', pt'⟩

/-- `[ minus ]` -/
def parseSign : Str → Bool × Str
  | 45 :: r => (true, r)
  | s => (false, s)

/-- `[ frac ]`, `frac = decimal-point 1*DIGIT`; outer `none` = malformed -/
def parseFrac : Str → Option (Option (List Nat) × Str)
  | 46 :: r =>
    match spanDigits r with
    | ([], _) => none
    | (fp, r') => some (some fp, r')
  | s => some (none, s)

/-- `[ exp ]`, `exp = e [ minus / plus ] 1*DIGIT`; outer `none` = malformed -/
def parseExp : Str → Option (Option Int × Str)
  | [] => some (none, [])
  | c :: r =>
    if c = 101 ∨ c = 69 then
      let (sg, r1) : Bool × Str := match r with
        | 43 :: r' => (false, r')
        | 45 :: r' => (true, r')
        | _ => (false, r)
      match spanDigits r1 with
      | ([], _) => none
      | (ed, r2) => some (some (if sg then -(digitsVal ed : Int) else (digitsVal ed : Int)), r2)
    else some (none, c :: r)

/-- `number = [ minus ] int [ frac ] [ exp ]`, `int = zero / ( digit1-9 *DIGIT )`.
An integer literal denotes an integer, anything else the decimal number in normal form. -/
def parseNum (s : Str) : Option (JValue × Str) :=
  match parseSign s with
  | (neg, s1) =>
    match spanDigits s1 with
    | (ip, s2) =>
      if ip = [] then none
      else if 1 < ip.length ∧ ip.head? = some 0 then none      -- leading zero
      else
        match parseFrac s2 with
        | none => none
        | some (fp, s3) =>
          match parseExp s3 with
          | none => none
          | some (ex, s4) =>
            match fp, ex with
            | none, none => some (.int (if neg then -(digitsVal ip : Int) else (digitsVal ip : Int)), s4)
            | _, _ => some (.dbl (normDec neg (ip ++ fp.getD []) ((ip.length : Int) + ex.getD 0)), s4)

/-! ## §2–§5 values -/

def mapFst {α β γ} (f : α → γ) : Option (α × β) → Option (γ × β)
  | some (a, b) => some (f a, b)
  | none => none

mutual
/-- `value = false / null / true / object / array / number / string` (no whitespace) -/
def parseValueF : Nat → Str → Option (JValue × Str)
  | 0, _ => none
  | _ + 1, [] => none
  | f + 1, c :: t =>
    if c = 91 then                                   -- [
      match t with
      | 93 :: r => some (.arr [], r)
      | _ => mapFst JValue.arr (parseElemsF f t)
    else if c = 123 then                             -- {
      match t with
      | 125 :: r => some (.obj [], r)
      | _ => mapFst JValue.obj (parseMembersF f t)
    else if c = 34 then mapFst JValue.str (parseStrF t.length t)
    else if c = 110 then                             -- null
      match t with
      | 117 :: 108 :: 108 :: r => some (.null, r)
      | _ => none
    else if c = 116 then                             -- true
      match t with
      | 114 :: 117 :: 101 :: r => some (.bool true, r)
      | _ => none
    else if c = 102 then                             -- false
      match t with
      | 97 :: 108 :: 115 :: 101 :: r => some (.bool false, r)
      | _ => none
    else parseNum (c :: t)
/-- `value *( "," value ) "]"` -/
def parseElemsF : Nat → Str → Option (List JValue × Str)
  | 0, _ => none
  | f + 1, s =>
    match parseValueF f s with
    | some (v, 44 :: r) => mapFst (v :: ·) (parseElemsF f r)
    | some (v, 93 :: r) => some ([v], r)
    | _ => none
/-- `member *( "," member ) "}"`, `member = string ":" value` -/
def parseMembersF : Nat → Str → Option (List (Str × JValue) × Str)
  | 0, _ => none
  | f + 1, s =>
    match s with
    | 34 :: t =>
      match parseStrF t.length t with
      | some (k, 58 :: r) =>
        match parseValueF f r with
        | some (v, 44 :: r') => mapFst ((k, v) :: ·) (parseMembersF f r')
        | some (v, 125 :: r') => some ([(k, v)], r')
        | _ => none
      | _ => none
    | _ => none
end

/-- a complete JSON text (RFC 8259 §2 without the optional whitespace) -/
def parseJson (s : Str) : Option JValue :=
  match parseValueF (s.length + 1) s with
  | some (v, []) => some v
  | _ => none

/-! ## XML characters, F&O §17.5.1 duplicates -/

/-- XML 1.0 §2.2 `Char` -/
def isXmlChar (c : Nat) : Bool :=
  c == 9 || c == 10 || c == 13 || (0x20 ≤ c && c ≤ 0xD7FF) || (0xE000 ≤ c && c ≤ 0xFFFD) ||
    (0x10000 ≤ c && c ≤ 0x10FFFF)

inductive DupPolicy where
  | useFirst | useLast | reject | retain
  deriving Repr, DecidableEq

/-- F&O 3.1 §17.5.1, option `duplicates`: `use-first` keeps the first member with a given key,
`use-last` the last value (listed at the position of the first occurrence; XDM maps are unordered),
`reject` is an error (FOJS0003); `retain` (json-to-xml only, §17.4.1) keeps everything.
`seen` = keys already emitted. -/
def dedupeFirst {α} (seen : List Str) : List (Str × α) → List (Str × α)
  | [] => []
  | (k, v) :: t => if k ∈ seen then dedupeFirst seen t else (k, v) :: dedupeFirst (k :: seen) t

def lastValue {α} (k : Str) (v : α) (t : List (Str × α)) : α :=
  match (t.filter (·.1 == k)).getLast? with
  | some kv => kv.2
  | none => v

def dedupeLast {α} (seen : List Str) : List (Str × α) → List (Str × α)
  | [] => []
  | (k, v) :: t =>
    if k ∈ seen then dedupeLast seen t else (k, lastValue k v t) :: dedupeLast (k :: seen) t

def hasDupKeys {α} : List (Str × α) → Bool
  | [] => false
  | (k, _) :: t => t.any (·.1 == k) || hasDupKeys t

def dedupe {α} (p : DupPolicy) (m : List (Str × α)) : Option (List (Str × α)) :=
  match p with
  | .retain => some m
  | .useFirst => some (dedupeFirst [] m)
  | .useLast => some (dedupeLast [] m)
  | .reject => if hasDupKeys m then none else some m

mutual
/-- F&O 3.1 §17.5.1 fn:parse-json on a JSON value whose strings are XML strings: the `duplicates`
policy applied in every object, inner objects first. -/
def dedupeAll (p : DupPolicy) : JValue → Option JValue
  | .arr l => (dedupeAllL p l).map JValue.arr
  | .obj m => (dedupeAllM p m).bind fun m' => (dedupe p m').map JValue.obj
  | v => some v
def dedupeAllL (p : DupPolicy) : List JValue → Option (List JValue)
  | [] => some []
  | v :: t => (dedupeAll p v).bind fun v' => (dedupeAllL p t).map (v' :: ·)
def dedupeAllM (p : DupPolicy) : List (Str × JValue) → Option (List (Str × JValue))
  | [] => some []
  | (k, v) :: t => (dedupeAll p v).bind fun v' => (dedupeAllM p t).map ((k, v') :: ·)
end

/-! ## XML 1.0 character data and attribute values (reader side of fn:parse-xml ∘ fn:serialize)

§2.11 end-of-line handling (before anything else: `CR LF` and a lone `CR` become `LF`), §4.1/§4.6
character and predefined entity references, §2.4 (`<` and a bare `&` are markup), §3.3.3
attribute-value normalization (a literal TAB / LF becomes a space; a character reference does not). -/

/-- §2.11 -/
def normEolAux : Bool → Str → Str
  | _, [] => []
  | afterCR, c :: t =>
    if c = 13 then 10 :: normEolAux true t                  -- CR (and CR of CR LF) -> LF
    else if c = 10 ∧ afterCR = true then normEolAux false t  -- the LF of CR LF
    else c :: normEolAux false t

def normEol (t : Str) : Str := normEolAux false t

/-- a reference after `&`: the character and the text after the closing `;` -/
def readRef (t : Str) : Option (Nat × Str) :=
  match t with
  | 97 :: 109 :: 112 :: 59 :: r => some (38, r)                 -- amp;
  | 108 :: 116 :: 59 :: r => some (60, r)                       -- lt;
  | 103 :: 116 :: 59 :: r => some (62, r)                       -- gt;
  | 113 :: 117 :: 111 :: 116 :: 59 :: r => some (34, r)         -- quot;
  | 97 :: 112 :: 111 :: 115 :: 59 :: r => some (39, r)          -- apos;
  | 35 :: r =>                                                  -- #DDD;
    match spanDigits r with
    | ([], _) => none
    | (ds, 59 :: r') => some (digitsVal ds, r')
    | _ => none
  | _ => none

/-- character data / attribute value after end-of-line normalization.  `attr`: §3.3.3.
Fuel = number of characters that may be read. -/
def readCharsF (attr : Bool) : Nat → Str → Option Str
  | 0, _ => some []
  | _ + 1, [] => some []
  | f + 1, c :: t =>
    if c = 38 then
      match readRef t with
      | some (d, r) => (readCharsF attr f r).map (d :: ·)
      | none => none
    else if c = 60 then none
    else if attr ∧ c = 34 then none
    else if attr ∧ (c = 9 ∨ c = 10) then (readCharsF attr f t).map (32 :: ·)
    else (readCharsF attr f t).map (c :: ·)

/-- what an XML parser reports for serialized character data -/
def xmlReadText (t : Str) : Option Str := readCharsF false (normEol t).length (normEol t)
/-- what an XML parser reports for a serialized (double-quoted) attribute value -/
def xmlReadAttr (t : Str) : Option Str := readCharsF true (normEol t).length (normEol t)

end EPV.Json

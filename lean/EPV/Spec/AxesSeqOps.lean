/-
C01 (phase 5) — specification of `,`, `!` and of a path step applied to their result.
  * XPath 2.0 §3.3.1 "Constructing Sequences": "the comma operator … evaluates each of its operands and
    concatenates the resulting sequences, in order, into a single result sequence" (no reordering, duplicates stay).
  * XPath 3.0 §3.14 "Simple map operator": "E1 is evaluated once to produce a sequence S.  Each item in S then
    serves in turn to provide an inner focus (the context item, position and size) for an evaluation of E2 …
    The sequences resulting from all the evaluations of E2 are combined … returned in order" — unlike `/`
    no duplicate elimination, no document ordering.  S is in the order E1 delivers it (an axis step: document
    order, §3.3.2), so the context position is the 1-based index in S and the size is its length.
  * XPath 2.0/3.0 §3.2 "E1/E2": every item of E1 must be a node (XPTY0019); if every evaluation of E2 returns
    nodes, the result is their union, duplicates eliminated, in document order.
  * XPath 2.0 §3.3.2 / 3.0 §3.2.2 filter expressions `E[p]`: "for each item in the input sequence, the predicate
    expression is evaluated using an inner focus … the context position is the position of the context item within
    the input sequence"; a numeric predicate value keeps the item iff it equals the context position, otherwise
    the effective boolean value decides; "the items … are returned in their original order" (duplicates stay).
Reads only `Spec.sem` of the 1.0 fragment; independent of the model's focus numbering (`zipIdx`).
-/
import EPV.Spec.XPath1Paths
import EPV.Model.AxesSeqOps
namespace EPV.XP.Spec
open EPV.XP

def ssem (m : Mode) (a : Arr) : SExpr → Focus → Option (List Item)
  | .base e, f => itemsOf (sem m a e f)
  | .comma l r, f =>
    match ssem m a l f, ssem m a r f with
    | some x, some y => some (x ++ y)
    | _, _ => none
  | .bang l r, f =>
    match ssem m a l f with
    | some s =>
      match nodesOnly s with
      | some ns => catOpt ((ns.zipIdx 1).map fun p => ssem m a r ⟨p.1, p.2, ns.length⟩)
      | none => none
    | none => none
  | .slash l r, f =>
    match ssem m a l f with
    | some s =>
      match nodesOnly s with
      | some ns => itemsOf (ofSets a (nodeSets (ns.map fun n => sem m a r ⟨n, 1, 1⟩)))
      | none => none
    | none => none
  | .filter l p, f =>
    match ssem m a l f with
    | some s =>
      match nodesOnly s with
      | some ns =>
        let cs := (ns.zipIdx 1).map fun q => (⟨q.1, q.2, ns.length⟩ : Focus)
        (selectBy cs (cs.map fun c => predTruth (sem m a p c) c)).map (·.map .node)
      | none => none
    | none => none
  | .slashNum l r, f =>
    -- §3.2: "if every evaluation of E2 returns atomic values, the resulting sequences are concatenated, in order";
    -- the inner focus of E2: position = index of the node in the sequence of E1, size = its length
    match ssem m a l f with
    | some s =>
      match nodesOnly s with
      | some ns => catOpt ((ns.zipIdx 1).map fun q => itemsOf (sem m a r ⟨q.1, q.2, ns.length⟩))
      | none => none
    | none => none

end EPV.XP.Spec

/-
F&O 3.1 §5.6.4 `fn:tokenize`, one-argument form, written from the text:

 "The one-argument form of this function splits the supplied string at whitespace boundaries.
  Calling fn:tokenize($input) is equivalent to calling fn:tokenize(fn:normalize-space($input), ' ')
  where the second argument is a single space character (x20)."
 "If $input is the empty sequence, or if $input is the zero-length string, the function returns the
  empty sequence."   "If two alternatives/separators are adjacent, a zero-length token results"
  (cannot happen after normalize-space).
`fn:normalize-space` (§5.4.5) knows exactly the XML whitespace characters #x20 #x9 #xD #xA.

A second, direct reading is given too: the tokens are the maximal runs of non-whitespace characters
(`maxRuns`), so that the spec does not rest on one formulation.
-/
import EPV.Spec.FOStrings
namespace EPV.FOStrings

/-- `fn:tokenize($input as xs:string?)` -/
def fnTokenize1 : Option Str → List Str
  | none => []
  | some s => tokenize1 s      -- = tokenize(normalize-space(s), ' '), `()` for the zero-length string

/-- direct reading: the maximal runs of non-whitespace characters, in order -/
def maxRuns : Str → List Str
  | [] => []
  | c :: cs =>
    if isWs c then maxRuns cs
    else
      match cs with
      | [] => [[c]]
      | d :: _ =>
        if isWs d then [c] :: maxRuns cs
        else match maxRuns cs with
          | [] => [[c]]
          | w :: ws => (c :: w) :: ws

end EPV.FOStrings

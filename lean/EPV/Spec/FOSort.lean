/-
C15 (phase 5) — F&O 3.1 §16.2.6 fn:sort / §17.3.17 array:sort, written from the text.

"The relation deep-less-than($A, $B) is true if
 (a) $A is empty and $B is not; or
 (b) fn:deep-equal($A[1], $B[1], $C) and deep-less-than(tail($A), tail($B)); or
 (c) $A[1] and $B[1] are both NaN and deep-less-than(tail($A), tail($B)); or
 (d) both are xs:string/xs:anyURI and fn:compare($A[1], $B[1], $C) lt 0; or
 (e) $A[1] is NaN and $B[1] is not NaN; or
 (f) $A[1] lt $B[1] is true."
"The result of fn:sort is a permutation of the input such that if $key(A) deep-less-than $key(B) then A
precedes B, and if neither key is deep-less-than the other the input order is retained (stable)."
array:sort applies `$key` to each *member* (a sequence).  `lt` not defined for a pair → XPTY0004.

The sort itself is written as a selection of the first minimal element — an algorithm different from the
model's insertion, so that the comparison on every run is not a tautology.
-/
import EPV.Model.MapArraySortKey
namespace EPV.MapArray.Spec

/-- `op:numeric-less-than` / `op:boolean-less-than` / code point comparison; false for NaN operands -/
def opLt : XKey → XKey → Bool
  | .ninf, .num _ => true
  | .ninf, .pinf => true
  | .num _, .pinf => true
  | .num x, .num y => decide (x < y)
  | .str x, .str y => lexLtNat x y
  | .bool x, .bool y => !x && y
  | _, _ => false

def deepLt : List XKey → List XKey → Bool
  | [], [] => false
  | [], _ :: _ => true                       -- (a)
  | _ :: _, [] => false
  | a :: as, b :: bs =>
    if a = b then deepLt as bs               -- (b) `eq` on exact values, (c) NaN with NaN
    else if a = .nan then true               -- (e)
    else opLt a b                            -- (d), (f)

/-- the first element with property `p`, and the list without it (order kept) -/
def pickFirst (p : α → Bool) : List α → Option (α × List α)
  | [] => none
  | x :: xs => if p x then some (x, xs) else (pickFirst p xs).map fun yr => (yr.1, x :: yr.2)

/-- stable sort by a strict relation: repeatedly take the first element that no element is less than -/
def selSort (lt : α → α → Bool) : Nat → List α → List α
  | 0, _ => []
  | n + 1, l =>
    match pickFirst (fun x => l.all fun y => !lt y x) l with
    | some (x, rest) => x :: selSort lt n rest
    | none => []

def arrSort (kf : KFn) (ms : List (List Key)) : Except Err (List (List Key)) :=
  match sortKeysOf kf ms with
  | none => .error .XPTY0004
  | some keyed =>
    if keyed.length ≤ 1 then .ok ms
    else if sameClass (keyed.map (·.2)) then
      .ok ((selSort (fun a b => deepLt a.2 b.2) keyed.length keyed).map (·.1))
    else .error .XPTY0004

end EPV.MapArray.Spec

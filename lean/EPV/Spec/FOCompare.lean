/-
C07 — specification side, written from the W3C texts (not from the code):

  * XPath 3.1 §3.7.1 (value comparisons) + Appendix B.2 (operator mapping), F&O 3.1 §4.3 (numeric
    comparison), §5.3.6/§5.3.8 (codepoint collation), §6 (boolean), §8.2 (durations), §9.4
    (dates/times), §10.2 (QName), §11.1-11.2 (binary; the `lt`/`gt` of binaries exist from 3.1 on)
  * XPath 3.1 §3.7.2 / XPath 2.0 §3.5.2 (general comparisons, with and without XPath 1.0
    compatibility mode), XPath 1.0 §3.4 (for the 1.0 parser)
  * XPath 3.1 §2.1.2 (dynamic context: implicit timezone) — `withImplicitTz`, `generalAllowedCtx`, `valueAllowedCtx`
  * XPath 3.1 §2.4.3 / F&O 3.1 §7.3.1 fn:boolean (effective boolean value), §3.8 (and/or), §3.12 (if)
  * XPath 3.1 §2.3.4 (errors and optimisation): where several outcomes are permitted the spec is
    the *set* of permitted outcomes (`…Allowed`).

Shared with the model (imported, not re-defined): the data types `Atom`/`Item`/`Mode`/`Op`/`Err`, the
exact-rational reading of IEEE doubles `D` with `toD64`/`toD32` (IEEE-754 roundTiesToEven), and the
*lexical fragment* classifiers `lexNum`/`hexDecode`/`b64Decode`/`ncName`/`notTemporalLexical` (the XSD lexical mappings themselves are C10's
subject; outside the fragment the spec answers "not applicable").  The orders, the promotion rules,
the conversion rules and the comparability table below are independent of the model.
-/
import EPV.Model.Compare
namespace EPV.CmpSpec
open EPV.Cmp

inductive Out where
  | t | f | empty | err (e : Err)
  deriving DecidableEq, Repr, Inhabited

def Out.ofBool (b : Bool) : Out := if b then .t else .f

/-! ### value spaces and their orders -/

/-- F&O §4.3 op:numeric-equal on xs:double/xs:float values: NaN is not equal to anything,
positive and negative zero are equal, the infinities equal themselves -/
def numEq : D → D → Bool
  | .nan, _ => false
  | _, .nan => false
  | .pinf, .pinf => true
  | .ninf, .ninf => true
  | .pinf, _ => false | _, .pinf => false
  | .ninf, _ => false | _, .ninf => false
  | a, b => decide (a.val = b.val)

/-- op:numeric-less-than: false if an operand is NaN; -INF below and +INF above every finite value -/
def numLt : D → D → Bool
  | .nan, _ => false
  | _, .nan => false
  | .pinf, _ => false
  | _, .ninf => false
  | .ninf, _ => true
  | _, .pinf => true
  | a, b => decide (a.val < b.val)

/-- a strict order `lt` + equality `eq` give the six operators (B.2: `ne` = not `eq`,
`le` = `lt` or `eq`, `gt`/`ge` by swapping) -/
def six (lt eq : α → α → Bool) (op : Op) (a b : α) : Bool :=
  match op with
  | .eq => eq a b
  | .ne => !eq a b
  | .lt => lt a b
  | .le => lt a b || eq a b
  | .gt => lt b a
  | .ge => lt b a || eq a b

/-- F&O §9.4 / XSD §3.3.7 order relation: the instant of a date/time value, local reading minus
timezone offset; without a timezone the implicit timezone (UTC, PT0S) is used -/
def instant (d : DT) : Int :=
  match d.tz with
  | some off => d.t - 60 * off
  | none => d.t

/-- codepoint collation: strings are ordered as the sequences of their code points -/
def strLtS (a b : Str) : Bool := decide (a < b)
def strEqS (a b : Str) : Bool := decide (a = b)

/-- octet-by-octet order of F&O 3.1 §11.2 (op:hexBinary-less-than) -/
def octLt (a b : List Nat) : Bool := decide (a < b)

/-! ### numeric promotion (XPath §3.7.1 rule 5 / B.1) -/

/-- 0 = xs:decimal (incl. xs:integer), 1 = xs:float, 2 = xs:double -/
def numRank : Atom → Option Nat
  | .int _ => some 0 | .dec _ => some 0 | .flt _ => some 1 | .dbl _ => some 2 | _ => none

/-- the value of a numeric atom cast to the type of rank `k` -/
def castNum (k : Nat) : Atom → D
  | .int v => if k = 0 then .fin v else if k = 1 then toD32 v else toD64 v
  | .dec q => if k = 0 then .fin q else if k = 1 then toD32 q else toD64 q
  | .flt d => d          -- every xs:float value is an xs:double value
  | .dbl d => d
  | _ => .nan

/-! ### value comparison of two typed atoms (no untypedAtomic left) -/

def isEqNe (op : Op) : Bool := op = .eq || op = .ne

/-- XPath 3.1 §3.7.1 rules 5-6 + B.2 on two atoms; `binOrd` = the binary types are ordered (3.1) -/
def valueOp (binOrd : Bool) (op : Op) (a b : Atom) : Except Err Bool :=
  match numRank a, numRank b with
  | some i, some j =>
    let k := if i < j then j else i
    .ok (six numLt numEq op (castNum k a) (castNum k b))
  | _, _ =>
  match a, b with
  -- xs:string and xs:anyURI (anyURI is promoted to string)
  | .str s, .str t | .str s, .uri t | .uri s, .str t | .uri s, .uri t => .ok (six strLtS strEqS op s t)
  | .bool x, .bool y => .ok (six (fun p q => !p && q) (fun p q => p == q) op x y)
  -- F&O §9.4: dates, times and dateTimes are ordered as instants on the timeline (a value without
  -- timezone takes the implicit timezone: UTC here)
  | .date s, .date t | .dtm s, .dtm t | .time s, .time t =>
    .ok (six (fun p q => decide (p < q)) (fun p q => decide (p = q)) op (instant s) (instant t))
  | .ymd s, .ymd t => .ok (six (fun p q => decide (p < q)) (fun p q => decide (p = q)) op s t)
  | .dtd s, .dtd t => .ok (six (fun p q => decide (p < q)) (fun p q => decide (p = q)) op s t)
  | .qn ns _ loc, .qn ns' _ loc' =>
    if isEqNe op then .ok (six (fun _ _ => false) (fun (p q : Str × Str) => decide (p = q)) op (ns, loc) (ns', loc'))
    else .error .XPTY0004
  | .hex x, .hex y | .b64 x, .b64 y =>
    if isEqNe op || binOrd then .ok (six octLt (fun p q => decide (p = q)) op x y) else .error .XPTY0004
  | _, _ =>
    -- op:duration-equal is defined on any two durations
    if a.isDur && b.isDur && isEqNe op then
      .ok (six (fun _ _ => false) (fun (p q : Int × Int) => decide (p = q)) op a.durVal b.durVal)
    else .error .XPTY0004

def binOrdered (m : Mode) : Bool := m = .v31

/-! ### casts of xs:untypedAtomic (F&O §19.2), on the lexical fragment -/

def toErr : PyR → Err
  | .valueErr => .FORG0001 | .typeErr => .XPTY0004 | .exc e => .other e | _ => .unsupported

/-- cast to xs:double -/
def castDouble (s : Str) : Except Err D :=
  match lexNum s with
  | .lit q neg => .ok (toD64 q neg)
  | .nan => .ok .nan | .pinf => .ok .pinf | .ninf => .ok .ninf
  | .invalid => .error .FORG0001
  | .unsupported => .error .unsupported

/-- cast to xs:boolean: `true`, `false`, `1`, `0` -/
def castBool (s : Str) : Except Err Bool :=
  let v := strip s
  if v = sTrue || v = [49] then .ok true else if v = sFalse || v = [48] then .ok false
  else .error .FORG0001

/-- XPath 3.1 §3.7.2 rule (b)/(c): the untypedAtomic value `s` is cast to a type that depends on
the dynamic type of the other operand `o` -/
def castUntyped (s : Str) (o : Atom) : Except Err Atom :=
  match o with
  | .int _ | .dec _ | .dbl _ | .flt _ => (castDouble s).map .dbl
  | .str _ => .ok (.str s)
  | .ua _ => .ok (.str s)
  | .bool _ => (castBool s).map .bool
  | .uri _ => if hasInnerWs s then .error .unsupported else .ok (.uri (strip s))
  | .qn .. =>
    -- XPath 3.x (F&O 3.1 §19.3.? casting to xs:QName): an unprefixed lexical NCName gives a QName in no
    -- namespace (no default element namespace is declared in the harness' static context); a prefixed
    -- one needs the statically known namespaces (FONS0004 here): not applicable.  XPath 2.0: see `pairSpec`.
    (match ncName s with
     | .valid v => .ok (.qn [] [] v)
     | .invalid => .error .FORG0001
     | _ => .error .unsupported)
  | .date _ | .dtm _ | .time _ | .dur .. | .ymd _ | .dtd _ =>
    if notTemporalLexical s then .error .FORG0001 else .error .unsupported
  | .hex _ =>
    if hasInnerWs s then .error .unsupported else
    match hexDecode (strip s) with
    | some b => .ok (.hex b)
    | none => .error .FORG0001
  | .b64 _ =>
    match b64Decode (s.filter fun c => !isWs c) with
    | some b => .ok (.b64 b)
    | none => .error .FORG0001

/-- rule (b)/(c) then the value comparison, for a pair with exactly one untyped operand -/
def castThen (m : Mode) (op : Op) (a b : Atom) : Except Err Bool :=
  match a, b with
  | .ua s, _ =>
    (match castUntyped s b with
     | .ok a' => valueOp (binOrdered m) op a' b
     | .error e => .error e)
  | _, .ua t =>
    (match castUntyped t a with
     | .ok b' => valueOp (binOrdered m) op a b'
     | .error e => .error e)
  | _, _ => valueOp (binOrdered m) op a b

/-- one pair of a general comparison without compatibility mode (XPath 3.1 §3.7.2 rules a-d) -/
def pairSpec (m : Mode) (op : Op) (a b : Atom) : Except Err Bool :=
  match a, b with
  | .ua s, .ua t => valueOp (binOrdered m) op (.str s) (.str t)
  -- XPath 2.0 (F&O 1.0 §17.1 casting table): xs:untypedAtomic cannot be cast to xs:QName → XPTY0004
  | .ua _, .qn .. => if m = .v31 then castThen m op a b else .error .XPTY0004
  | .qn .., .ua _ => if m = .v31 then castThen m op a b else .error .XPTY0004
  | .ua s, _ =>
    (match castUntyped s b with
     | .ok a' => valueOp (binOrdered m) op a' b
     | .error e => .error e)
  | _, .ua t =>
    (match castUntyped t a with
     | .ok b' => valueOp (binOrdered m) op a b'
     | .error e => .error e)
  | _, _ => valueOp (binOrdered m) op a b

/-- the set of outcomes permitted for "∃ pair" semantics with errors (XPath 3.1 §3.7.2 last
paragraph and §2.3.4): `true` if some pair is true, any error raised by some pair, `false` only if
every pair is false.  `none` = some pair is outside the supported fragment. -/
def isUnsupportedR : Except Err Bool → Bool | .error .unsupported => true | _ => false
def isTrueR : Except Err Bool → Bool | .ok true => true | _ => false
def isFalseR : Except Err Bool → Bool | .ok false => true | _ => false
def errOutR : Except Err Bool → Option Out | .error e => some (.err e) | _ => none

def allowedOfPairs (rs : List (Except Err Bool)) : Option (List Out) :=
  if rs.any isUnsupportedR then none else
  some ((if rs.any isTrueR then [.t] else []) ++ (if rs.all isFalseR then [.f] else []) ++ rs.filterMap errOutR)

/-! ### fn:boolean (F&O 3.1 §7.3.1) -/

/-- effective boolean value of a sequence: empty → false; first item a node → true; a singleton
xs:boolean → itself; a singleton string / anyURI / untypedAtomic → length > 0; a singleton numeric →
false iff NaN or zero; every other case raises FORG0006 -/
def ebv : List Item → Out
  | [] => .f
  | .node _ :: _ => .t
  | [.atom (.bool b)] => .ofBool b
  | [.atom (.str s)] | [.atom (.ua s)] | [.atom (.uri s)] => .ofBool (decide (s.length > 0))
  | [.atom (.int v)] => .ofBool (decide (v ≠ 0))
  | [.atom (.dec q)] => .ofBool (decide (q ≠ 0))
  | [.atom (.dbl d)] | [.atom (.flt d)] =>
    (match d with
     | .nan => .f | .negZero => .f | .pinf => .t | .ninf => .t
     | .fin q => .ofBool (decide (q ≠ 0)))
  | _ => .err .FORG0006

def notS : Out → Out | .t => .f | .f => .t | o => o

/-- XPath 3.1 §3.8 table for `and`: permitted outcomes given the two EBVs -/
def andS (a b : Out) : List Out :=
  match a, b with
  | .t, .t => [.t]
  | .t, .f | .f, .t | .f, .f => [.f]
  | .t, .err e | .err e, .t => [.err e]
  | .f, .err e | .err e, .f => [.f, .err e]
  | .err e, .err e' => if e = e' then [.err e] else [.err e, .err e']
  | _, _ => []
/-- XPath 3.1 §3.8 table for `or` -/
def orS (a b : Out) : List Out :=
  match a, b with
  | .f, .f => [.f]
  | .t, .f | .f, .t | .t, .t => [.t]
  | .f, .err e | .err e, .f => [.err e]
  | .t, .err e | .err e, .t => [.t, .err e]
  | .err e, .err e' => if e = e' then [.err e] else [.err e, .err e']
  | _, _ => []

/-! ### XPath 1.0 compatibility mode (XPath 2.0 §3.5.2) -/

/-- fn:number (F&O §4.5.1... / 2.0 §14.4.?): cast to xs:double, NaN when that fails -/
def fnNumber : Atom → Option D
  | .int v => some (toD64 v) | .dec q => some (toD64 q) | .dbl d => some d | .flt d => some d
  | .bool b => some (.fin (if b then 1 else 0))
  | .str s | .ua s =>
    (match castDouble s with
     | .ok d => some d
     | .error .unsupported => none
     | .error _ => some .nan)
  | _ => some .nan

/-- casts to xs:string that the spec needs in rule 4b; other types: not supported (`none`) -/
def castString : Atom → Option Str
  | .str s => some s | .ua s => some s | .uri s => some s
  | .bool b => some (if b then sTrue else sFalse)
  | _ => none

def isNumeric (a : Atom) : Bool := (numRank a).isSome

/-- one pair under rule 4 (a-d) of XPath 2.0 §3.5.2 (compatibility mode) -/
def pairCompat (m : Mode) (op : Op) (a b : Atom) : Except Err Bool :=
  if isNumeric a || isNumeric b then
    match fnNumber a, fnNumber b with
    | some x, some y => .ok (six numLt numEq op x y)
    | _, _ => .error .unsupported
  else
    let isS (x : Atom) : Bool := match x with | .str _ => true | _ => false
    let isU (x : Atom) : Bool := match x with | .ua _ => true | _ => false
    if isS a || isS b || (isU a && isU b) then
      match castString a, castString b with
      | some s, some t => .ok (six strLtS strEqS op s t)
      | _, _ => .error .unsupported
    else pairSpec m op a b

/-! ### XPath 1.0 §3.4 -/

inductive Obj1 where
  | nodeset (svs : List Str) | number (d : D) | string (s : Str) | boolean (b : Bool)

def allNodes : List Item → Option (List Str)
  | [] => some []
  | .node s :: r => (allNodes r).map (s :: ·)
  | _ => none

def obj1 (l : List Item) : Option Obj1 :=
  match allNodes l with
  | some svs => some (.nodeset svs)
  | none =>
    match l with
    | [.atom (.dbl d)] => some (.number d)
    | [.atom (.int v)] => some (.number (toD64 v))
    | [.atom (.str s)] => some (.string s)
    | [.atom (.bool b)] => some (.boolean b)
    | _ => none

/-- XPath 1.0 §4.4 number(string): optional white space, optional `-`, Number; anything else NaN -/
def number1 (s : Str) : Option D :=
  match (strip s).head? with
  | some 43 => some .nan
  | _ =>
    match lexNum s with
    | .lit q neg => some (toD64 q neg)
    | .nan | .pinf | .ninf | .invalid => some .nan
    | .unsupported => none

def num1 : Obj1 → Option D
  | .number d => some d
  | .string s => number1 s
  | .boolean b => some (.fin (if b then 1 else 0))
  | .nodeset _ => none

def bool1 : Obj1 → Bool
  | .nodeset l => !l.isEmpty
  | .number d => !(d.isNaN || d.isZero)
  | .string s => !s.isEmpty
  | .boolean b => b

def cmpNum (op : Op) (x y : Option D) : Option Bool :=
  match x, y with
  | some a, some b => some (six numLt numEq op a b)
  | _, _ => none

def anyOpt (l : List (Option Bool)) : Option Bool :=
  if l.any (· == none) then none else some (l.any (· == some true))

/-- XPath 1.0 §3.4 comparison of two objects (`none` = outside the fragment) -/
def cmp1 (op : Op) (a b : Obj1) : Option Bool :=
  match a, b with
  | .nodeset l, .nodeset r =>
    anyOpt (l.flatMap fun s => r.map fun t =>
      if isEqNe op then some (six strLtS strEqS op s t) else cmpNum op (number1 s) (number1 t))
  | .nodeset l, .number d => anyOpt (l.map fun s => cmpNum op (number1 s) (some d))
  | .number d, .nodeset r => anyOpt (r.map fun t => cmpNum op (some d) (number1 t))
  | .nodeset l, .string t =>
    anyOpt (l.map fun s =>
      if isEqNe op then some (six strLtS strEqS op s t) else cmpNum op (number1 s) (number1 t))
  | .string s, .nodeset r =>
    anyOpt (r.map fun t =>
      if isEqNe op then some (six strLtS strEqS op s t) else cmpNum op (number1 s) (number1 t))
  | .nodeset _, .boolean y =>
    if isEqNe op then some (six (fun p q => !p && q) (· == ·) op (bool1 a) y)
    else cmpNum op (num1 (.boolean (bool1 a))) (num1 b)
  | .boolean x, .nodeset _ =>
    if isEqNe op then some (six (fun p q => !p && q) (· == ·) op x (bool1 b))
    else cmpNum op (num1 a) (num1 (.boolean (bool1 b)))
  | _, _ =>
    if isEqNe op then
      match a, b with
      | .boolean _, _ | _, .boolean _ => some (six (fun p q => !p && q) (· == ·) op (bool1 a) (bool1 b))
      | .number _, _ | _, .number _ => cmpNum op (num1 a) (num1 b)
      | .string s, .string t => some (six strLtS strEqS op s t)
      | _, _ => none
    else cmpNum op (num1 a) (num1 b)

/-! ### the two comparison families on sequences -/

def atomizeS (m : Mode) : Item → Atom
  | .atom a => a
  | .node sv => if m = .v1 then .str sv else .ua sv     -- untyped documents: typed value is untypedAtomic

def pairsOf (l r : List Atom) : List (Atom × Atom) := l.flatMap fun a => r.map fun b => (a, b)

/-- rule 3 of §3.5.2: under an ordering operator every item is converted by fn:number -/
def pairOrdCompat (op : Op) (a b : Atom) : Except Err Bool :=
  match fnNumber a, fnNumber b with
  | some x, some y => .ok (six numLt numEq op x y)
  | _, _ => .error .unsupported

/-- rules 2-4 of §3.5.2 on the atomized operands -/
def rules24 (m : Mode) (op : Op) (l r : List Atom) : Option (List Out) :=
  if op.isOrd then allowedOfPairs ((pairsOf l r).map fun p => pairOrdCompat op p.1 p.2)
  else allowedOfPairs ((pairsOf l r).map fun p => pairCompat m op p.1 p.2)

/-- general comparison `L op R`: the permitted outcomes (`none` = not applicable) -/
def generalAllowed (m : Mode) (op : Op) (L Rr : List Item) : Option (List Out) :=
  match m with
  | .v2 | .v31 =>
    allowedOfPairs ((pairsOf (L.map (atomizeS m)) (Rr.map (atomizeS m))).map fun (a, b) => pairSpec m op a b)
  | .v1 =>
    (match obj1 L, obj1 Rr with
     | some a, some b => (cmp1 op a b).map fun v => [Out.ofBool v]
     | _, _ => none)
  | .v2c =>
    -- rule 1: a single xs:boolean operand: the other operand is replaced by its effective boolean value
    let one (x : Bool) (other : List Item) (flip : Bool) : Option (List Out) :=
      match ebv other with
      | .t | .f =>
        let y := ebv other == .t
        let (p, q) := if flip then (y, x) else (x, y)
        if op.isOrd then some [Out.ofBool (six numLt numEq op (.fin (if p then 1 else 0)) (.fin (if q then 1 else 0)))]
        else some [Out.ofBool (six (fun u v => !u && v) (· == ·) op p q)]
      | o => some [o]
    match L, Rr with
    | [.atom (.bool x)], _ => one x Rr false
    | _, [.atom (.bool y)] => one y L true
    | _, _ => rules24 m op (L.map (atomizeS m)) (Rr.map (atomizeS m))

/-- §3.7.1 rule 4: an xs:untypedAtomic operand is cast to xs:string -/
def untypedToString : Atom → Atom
  | .ua s => .str s
  | a => a

/-- value comparison `L op R` (XPath 3.1 §3.7.1 rules 1-6) -/
def valueAllowed (m : Mode) (op : Op) (L Rr : List Item) : Option (List Out) :=
  if m = .v1 then none else
  -- rule 2/3: empty → empty, more than one item → XPTY0004.  When both happen (one operand empty,
  -- the other too long) either outcome is permitted.
  let emptyAny := L.isEmpty || Rr.isEmpty
  let longAny := L.length > 1 || Rr.length > 1
  if emptyAny || longAny then
    some ((if emptyAny then [Out.empty] else []) ++ (if longAny then [Out.err .XPTY0004] else []))
  else
    match L, Rr with
    | [x], [y] =>
      (match valueOp (binOrdered m) op (untypedToString (atomizeS m x)) (untypedToString (atomizeS m y)) with
       | .ok b => some [Out.ofBool b]
       | .error .unsupported => none
       | .error e => some [.err e])
    | _, _ => none

/-! ### the implicit timezone of the dynamic context (XPath 3.1 §2.1.2, F&O 3.1 §9.?) -/

/-- "Implicit timezone: the timezone to be used when a date, time, or dateTime value that does not
have a timezone is used in a comparison or arithmetic operation."  `itz` in minutes, `none` = the
context provides none (then UTC is taken, see `instant`). -/
def withImplicitTz (itz : Option Int) : Item → Item
  | .atom (.date v) => .atom (.date (match v.tz with | some _ => v | none => { v with tz := itz }))
  | .atom (.dtm v) => .atom (.dtm (match v.tz with | some _ => v | none => { v with tz := itz }))
  | .atom (.time v) => .atom (.time (match v.tz with | some _ => v | none => { v with tz := itz }))
  | it => it

/-- general comparison under a dynamic context with implicit timezone `itz` -/
def generalAllowedCtx (itz : Option Int) (m : Mode) (op : Op) (L Rr : List Item) : Option (List Out) :=
  generalAllowed m op (L.map (withImplicitTz itz)) (Rr.map (withImplicitTz itz))

/-- value comparison under a dynamic context with implicit timezone `itz` -/
def valueAllowedCtx (itz : Option Int) (m : Mode) (op : Op) (L Rr : List Item) : Option (List Out) :=
  valueAllowed m op (L.map (withImplicitTz itz)) (Rr.map (withImplicitTz itz))

/-! ### the default collation (XPath 3.1 §3.7.1: "A eq B" on strings is `fn:compare(A, B) eq 0` with the
default collation of the static context; F&O 3.1 §5.3) -/

/-- F&O 3.1 §5.3.4 html-ascii-case-insensitive: "ASCII upper-case letters A-Z are mapped to a-z, the
result is compared codepoint by codepoint"; §5.3.1 the codepoint collation compares the codepoints -/
def collFold (c : Coll) (s : Str) : Str :=
  match c with
  | .codepoint => s
  | .asciiCI => s.map fun n => if 65 ≤ n ∧ n ≤ 90 then n + 32 else n

def collLtS (c : Coll) (s t : Str) : Bool := decide (collFold c s < collFold c t)
def collEqS (c : Coll) (s t : Str) : Bool := decide (collFold c s = collFold c t)

/-- `valueOp` with the string comparisons under collation `c` -/
def valueOpC (c : Coll) (binOrd : Bool) (op : Op) (a b : Atom) : Except Err Bool :=
  match a, b with
  | .str s, .str t | .str s, .uri t | .uri s, .str t | .uri s, .uri t => .ok (six (collLtS c) (collEqS c) op s t)
  | _, _ => valueOp binOrd op a b

/-- `pairSpec` (§3.7.2 rules a-d) with the value comparisons under collation `c` -/
def pairSpecC (c : Coll) (m : Mode) (op : Op) (a b : Atom) : Except Err Bool :=
  match a, b with
  | .ua s, .ua t => valueOpC c (binOrdered m) op (.str s) (.str t)
  | .ua _, .qn .. => pairSpec m op a b
  | .qn .., .ua _ => pairSpec m op a b
  | .ua s, _ =>
    (match castUntyped s b with
     | .ok a' => valueOpC c (binOrdered m) op a' b
     | .error e => .error e)
  | _, .ua t =>
    (match castUntyped t a with
     | .ok b' => valueOpC c (binOrdered m) op a b'
     | .error e => .error e)
  | _, _ => valueOpC c (binOrdered m) op a b

/-- general comparison under default collation `c` and implicit timezone `itz`; the compatibility
modes are specified for the codepoint collation only (`none` = not applicable otherwise) -/
def generalAllowedC (c : Coll) (itz : Option Int) (m : Mode) (op : Op) (L Rr : List Item) : Option (List Out) :=
  match m with
  | .v2 | .v31 =>
    allowedOfPairs ((pairsOf ((L.map (withImplicitTz itz)).map (atomizeS m))
      ((Rr.map (withImplicitTz itz)).map (atomizeS m))).map fun (a, b) => pairSpecC c m op a b)
  | _ => if c = .codepoint then generalAllowedCtx itz m op L Rr else none

/-- value comparison under default collation `c` and implicit timezone `itz` -/
def valueAllowedC (c : Coll) (itz : Option Int) (m : Mode) (op : Op) (L Rr : List Item) : Option (List Out) :=
  if m = .v1 then none else
  let emptyAny := L.isEmpty || Rr.isEmpty
  let longAny := L.length > 1 || Rr.length > 1
  if emptyAny || longAny then
    some ((if emptyAny then [Out.empty] else []) ++ (if longAny then [Out.err .XPTY0004] else []))
  else
    match L, Rr with
    | [x], [y] =>
      (match valueOpC c (binOrdered m) op (untypedToString (atomizeS m (withImplicitTz itz x)))
          (untypedToString (atomizeS m (withImplicitTz itz y))) with
       | .ok b => some [Out.ofBool b]
       | .error .unsupported => none
       | .error e => some [.err e])
    | _, _ => none

end EPV.CmpSpec

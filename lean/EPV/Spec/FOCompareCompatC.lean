/-
C07 (phase 5, second item) — general comparison in XPath 1.0 COMPATIBILITY MODE of the 2.0 parser under a
default collation.

XPath 2.0 §3.5.2 "General Comparisons", "If XPath 1.0 compatibility mode is true …" (the same text is
XPath 3.1 §3.7.2), after atomization:

  1. "If one of the atomized operands is a single atomic value of type xs:boolean, the other atomized
     operand is converted to xs:boolean by taking its effective boolean value."
  2. "If the comparison operator is <, <=, >, or >=, then each item in both of the operand sequences is
     converted to the type xs:double by applying the fn:number function."
  3. The result is true iff there is a pair of atomic values, one in each operand, that have the
     required magnitude relationship, which is determined as follows:
     a. "If at least one of the two atomic values is an instance of a numeric type, then both atomic
        values are converted to the type xs:double by applying the fn:number function."
     b. "If at least one of the two atomic values is an instance of xs:string, or if both atomic values
        are instances of xs:untypedAtomic, then both atomic values are cast to the type xs:string."
     c. otherwise the ordinary (non-compatibility) conversion rules apply;
     then the value comparison `eq`, `ne`, … is applied — and a value comparison of two strings is
     `fn:compare(A, B) op 0` under the DEFAULT COLLATION of the static context (§3.5.1, F&O §7.3).

Rules 1 and 2 never compare two strings, so a collation cannot change them: they are taken from
`generalAllowed .v2c` (FOCompare.lean) unchanged.  Rule 3 is written out here with the collation:
`pairCompatC` — 3b compares the two strings under `c`, 3c falls through to `pairSpecC`.
-/
import EPV.Spec.FOCompare
namespace EPV.CmpSpec
open EPV.Cmp

def isXsString : Atom → Bool | .str _ => true | _ => false
def isXsUntyped : Atom → Bool | .ua _ => true | _ => false

/-- one pair under rule 3 (a-c) with the string comparisons under collation `c` -/
def pairCompatC (c : Coll) (m : Mode) (op : Op) (a b : Atom) : Except Err Bool :=
  if isNumeric a || isNumeric b then
    match fnNumber a, fnNumber b with
    | some x, some y => .ok (six numLt numEq op x y)
    | _, _ => .error .unsupported
  else if isXsString a || isXsString b || (isXsUntyped a && isXsUntyped b) then
    match castString a, castString b with
    | some s, some t => .ok (six (collLtS c) (collEqS c) op s t)
    | _, _ => .error .unsupported
  else pairSpecC c m op a b

/-- the operand is a single atomic xs:boolean (rule 1) -/
def isSingleBoolS : List Item → Bool | [.atom (.bool _)] => true | _ => false

/-- permitted outcomes of `L op R` in compatibility mode under collation `c` (operands already given the
implicit timezone) -/
def compatAllowedC (c : Coll) (op : Op) (L Rr : List Item) : Option (List Out) :=
  if isSingleBoolS L || isSingleBoolS Rr || op.isOrd then
    generalAllowed .v2c op L Rr      -- rules 1, 2: no string is compared with a string
  else
    allowedOfPairs ((pairsOf (L.map (atomizeS .v2c)) (Rr.map (atomizeS .v2c))).map
      fun p => pairCompatC c .v2c op p.1 p.2)

/-- general comparison of XPath2Parser(compatibility_mode=True) under default collation `c` and implicit
timezone `itz` -/
def generalAllowedCompatC (c : Coll) (itz : Option Int) (op : Op) (L Rr : List Item) : Option (List Out) :=
  compatAllowedC c op (L.map (withImplicitTz itz)) (Rr.map (withImplicitTz itz))

end EPV.CmpSpec

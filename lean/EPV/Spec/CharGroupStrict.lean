/-
Specification of character-subset strings, read strictly from the XSD grammar
(XML Schema Part 2, appendix "Regular expressions", character class expressions):

    posCharGroup ::= ( charRange | charClassEsc )+
    charRange    ::= seRange | XmlCharIncDash
    seRange      ::= charOrEsc '-' charOrEsc        (s-e with s ≤ e, else an error)
    charOrEsc    ::= XmlChar | SingleCharEsc
    XmlChar      ::= [^\#x2D#x5B#x5D]               (not  \  -  [  ] )
    SingleCharEsc::= '\' [nrt\|.?*+(){}#x2D#x5B#x5D#x5E]

"The `-` character is a valid character range only at the beginning or end of a positive character
group."  The escapes `\n \r \t` and the multi-character escapes are left out (they denote other
characters / classes; the regex translator resolves them before this parser sees the text).

Three outcomes: `ok S` — the text is in the grammar and denotes the code points of `S`;
`error` — the grammar makes it an error the parser must report (a reversed range, an unescaped
bracket between other characters); `unspec` — outside this fragment: the library is deliberately
lenient there (its own suite pins e.g. `'\a'` → backslash and `a`, `'['` alone → `[`), so no
requirement is stated and only the model-vs-code correspondence applies.

Written from the grammar only; nothing here refers to the parser's code.
-/
import EPV.Model.UnicodeSubset
namespace EPV.USet

inductive GroupRes (α : Type) where
  | ok (v : α) | error | unspec
  deriving Repr, DecidableEq

def GroupRes.map {α β} (f : α → β) : GroupRes α → GroupRes β
  | .ok v => .ok (f v) | .error => .error | .unspec => .unspec

/-- the characters that `SingleCharEsc` may escape, without `n r t`: `\ | . ? * + ( ) { } - [ ] ^` -/
def xsdEscapable (c : Nat) : Bool :=
  [92, 124, 46, 63, 42, 43, 40, 41, 123, 125, 45, 91, 93, 94].contains c

/-- one `charOrEsc` at the front of the text: its code point and the rest -/
def charOrEsc : List Nat → GroupRes (Nat × List Nat)
  | 92 :: c :: rest => if xsdEscapable c then .ok (c, rest) else .unspec
  | c :: rest =>
    if c == 91 || c == 93 then .error          -- unescaped bracket
    else if c == 92 || c == 45 then .unspec     -- dangling backslash / hyphen where a character is due
    else .ok (c, rest)
  | [] => .unspec

/-- after one `charOrEsc` `a`: either `'-' charOrEsc` follows (an `seRange`), or `a` stands alone.
A hyphen that is the last character is not a range operator. -/
def afterChar (k : List Nat → GroupRes (List CP)) (a : Nat) (r : List Nat) : GroupRes (List CP) :=
  match r with
  | 45 :: b0 :: r1 =>
    match charOrEsc (b0 :: r1) with
    | .ok (b, r') => if a > b then .error else (k r').map (.rng a (b + 1) :: ·)
    | _ => .unspec
  | _ => (k r).map (.one a :: ·)

/-- the parts of a group after a possible leading hyphen; `fuel` ≥ length + 1 suffices -/
def strictGoF : Nat → List Nat → GroupRes (List CP)
  | 0, _ => .unspec
  | fuel + 1, l =>
    match l with
    | [] => .ok []
    | [45] => .ok [.one 45]                      -- hyphen at the end
    | _ =>
      match charOrEsc l with
      | .ok (a, r) => afterChar (strictGoF fuel) a r
      | .error => .error
      | .unspec => .unspec

def strictGo (l : List Nat) : GroupRes (List CP) := strictGoF (l.length + 1) l

/-- the whole text.  A single bracket character alone is left unspecified (suite-pinned leniency). -/
def strictGroup (l : List Nat) : GroupRes (List CP) :=
  match l with
  | [_] => match charOrEsc l with
    | .ok (a, _) => .ok [.one a]
    | _ => if l == [45] then .ok [.one 45] else .unspec
  | 45 :: rest => (strictGo rest).map (.one 45 :: ·)   -- hyphen at the beginning
  | _ => strictGo l

end EPV.USet

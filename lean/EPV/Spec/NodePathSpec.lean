/-
Specification side of C14, written from the W3C texts, independent of the path generators.

* XPath 3.1 §3.3 "Path expressions": `E1/E2` evaluates `E2` once for every node of `E1`
  (§3.3.1.1), a step = axis + node test + predicates (§3.3.2); the node tests used by fn:path
  are EQName tests on the child / attribute / namespace axis and the kind tests `text()`,
  `comment()`, `processing-instruction(NCName)` (§3.3.2.2; "processing-instruction(N) matches
  any processing-instruction node whose PITarget is equal to fn:normalize-space(N)"); a numeric
  predicate `[p]` keeps the item whose context position equals `p` (§3.3.3 / §3.4.2), positions
  being counted, for a forward axis, in document order among the nodes selected by axis+test.
* F&O 3.1 §14.6 `fn:path`: the `position` of an element step is "the position of the selected
  node among its like-named siblings", of a text / comment step the position among its text /
  comment siblings, of a PI step the position "among its like-named processing-instruction
  node siblings"; attributes are `@local` or `@Q{uri}local`, namespaces `namespace::prefix`.

`evalSteps top steps` is the value of `/step/…/step` with `top` as the root of the tree
(resp. of `root()/step/…` when `top` is a parent-less element).  `specPath` is the path
F&O prescribes.  Both are executable; the driver prints them.
-/
import EPV.Model.NodePath
namespace EPV.NodePath

/-- node test of a child-axis step (XPath 3.1 §3.3.2.2) -/
def Step.test : Step → Node → Bool
  | .child nm _, .elem m _ _ _ => decide (m = nm)
  | .text _, .text => true
  | .comment _, .comment => true
  | .pi t _, .pi u => decide (u = t)
  | _, _ => false

/-- the positional predicate of the step -/
def Step.pos : Step → Nat
  | .child _ p | .text p | .comment p | .pi _ p => p
  | .attr _ | .ns _ => 0

/-- indices (from `off`) of the entries satisfying `p`, in order -/
def idxWhere {α : Type} (p : α → Bool) : List α → Nat → List Nat
  | [], _ => []
  | a :: as, off => if p a then off :: idxWhere p as (off + 1) else idxWhere p as (off + 1)

/-- predicate `[p]`: the `p`-th item (1-based) of the step's result, nothing for `p = 0` or
beyond the end -/
def nth1 {α : Type} (p : Nat) (l : List α) : List α :=
  match p with
  | 0 => []
  | p + 1 => (l.drop p).take 1

/-- one step from one context node -/
def stepFrom (top : Node) (s : Step) (r : Ref) : List Ref :=
  match r.sel, descend top r.path with
  | .self, some n =>
    match s with
    | .attr nm => (idxWhere (fun a => decide (a.1 = nm)) n.attrs 0).map fun j => ⟨r.path, .attr j⟩
    | .ns p => (idxWhere (fun a => decide (a.1 = p)) n.nss 0).map fun j => ⟨r.path, .ns j⟩
    | s => (nth1 s.pos (idxWhere s.test n.kids 0)).map fun i => ⟨r.path ++ [i], .self⟩
  | _, _ => []     -- attribute and namespace nodes have no children, attributes, namespaces

/-- `E1/E2`: results for the context nodes in order (for these axes the results of distinct
context nodes are disjoint and already in document order) -/
def evalFrom (top : Node) : List Ref → List Step → List Ref
  | ctx, [] => ctx
  | ctx, s :: rest => evalFrom top (ctx.flatMap (stepFrom top s)) rest

/-- value of the absolute path `/s1/…/sn` in the tree rooted at `top` -/
def evalSteps (top : Node) (steps : List Step) : List Ref := evalFrom top [⟨[], .self⟩] steps

/-! ### evaluation of an absolute path in a fragment context (model of the implementation)

`_xpath1_operators.py :: select__child_path`, branch `len(self) == 1` of a leading `/`: when the
context has no document node (`XPathContext(fragment=True)`) the context item becomes
`context.root` — the parent-less root element — and the steps are evaluated from it.  So the
absolute `node.path` (which starts with the root element's own step) is evaluated *inside* the
root element.  XPath 3.1 §3.3 gives `/` no value there (XPDY0050). -/
def evalAbsInFragment (e : Node) (absSteps : List Step) : List Ref := evalSteps e absSteps

/-! ### several trees in one evaluation (context root, `fn:doc`, variables, `fn:parse-xml` …)

The dynamic context of one evaluation can hold nodes of several trees.  XDM 3.1 §2.1 / F&O 3.1
§14.6: `fn:path($n)` is the path of `$n` *relative to the root of the tree containing `$n`* — it
does not depend on which tree the context item lives in.  A node of a forest is (tree index,
reference inside that tree). -/

abbrev Forest := List Node

structure FNode where
  tree : Nat
  ref : Ref
  deriving DecidableEq, Repr

def FNode.valid (F : Forest) (n : FNode) : Prop :=
  match F[n.tree]? with
  | some top => Valid top n.ref
  | none => False

/-- value of a path (as steps) with the root of tree `t` as starting point -/
def evalInTree (F : Forest) (t : Nat) (steps : List Step) : List FNode :=
  match F[t]? with
  | some top => (evalSteps top steps).map fun r => ⟨t, r⟩
  | none => []

/-! ### the path prescribed by F&O 3.1 §14.6 -/

/-- shape of the step for a child (position filled in by `specStep`) -/
def stepShape : Node → Step
  | .elem nm _ _ _ => .child nm 0
  | .text => .text 0
  | .comment => .comment 0
  | .pi t => .pi t 0

def Step.withPos : Step → Nat → Step
  | .child nm _, p => .child nm p
  | .text _, p => .text p
  | .comment _, p => .comment p
  | .pi t _, p => .pi t p
  | s, _ => s

/-- position among the like siblings = 1 + number of *preceding* siblings passing the step's own
node test -/
def specStep (kids : List Node) (i : Nat) (c : Node) : Step :=
  (stepShape c).withPos (((kids.take i).filter (stepShape c).test).length + 1)

def specPathTo (top : Node) : List Nat → Option (List Step)
  | [] => some []
  | i :: is =>
    match top.kids[i]? with
    | none => none
    | some c => (specPathTo c is).map (specStep top.kids i c :: ·)

def specPath (top : Node) (r : Ref) : Option (List Step) :=
  match specPathTo top r.path, descend top r.path with
  | some steps, some n =>
    match r.sel with
    | .self => some steps
    | .attr j => (n.attrs[j]?).map fun a => steps ++ [.attr a.1]
    | .ns j => (n.nss[j]?).map fun a => steps ++ [.ns a.1]
  | _, _ => none

/-! ### the text of a path: recogniser for the output language of F&O 3.1 §14.6

`/` | (`/` step)+ | `Q{http://www.w3.org/2005/xpath-functions}root()` (`/` step)*, with
step = `Q{uri}local[n]` | `text()[n]` | `comment()[n]` | `processing-instruction(target)[n]` |
`@local` | `@Q{uri}local` | `namespace::prefix` | `namespace::*[Q{…}local-name()=""]`, `n` a decimal
numeral without leading zeros.  A braced URI ends at the first `}` (XPath 3.1 BracedURILiteral:
`Q{ [^{}]* }`), an element local name at `[`, a PI target at `)`, an attribute name / prefix at the
next `/` or the end.  The recogniser is independent of the generators; `EPV.C14.parse_render_*`
show that it reads the generated text back to the steps. -/

def stripPrefix : List Char → List Char → Option (List Char)
  | [], cs => some cs
  | _ :: _, [] => none
  | p :: ps, c :: cs => if p = c then stripPrefix ps cs else none

/-- the characters before the first `c`, and the rest (starting with that `c`, or empty) -/
def upTo (c : Char) : List Char → List Char × List Char
  | [] => ([], [])
  | x :: xs => if x = c then ([], x :: xs) else ((upTo c xs).1.cons x, (upTo c xs).2)

def digitVal (c : Char) : Nat := c.toNat - 48

/-- canonical decimal numeral -/
def parseNat (cs : List Char) : Option Nat :=
  let n := cs.foldl (fun a c => a * 10 + digitVal c) 0
  if natDec n = cs then some n else none

/-- `n]` -/
def parsePos (cs : List Char) : Option (Nat × List Char) :=
  match (upTo ']' cs).2 with
  | ']' :: r => (parseNat (upTo ']' cs).1).map fun n => (n, r)
  | _ => none

def parseChild (r : List Char) : Option (Step × List Char) :=
  match (upTo '}' r).2 with
  | '}' :: r2 =>
    match (upTo '[' r2).2 with
    | '[' :: r4 =>
      (parsePos r4).map fun x =>
        (.child ⟨String.ofList (upTo '}' r).1, String.ofList (upTo '[' r2).1⟩ x.1, x.2)
    | _ => none
  | _ => none

def parsePI (r : List Char) : Option (Step × List Char) :=
  match (upTo ')' r).2 with
  | ')' :: '[' :: r2 => (parsePos r2).map fun x => (.pi (String.ofList (upTo ')' r).1) x.1, x.2)
  | _ => none

def parseAttrQ (r : List Char) : Option (Step × List Char) :=
  match (upTo '}' r).2 with
  | '}' :: r2 => some (.attr ⟨String.ofList (upTo '}' r).1, String.ofList (upTo '/' r2).1⟩, (upTo '/' r2).2)
  | _ => none

def parseStep (cs : List Char) : Option (Step × List Char) :=
  match stripPrefix ['Q', '{'] cs with
  | some r => parseChild r
  | none =>
  match stripPrefix litText cs with
  | some r => (parsePos r).map fun x => (.text x.1, x.2)
  | none =>
  match stripPrefix litComment cs with
  | some r => (parsePos r).map fun x => (.comment x.1, x.2)
  | none =>
  match stripPrefix litPI cs with
  | some r => parsePI r
  | none =>
  match stripPrefix ['@', 'Q', '{'] cs with
  | some r => parseAttrQ r
  | none =>
  match stripPrefix ['@'] cs with
  | some r => some (.attr ⟨"", String.ofList (upTo '/' r).1⟩, (upTo '/' r).2)
  | none =>
  match stripPrefix (litNs ++ emptyNamePathC) cs with
  | some r => some (.ns "", r)
  | none =>
  match stripPrefix litNs cs with
  | some r => some (.ns (String.ofList (upTo '/' r).1), (upTo '/' r).2)
  | none => none

/-- (`/` step)* with fuel -/
def parseSteps : Nat → List Char → Option (List Step)
  | _, [] => some []
  | 0, _ :: _ => none
  | f + 1, c :: cs =>
    if c = '/' then
      match parseStep cs with
      | some (s, r) => (parseSteps f r).map (s :: ·)
      | none => none
    else none

inductive PathKind where
  | abs        -- starts at the document node: `/…`
  | fromRoot   -- starts at `root()`
  deriving DecidableEq, Repr

def parsePath (cs : List Char) : Option (PathKind × List Step) :=
  if cs = ['/'] then some (.abs, [])
  else
    match stripPrefix litRoot cs with
    | some r => (parseSteps r.length r).map fun st => (.fromRoot, st)
    | none =>
      match cs with
      | [] => none
      | _ => (parseSteps cs.length cs).map fun st => (.abs, st)

/-- value of a path *text* in the tree rooted at `top` (absolute form: `top` is the document /
dummy document; `root()` form: `top` is the root node) -/
def evalText (top : Node) (text : String) : List Ref :=
  match parsePath text.toList with
  | some (_, steps) => evalSteps top steps
  | none => []

/-! ### the token tree a Pratt parser of XPath 3.x builds for a path text

XPath 3.1 A.1: `PathExpr ::= "/" RelativePathExpr? | RelativePathExpr`,
`RelativePathExpr ::= StepExpr ("/" StepExpr)*` (left associative), `StepExpr` = node test with
`Predicate*` bound to the step, `AbbrevForwardStep ::= "@"? NodeTest`, `ForwardAxis "namespace::"`,
`URIQualifiedName ::= BracedURILiteral NCName`, kind tests with their argument.  Printed in the
s-expression notation of the implementation's `token.tree` (operator symbol first, string
literals quoted), so that the real parser's tree for the real string can be compared with the
recogniser's reading of the same text on every node. -/

def qnameTree (ns loc : String) : String := "(Q{ ('" ++ ns ++ "') (" ++ loc ++ "))"

def stepTree : Step → String
  | .child nm p => "([ " ++ qnameTree nm.ns nm.loc ++ " (" ++ toString p ++ "))"
  | .text p => "([ (text) (" ++ toString p ++ "))"
  | .comment p => "([ (comment) (" ++ toString p ++ "))"
  | .pi t p => "([ (processing-instruction (" ++ t ++ ")) (" ++ toString p ++ "))"
  | .attr nm => if nm.ns = "" then "(@ (" ++ nm.loc ++ "))" else "(@ " ++ qnameTree nm.ns nm.loc ++ ")"
  | .ns p =>
    if p = "" then "([ (namespace (*)) (= " ++ qnameTree (String.ofList fnNamespaceC) "local-name" ++ " ('')))"
    else "(namespace (" ++ p ++ "))"

/-- `lhs/step/step…`, left associative -/
def pathTreeFrom (lhs : String) : List Step → String
  | [] => lhs
  | s :: ss => pathTreeFrom ("(/ " ++ lhs ++ " " ++ stepTree s ++ ")") ss

def tokenTree : PathKind → List Step → String
  | .abs, [] => "(/)"
  | .abs, s :: ss => pathTreeFrom ("(/ " ++ stepTree s ++ ")") ss
  | .fromRoot, ss => pathTreeFrom (qnameTree (String.ofList fnNamespaceC) "root") ss

/-- the recogniser's reading of a text, as a token tree (`UNREADABLE` if it is not in the language) -/
def textTree (text : String) : String :=
  match parsePath text.toList with
  | some (k, steps) => tokenTree k steps
  | none => "UNREADABLE"

/-! names for which the text is unambiguous: every NCName qualifies (no `/ [ ) { } *`), and every
namespace URI without `}` -/

def okName (s : String) : Bool := s.toList.all fun c => !(c = '/' || c = '[' || c = ')' || c = '{' || c = '}' || c = '*')
def okUri (s : String) : Bool := s.toList.all fun c => !(c = '}')

def Step.ok : Step → Bool
  | .child nm _ => okUri nm.ns && okName nm.loc
  | .pi t _ => okName t
  | .attr nm => okUri nm.ns && okName nm.loc
  | .ns p => okName p
  | _ => true

mutual
def Node.namesOK : Node → Bool
  | .elem nm nss attrs kids =>
    okUri nm.ns && okName nm.loc && nss.all (fun a => okName a.1)
      && attrs.all (fun a => okUri a.1.ns && okName a.1.loc) && namesOKList kids
  | .pi t => okName t
  | _ => true
def namesOKList : List Node → Bool
  | [] => true
  | n :: ns => n.namesOK && namesOKList ns
end

/-! ### well-formedness (XML Namespaces §6.3 attribute uniqueness; a prefix is bound once per
element — in the implementation both come out of Python dicts) -/

def nodupB {α : Type} [DecidableEq α] : List α → Bool
  | [] => true
  | a :: as => !as.contains a && nodupB as

mutual
def Node.wf : Node → Bool
  | .elem _ nss attrs kids => nodupB (attrs.map (·.1)) && nodupB (nss.map (·.1)) && wfList kids
  | _ => true
def wfList : List Node → Bool
  | [] => true
  | n :: ns => n.wf && wfList ns
end

/-! ### document order enumeration (node, its namespace nodes, its attributes, its children) -/

mutual
def refsOf : Node → List Nat → List Ref
  | .elem _ nss attrs kids, p =>
    (⟨p, .self⟩ :: (List.range nss.length).map fun j => ⟨p, .ns j⟩)
      ++ ((List.range attrs.length).map fun j => ⟨p, .attr j⟩) ++ refsKids kids p 0
  | _, p => [⟨p, .self⟩]
def refsKids : List Node → List Nat → Nat → List Ref
  | [], _, _ => []
  | k :: ks, p, i => refsOf k (p ++ [i]) ++ refsKids ks p (i + 1)
end

def allRefs (top : Node) : List Ref := refsOf top []

/-! ### where a counting function agrees with the node test (trigger predicate of F14a / F14e)

`pathSafe cnt top is`: at every step down the child-index path `is`, the counting function `cnt`
used by `get_child_position` for the child counts exactly those siblings that pass the node test
of the step generated for it.  For the repaired counting (`sameKind`) this is always true; for
the pinned counting (`pinnedKind`) it fails exactly where a PI has a sibling PI with another
target (F14a) or a no-namespace element has a sibling PI whose target is its name (F14e). -/

def safeAt (cnt : Node → Node → Bool) (kids : List Node) (c : Node) : Bool :=
  kids.all fun c' => cnt c c' == (stepShape c).test c'

def pathSafe (cnt : Node → Node → Bool) : Node → List Nat → Bool
  | _, [] => true
  | n, i :: is =>
    match n.kids[i]? with
    | some c => safeAt cnt n.kids c && pathSafe cnt c is
    | none => true

/-- `¬ pinnedSafe` is the trigger predicate of the (repaired) defects F14a / F14e -/
def pinnedSafe (top : Node) (r : Ref) : Bool := pathSafe pinnedKind top r.path

end EPV.NodePath

/-
C19 (phase 5) — the XML declaration as a grammar (XML 1.0, 5th edition, §2.8 and §4.3.3):

```
[23] XMLDecl      ::= '<?xml' VersionInfo EncodingDecl? SDDecl? S? '?>'
[24] VersionInfo  ::= S 'version' Eq ("'" VersionNum "'" | '"' VersionNum '"')
[25] Eq           ::= S? '=' S?
[26] VersionNum   ::= '1.' [0-9]+
[32] SDDecl       ::= S 'standalone' Eq (("'" ('yes' | 'no') "'") | ('"' ('yes' | 'no') '"'))
[80] EncodingDecl ::= S 'encoding' Eq ('"' EncName '"' | "'" EncName "'" )
[81] EncName      ::= [A-Za-z] ([A-Za-z0-9._] | '-')*
```

A derivation is a `Tree` (every `S` and the quote used are recorded, so a text has at most one
derivation); `render` is the derived text between `<?xml` and `?>`.  `grammatical` is the grammar
above; `expatAccepts` is the language expat implements — the same except that the version number is
any (possibly empty) run of `[A-Za-z0-9._-]`.
-/
import EPV.Model.GlobalsXmlDecl
namespace EPV.GlobalsSpec.XmlDeclGrammar
open EPV.Globals.XmlText EPV.Globals.XmlDecl

def quoteOf (dq : Bool) : Char := if dq then '"' else '\''

def renderAttr (kw : List Char) (a : Attr) : List Char :=
  a.s ++ (kw ++ (a.eq.l ++ ('=' :: (a.eq.r ++ (quoteOf a.dq :: (a.val ++ (quoteOf a.dq :: [])))))))

def renderOpt (kw : List Char) : Option Attr → List Char
  | some a => renderAttr kw a
  | none => []

def render (t : Tree) : List Char :=
  renderAttr kwVersion t.ver ++ (renderOpt kwEncoding t.enc ++ (renderOpt kwStandalone t.sd ++ t.trail))

/-- the whole text: `<?xml` body `?>` rest -/
def renderDecl (t : Tree) (rest : List Char) : List Char :=
  '<' :: '?' :: 'x' :: 'm' :: 'l' :: (render t ++ ('?' :: '>' :: rest))

/-- `S name Eq quote value quote`: `S` non-empty white space, `Eq`'s sides white space -/
def spacingOk (a : Attr) : Bool :=
  !a.s.isEmpty && a.s.all isWs && a.eq.l.all isWs && a.eq.r.all isWs

def nameTailChar (c : Char) : Bool := c.isAlphanum || c == '.' || c == '_' || c == '-'

/-- [26] -/
def versionNum : List Char → Bool
  | '1' :: '.' :: d :: ds => (d :: ds).all Char.isDigit
  | _ => false

/-- [81] -/
def encName : List Char → Bool
  | c :: cs => c.isAlpha && cs.all nameTailChar
  | [] => false

def yesNo (v : List Char) : Bool := v == "yes".toList || v == "no".toList

def optOk (f : Attr → Bool) : Option Attr → Bool
  | some a => f a
  | none => true

/-- productions [23]–[26], [32], [80], [81] -/
def grammatical (t : Tree) : Bool :=
  (spacingOk t.ver && versionNum t.ver.val) &&
  optOk (fun a => spacingOk a && encName a.val) t.enc &&
  optOk (fun a => spacingOk a && yesNo a.val) t.sd &&
  t.trail.all isWs

/-- the language expat reads: as `grammatical` with `VersionNum ::= [A-Za-z0-9._-]*` -/
def expatAccepts (t : Tree) : Bool :=
  (spacingOk t.ver && t.ver.val.all nameTailChar) &&
  optOk (fun a => spacingOk a && encName a.val) t.enc &&
  optOk (fun a => spacingOk a && yesNo a.val) t.sd &&
  t.trail.all isWs

/-- the decidable difference between the two (not a defect of the library: expat's reading) -/
def laxVersion (t : Tree) : Bool := !versionNum t.ver.val

end EPV.GlobalsSpec.XmlDeclGrammar

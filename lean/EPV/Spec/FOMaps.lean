/-
Specification side of C15, written from XPath and XQuery Functions and Operators 3.1
(https://www.w3.org/TR/xpath-functions-31/), §17.1 Maps and §17.3 Arrays.
Imports the model only for the *types* (`Key`, `Err`, `Entries`, `Policy`, and the interpreter
skeleton `Dialect`); none of the model's functions or key relations is used here.

A map is a finite list of (key, value) entries no two of which have the same key under
`op:same-key`; the order of entries is implementation-dependent (§17.1), so wherever the text
leaves the order open the definitions below pick one and the correspondence check compares
order-insensitively.  An array is a list of members (§17.3), positions are 1-based.
-/
import EPV.Model.MapArray
namespace EPV.MapArray.Spec

/-- F&O 3.1 §17.1.1 `op:same-key($k1, $k2)`.  The four numbered conditions of the text:
1. both xs:string / xs:anyURI (/ xs:untypedAtomic) and `fn:codepoint-equal`;
2. both xs:decimal / xs:double / xs:float (xs:integer is a decimal) and: both NaN, or both +INF,
   or both −INF, or equal as exact decimal numbers (so +0 and −0 are the same key);
3. both date/time values, either both with or both without a timezone, and `eq`
   (`utc` is the starting instant, for two values without timezone the same implicit timezone
   is added to both, so comparing the `utc` fields is `eq`);
4. both xs:boolean (hexBinary, … not in this key domain) and `eq`. -/
def sameKey : Key → Key → Bool
  | .str a, .str b | .str a, .uri b | .uri a, .str b | .uri a, .uri b => a == b
  | .unt a, .str b | .unt a, .uri b | .unt a, .unt b | .str a, .unt b | .uri a, .unt b => a == b
  | .dnan, .dnan => true
  | .dinf a, .dinf b => a == b
  | .int a, .int b => a == b
  | .int a, .dec b | .int a, .dbl b _ => (a : Rat) == b
  | .dec a, .int b | .dbl a _, .int b => a == (b : Rat)
  | .dec a, .dec b | .dec a, .dbl b _ | .dbl a _, .dec b | .dbl a _, .dbl b _ => a == b
  | .date _ u tz, .date _ u' tz' => tz.isSome == tz'.isSome && u == u'
  | .bool a, .bool b => a == b
  | .opq t r, .opq t' r' => t == t' && r == r'      -- QName, durations, hexBinary, base64Binary: `eq`
  | _, _ => false

/-! ### §17.1 maps (α = the type of values, i.e. sequences) -/

/-- §17.1.4 map:contains: "true if the map contains an entry with the same key as $key" -/
def contains (m : Entries α) (k : Key) : Bool := m.any fun e => sameKey e.1 k

/-- §17.1.5 map:get: "the value associated with a key that is the same key as $key, or the empty
sequence" -/
def get (m : Entries (List β)) (k : Key) : List β :=
  ((m.find? fun e => sameKey e.1 k).map (·.2)).getD []

/-- §17.1.7 map:put: "a map containing all the entries from $map, with the exception of any entry
whose key is the same key as $key, together with a new entry (key, value)" -/
def put (m : Entries α) (k : Key) (v : α) : Entries α :=
  (m.filter fun e => !sameKey e.1 k) ++ [(k, v)]

/-- §17.1.9 map:remove: "all the entries of $map whose key is not the same key as any of $keys" -/
def remove (m : Entries α) (ks : List Key) : Entries α :=
  m.filter fun e => !ks.any fun x => sameKey e.1 x

/-- §17.1.8 map:entry -/
def entry (k : Key) (v : α) : Entries α := [(k, v)]

/-- §3.11.1 (XPath 3.1) map constructor: XQDY0137 "if two or more keys are the same key" -/
def noDupKeys : List Key → Bool
  | [] => true
  | k :: ks => !(ks.any fun x => sameKey k x) && noDupKeys ks

def construct (l : List (Key × α)) : Except Err (Entries α) :=
  if noDupKeys (l.map (·.1)) then .ok l else .error .XQDY0137

/-- §17.1.2 map:merge, one entry met while going through the maps in order; `acc` holds the
entries decided so far.  Rules of the `duplicates` option: reject → FOJS0003; use-first → the
first is kept; use-last → the last replaces it; use-any → any (we keep the first);
combine → "the sequence concatenation of the values, in order". -/
def mergeStep (pol : Policy) (acc : Entries (List β)) (e : Key × List β) : Except Err (Entries (List β)) :=
  if !contains acc e.1 then .ok (acc ++ [e])
  else match pol with
    | .reject => .error .FOJS0003
    | .useFirst | .useAny => .ok acc
    | .useLast => .ok (put acc e.1 e.2)
    | .combine => .ok (acc.map fun a => if sameKey a.1 e.1 then (a.1, a.2 ++ e.2) else a)

def mergeLoop (pol : Policy) : Entries (List β) → List (Key × List β) → Except Err (Entries (List β))
  | acc, [] => .ok acc
  | acc, e :: rest =>
    match mergeStep pol acc e with
    | .ok acc' => mergeLoop pol acc' rest
    | .error x => .error x

def merge (maps : List (Entries (List β))) (pol : Policy) : Except Err (Entries (List β)) :=
  mergeLoop pol [] maps.flatten

/-! ### §17.3 arrays -/

def inBounds (n : Nat) (p : Int) : Bool := 1 ≤ p && p ≤ (n : Int)

/-- §17.3.2 array:get: the member at position $position; FOAY0001 "if $position is not in the
range 1 to array:size($array) inclusive" -/
def aget (a : List α) (p : Int) : Except Err α :=
  if inBounds a.length p then
    match a[(p - 1).toNat]? with
    | some x => .ok x
    | none => .error .FOAY0001
  else .error .FOAY0001

/-- §17.3.9 array:remove: "all members except those whose position is in $positions";
FOAY0001 if any position is out of 1..size -/
def aremove (a : List α) (ps : List Int) : Except Err (List α) :=
  if ps.all (inBounds a.length) then
    .ok (((List.range a.length).filter fun (i : Nat) => !ps.contains ((i : Int) + 1)).filterMap fun i => a[i]?)
  else .error .FOAY0001

/-- §17.3.6 array:subarray($array, $start, $length) = the members at positions
`$start to $start + $length - 1`; FOAY0001 if `$start < 1` or `$start + $length > size + 1`,
FOAY0002 if `$length < 0`; the two-argument form takes everything from `$start`, FOAY0001 if
`$start < 1` or `$start > size + 1`. -/
def asubarray (a : List α) (start : Int) (len : Option Int) : Except Err (List α) :=
  match len with
  | none =>
    if start < 1 ∨ start > (a.length : Int) + 1 then .error .FOAY0001
    else .ok (a.drop (start - 1).toNat)
  | some l =>
    if l < 0 then .error .FOAY0002
    else if start < 1 ∨ start + l > (a.length : Int) + 1 then .error .FOAY0001
    else .ok ((a.drop (start - 1).toNat).take l.toNat)

/-- §17.3.10 array:insert-before =
`array:join((array:subarray($array, 1, $position - 1), [$member], array:subarray($array, $position)))`;
FOAY0001 if $position is not in 1..size+1 -/
def ainsertBefore (a : List α) (p : Int) (v : α) : Except Err (List α) :=
  if 1 ≤ p ∧ p ≤ (a.length : Int) + 1 then
    .ok (a.take (p - 1).toNat ++ [v] ++ a.drop (p - 1).toNat)
  else .error .FOAY0001

/-- §17.3.3 array:put = `$array => array:remove($position) => array:insert-before($position, $member)`;
FOAY0001 if $position is not in 1..size -/
def aput (a : List α) (p : Int) (v : α) : Except Err (List α) :=
  if inBounds a.length p then
    .ok (a.take (p - 1).toNat ++ [v] ++ a.drop p.toNat)
  else .error .FOAY0001

/-- §17.3.4 array:append = `array:join(($array, [$appendage]))` -/
def aappend (a : List α) (v : α) : List α := a ++ [v]

/-- §17.3.7 array:head = `$array(1)`, FOAY0001 if empty -/
def ahead (a : List α) : Except Err α := aget a 1

/-- §17.3.8 array:tail = `array:remove($array, 1)`, FOAY0001 if empty -/
def atail (a : List α) : Except Err (List α) :=
  if a.isEmpty then .error .FOAY0001 else .ok (a.drop 1)

/-- §17.3.11 array:reverse -/
def areverse (a : List α) : List α := a.reverse

/-- `?` with a key on an array (XPath 3.1 §3.11.3): the key specifier must be an xs:integer
(XPTY0004 otherwise) -/
def arrIndex : Key → Except Err Int
  | .int v => .ok v
  | _ => .error .XPTY0004

/-- xs:double value of a numeric atom for `eq` with promotion (F&O §4.2: the other operand is
converted to xs:double): `roundDbl` is the shared model of that conversion -/
def toDbl : Key → Option (Option Rat × Bool × Bool)   -- (finite value, isNaN, is -INF/+INF sign)
  | .int v => some (some (roundDbl v), false, false)
  | .dec v => some (some (roundDbl v), false, false)
  | .dbl v _ => some (some v, false, false)
  | .dnan => some (none, true, false)
  | .dinf n => some (none, false, n)
  | _ => none

/-- F&O §15.3.1 fn:deep-equal, the rule for two atomic values: "true if `$i1 eq $i2`, or if both
are NaN; if `eq` is not defined for the two types, false".  `eq`: numerics after promotion
(integer/decimal exactly with each other; with a double involved both as doubles), strings and
anyURIs by code points, booleans, dates by their starting instants (a missing timezone is the
implicit timezone, taken as Z), QNames / durations / binaries of the same kind by value. -/
def atomDeepEqual (a b : Key) : Bool :=
  match a, b with
  | .dnan, .dnan => true
  | .int x, .int y => x == y
  | .int x, .dec y | .dec y, .int x => (x : Rat) == y
  | .dec x, .dec y => x == y
  | .dbl _ _, _ | _, .dbl _ _ | .dinf _, _ | _, .dinf _ =>
    match toDbl a, toDbl b with
    | some (some x, _, _), some (some y, _, _) => x == y
    | some (none, false, n), some (none, false, m) => n == m
    | _, _ => false
  | .str s, .str t | .str s, .uri t | .uri s, .str t | .uri s, .uri t => s == t
  | .unt s, .str t | .unt s, .uri t | .unt s, .unt t | .str s, .unt t | .uri s, .unt t => s == t
  | .bool x, .bool y => x == y
  | .date _ u _, .date _ u' _ => u == u'
  | .opq t r, .opq t' r' => t == t' && r == r'
  | _, _ => false

/-- XPath 3.1 §3.11.3.2 postfix lookup `E?(K)`: "for $e in E, $k in K return $e($k)" — one item `$e`
(a map or an array, XPTY0004 otherwise) applied to one key `$k` as a function call (§3.11.1.? maps:
map:get; arrays: array:get with an xs:integer position) -/
def lookup1 (d : Dialect) (s : Store) (e : Item) (k : Key) : Except Err Seq :=
  match e with
  | .atom _ => .error .XPTY0004
  | .ref a => match s[a]? with
    | some (.map es) => .ok (d.mapGet es k)
    | some (.arr ms) => do let p ← d.arrIndex k; d.arrGet ms p
    | none => .error .XPTY0004

def isMapOrArray (s : Store) : Item → Bool
  | .atom _ => false
  | .ref a => (s[a]?).isSome

/-- `E?(K)`: for each item of `E` (in order), for each key of `K` (in order); the first error wins -/
def lookupSeq (d : Dialect) (s : Store) (E : Seq) (K : List Key) : Except Err Seq :=
  (E.mapM fun e =>
    if isMapOrArray s e then (K.mapM (lookup1 d s e)).map List.flatten else .error .XPTY0004).map List.flatten

/-- the interpreter skeleton of the model instantiated with the F&O definitions above -/
def specDialect : Dialect where
  alias := false
  mapCtor := construct
  mapPut := fun m k v => .ok (put m k v)
  mapRemove := fun m ks => .ok (remove m ks)
  mapGet := get
  mapContains := contains
  mapHas := contains
  atomEq := atomDeepEqual
  mapMerge := merge
  findEq := fun a b => sameKey a b
  arrIndex := arrIndex
  arrGet := aget
  arrPut := aput
  arrInsertBefore := ainsertBefore
  arrAppend := aappend
  arrRemove := aremove
  arrSubarray := asubarray
  arrHead := ahead
  arrTail := atail
  arrReverse := areverse

end EPV.MapArray.Spec

/-
Specification side of C13: a subset of code points is a predicate on `Nat`; the list
representation denotes the union of its entries.  `Canon` is the canonical form the
property asks for (sorted, non-overlapping, *merged*, singletons stored as `one`), `WInv`
the weaker invariant the implementation really maintains (sorted, non-overlapping, entries
may touch).
-/
import EPV.Model.UnicodeSubset
namespace EPV.USet

def CP.mem (x : Nat) (c : CP) : Prop := c.lo ≤ x ∧ x < c.hi
instance (x : Nat) (c : CP) : Decidable (c.mem x) := by unfold CP.mem; infer_instance

/-- denotation of a representation list -/
def memL (x : Nat) : List CP → Prop
  | [] => False
  | c :: cs => c.mem x ∨ memL x cs

instance memLDec (x : Nat) : (l : List CP) → Decidable (memL x l)
  | [] => isFalse (by simp [memL])
  | c :: cs => by
    unfold memL
    exact @instDecidableOr _ _ _ (memLDec x cs)

/-- weak invariant: every entry non-empty, sorted, disjoint (touching allowed) -/
def WInv : List CP → Prop
  | [] => True
  | [c] => c.lo < c.hi
  | c :: d :: cs => c.lo < c.hi ∧ c.hi ≤ d.lo ∧ WInv (d :: cs)

instance WInvDec : (l : List CP) → Decidable (WInv l)
  | [] => isTrue trivial
  | [c] => by unfold WInv; infer_instance
  | c :: d :: cs => by
    unfold WInv
    have := WInvDec (d :: cs)
    infer_instance

/-- an entry in canonical shape: `one n`, or a range of at least two code points -/
def CP.canon : CP → Prop
  | .one _ => True
  | .rng a b => a + 2 ≤ b
instance (c : CP) : Decidable c.canon := by cases c <;> unfold CP.canon <;> infer_instance

/-- canonical representation: canonical entries, strictly separated (gap ≥ 1, so merged) -/
def Canon : List CP → Prop
  | [] => True
  | [c] => c.canon
  | c :: d :: cs => c.canon ∧ c.hi < d.lo ∧ Canon (d :: cs)

instance CanonDec : (l : List CP) → Decidable (Canon l)
  | [] => isTrue trivial
  | [c] => by unfold Canon; infer_instance
  | c :: d :: cs => by
    unfold Canon
    have := CanonDec (d :: cs)
    infer_instance

/-- all entries below `maxunicode + 1` -/
def Bounded (l : List CP) : Prop := ∀ c ∈ l, c.hi ≤ maxCP1

/-- the set-level meaning of one operation -/
def specStep (S : Nat → Prop) : Op → (Nat → Prop)
  | .add v => fun x => S x ∨ v.mem x
  | .discard v => fun x => S x ∧ ¬ v.mem x
  | .ior o => fun x => S x ∨ memL x o
  | .isub o => fun x => S x ∧ ¬ memL x o
  | .iand o => fun x => S x ∧ memL x o
  | .ixor o => fun x => (S x ∧ ¬ memL x o) ∨ (¬ S x ∧ memL x o)

/-- executable version used by the driver: the finite universe `[0, n)` as a Boolean vector -/
def specStepB (n : Nat) (S : List Bool) (op : Op) : List Bool :=
  (List.range n).map fun x =>
    let sx := S.getD x false
    match op with
    | .add v => sx || decide (v.mem x)
    | .discard v => sx && !decide (v.mem x)
    | .ior o => sx || decide (memL x o)
    | .isub o => sx && !decide (memL x o)
    | .iand o => sx && decide (memL x o)
    | .ixor o => (sx && !decide (memL x o)) || (!sx && decide (memL x o))

end EPV.USet

namespace EPV.USet

/-- Trigger predicate of known finding F13 (complement of it): `add v` keeps a canonical
list canonical.  It fails exactly when the stored argument is a one-element range (F13a)
or when the extended entry reaches the next stored entry (F13b). -/
def addSafeAux (v : CP) (s e : Nat) : List CP → Bool
  | [] => decide v.canon
  | c :: rest =>
    if e < c.lo then decide v.canon
    else if s > c.hi then addSafeAux v s e rest
    else if e > c.hi then
      match rest with
      | [] => true
      | n :: _ => decide (e < n.lo)
    else true

def addSafe (v : CP) (l : List CP) : Bool := addSafeAux v v.lo v.hi l

/-- the canonical list of a Boolean membership vector over the window `[base, base + bits.length)`:
maximal runs of `true` -/
def canonOfBits (base : Nat) (bits : List Bool) : List CP :=
  let rec go (pos : Nat) (cur : Option Nat) : List Bool → List CP
    | [] => match cur with
      | none => []
      | some s => [if pos = s + 1 then .one s else .rng s pos]
    | b :: bs =>
      match b, cur with
      | true, none => go (pos + 1) (some pos) bs
      | true, some s => go (pos + 1) (some s) bs
      | false, none => go (pos + 1) none bs
      | false, some s => (if pos = s + 1 then CP.one s else .rng s pos) :: go (pos + 1) none bs
  go base none bits

end EPV.USet

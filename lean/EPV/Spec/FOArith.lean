/-
Specification of XPath numeric arithmetic, written from
  * XQuery and XPath Functions and Operators 3.1 (F&O), section 4.2 "Arithmetic operators on numeric
    values" (op:numeric-add … op:numeric-unary-minus) and section 4.4 "Functions on numeric values"
    (fn:abs, fn:ceiling, fn:floor, fn:round, fn:round-half-to-even);
  * XPath 3.1, appendix B.1 "Type promotion" and B.2 "Operator mapping";
  * XML Schema 1.1 part 2, section 3.3.5 / 3.3.6 (value spaces of xs:double / xs:float);
  * IEEE 754-2008 for the special-value tables of + - * / (F&O 4.2 refers to it).

Independent of the model (`EPV/Model/Arith.lean` imports this file only for the value types).
Core Lean only.  Everything is executable so that the driver can print it.

Values.  An xs:integer is an `Int`, an xs:decimal an exact `Rat`, an xs:double / xs:float a `Dbl`:
NaN, ±INF, ±0 or a finite non-zero exact rational.  IEEE rounding to binary64 / binary32 is NOT
specified here: it is the parameter `R : Rounding` (trusted hardware / libm).  A concrete,
executable round-to-nearest-even (`ieeeRound`) is given at the end for the driver only.
-/
namespace EPV.FOArith

inductive Err
  | FOAR0001   -- division by zero
  | FOAR0002   -- numeric operation overflow/underflow
  | XPTY0004 | XPST0017 | FOCA0002 | other
  | XPST0005   -- static typing: the expression is known to be the empty sequence (may be raised)
  deriving DecidableEq, Repr, Inhabited

/-- value space of xs:double (and of xs:float): XSD 1.1 part 2 §3.3.5 -/
inductive Dbl
  | nan
  | inf (neg : Bool)
  | zero (neg : Bool)
  | fin (q : Rat)        -- finite, `q ≠ 0` (a zero is always written `zero`)
  deriving DecidableEq, Inhabited

/-- well-formed: a finite value is never written `fin 0` -/
def Dbl.wf : Dbl → Prop
  | .fin q => q ≠ 0
  | _ => True

instance (d : Dbl) : Decidable d.wf := by
  cases d <;> unfold Dbl.wf <;> infer_instance

/-- IEEE round-to-nearest of an exact non-zero rational into the value space of binary64 (`r64`)
and binary32 (`r32`); may return `inf` (overflow) or `zero` (underflow).  Uninterpreted. -/
structure Rounding where
  r64 : Rat → Dbl
  r32 : Rat → Dbl

inductive Ty | integer | decimal | float | double
  deriving DecidableEq, Repr, Inhabited

inductive XVal
  | integer (n : Int)
  | decimal (q : Rat)
  | float (d : Dbl)
  | double (d : Dbl)
  deriving DecidableEq, Inhabited

def XVal.ty : XVal → Ty
  | .integer _ => .integer | .decimal _ => .decimal | .float _ => .float | .double _ => .double

/-- XPath 3.1 B.1: integer ⊂ decimal → float → double -/
def Ty.rank : Ty → Nat
  | .integer => 0 | .decimal => 1 | .float => 2 | .double => 3

def promote (a b : Ty) : Ty := if a.rank ≤ b.rank then b else a

inductive BinOp | add | sub | mul | div | idiv | mod
  deriving DecidableEq, Repr, Inhabited

/-- the unary operators and the rounding functions; `round`/`rhe` carry the precision argument
(`0` when absent) -/
inductive UnOp | neg | pos | abs | floor | ceiling | round (p : Int) | rhe (p : Int)
  deriving DecidableEq, Repr, Inhabited

/-- XPath 3.1 B.2 (operator mapping): type of `A op B` for operand types `ta`, `tb`:
the promoted type, except `idiv` (always xs:integer) and `div` on two integers (xs:decimal) -/
def resultTy (op : BinOp) (ta tb : Ty) : Ty :=
  match op with
  | .idiv => .integer
  | .div => if promote ta tb = .integer then .decimal else promote ta tb
  | _ => promote ta tb

/-! ### exact rational helpers -/

/-- truncation toward zero (F&O op:numeric-integer-divide: "truncating") -/
def trunc (q : Rat) : Int := if 0 ≤ q then q.floor else q.ceil

/-- `10^p` for any integer `p` -/
def pow10 (p : Int) : Rat := (10 : Rat) ^ p

/-- fn:round: "the nearest … value … that is a multiple of ten to the power of minus $precision.
If two such values are equally near, the function returns the one that is closest to positive
infinity"  =  ⌊x·10^p + 1/2⌋ / 10^p -/
def roundHalfUp (x : Rat) (p : Int) : Rat := ((x * pow10 p + 1 / 2).floor : Int) / pow10 p

/-- nearest integer, ties to the even one -/
def nearestEven (y : Rat) : Int :=
  let f := y.floor
  let r := y - f
  if r < 1 / 2 then f else if 1 / 2 < r then f + 1 else if f % 2 = 0 then f else f + 1

/-- fn:round-half-to-even: "… If two such values are equally near, return the one whose least
significant digit is even" -/
def roundHalfEven (x : Rat) (p : Int) : Rat := (nearestEven (x * pow10 p) : Int) / pow10 p

/-! ### xs:decimal precision.  F&O 4.2: "the number of digits of precision returned by the numeric
operators is implementation-defined … the result is truncated or rounded in an implementation-defined
manner".  The implementation-defined choice of this library is Python's `decimal` default context:
28 significant digits, ROUND_HALF_EVEN (IEEE 754-2008 decimal arithmetic), made explicit here. -/

/-- number of decimal digits of `n` (1 for 0) -/
def numDigits10 (n : Nat) : Nat := (Nat.toDigits 10 n).length

/-- ⌊log10 a⌋ for a positive rational -/
def ilog10 (a : Rat) : Int :=
  let e : Int := (numDigits10 a.num.natAbs : Int) - (numDigits10 a.den : Int)
  if (10 : Rat) ^ e ≤ a then (if (10 : Rat) ^ (e + 1) ≤ a then e + 1 else e) else e - 1

/-- `q` rounded to 28 significant digits, ties to even -/
def round28 (q : Rat) : Rat :=
  if q = 0 then 0 else
  let m := if q < 0 then -q else q
  let k : Int := 27 - ilog10 m
  (nearestEven (q * pow10 k) : Int) / pow10 k

/-- the decimal context applied to an xs:decimal result -/
def ctxDec : XVal → XVal
  | .decimal q => .decimal (round28 q)
  | v => v


/-! ### IEEE 754 special-value tables (F&O 4.2: "for xs:float or xs:double values … as in IEEE 754") -/

def Dbl.isNeg : Dbl → Bool
  | .nan => false | .inf n => n | .zero n => n | .fin q => decide (q < 0)

def Dbl.neg : Dbl → Dbl
  | .nan => .nan | .inf n => .inf (!n) | .zero n => .zero (!n) | .fin q => .fin (-q)

def Dbl.abs : Dbl → Dbl
  | .nan => .nan | .inf _ => .inf false | .zero _ => .zero false | .fin q => .fin (if q < 0 then -q else q)

/-- what the theorems about mixed operands need from IEEE rounding: a non-zero exact value never
rounds to NaN, keeps its sign, a finite result is written well-formed (`fin y`, `y ≠ 0`), and a
non-zero integer never rounds to zero.  True of round-to-nearest in binary64. -/
structure Faithful (R : Rounding) : Prop where
  sign : ∀ q : Rat, q ≠ 0 → R.r64 q ≠ .nan ∧ (R.r64 q).isNeg = decide (q < 0) ∧ (R.r64 q).wf
  intNonzero : ∀ n : Int, n ≠ 0 → ∀ s, R.r64 n ≠ .zero s

/-- round an exact result: an exact zero is +0 (round-to-nearest mode, IEEE 754 §6.3) -/
def rnd (r : Rat → Dbl) (q : Rat) : Dbl := if q = 0 then .zero false else r q

def ieeeAdd (r : Rat → Dbl) : Dbl → Dbl → Dbl
  | .nan, _ => .nan
  | _, .nan => .nan
  | .inf a, .inf b => if a = b then .inf a else .nan
  | .inf a, _ => .inf a
  | _, .inf b => .inf b
  | .zero a, .zero b => .zero (a && b)
  | .zero _, .fin y => .fin y
  | .fin x, .zero _ => .fin x
  | .fin x, .fin y => rnd r (x + y)

def ieeeMul (r : Rat → Dbl) : Dbl → Dbl → Dbl
  | .nan, _ => .nan
  | _, .nan => .nan
  | .inf _, .zero _ => .nan
  | .zero _, .inf _ => .nan
  | .inf a, y => .inf (a != y.isNeg)
  | x, .inf b => .inf (x.isNeg != b)
  | .zero a, y => .zero (a != y.isNeg)
  | x, .zero b => .zero (x.isNeg != b)
  | .fin x, .fin y => rnd r (x * y)

def ieeeDiv (r : Rat → Dbl) : Dbl → Dbl → Dbl
  | .nan, _ => .nan
  | _, .nan => .nan
  | .inf _, .inf _ => .nan
  | .zero _, .zero _ => .nan
  | .inf a, y => .inf (a != y.isNeg)
  | x, .zero b => .inf (x.isNeg != b)
  | .zero a, y => .zero (a != y.isNeg)
  | x, .inf b => .zero (x.isNeg != b)
  | .fin x, .fin y => rnd r (x / y)

/-- F&O op:numeric-mod for xs:float / xs:double:  NaN operand → NaN;  dividend ±INF or divisor ±0
→ NaN;  finite dividend, infinite divisor → the dividend;  dividend ±0, finite divisor → the
dividend;  otherwise the exact remainder of the truncating division (always representable, no
rounding), a zero remainder keeping the sign of the dividend (IEEE fmod). -/
def ieeeMod : Dbl → Dbl → Dbl
  | .nan, _ => .nan
  | _, .nan => .nan
  | .inf _, _ => .nan
  | _, .zero _ => .nan
  | x, .inf _ => x
  | .zero a, .fin _ => .zero a
  | .fin x, .fin y =>
    let m := x - y * (trunc (x / y) : Int)
    if m = 0 then .zero (decide (x < 0)) else .fin m

/-! ### casting for type promotion (XPath 3.1 B.1, F&O 19.1.2.x) -/

def XVal.toRat? : XVal → Option Rat
  | .integer n => some n
  | .decimal q => some q
  | _ => none

/-- the operand as a value of the promoted floating type `t` (rounding function `r` of `t`) -/
def XVal.toDbl (r : Rat → Dbl) : XVal → Dbl
  | .integer n => rnd r n
  | .decimal q => rnd r q
  | .float d => d        -- every xs:float value is an xs:double value
  | .double d => d

def mkFloating (t : Ty) (d : Dbl) : XVal := if t = .float then .float d else .double d

/-! ### the operators: F&O 4.2 -/

/-- integer and decimal operands (exact arithmetic) -/
def exactBin (t : Ty) (op : BinOp) (x y : Rat) : Except Err XVal :=
  let mk (q : Rat) : XVal := if t = .integer then .integer q.floor else .decimal q
  match op with
  | .add => pure (mk (x + y))
  | .sub => pure (mk (x - y))
  | .mul => pure (mk (x * y))
  | .div => if y = 0 then throw .FOAR0001 else pure (.decimal (x / y))   -- integer div integer is a decimal
  | .idiv => if y = 0 then throw .FOAR0001 else pure (.integer (trunc (x / y)))
  | .mod => if y = 0 then throw .FOAR0001 else pure (mk (x - y * (trunc (x / y) : Int)))

/-- op:numeric-integer-divide on xs:float / xs:double.  F&O: FOAR0001 if the divisor is ±0,
FOAR0002 if an operand is NaN or the dividend is ±INF (when both apply F&O does not rank them:
we let a NaN operand win, then the zero divisor); a finite dividend and an infinite divisor give 0. -/
def dblIdiv : Dbl → Dbl → Except Err Int
  | .nan, _ => throw .FOAR0002
  | _, .nan => throw .FOAR0002
  | _, .zero _ => throw .FOAR0001
  | .inf _, _ => throw .FOAR0002
  | _, .inf _ => pure 0
  | .zero _, .fin _ => pure 0
  | .fin x, .fin y => pure (trunc (x / y))

def floatBin (r : Rat → Dbl) (t : Ty) (op : BinOp) (x y : Dbl) : Except Err XVal :=
  match op with
  | .add => pure (mkFloating t (ieeeAdd r x y))
  | .sub => pure (mkFloating t (ieeeAdd r x y.neg))
  | .mul => pure (mkFloating t (ieeeMul r x y))
  | .div => pure (mkFloating t (ieeeDiv r x y))
  | .idiv => do let n ← dblIdiv x y; pure (.integer n)
  | .mod => pure (mkFloating t (ieeeMod x y))

/-- `A op B` for numeric operands -/
def specBin (R : Rounding) (op : BinOp) (a b : XVal) : Except Err XVal :=
  let t := promote a.ty b.ty
  match a.toRat?, b.toRat? with
  | some x, some y => exactBin t op x y
  | _, _ =>
    let r := if t = .float then R.r32 else R.r64
    floatBin r t op (a.toDbl r) (b.toDbl r)

/-! ### unary minus/plus and the functions of F&O 4.4 -/

def exactUn (op : UnOp) (x : Rat) : Rat :=
  match op with
  | .neg => -x
  | .pos => x
  | .abs => if x < 0 then -x else x
  | .floor => (x.floor : Int)
  | .ceiling => (x.ceil : Int)
  | .round p => roundHalfUp x p
  | .rhe p => roundHalfEven x p

/-- an exact result converted back, a zero taking the sign of the argument `x`
(F&O fn:round / fn:ceiling: "if the argument is less than zero and … the result is negative zero") -/
def backTo (r : Rat → Dbl) (x res : Rat) : Dbl :=
  if res = 0 then .zero (decide (x < 0)) else r res

def floatUn (r : Rat → Dbl) (op : UnOp) (d : Dbl) : Dbl :=
  match op, d with
  | .neg, d => d.neg
  | .pos, d => d
  | .abs, d => d.abs
  | _, .nan => .nan
  | _, .inf n => .inf n
  | _, .zero n => .zero n
  | op, .fin x => backTo r x (exactUn op x)

def specUn (R : Rounding) (op : UnOp) (a : XVal) : XVal :=
  match a with
  | .integer n => .integer (exactUn op n).floor
  | .decimal q => .decimal (exactUn op q)
  | .float d => .float (floatUn R.r32 op d)
  | .double d => .double (floatUn R.r64 op d)

/-! ### XPath 1.0 (Recommendation 1999, §3.5 Numbers, §4.4 number()): there is one numeric type, the
IEEE 754 double; a string operand is converted with number(): "a string that consists of optional
whitespace followed by an optional minus sign followed by a Number followed by whitespace is converted
to the IEEE 754 number that is nearest … any other string is converted to NaN", where
Number ::= Digits ('.' Digits?)? | '.' Digits (no exponent, no '+', no INF). -/

def isXmlSpace (c : Char) : Bool := c == ' ' || c == '\t' || c == '\n' || c == '\r'

def stripWith (p : Char → Bool) (cs : List Char) : List Char :=
  ((cs.dropWhile p).reverse.dropWhile p).reverse

def digitsVal (ds : List Char) : Nat := ds.foldl (fun acc c => acc * 10 + (c.toNat - '0'.toNat)) 0

/-- value of the decimal numeral `int.frac × 10^exp` -/
def decimalToRat (int frac : List Char) (exp : Int) : Rat :=
  ((digitsVal (int ++ frac) : Nat) : Rat) * pow10 (exp - frac.length)

/-- `Digits ('.' Digits?)? | '.' Digits` at the head of `cs`: integer digits, fraction digits, rest -/
def scanMantissa (cs : List Char) : Option (List Char × List Char × List Char) :=
  let (i, r) := cs.span Char.isDigit
  match r with
  | '.' :: r' =>
    let (f, r'') := r'.span Char.isDigit
    if i.isEmpty && f.isEmpty then none else some (i, f, r'')
  | _ => if i.isEmpty then none else some (i, [], r)

/-- a signed exact decimal value as a double: nearest double, a zero keeps the sign -/
def signedToDbl (r : Rat → Dbl) (neg : Bool) (q : Rat) : Dbl :=
  if q = 0 then .zero neg else r (if neg then -q else q)

/-- the optional minus sign -/
def splitMinus : List Char → Bool × List Char
  | '-' :: t => (true, t)
  | t => (false, t)

/-- the value once the Number has been scanned: the whole rest of the string must be consumed -/
def number10Body (R : Rounding) (neg : Bool) : Option (List Char × List Char × List Char) → Dbl
  | some (i, f, []) => signedToDbl R.r64 neg (decimalToRat i f 0)
  | _ => .nan

/-- XPath 1.0 number() on a string -/
def number10 (R : Rounding) (cs : List Char) : Dbl :=
  let s := stripWith isXmlSpace cs
  number10Body R (splitMinus s).1 (scanMantissa (splitMinus s).2)

/-- an XPath 1.0 operand: a number (however the implementation represents it) or a string -/
inductive Opnd10
  | int (n : Int) | dec (q : Rat) | dbl (d : Dbl) | str (cs : List Char)

def Opnd10.toDbl (R : Rounding) : Opnd10 → Dbl
  | .int n => rnd R.r64 n
  | .dec q => rnd R.r64 q
  | .dbl d => d
  | .str cs => number10 R cs

/-- XPath 1.0 `A op B` (op ≠ idiv): both operands converted to numbers, IEEE 754 arithmetic, `mod` as in
Java/ECMAScript (truncating remainder) -/
def spec10Bin (R : Rounding) (op : BinOp) (a b : Opnd10) : Except Err XVal :=
  specBin R op (.double (a.toDbl R)) (.double (b.toDbl R))

def spec10Un (R : Rounding) (op : UnOp) (a : Opnd10) : XVal :=
  specUn R op (.double (a.toDbl R))

/-- the number an XDM value denotes in the XPath 1.0 data model (type tag dropped; an exact zero is +0) -/
def XVal.num10 : XVal → Dbl
  | .integer n => if n = 0 then .zero false else .fin n
  | .decimal q => if q = 0 then .zero false else .fin q
  | .float d => d
  | .double d => d

/-! ### empty-sequence operands.  XPath 3.1 §3.5 (arithmetic expressions): "If the atomized operand is an
empty sequence, the result of the arithmetic expression is an empty sequence"; F&O 4.4: fn:abs … "If $arg is
the empty sequence, the function returns the empty sequence".  `none` is the empty sequence. -/

def specBinE (R : Rounding) (op : BinOp) (a b : Option XVal) : Except Err (Option XVal) :=
  match a, b with
  | some x, some y => (specBin R op x y).map some
  | _, _ => pure none

def specUnE (R : Rounding) (op : UnOp) : Option XVal → Option XVal
  | some x => some (specUn R op x)
  | none => none

/-! ### a concrete round-to-nearest-even, for the driver only (validated by the correspondence
check against the hardware; no theorem depends on it) -/

/-- ⌊log2 a⌋ for a positive rational -/
def ilog2 (a : Rat) : Int :=
  let e : Int := (a.num.natAbs.log2 : Int) - (a.den.log2 : Int)
  if (2 : Rat) ^ e ≤ a then (if (2 : Rat) ^ (e + 1) ≤ a then e + 1 else e) else e - 1

/-- round-to-nearest-even into a binary format with `mant` significand bits, least exponent of the
ulp `eminUlp` (−1074 / −149) and overflow threshold `2^emax1` (1024 / 128) -/
def ieeeRound (mant : Nat) (eminUlp emax1 : Int) (q : Rat) : Dbl :=
  if q = 0 then .zero false else
  let neg := decide (q < 0)
  let a := if q < 0 then -q else q
  let e := ilog2 a
  let ue := if e - (mant - 1 : Nat) < eminUlp then eminUlp else e - (mant - 1 : Nat)
  let ulp : Rat := (2 : Rat) ^ ue
  let f := nearestEven (a / ulp)
  let v : Rat := f * ulp
  if f = 0 then .zero neg
  else if (2 : Rat) ^ emax1 ≤ v then .inf neg
  else .fin (if neg then -v else v)

def ieee : Rounding := { r64 := ieeeRound 53 (-1074) 1024, r32 := ieeeRound 24 (-149) 128 }

/-- is `q` a value of binary32 that elementpath's `Float` class keeps unchanged
(|q| ≥ 2^-122 > 1e-37, 24 significant bits, below the overflow threshold)?  Used for the trigger
predicate of finding F06c. -/
def f32safe (q : Rat) : Bool :=
  q = 0 || (let a := if q < 0 then -q else q
            decide ((2 : Rat) ^ (-122 : Int) ≤ a) && (ieeeRound 24 (-149) 128 q == .fin q))

end EPV.FOArith

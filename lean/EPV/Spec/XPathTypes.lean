/-
C18 — specification: the built-in type hierarchy of XSD and SequenceType matching of XPath 3.1.

Written from
  * W3C XML Schema Definition Language (XSD) 1.1 Part 2: Datatypes, §3 "Built-in Datatypes and Their
    Definitions", the derivation diagram and the {base type definition} of every §3.3 / §3.4 type;
  * XPath and XQuery Functions and Operators 3.1 §1.6 (type hierarchy, xs:numeric = union of
    xs:double, xs:float, xs:decimal);
  * XML Path Language (XPath) 3.1 §2.5.5 "SequenceType Matching" (2.5.5.1 occurrence indicators,
    2.5.5.2 derives-from for atomic types, 2.5.5.3-2.5.5.6 kind tests, 2.5.5.7 function tests,
    2.5.5.8 map tests, 2.5.5.9 array tests).
It shares only the *data types* (`Ty`, `Item`) with the model; none of the model's functions is used.
The subtype relation used by typed function tests (§2.5.6) is a parameter `sub` ("`sub A B`: `B` is a
subtype of `A`"): the property asks that the implementation's relation is reflexive, transitive and
sound for `specMatch`, not that it is complete.
-/
import EPV.Model.SeqType
namespace EPV.SeqType

/-- the built-in atomic types of XSD 1.1 part 2 §3.3 (primitive) and §3.4 (other built-in), plus
`xs:anyAtomicType` (§3.2.2), the two duration types and `xs:untypedAtomic` (XDM §2.7.2) and `xs:error`
(XSD 1.1 part 1 §3.16.7.3) -/
inductive XsdT
  | anyAtomicType | untypedAtomic
  | string | normalizedString | token | language | NMTOKEN | Name | NCName | ID | IDREF | ENTITY
  | boolean | decimal | integer | nonPositiveInteger | negativeInteger | long | int | short | byte
  | nonNegativeInteger | unsignedLong | unsignedInt | unsignedShort | unsignedByte | positiveInteger
  | float | double
  | duration | yearMonthDuration | dayTimeDuration
  | dateTime | dateTimeStamp | time | date | gYearMonth | gYear | gMonthDay | gDay | gMonth
  | hexBinary | base64Binary | anyURI | QName | NOTATION
  | error
  deriving DecidableEq, Repr, Inhabited

/-- {base type definition} of each built-in type (XSD 1.1 part 2 §3.3.x / §3.4.x); `none` for
`xs:anyAtomicType` (its base `xs:anySimpleType` is not atomic) and for `xs:error` (a union with no
member types, base `xs:anySimpleType`) -/
def XsdT.parent : XsdT → Option XsdT
  | .anyAtomicType => none
  | .error => none
  | .untypedAtomic => some .anyAtomicType
  | .string => some .anyAtomicType
  | .normalizedString => some .string           -- §3.4.1
  | .token => some .normalizedString            -- §3.4.2
  | .language => some .token                    -- §3.4.3
  | .NMTOKEN => some .token                     -- §3.4.4
  | .Name => some .token                        -- §3.4.6
  | .NCName => some .Name                       -- §3.4.7
  | .ID => some .NCName                         -- §3.4.8
  | .IDREF => some .NCName                      -- §3.4.9
  | .ENTITY => some .NCName                     -- §3.4.11
  | .boolean => some .anyAtomicType
  | .decimal => some .anyAtomicType
  | .integer => some .decimal                   -- §3.4.13
  | .nonPositiveInteger => some .integer        -- §3.4.14
  | .negativeInteger => some .nonPositiveInteger -- §3.4.15
  | .long => some .integer                      -- §3.4.16
  | .int => some .long                          -- §3.4.17
  | .short => some .int                         -- §3.4.18
  | .byte => some .short                        -- §3.4.19
  | .nonNegativeInteger => some .integer        -- §3.4.20
  | .unsignedLong => some .nonNegativeInteger   -- §3.4.21
  | .unsignedInt => some .unsignedLong          -- §3.4.22
  | .unsignedShort => some .unsignedInt         -- §3.4.23
  | .unsignedByte => some .unsignedShort        -- §3.4.24
  | .positiveInteger => some .nonNegativeInteger -- §3.4.25
  | .float => some .anyAtomicType
  | .double => some .anyAtomicType
  | .duration => some .anyAtomicType
  | .yearMonthDuration => some .duration        -- §3.4.26
  | .dayTimeDuration => some .duration          -- §3.4.27
  | .dateTime => some .anyAtomicType
  | .dateTimeStamp => some .dateTime            -- §3.4.28
  | .time => some .anyAtomicType
  | .date => some .anyAtomicType
  | .gYearMonth => some .anyAtomicType
  | .gYear => some .anyAtomicType
  | .gMonthDay => some .anyAtomicType
  | .gDay => some .anyAtomicType
  | .gMonth => some .anyAtomicType
  | .hexBinary => some .anyAtomicType
  | .base64Binary => some .anyAtomicType
  | .anyURI => some .anyAtomicType
  | .QName => some .anyAtomicType
  | .NOTATION => some .anyAtomicType

/-- `derives-from(a, b)` (XPath 3.1 §2.5.5.2) restricted to the built-in atomic types: `b` is `a` or
is reached from `a` by following base types.  The longest chain (`xs:byte` … `xs:anyAtomicType`) has
7 steps; 9 units of fuel are enough (checked below by `decide`). -/
def derivesF : Nat → XsdT → XsdT → Bool
  | 0, a, b => a == b
  | n + 1, a, b => a == b || (match a.parent with | some p => derivesF n p b | none => false)

def derives (a b : XsdT) : Bool := derivesF 9 a b

/-- F&O 3.1 §1.6.3: xs:numeric is the union of xs:double, xs:float and xs:decimal -/
def isNumericT (a : XsdT) : Bool := derives a .double || derives a .float || derives a .decimal

/-- what the specification needs to know about the generated tables: the XSD type named by an atomic
leaf, the dynamic type of a value class, and the table positions of two types mentioned by rules -/
structure SpecTables where
  atomTy : Nat → Option XsdT
  clsTy : Nat → Option XsdT
  anyAtomicIdx : Nat
  integerIdx : Nat

/-- XPath 3.1 §2.5.5.1: the number of items against the occurrence indicator -/
def occCard : Occ → Nat → Bool
  | .one, n => n == 1
  | .opt, n => n ≤ 1
  | .star, _ => true
  | .plus, n => 1 ≤ n

/-- XPath 3.1 §2.5.5.3 / §2.5.5.5 with §3.3.2.1 (name tests): an ElementName / AttributeName in a kind test is a
lexical QName expanded with the statically known namespaces; "an unprefixed QName, when used as a name test on an
axis whose principal node kind is element, has the namespace URI of the default element/type namespace; otherwise
it has no namespace URI".  Names are numbers `100 * (prefix | namespace) + local` (see the model). -/
def specResolveName (dflt p q : Nat) (isAttr : Bool) (lex : Nat) : Nat :=
  if lex / 100 = 0 then (if isAttr then lex % 100 else 100 * dflt + lex % 100)
  else if lex / 100 = 1 then 100 * p + lex % 100
  else 100 * q + lex % 100

/-- element / attribute name test (§2.5.5.3, §2.5.5.5): no argument and `*` match every name -/
def specName : NameTest → Nat → Bool
  | .none, _ => true
  | .wild, _ => true
  | .name n, m => n == m

/-- §2.5.5.2 an atomic value of dynamic type `d` matches the atomic type `t` iff derives-from(d, t);
`xs:error` has an empty value space -/
def specAtomic (st : SpecTables) (c t : Nat) : Bool :=
  match st.clsTy c, st.atomTy t with
  | some d, some ty => derives d ty && ty != .error
  | _, _ => false

/-- F&O 3.1 §1.6.3: an atomic value matches xs:numeric iff its dynamic type derives from xs:double, xs:float or xs:decimal -/
def specNumeric (st : SpecTables) (c : Nat) : Bool :=
  match st.clsTy c with
  | some d => isNumericT d
  | none => false

/-- kind tests §2.5.5.3-2.5.5.6 for a node -/
def specLeafNode (k : Kind) (name : Nat) (kids : List Nat) : Leaf → Bool
  | .anyNode => true                                   -- node() matches any node
  | .kind .text .none => k == .text
  | .kind .comment .none => k == .comment
  | .kind .namespace .none => k == .namespace
  | .kind .pi .none => k == .pi
  | .kind .pi (.name n) => k == .pi && n == name       -- PITest with a target
  | .kind .document .none => k == .document
  | .kind .element nt => k == .element && specName nt name
  | .kind .attribute nt => k == .attribute && specName nt name
  | .docElem nt =>                                     -- document-node(E): exactly one element child, matching E
    k == .document && (match kids with | [e] => specName nt e | _ => false)
  | _ => false

/-- the type annotation of a node built without a schema is `xs:untyped` (elements) resp. `xs:untypedAtomic`
(attributes) (XDM 3.1 §6.2.4, §6.3.4); `derives-from(annotation, T)`: xs:untyped is derived from xs:anyType only;
xs:untypedAtomic from xs:anyAtomicType, xs:anySimpleType, xs:anyType.  (An untyped element is never nilled,
so `T?` and `T` agree.) -/
def specTypeArg (st : SpecTables) (k : Kind) (ta : TyArg) : Bool :=
  match k, ta with
  | .element, .untyped => true
  | .element, .anyType => true
  | .attribute, .anyType => true
  | .attribute, .anySimpleType => true
  | .attribute, .atomic t => (match st.atomTy t with
      | some ty => derives .untypedAtomic ty
      | none => false)
  | _, _ => false

/-- an item against a leaf item type -/
def specLeaf (st : SpecTables) (l : Leaf) : Item → Bool
  | .atom c =>
    (match l with
     | .item => true
     | .atomic t => specAtomic st c t
     | .numeric => specNumeric st c
     | _ => false)
  | .node k name kids _ =>
    (match l with
     | .item => true
     | .kindT k' nt ta _ =>      -- §2.5.5.3 element(N, T) / §2.5.5.5 attribute(N, T): name and type annotation
       k == k' && specName nt name && specTypeArg st k ta
     | l => specLeafNode k name kids l)
  | .func _ _ => (match l with | .item => true | .funcAny => true | _ => false)
  | .map _ => (match l with | .item => true | .funcAny => true | .mapAny => true | _ => false)
  | .array _ => (match l with | .item => true | .funcAny => true | .arrayAny => true | _ => false)

/-- SequenceType matching, XPath 3.1 §2.5.5.  `sub A B` = "`B` is a subtype of `A`" is the subtype
relation used for function items (§2.5.5.7: the item is a function with the same arity whose
signature is a subtype of the test). -/
def specMatch (st : SpecTables) (sub : Ty → Ty → Bool) : Ty → List Item → Bool
  | .empty, v => v.isEmpty
  | .leaf l o, v => occCard o v.length && v.all (specLeaf st l)
  | .func a r, v => occCard .one v.length && v.all (fun x => match x with
      | .func sa sr => sa.length == a.length && Tys.all2 sub sa a && sub r sr
      | .map es =>                                   -- §2.5.5.8: a map is a function(xs:anyAtomicType) as V?
        (match a with
         | .cons k .nil => sub (.leaf (.atomic st.anyAtomicIdx) .one) k
             && es.all (fun e => specMatch st sub r e.2) && specMatch st sub r []
         | _ => false)
      | .array ms =>                                 -- §2.5.5.9: an array is a function(xs:integer) as M
        (match a with
         | .cons k .nil => sub (.leaf (.atomic st.integerIdx) .one) k
             && ms.all (fun m => specMatch st sub r m)
         | _ => false)
      | _ => false)
  | .map k vt o, v => occCard o v.length && v.all (fun x => match x with
      | .map es => es.all (fun e => specAtomic st e.1 k && specMatch st sub vt e.2)
      | _ => false)
  | .array m o, v => occCard o v.length && v.all (fun x => match x with
      | .array ms => ms.all (fun mem => specMatch st sub m mem)
      | _ => false)

/-- `instance of` (§3.14.1 of XPath 3.1 "instance of"): true iff the value matches -/
def specInstanceOf (st : SpecTables) (sub : Ty → Ty → Bool) (t : Ty) (v : List Item) : Bool :=
  specMatch st sub t v

/-- `treat as` (§3.14.5): the operand unchanged if it matches (`true`), otherwise err:XPDY0050 (`false`) -/
def specTreatAs (st : SpecTables) (sub : Ty → Ty → Bool) (t : Ty) (v : List Item) : Bool :=
  specMatch st sub t v

/-- the fuel of `derives` is enough: following base types from any built-in type ends after at most
8 steps (so `derivesF 9 = derivesF n` for every `n ≥ 9`) -/
def chainLen : Nat → XsdT → Nat
  | 0, _ => 0
  | n + 1, a => match a.parent with | some p => 1 + chainLen n p | none => 0

end EPV.SeqType

/-
C16 extension (phase 5) — arrays and maps as containers of function items: syntax of the
"container programs" and their specification.

A container program is the XPath 3.1 expression

    let $x₁ := e₁ return … let $xₙ := eₙ return            (pre: bindings in scope at creation)
    let $c := [m₁, …, mₖ]   |   map{k₁: m₁, …, kₖ: mₖ}  return   (square array / map constructor)
    let $y₁ := e′₁ return … let $yₘ := e′ₘ return          (post: bindings made AFTER creation,
                                                             possibly shadowing the captured ones)
    (use₁, …, useᵣ)

with members `mᵢ`, bindings and arguments taken from the closure fragment `Expr` of
`ClosureSem.lean` (inline functions, named references, partial applications, HOFs …) and the uses

    $c?k   /  $c(k)                         (`get`)   the member itself
    $c?k(args)  /  $c(k)(args)              (`call`)  look the member up, then a dynamic function call
                                                       (or a partial application when an argument is `?`)
    for $f in $c?k return $f(args)          (`each`)  every function item of a member sequence
    array:for-each($c, F)?*  /  map:for-each($c, F)   (`CStep.forEach`)  F applied to every member / entry

Specification, from XPath 3.1 §3.11.1.1 (square array constructor: each member is the value of its
expression), §3.11.2.1 (map constructor: XQDY0137 on a duplicate key), §3.11.3.1 / F&O 17.3.2
`array:get` (FOAY0001 outside 1..size), F&O 17.1 `map:get` (absent key: empty sequence) and §3.11.3
lookup `?k` = the same function call.  A member is a VALUE: the function items in it are the items
created when the constructor was evaluated, with the bindings captured there (§3.1.7), so a later
`let` of the same name cannot change what a stored closure returns.
-/
import EPV.Spec.ClosureSem
namespace EPV.Clo

/-- errors of the container layer that the closure fragment does not have -/
inductive XErr where
  | FOAY0001 | XQDY0137
  deriving DecidableEq, Repr, Inhabited

def XErr.code : XErr → String
  | .FOAY0001 => "FOAY0001" | .XQDY0137 => "XQDY0137"

/-- one use of the container `$c` -/
inductive CUse where
  /-- `$c?k` / `$c(k)` -/
  | get (k : Int)
  /-- `$c?k(args)` / `$c(k)(args)`; `none` = the placeholder `?` -/
  | call (k : Int) (args : List (Option Expr))
  /-- `for $x in $c?k return $x(args)` -/
  | each (x : Nat) (k : Int) (args : List (Option Expr))
  deriving Repr, Inhabited

def CUse.key : CUse → Int
  | .get k => k | .call k _ => k | .each _ k _ => k

/-- an operand of the final `,`: a use of one member, or `array:for-each($c, f)?*` (array) /
`map:for-each($c, f)` (map) -/
inductive CStep where
  | use (u : CUse)
  | forEach (f : Expr)
  deriving Repr, Inhabited

def CStep.isForEach : CStep → Bool
  | .forEach _ => true | .use _ => false

structure CProg where
  pre : List (Nat × Expr)
  /-- `false`: `[m…]` (the keys are ignored); `true`: `map{k: m, …}` with integer literal keys -/
  isMap : Bool
  entries : List (Int × Expr)
  post : List (Nat × Expr)
  uses : List CStep
  deriving Repr, Inhabited

/-- index of the first entry whose key occurred before (XQDY0137 is raised there) -/
def firstDup : List Int → List Int → Nat → Option Nat
  | _, [], _ => none
  | seen, k :: ks, i => if seen.contains k then some i else firstDup (k :: seen) ks (i + 1)

/-- `array:get` (F&O 17.3.2): member `k` when `1 ≤ k ≤ size`, else FOAY0001 -/
def specArrGet (ms : List Seq) (k : Int) : Except XErr Seq :=
  if 1 ≤ k ∧ k ≤ ms.length then .ok (ms.getD (k - 1).toNat []) else .error .FOAY0001

/-- `map:get` (F&O 17.1): the value of the entry with that key, `()` when there is none -/
def specMapGet (kv : List (Int × Seq)) (k : Int) : Seq :=
  match kv.find? (fun p => p.1 == k) with
  | some p => p.2
  | none => []

def specGet (isMap : Bool) (kv : List (Int × Seq)) (k : Int) : Except XErr Seq :=
  if isMap then .ok (specMapGet kv k) else specArrGet (kv.map (·.2)) k

/-- the argument lists of the calls made by `array:for-each` (the member) / `map:for-each` (key, value);
the entries of a map are taken in the order of the constructor (F&O 17.1: implementation-dependent) -/
def argLists (isMap : Bool) (kv : List (Int × Seq)) : List (List Seq) :=
  if isMap then kv.map (fun p => [[.int p.1], p.2]) else kv.map (fun p => [p.2])

/-- F&O 17.3.13 `array:for-each` followed by `?*`, F&O 17.1 `map:for-each`: the concatenation of
`$action(member)` / `$action(key, value)` -/
def specMembers (callf : Nat → List Seq → SM Seq) (a : Nat) : List (List Seq) → SM Seq
  | [] => pure []
  | as :: rest => do
    let r ← callf a as
    let rs ← specMembers callf a rest
    pure (r ++ rs)

section Cont
variable (ev : Expr → SCtx → SM Seq)

/-- `let $x := e return …` for a list of bindings, then the continuation in the extended scope -/
def specLets {α} (k : SCtx → SM α) : SCtx → List (Nat × Expr) → SM α
  | c, [] => k c
  | c, (x, e) :: r => do
    let v ← ev e c
    specLets k { c with lex := (x, v) :: c.lex } r

/-- one use, given the member that the lookup returned -/
def specUse (c : SCtx) (tgt : Seq) : CUse → SM Seq
  | .get _ => pure tgt
  | .call _ args => do
    let a ← SM.single tgt
    if args.any Option.isNone then specPartial ev c a args
    else do
      let vals ← specList ev c (args.filterMap id)
      specCall ev a vals
  | .each x _ args => specFor ev c x (.call (.var x) args) tgt

/-- the uses left to right; the value is the concatenation of their values -/
def specUses (isMap : Bool) (kv : List (Int × Seq)) (c : SCtx) : Seq → List CStep → SM (Except XErr Seq)
  | acc, [] => pure (.ok acc)
  | acc, .use u :: us =>
    match specGet isMap kv u.key with
    | .error x => pure (.error x)
    | .ok tgt => do
      let r ← specUse ev c tgt u
      specUses isMap kv c (acc ++ r) us
  | acc, .forEach f :: us => do
    -- function coercion (XPath 3.1 §3.1.5.2): `$action` must be ONE function item of arity 1
    -- (`function(item()*) as item()*`) / 2 (`function(xs:anyAtomicType, item()*) as item()*`), XPTY0004 otherwise
    let a ← specFunArgN ev c f (if isMap then 2 else 1)
    let r ← specMembers (specCall ev) a (argLists isMap kv)
    specUses isMap kv c (acc ++ r) us

/-- the constructor, then the later bindings, then the uses -/
def specCont (p : CProg) (c : SCtx) : SM (Except XErr Seq) :=
  specLets ev (fun c1 =>
    match (if p.isMap then firstDup [] (p.entries.map (·.1)) 0 else none) with
    | some j => do
      -- the entries up to the duplicate are evaluated, then XQDY0137
      let _ ← specList ev c1 ((p.entries.take (j + 1)).map (·.2))
      pure (.error .XQDY0137)
    | none => do
      let ms ← specList ev c1 (p.entries.map (·.2))
      let kv := (p.entries.map (·.1)).zip ms
      specLets ev (fun c2 => specUses ev p.isMap kv c2 [] p.uses) c1 p.post) c p.pre

end Cont

/-- a whole container program: no variables, context item `1`, empty heap -/
def specContEval (fuel : Nat) (p : CProg) : Except Err (Except XErr Seq) :=
  (specCont (sem fuel) p { lex := [], item := some (.int 1) } []).map (·.1)

end EPV.Clo

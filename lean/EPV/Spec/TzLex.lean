/-
Specification of the timezone lexical forms, written from XSD 1.1 Part 2 (Datatypes) §3.3.7.2 / Appendix D.2.4
(independent of the model):

  [43] timezoneFrag ::= 'Z' | ('+' | '-') (('0' digit | '1' [0-3]) ':' minuteFrag | '14:00')
  [58] minuteFrag   ::= [0-5] digit

·timezoneFragValue· (E.3.4): 'Z' ↦ 0;  sign hh:mm ↦ ±(hh × 60 + mm).
·timezoneCanonicalFragmentMap· (E.3.6): 0 ↦ 'Z'; t ↦ sign & unsTwoDigit(|t| div 60) & ':' & unsTwoDigit(|t| mod 60).
The value space of the timezone offset is −840..840 minutes (§3.3.7.1, F&O §9.1: −14:00..+14:00).
The language of [43] is finite; it is enumerated production by production.
-/
namespace EPV.TzLexSpec

abbrev Str := List Char

def digit : List Char := ['0', '1', '2', '3', '4', '5', '6', '7', '8', '9']

/-- [58] -/
def minuteFrag : List Str := (['0', '1', '2', '3', '4', '5'].flatMap fun a => digit.map fun b => [a, b])

/-- `'0' digit | '1' [0-3]` -/
def hourFrag : List Str := (digit.map fun b => ['0', b]) ++ (['0', '1', '2', '3'].map fun b => ['1', b])

/-- [43]: every string of the production -/
def timezoneFrag : List Str :=
  ['Z'] :: (['+', '-'].flatMap fun sg =>
    (hourFrag.flatMap fun h => minuteFrag.map fun m => sg :: (h ++ ':' :: m)) ++ [[sg, '1', '4', ':', '0', '0']])

def digitValue (c : Char) : Nat := c.toNat - 48

/-- ·timezoneFragValue· on a string of the production -/
def fragValue : Str → Int
  | [sg, a, b, _, d, e] =>
    let v : Int := ((digitValue a * 10 + digitValue b) * 60 + (digitValue d * 10 + digitValue e) : Nat)
    if sg == '-' then -v else v
  | _ => 0

/-- the lexical mapping: defined exactly on the strings of [43] -/
def parse (s : Str) : Option Int := if timezoneFrag.contains s then some (fragValue s) else none

/-- XML white space (`#x20 #x9 #xA #xD`), removed at both ends by the `whiteSpace = collapse` facet -/
def isXmlSpace (c : Char) : Bool := c == ' ' || c == '\t' || c == '\n' || c == '\r'
def collapse (s : Str) : Str := ((s.dropWhile isXmlSpace).reverse.dropWhile isXmlSpace).reverse

/-- lexical mapping of a literal after white-space processing -/
def parseWs (s : Str) : Option Int := parse (collapse s)

def unsTwoDigit (n : Nat) : Str := [Char.ofNat (48 + n / 10), Char.ofNat (48 + n % 10)]

/-- ·timezoneCanonicalFragmentMap· -/
def canon (t : Int) : Str :=
  if t = 0 then ['Z']
  else (if t < 0 then '-' else '+') :: (unsTwoDigit (t.natAbs / 60) ++ ':' :: unsTwoDigit (t.natAbs % 60))

def inRange (t : Int) : Bool := decide (-840 ≤ t) && decide (t ≤ 840)

end EPV.TzLexSpec

/-
C05 extension: the specification of the focus fragment — a FUNCTION of (expression, variables, focus) and
of nothing else, written from XPath 3.1:
  §3.11.1 map constructors (each evaluation builds a new map from the entries evaluated with the current
  dynamic context; duplicate key XQDY0137), §3.11.2 array constructors (`[E]`: one member per expression,
  `array{E}`: one member per item), §3.11.3 lookup `?k` / `?*`, §3.15 simple map operator `!` (the right operand
  is evaluated once for every item of the left one, with that item as context item, its position as context
  position and the length as context size), §3.3.2 predicates (same inner focus; a numeric predicate is positional),
  §3.9 `for` (body evaluated once per item, focus unchanged), §3.6 `||`, §3.4 `+`, §3.7.2 general comparison.
The value primitives (atomsOf, catVals, …) are the shared functions of VALUES from the model file.
-/
import EPV.Model.FocusCtor
namespace EPV.FocusCtor

def sloop (sv : Item → Nat → Except Err Val) : List Item → Nat → Except Err Val
  | [], _ => .ok []
  | it :: rest, i =>
    match sv it i with
    | .error e => .error e
    | .ok v => match sloop sv rest (i + 1) with
      | .error e => .error e
      | .ok vs => .ok (v ++ vs)

def bindE (r : Except Err Val) (k : Val → Except Err Val) : Except Err Val :=
  match r with
  | .error e => .error e
  | .ok v => k v

def fsem : FExpr → Env → Option Focus → Except Err Val
  | .int n, _, _ => .ok [.atom (.int n)]
  | .str s, _, _ => .ok [.atom (.str s)]
  | .dot, _, f => (match f with | some f => .ok [f.item] | none => .error .nofocus)
  | .pos, _, f => (match f with | some f => .ok [.atom (.int f.pos)] | none => .error .nofocus)
  | .last, _, f => (match f with | some f => .ok [.atom (.int f.size)] | none => .error .nofocus)
  | .var x, ρ, _ => (match ρ.lookup x with | some v => .ok v | none => .error .unbound)
  | .add a b, ρ, f => bindE (fsem a ρ f) fun va => bindE (fsem b ρ f) fun vb => addVals va vb
  | .cat a b, ρ, f => bindE (fsem a ρ f) fun va => bindE (fsem b ρ f) fun vb => catVals va vb
  | .gt a b, ρ, f => bindE (fsem a ρ f) fun va => bindE (fsem b ρ f) fun vb => gtVals va vb
  | .seq a b, ρ, f => bindE (fsem a ρ f) fun va => bindE (fsem b ρ f) fun vb => .ok (va ++ vb)
  | .mapC k e, ρ, f => bindE (fsem e ρ f) fun v => mkMap1 k v
  | .mapC2 k1 e1 k2 e2, ρ, f => bindE (fsem e1 ρ f) fun v1 => bindE (fsem e2 ρ f) fun v2 => mkMap2 k1 v1 k2 v2
  | .arrSq e, ρ, f => bindE (fsem e ρ f) fun v => mkArrSq v
  | .arrCurly e, ρ, f => bindE (fsem e ρ f) fun v => mkArrCurly v
  | .lookK e k, ρ, f => bindE (fsem e ρ f) fun v => mapVal (lookKItem k) v
  | .lookStar e, ρ, f => bindE (fsem e ρ f) fun v => mapVal lookStarItem v
  | .bang a b, ρ, f =>
    bindE (fsem a ρ f) fun xs => sloop (fun it i => fsem b ρ (some ⟨it, i, xs.length⟩)) xs 1
  | .forE x a b, ρ, f =>
    bindE (fsem a ρ f) fun xs => sloop (fun it _ => fsem b ((x, [it]) :: ρ) f) xs 1
  | .pred a b, ρ, f =>
    bindE (fsem a ρ f) fun xs =>
      sloop (fun it i => bindE (fsem b ρ (some ⟨it, i, xs.length⟩)) fun r => keepVal it r i) xs 1

end EPV.FocusCtor

/-
Specification side of C08, part 2: the outcomes that XPath 3.1 permits when a subexpression
raises a dynamic error.

XPath 3.1 §2.3.4 ("Errors and optimization"): an implementation need not evaluate an operand
whose value is not needed ("if the value of an expression can be determined by evaluating only
part of it, an implementation may do so"), and when several operands raise errors it may report
any of them; §3.12: a quantified expression may return as soon as one decisive binding tuple is
found, or raise as soon as one tuple raises.

`sem` (EPV/Spec/FOSeq.lean) is the strict left-to-right reading.  Here:

* `lz` evaluates an expression *lazily*: a sequence is delivered item by item (`LSeq` = the items
  produced, then possibly an error).  The comma, `!`, predicates, `for` and the streaming functions
  pass on the items they can produce before a failing operand fails; `fn:head`, `fn:exists`,
  `fn:empty`, `some`, `every` and the effective boolean value of a sequence that starts with a
  node stop consuming as soon as their result is determined.  This is the laziest evaluation that
  elementpath performs under any of its parsers (2.0: lazy comma; 3.x: lazy `fn:head` …).
* `codes` collects every error code that the evaluation of some subexpression, in some focus /
  variable binding that the evaluation can reach, raises.
* `Permitted sm e c r`: the outcome `r` is permitted for `e` in `c` — a value must be the value of
  the lazy evaluation, an error must be one of the reachable codes.

Theorems (EPV/Props/C08.lean): when the strict semantics yields a value, the lazy evaluation
yields the same value (`lazy_value_of_strict`), so on error-free expressions exactly one outcome
is permitted; the strict semantics, hence the model, is always permitted.
-/
import EPV.Spec.FOSeq
namespace EPV.Seq.Spec
open EPV.Seq

/-- a sequence that is delivered lazily: the items produced, then possibly an error -/
structure LSeq where
  items : Seq
  err : Option Err
  deriving DecidableEq, Repr

def LSeq.ofR : R → LSeq
  | .ok s => ⟨s, none⟩
  | .error e => ⟨[], some e⟩

/-- consuming the whole sequence -/
def LSeq.force (l : LSeq) : R :=
  match l.err with
  | none => .ok l.items
  | some e => .error e

/-- `a` then `b` -/
def LSeq.append (a b : LSeq) : LSeq :=
  match a.err with
  | some e => ⟨a.items, some e⟩
  | none => ⟨a.items ++ b.items, b.err⟩

/-- the concatenation of the lazy results for the items, in order -/
def collectL {β : Type} (f : β → LSeq) : List β → LSeq
  | [] => ⟨[], none⟩
  | b :: bs => (f b).append (collectL f bs)

/-- the items that satisfy `test`, delivered until a test fails -/
def keepWhereL {β : Type} (test : β → Except Err Bool) (item : β → Atom) : List β → LSeq
  | [] => ⟨[], none⟩
  | b :: bs =>
    match test b with
    | .error e => ⟨[], some e⟩
    | .ok k =>
      let r := keepWhereL test item bs
      ⟨if k then item b :: r.items else r.items, r.err⟩

/-- `some`: true at the first witness; the error of the source counts only if no witness is found
among the items it produced -/
def existsL {β : Type} (test : β → Except Err Bool) : List β → Option Err → Except Err Bool
  | [], none => .ok false
  | [], some e => .error e
  | b :: bs, src =>
    match test b with
    | .error e => .error e
    | .ok true => .ok true
    | .ok false => existsL test bs src

def forallL {β : Type} (test : β → Except Err Bool) : List β → Option Err → Except Err Bool
  | [], none => .ok true
  | [], some e => .error e
  | b :: bs, src =>
    match test b with
    | .error e => .error e
    | .ok false => .ok false
    | .ok true => forallL test bs src

/-- effective boolean value of a lazily delivered sequence: at most two items are consumed, one
if the first is a node -/
def ebvL (l : LSeq) : Except Err Bool :=
  match l.items, l.err with
  | .node _ :: _, _ => .ok true
  | [], some e => .error e
  | [_], some e => .error e
  | items, _ => ebv items

/-- a function that streams: its output for the items delivered so far, then the error -/
def LSeq.stream (l : LSeq) (f : Seq → Seq) : LSeq := ⟨f l.items, l.err⟩

/-- the first item is enough -/
def headL (l : LSeq) : LSeq :=
  match l.items with
  | x :: _ => ⟨[x], none⟩
  | [] => ⟨[], l.err⟩

def existsItemL (l : LSeq) : Except Err Bool :=
  match l.items with
  | _ :: _ => .ok true
  | [] => match l.err with
    | none => .ok false
    | some e => .error e

/-- functions applied to a lazily delivered argument -/
def applyFn1L (sm : Summation) (cl : Coll) (doc : List String) (f : Fn1) (l : LSeq) : LSeq :=
  match f with
  | .head => headL l
  | .exists_ => LSeq.ofR ((existsItemL l).map fun b => [.bool b])
  | .empty => LSeq.ofR ((existsItemL l).map fun b => [.bool (!b)])
  | .tail => l.stream tail
  | .distinct => l.stream fun s => distinctValues cl (s.map (atomized doc))
  | .oneOrMore =>
    match l.items with
    | [] => LSeq.ofR (l.force.bind oneOrMore)
    | _ => l
  | .not_ => LSeq.ofR ((ebvL l).map fun b => [.bool (!b)])
  | .boolean => LSeq.ofR ((ebvL l).map fun b => [.bool b])
  | f => LSeq.ofR (l.force.bind (applyFn1 sm cl doc f))

/-- fn:insert-before on a lazily delivered target: the inserts are delivered once the position is
reached (or the target ends without error) -/
def insertBeforeL (l : LSeq) (p : Int) (ins : LSeq) : LSeq :=
  match l.err with
  | none => (LSeq.ofR (.ok (l.items.take ((max 1 p).toNat - 1)))).append
      (ins.append (LSeq.ofR (.ok (l.items.drop ((max 1 p).toNat - 1)))))
  | some e =>
    if (max 1 p).toNat - 1 < l.items.length then
      (LSeq.ofR (.ok (l.items.take ((max 1 p).toNat - 1)))).append
        (ins.append ⟨l.items.drop ((max 1 p).toNat - 1), some e⟩)
    else ⟨l.items, some e⟩

mutual
/-- lazy evaluation -/
def lz (sm : Summation) : Expr → Ctx → LSeq
  | .lit a, _ => ⟨[a], none⟩
  | .empty, _ => ⟨[], none⟩
  | .var x, c => LSeq.ofR (match lookupVar x c.vars with
    | some v => .ok v
    | none => .error .XPST0008)
  | .dot, c => LSeq.ofR (match c.item with
    | some a => .ok [a]
    | none => .error .XPDY0002)
  | .position, c => ⟨[.int c.pos], none⟩
  | .last, c => ⟨[.int c.size], none⟩
  | .comma a b, c => (lz sm a c).append (lz sm b c)
  | .range a b, c => LSeq.ofR (do
    match ← (lz sm a c).force.bind atMostInt with
    | none => pure []
    | some lo =>
      match ← (lz sm b c).force.bind atMostInt with
      | none => pure []
      | some hi => pure ((rangeTo lo hi).map Atom.int))
  | .filter e p, c =>
    match (lz sm e c).force with
    | .error x => ⟨[], some x⟩
    | .ok s =>
      keepWhereL (fun t : Atom × Nat =>
          (lz sm p { c with item := some t.1, pos := t.2, size := s.length }).force.bind (predicateTruth t.2))
        Prod.fst (positions s)
  | .map a b, c =>
    match (lz sm a c).force with
    | .error x => ⟨[], some x⟩
    | .ok s =>
      collectL (fun t : Atom × Nat => lz sm b { c with item := some t.1, pos := t.2, size := s.length })
        (positions s)
  | .forE bs r, c => lzFor sm bs c (fun c' => lz sm r c')
  | .someE bs t, c => LSeq.ofR ((lzSome sm bs c (fun c' => ebvL (lz sm t c'))).map fun b => [.bool b])
  | .everyE bs t, c => LSeq.ofR ((lzEvery sm bs c (fun c' => ebvL (lz sm t c'))).map fun b => [.bool b])
  | .fn1 f a, c => applyFn1L sm c.coll c.doc f (lz sm a c)
  | .fn2 f a b, c =>
    match f with
    | .stringJoin => LSeq.ofR (do
        let va ← (lz sm a c).force
        let vb ← (lz sm b c).force
        applyFn2 sm c.coll c.doc f va vb)
    | .sum => LSeq.ofR (do
        let va ← (lz sm a c).force
        if va.length = 0 then
          let vb ← (lz sm b c).force
          applyFn2 sm c.coll c.doc f va vb
        else applyFn1 sm c.coll c.doc .sum va)
    | .remove =>
      match (lz sm b c).force.bind asInteger with
      | .error x => ⟨[], some x⟩
      | .ok p => (lz sm a c).stream fun s => remove s p
    | .indexOf =>
      match (lz sm b c).force with
      | .error x => ⟨[], some x⟩
      | .ok [x] => (lz sm a c).stream fun s => indexOf c.coll (s.map (atomized c.doc)) (atomized c.doc x)
      | .ok _ => ⟨[], some .XPTY0004⟩
    | .subseq =>
      match (lz sm b c).force.bind asRoundedDouble with
      | .error x => ⟨[], some x⟩
      | .ok s0 => (lz sm a c).stream fun s => subsequence2R s s0
  | .fn3 f a b d, c =>
    match f with
    | .insertBefore =>
      match (lz sm b c).force.bind asInteger with
      | .error x => ⟨[], some x⟩
      | .ok p => insertBeforeL (lz sm a c) p (lz sm d c)
    | .subseq =>
      match (lz sm b c).force.bind asRoundedDouble with
      | .error x => ⟨[], some x⟩
      | .ok s0 =>
        match (lz sm d c).force.bind asRoundedDouble with
        | .error x => ⟨[], some x⟩
        | .ok l0 => (lz sm a c).stream fun s => subsequence3R s s0 l0
  | .cmp op a b, c => LSeq.ofR (do
    let x ← (lz sm a c).force.bind fun v => atMostOne (v.map (atomized c.doc))
    let y ← (lz sm b c).force.bind fun v => atMostOne (v.map (atomized c.doc))
    match x, y with
    | some x, some y => let r ← compareAtoms op x y; pure [.bool r]
    | _, _ => pure [])
  | .andE a b, c => LSeq.ofR (do
    if ← ebvL (lz sm a c) then
      let r ← ebvL (lz sm b c)
      pure [.bool r]
    else pure [.bool false])
  | .orE a b, c => LSeq.ofR (do
    if ← ebvL (lz sm a c) then pure [.bool true]
    else
      let r ← ebvL (lz sm b c)
      pure [.bool r])
  | .arith op a b, c => LSeq.ofR (do
    match ← (lz sm a c).force.bind numericOperand with
    | none => pure []
    | some x =>
      match ← (lz sm b c).force.bind numericOperand with
      | none => pure []
      | some y => pure [arith op x y])
  | .ifE t a b, c =>
    match ebvL (lz sm t c) with
    | .error x => ⟨[], some x⟩
    | .ok true => lz sm a c
    | .ok false => lz sm b c

def lzFor (sm : Summation) : Binds → Ctx → (Ctx → LSeq) → LSeq
  | .one x e, c, body =>
    (collectL (fun v => body (bind1 c x v)) (lz sm e c).items).append ⟨[], (lz sm e c).err⟩
  | .cons x e rest, c, body =>
    (collectL (fun v => lzFor sm rest (bind1 c x v) body) (lz sm e c).items).append ⟨[], (lz sm e c).err⟩

def lzSome (sm : Summation) : Binds → Ctx → (Ctx → Except Err Bool) → Except Err Bool
  | .one x e, c, test => existsL (fun v => test (bind1 c x v)) (lz sm e c).items (lz sm e c).err
  | .cons x e rest, c, test =>
    existsL (fun v => lzSome sm rest (bind1 c x v) test) (lz sm e c).items (lz sm e c).err

def lzEvery (sm : Summation) : Binds → Ctx → (Ctx → Except Err Bool) → Except Err Bool
  | .one x e, c, test => forallL (fun v => test (bind1 c x v)) (lz sm e c).items (lz sm e c).err
  | .cons x e rest, c, test =>
    forallL (fun v => lzEvery sm rest (bind1 c x v) test) (lz sm e c).items (lz sm e c).err
end

/-! ## the error codes that an evaluation may report -/

def strictErr (r : R) : List Err :=
  match r with
  | .error x => [x]
  | .ok _ => []

/-- the error that the lazy evaluation itself ends with (it may lie behind an error that the
strict evaluation meets first and the lazy one avoids) -/
def lzErr (l : LSeq) : List Err :=
  match l.err with
  | some x => [x]
  | none => []

/-- the error of a check of one operand alone (an implementation may perform it before it
evaluates the other operands, and on a lazily delivered operand as soon as two items have
arrived: "more than one item") -/
def checkErr {β : Type} (l : LSeq) (check : Seq → Except Err β) : List Err :=
  if l.err.isNone || decide (2 ≤ l.items.length) then
    match check l.items with
    | .error x => [x]
    | .ok _ => []
  else []

/-- the checks that a function performs on its second / third argument by itself -/
def argCheck2 (f : Fn2) (v : Seq) : Except Err Unit :=
  match f with
  | .remove => (asInteger v).map fun _ => ()
  | .subseq => (asRoundedDouble v).map fun _ => ()
  | .indexOf => match v with | [_] => .ok () | _ => .error .XPTY0004
  | .stringJoin => match v with | [.str _] => .ok () | _ => .error .XPTY0004
  | .sum => .ok ()

/-- the checks that a one-argument function can decide on the first two items of its argument -/
def argCheck1 (f : Fn1) (v : Seq) : Except Err Unit :=
  match f with
  | .boolean | .not_ => (ebv v).map fun _ => ()
  | .zeroOrOne => (zeroOrOne v).map fun _ => ()
  | .exactlyOne => (exactlyOne v).map fun _ => ()
  | .round => (fnRound v).map fun _ => ()
  | _ => .ok ()

def argCheck3 (f : Fn3) (v : Seq) : Except Err Unit :=
  match f with
  | .insertBefore => (asInteger v).map fun _ => ()
  | .subseq => (asRoundedDouble v).map fun _ => ()

/-- the foci in which a predicate / map body can be evaluated: the items that the left operand
can deliver -/
def fociOf (c : Ctx) (l : LSeq) : List Ctx :=
  (positions l.items).map fun t => { c with item := some t.1, pos := t.2, size := l.items.length }

mutual
/-- every error code raised by the expression itself (strict reading) or by a subexpression in
a reachable focus / binding -/
def codes (sm : Summation) : Expr → Ctx → List Err
  | .lit _, _ => []
  | .empty, _ => []
  | .var x, c => strictErr (sem sm (.var x) c) ++ lzErr (lz sm (.var x) c)
  | .dot, c => strictErr (sem sm .dot c)
  | .position, _ => []
  | .last, _ => []
  | .comma a b, c => strictErr (sem sm (.comma a b) c) ++ lzErr (lz sm (.comma a b) c) ++ codes sm a c ++ codes sm b c
  | .range a b, c =>
    strictErr (sem sm (.range a b) c) ++ lzErr (lz sm (.range a b) c) ++ codes sm a c ++ codes sm b c ++
      checkErr (lz sm a c) atMostInt ++ checkErr (lz sm b c) atMostInt
  | .filter e p, c =>
    strictErr (sem sm (.filter e p) c) ++ lzErr (lz sm (.filter e p) c) ++ codes sm e c ++
      ((fociOf c (lz sm e c)).map fun c' => codes sm p c' ++ checkErr (lz sm p c') (predicateTruth c'.pos)).flatten
  | .map a b, c =>
    strictErr (sem sm (.map a b) c) ++ lzErr (lz sm (.map a b) c) ++ codes sm a c ++
      ((fociOf c (lz sm a c)).map fun c' => codes sm b c').flatten
  | .forE bs r, c => strictErr (sem sm (.forE bs r) c) ++ lzErr (lz sm (.forE bs r) c) ++ codesBinds sm bs c (fun c' => codes sm r c')
  | .someE bs t, c =>
    strictErr (sem sm (.someE bs t) c) ++ lzErr (lz sm (.someE bs t) c) ++
      codesBinds sm bs c (fun c' => codes sm t c' ++ strictErr ((sem sm t c').bind fun v => (ebv v).map fun _ => []) ++
        checkErr (lz sm t c') ebv)
  | .everyE bs t, c =>
    strictErr (sem sm (.everyE bs t) c) ++ lzErr (lz sm (.everyE bs t) c) ++
      codesBinds sm bs c (fun c' => codes sm t c' ++ strictErr ((sem sm t c').bind fun v => (ebv v).map fun _ => []) ++
        checkErr (lz sm t c') ebv)
  | .fn1 f a, c => strictErr (sem sm (.fn1 f a) c) ++ lzErr (lz sm (.fn1 f a) c) ++ codes sm a c ++ checkErr (lz sm a c) (argCheck1 f)
  | .fn2 f a b, c =>
    strictErr (sem sm (.fn2 f a b) c) ++ lzErr (lz sm (.fn2 f a b) c) ++ codes sm a c ++ codes sm b c ++ checkErr (lz sm b c) (argCheck2 f)
  | .fn3 f a b d, c =>
    strictErr (sem sm (.fn3 f a b d) c) ++ lzErr (lz sm (.fn3 f a b d) c) ++ codes sm a c ++ codes sm b c ++ codes sm d c ++
      checkErr (lz sm b c) (argCheck3 f) ++
      (match f with | .subseq => checkErr (lz sm d c) (argCheck3 f) | .insertBefore => [])
  | .cmp op a b, c =>
    strictErr (sem sm (.cmp op a b) c) ++ lzErr (lz sm (.cmp op a b) c) ++ codes sm a c ++ codes sm b c ++
      checkErr (lz sm a c) (fun v => atMostOne (v.map (atomized c.doc))) ++
      checkErr (lz sm b c) (fun v => atMostOne (v.map (atomized c.doc)))
  -- XPath 3.1 §3.8: the order in which the operands of `and` / `or` are evaluated is
  -- implementation-dependent: an error of the right operand may be reported in any case
  | .andE a b, c =>
    strictErr (sem sm (.andE a b) c) ++ lzErr (lz sm (.andE a b) c) ++ codes sm a c ++ codes sm b c ++
      strictErr ((sem sm b c).bind fun v => (ebv v).map fun _ => []) ++
      checkErr (lz sm a c) ebv ++ checkErr (lz sm b c) ebv
  | .orE a b, c =>
    strictErr (sem sm (.orE a b) c) ++ lzErr (lz sm (.orE a b) c) ++ codes sm a c ++ codes sm b c ++
      strictErr ((sem sm b c).bind fun v => (ebv v).map fun _ => []) ++
      checkErr (lz sm a c) ebv ++ checkErr (lz sm b c) ebv
  | .arith op a b, c =>
    strictErr (sem sm (.arith op a b) c) ++ lzErr (lz sm (.arith op a b) c) ++ codes sm a c ++ codes sm b c ++
      checkErr (lz sm a c) numericOperand ++ checkErr (lz sm b c) numericOperand
  -- §3.10: only the selected branch may raise (the test may be decided lazily)
  | .ifE t a b, c =>
    strictErr (sem sm (.ifE t a b) c) ++ lzErr (lz sm (.ifE t a b) c) ++ codes sm t c ++ checkErr (lz sm t c) ebv ++
      (match ebvL (lz sm t c) with
       | .ok true => codes sm a c
       | .ok false => codes sm b c
       | .error _ => [])

/-- the codes of the range expressions and, for every binding tuple that can be formed from the
items they can deliver, of the body -/
def codesBinds (sm : Summation) : Binds → Ctx → (Ctx → List Err) → List Err
  | .one x e, c, body =>
    codes sm e c ++ ((lz sm e c).items.map fun v => body (bind1 c x v)).flatten
  | .cons x e rest, c, body =>
    codes sm e c ++ ((lz sm e c).items.map fun v => codesBinds sm rest (bind1 c x v) body).flatten
end

/-- **The outcomes XPath permits.**  A value: the value of the lazy evaluation.  An error: a code
that some reachable subexpression raises. -/
def Permitted (sm : Summation) (e : Expr) (c : Ctx) (r : R) : Prop :=
  match r with
  | .ok v => (lz sm e c).force = .ok v
  | .error x => x ∈ codes sm e c

instance instDecEqR : DecidableEq R
  | .ok a, .ok b => if h : a = b then isTrue (by rw [h]) else isFalse (fun h' => h (Except.ok.inj h'))
  | .error a, .error b => if h : a = b then isTrue (by rw [h]) else isFalse (fun h' => h (Except.error.inj h'))
  | .ok _, .error _ => isFalse (fun h => nomatch h)
  | .error _, .ok _ => isFalse (fun h => nomatch h)

instance instDecPermitted (sm : Summation) (e : Expr) (c : Ctx) : (r : R) → Decidable (Permitted sm e c r)
  | .ok v => inferInstanceAs (Decidable ((lz sm e c).force = .ok v))
  | .error x => inferInstanceAs (Decidable (x ∈ codes sm e c))

end EPV.Seq.Spec

/-
C19 — specification, written from the property statement (properties.jsonl C19) and the
standards it refers to, independently of how the library achieves it.

* XPath/XQuery F&O 3.1 §5.3 (collations): a collation argument selects *how strings are compared
  inside one function call*; nothing in the dynamic context of later calls depends on it.  For a
  host process this means: whatever an evaluation does to `LC_COLLATE` it must undo, and it must
  not keep the lock that serialises locale switching — also when it raises (§5.3.1: FOCH0002 for an
  unsupported collation is an ordinary dynamic error).
* F&O 3.1 §15.? `fn:environment-variable` / `fn:available-environment-variables`: "security
  considerations: … an implementation may restrict access; in that case the empty sequence is
  returned" — with the library's default settings nothing of the environment is observable.
* F&O 3.1 §14.9.1 `fn:parse-xml`: "DTD validation is not invoked; … the processor may refuse
  external/internal entity declarations" — the library's documented default (`defuse_xml=True`)
  is to refuse every document whose DOCTYPE declares an entity, never to expand it.
* Independent threads: evaluating independent `Selector`s concurrently is observationally the same
  as evaluating them one after the other.

Core Lean only.  Executable, so the driver prints it next to the model's answer.
-/
import EPV.Model.Globals
namespace EPV.GlobalsSpec
open EPV.Globals

/-- what an observer may see after *any* top-level evaluation started from `init`:
it terminated, the lock is free, locale / environment / decimal context are those of `init` -/
structure SpecObs where
  terminated : Bool
  lock : Bool
  lc : Loc
  env : List (String × String)
  dec : String
  deriving DecidableEq, Repr

def specObs (init : State) : SpecObs := ⟨true, false, init.lc, init.env, init.dec⟩

/-- the specification of a history of `n` evaluations: `n` identical observations -/
def specHist (init : State) (n : Nat) : List SpecObs := List.replicate n (specObs init)

/-- projection of a model/implementation observation onto what the specification talks about -/
def project (σ : State) (terminated : Bool) : SpecObs := ⟨terminated, σ.lock, σ.lc, σ.env, σ.dec⟩

/-- default settings: no environment variable is observable (whatever the environment holds) -/
def specEnvVar (_env : List (String × String)) (_name : String) : Option String := none
def specAvailEnvVars (_env : List (String × String)) : List String := []

/-- the four kinds of entity declaration of XML 1.0 §4.2 (general internal, parameter,
external parsed, unparsed) -/
def isEntityDecl : Decl → Bool
  | .entity .. | .paramEntity .. | .extEntity .. | .unparsed .. => true
  | _ => false

/-- default settings: a document that declares an entity (general, parameter, external,
unparsed) must be rejected; about other documents the property says nothing -/
def mustReject (d : Doc) : Bool :=
  match d.doctype with
  | some (_, decls) => decls.any isEntityDecl
  | none => false

/-- thread specification: the multiset of per-thread outcome lists equals the sequential one and
the final shared state is the initial one -/
def specThreads (init : Thr.Shared) : Thr.Shared := ⟨false, init.lc⟩

/-! ## A small grammar of the XML 1.0 prolog (§2.8), for the DOCTYPE-detection part of the scanner

```
prolog      ::= XMLDecl? Misc* (doctypedecl Misc*)?          document ::= prolog element Misc*
XMLDecl     ::= '<?xml' S 'version' … '?>'
Misc        ::= Comment | PI | S
Comment     ::= '<!--' ((Char - '-') | ('-' (Char - '-')))* '-->'
PI          ::= '<?' PITarget (S (Char* - (Char* '?>' Char*)))? '?>'      PITarget ≠ [Xx][Mm][Ll]
doctypedecl ::= '<!DOCTYPE' …
```
A text is split as `XMLDecl? Misc*` — given structurally below — followed by a `tail` that is either a
DOCTYPE declaration or the root element's start tag. -/
namespace PrologGrammar
open EPV.Globals.XmlText

/-- comment text: no `--`, and no `-` at the end -/
def noDD : List Char → Bool
  | [] => true
  | ['-'] => false
  | '-' :: '-' :: _ => false
  | _ :: t => noDD t

/-- no `?>` inside -/
def noQG : List Char → Bool
  | [] => true
  | '?' :: '>' :: _ => false
  | _ :: t => noQG t

inductive MiscItem where
  | comment (body : List Char)
  | pi (target body : List Char)

/-- well-formedness of one comment / PI -/
def MiscItem.wf : MiscItem → Bool
  | .comment b => noDD b
  | .pi t b =>
    !t.isEmpty && t.all isNameChar && (t.map Char.toLower != "xml".toList) &&
    (match b with | [] => true | c :: _ => isWs c) && noQG (t ++ b)

def MiscItem.render : MiscItem → List Char
  | .comment b => '<' :: '!' :: '-' :: '-' :: (b ++ ['-', '-', '>'])
  | .pi t b => '<' :: '?' :: (t ++ b ++ ['?', '>'])

/-- `Misc*`: each comment / PI preceded by white space (possibly none) -/
def renderMisc : List (List Char × MiscItem) → List Char
  | [] => []
  | (w, it) :: r => w ++ it.render ++ renderMisc r

def miscWf (items : List (List Char × MiscItem)) : Bool :=
  items.all fun (w, it) => w.all isWs && it.wf

/-- the optional XML declaration: `<?xml` + one white space character + `body` + `?>`, where `body`
(after white space) starts with `version` and contains no `?>` -/
def renderXmlDecl : Option (Char × List Char) → List Char
  | none => []
  | some (w, body) => '<' :: '?' :: 'x' :: 'm' :: 'l' :: w :: (body ++ ['?', '>'])

def xmlDeclWf : Option (Char × List Char) → Bool
  | none => true
  | some (w, body) => isWs w && noQG body && (stripPrefix "version".toList (skipWs body)).isSome

/-- the construct after `XMLDecl? Misc* S?`: a DOCTYPE declaration … -/
def startsDoctype (tail : List Char) : Bool := (stripPrefix "<!DOCTYPE".toList tail).isSome

/-- … or the start tag of the root element (`<` followed by neither `!` nor `?`) -/
def startsRoot : List Char → Bool
  | '<' :: c :: _ => c != '!' && c != '?'
  | _ => false

/-! ### The inside of the DOCTYPE declaration (XML 1.0 §2.8 [28]–[29], §4.2 [70]–[76], §4.7 [82])

```
doctypedecl ::= '<!DOCTYPE' S Name (S ExternalID)? S? ('[' intSubset ']' S?)? '>'
intSubset   ::= (markupdecl | DeclSep)*          DeclSep ::= PEReference | S
markupdecl  ::= elementdecl | AttlistDecl | EntityDecl | NotationDecl | PI | Comment
EntityDecl  ::= '<!ENTITY' S Name S EntityDef S? '>'  |  '<!ENTITY' S '%' S Name S PEDef S? '>'
EntityDef   ::= EntityValue | ExternalID (S 'NDATA' S Name)?       PEDef ::= EntityValue | ExternalID
ExternalID  ::= 'SYSTEM' S SystemLiteral | 'PUBLIC' S PubidLiteral S SystemLiteral
PEReference ::= '%' Name ';'
```
(conditional sections `<![…[` belong to the external subset only.)  Element, attribute-list and
notation declarations are kept abstract: a keyword followed by characters and quoted literals up
to the closing `>`. -/

/-- a quoted literal: `dq = true` for `"…"`, else `'…'`; the text may contain anything but its quote
— in particular `>` and `]` -/
structure Lit where
  dq : Bool
  s : List Char

def Lit.quote (l : Lit) : Char := if l.dq then '"' else '\''
def Lit.wf (l : Lit) : Bool := !l.s.contains l.quote
def Lit.render (l : Lit) : List Char := l.quote :: (l.s ++ [l.quote])

/-- `ExternalID`: `pub = some (pubid, S)` for the PUBLIC form; `wk` = the S after the keyword -/
structure ExtIdG where
  pub : Option (Lit × List Char)
  wk : List Char
  sys : Lit

def ExtIdG.render (x : ExtIdG) : List Char :=
  match x.pub with
  | none => "SYSTEM".toList ++ x.wk ++ x.sys.render
  | some (p, wp) => "PUBLIC".toList ++ x.wk ++ p.render ++ wp ++ x.sys.render

def wsOk (w : List Char) : Bool := w.all isWs
def wsReq (w : List Char) : Bool := !w.isEmpty && w.all isWs
def nameOk (n : List Char) : Bool := !n.isEmpty && n.all isNameChar

def ExtIdG.wf (x : ExtIdG) : Bool :=
  wsReq x.wk && x.sys.wf &&
  (match x.pub with | none => true | some (p, wp) => p.wf && wsReq wp)

inductive EntDef where
  | value (l : Lit)                                        -- EntityValue
  | ext (id : ExtIdG)                                      -- ExternalID
  | ndata (id : ExtIdG) (w4 w5 : List Char) (n : List Char) -- ExternalID S 'NDATA' S Name

/-- `EntityDecl` after the keyword `<!ENTITY`: S, optional `%` S, Name, S, definition, S?, `>` -/
structure EntD where
  w1 : List Char
  param : Option (List Char)
  name : List Char
  w2 : List Char
  defn : EntDef
  w3 : List Char

def EntDef.render : EntDef → List Char
  | .value l => l.render
  | .ext id => id.render
  | .ndata id w4 w5 n => id.render ++ w4 ++ "NDATA".toList ++ w5 ++ n

def EntD.render (e : EntD) : List Char :=
  e.w1 ++ (match e.param with | none => [] | some w => '%' :: w) ++ e.name ++ e.w2 ++
    e.defn.render ++ e.w3 ++ ['>']

def EntD.wf (e : EntD) : Bool :=
  wsReq e.w1 && (match e.param with | none => true | some w => wsReq w) && nameOk e.name &&
  wsReq e.w2 && wsOk e.w3 &&
  (match e.defn with
   | .value l => l.wf
   | .ext id => id.wf
   | .ndata id w4 w5 n => id.wf && wsReq w4 && wsReq w5 && nameOk n && e.param.isNone)

/-- the declaration the grammar derives -/
def EntD.decl (e : EntD) : Decl :=
  match e.defn with
  | .value l => if e.param.isSome then .paramEntity (String.ofList e.name)
                else .entity (String.ofList e.name) (String.ofList l.s)
  | .ext _ => if e.param.isSome then .paramEntity (String.ofList e.name)
              else .extEntity (String.ofList e.name)
  | .ndata .. => .unparsed (String.ofList e.name)

/-- a piece of an abstract declaration body: a character other than `>` `"` `'`, or a literal -/
inductive Chunk where
  | ch (c : Char)
  | lit (l : Lit)

def Chunk.wf : Chunk → Bool
  | .ch c => c != '>' && c != '"' && c != '\''
  | .lit l => l.wf

def Chunk.render : Chunk → List Char
  | .ch c => [c]
  | .lit l => l.render

def renderChunks (cks : List Chunk) : List Char := cks.flatMap Chunk.render

/-- one item of the internal subset -/
inductive SubItem where
  | comment (body : List Char)
  | pi (body : List Char)
  | peRef (name : List Char)
  | entity (e : EntD)
  | element (body : List Chunk)
  | attlist (body : List Chunk)
  | notation (body : List Chunk)

def SubItem.wf : SubItem → Bool
  | .comment b => noDD b
  | .pi b => noQG b
  | .peRef n => nameOk n
  | .entity e => e.wf
  | .element b | .attlist b | .notation b => b.all Chunk.wf

def SubItem.render : SubItem → List Char
  | .comment b => '<' :: '!' :: '-' :: '-' :: (b ++ ['-', '-', '>'])
  | .pi b => '<' :: '?' :: (b ++ ['?', '>'])
  | .peRef n => '%' :: (n ++ [';'])
  | .entity e => '<' :: '!' :: 'E' :: 'N' :: 'T' :: 'I' :: 'T' :: 'Y' :: e.render
  | .element b => '<' :: '!' :: 'E' :: 'L' :: 'E' :: 'M' :: 'E' :: 'N' :: 'T' :: (renderChunks b ++ ['>'])
  | .attlist b => '<' :: '!' :: 'A' :: 'T' :: 'T' :: 'L' :: 'I' :: 'S' :: 'T' :: (renderChunks b ++ ['>'])
  | .notation b =>
    '<' :: '!' :: 'N' :: 'O' :: 'T' :: 'A' :: 'T' :: 'I' :: 'O' :: 'N' :: (renderChunks b ++ ['>'])

/-- `intSubset`: items, each preceded by optional white space -/
def renderSubset : List (List Char × SubItem) → List Char
  | [] => []
  | (w, it) :: r => w ++ it.render ++ renderSubset r

def subsetWf (items : List (List Char × SubItem)) : Bool :=
  items.all fun (w, it) => wsOk w && it.wf

/-- the declarations the grammar derives, with the non-validating-processor rule of §5.1: entity
declarations after a parameter-entity reference are not processed (recorded as inert) -/
def subsetDecls : Bool → List (List Char × SubItem) → List Decl
  | _, [] => []
  | live, (_, it) :: r =>
    match it with
    | .comment _ => .comment :: subsetDecls live r
    | .pi _ => .pi :: subsetDecls live r
    | .peRef _ => subsetDecls false r
    | .entity e => (if live then e.decl else .element) :: subsetDecls live r
    | .element _ => .element :: subsetDecls live r
    | .attlist _ => .attlist :: subsetDecls live r
    | .notation _ => .notation :: subsetDecls live r

/-- does the grammar derive a *processed* entity declaration in this subset? -/
def derivesEntityDecl : Bool → List (List Char × SubItem) → Bool
  | _, [] => false
  | live, (_, it) :: r =>
    match it with
    | .entity _ => live || derivesEntityDecl live r
    | .peRef _ => derivesEntityDecl false r
    | _ => derivesEntityDecl live r

/-- the whole `doctypedecl` after the keyword `<!DOCTYPE` -/
structure DoctypeG where
  w1 : List Char                              -- S
  name : List Char
  ext : Option (List Char × ExtIdG)           -- (S ExternalID)?
  w2 : List Char                              -- S?
  subset : Option (List (List Char × SubItem) × List Char × List Char)   -- '[' items S? ']' S?

def DoctypeG.renderExt (d : DoctypeG) : List Char :=
  match d.ext with | none => [] | some (w, x) => w ++ x.render

def DoctypeG.renderSub (d : DoctypeG) : List Char :=
  match d.subset with
  | none => []
  | some (items, wi, w3) => '[' :: (renderSubset items ++ (wi ++ ']' :: w3))

def DoctypeG.render (d : DoctypeG) : List Char :=
  d.w1 ++ (d.name ++ (d.renderExt ++ (d.w2 ++ (d.renderSub ++ ['>']))))

def DoctypeG.wf (d : DoctypeG) : Bool :=
  wsReq d.w1 && nameOk d.name && wsOk d.w2 &&
  (match d.ext with | none => true | some (w, x) => wsReq w && x.wf) &&
  (match d.subset with | none => true | some (items, wi, w3) => subsetWf items && wsOk wi && wsOk w3)

/-- what the grammar says the DOCTYPE declaration carries: (has an external identifier, the
declarations of its internal subset) -/
def DoctypeG.value (d : DoctypeG) : Bool × List Decl :=
  (d.ext.isSome, match d.subset with | none => [] | some (items, _, _) => subsetDecls true items)

end PrologGrammar

end EPV.GlobalsSpec

/-
C19 — specification, written from the property statement (properties.jsonl C19) and the
standards it refers to, independently of how the library achieves it.

* XPath/XQuery F&O 3.1 §5.3 (collations): a collation argument selects *how strings are compared
  inside one function call*; nothing in the dynamic context of later calls depends on it.  For a
  host process this means: whatever an evaluation does to `LC_COLLATE` it must undo, and it must
  not keep the lock that serialises locale switching — also when it raises (§5.3.1: FOCH0002 for an
  unsupported collation is an ordinary dynamic error).
* F&O 3.1 §15.? `fn:environment-variable` / `fn:available-environment-variables`: "security
  considerations: … an implementation may restrict access; in that case the empty sequence is
  returned" — with the library's default settings nothing of the environment is observable.
* F&O 3.1 §14.9.1 `fn:parse-xml`: "DTD validation is not invoked; … the processor may refuse
  external/internal entity declarations" — the library's documented default (`defuse_xml=True`)
  is to refuse every document whose DOCTYPE declares an entity, never to expand it.
* Independent threads: evaluating independent `Selector`s concurrently is observationally the same
  as evaluating them one after the other.

Core Lean only.  Executable, so the driver prints it next to the model's answer.
-/
import EPV.Model.Globals
namespace EPV.GlobalsSpec
open EPV.Globals

/-- what an observer may see after *any* top-level evaluation started from `init`:
it terminated, the lock is free, locale / environment / decimal context are those of `init` -/
structure SpecObs where
  terminated : Bool
  lock : Bool
  lc : Loc
  env : List (String × String)
  dec : String
  deriving DecidableEq, Repr

def specObs (init : State) : SpecObs := ⟨true, false, init.lc, init.env, init.dec⟩

/-- the specification of a history of `n` evaluations: `n` identical observations -/
def specHist (init : State) (n : Nat) : List SpecObs := List.replicate n (specObs init)

/-- projection of a model/implementation observation onto what the specification talks about -/
def project (σ : State) (terminated : Bool) : SpecObs := ⟨terminated, σ.lock, σ.lc, σ.env, σ.dec⟩

/-- default settings: no environment variable is observable (whatever the environment holds) -/
def specEnvVar (_env : List (String × String)) (_name : String) : Option String := none
def specAvailEnvVars (_env : List (String × String)) : List String := []

/-- the four kinds of entity declaration of XML 1.0 §4.2 (general internal, parameter,
external parsed, unparsed) -/
def isEntityDecl : Decl → Bool
  | .entity .. | .paramEntity .. | .extEntity .. | .unparsed .. => true
  | _ => false

/-- default settings: a document that declares an entity (general, parameter, external,
unparsed) must be rejected; about other documents the property says nothing -/
def mustReject (d : Doc) : Bool :=
  match d.doctype with
  | some (_, decls) => decls.any isEntityDecl
  | none => false

/-- thread specification: the multiset of per-thread outcome lists equals the sequential one and
the final shared state is the initial one -/
def specThreads (init : Thr.Shared) : Thr.Shared := ⟨false, init.lc⟩

/-! ## A small grammar of the XML 1.0 prolog (§2.8), for the DOCTYPE-detection part of the scanner

```
prolog      ::= XMLDecl? Misc* (doctypedecl Misc*)?          document ::= prolog element Misc*
XMLDecl     ::= '<?xml' S 'version' … '?>'
Misc        ::= Comment | PI | S
Comment     ::= '<!--' ((Char - '-') | ('-' (Char - '-')))* '-->'
PI          ::= '<?' PITarget (S (Char* - (Char* '?>' Char*)))? '?>'      PITarget ≠ [Xx][Mm][Ll]
doctypedecl ::= '<!DOCTYPE' …
```
A text is split as `XMLDecl? Misc*` — given structurally below — followed by a `tail` that is either a
DOCTYPE declaration or the root element's start tag. -/
namespace PrologGrammar
open EPV.Globals.XmlText

/-- comment text: no `--`, and no `-` at the end -/
def noDD : List Char → Bool
  | [] => true
  | ['-'] => false
  | '-' :: '-' :: _ => false
  | _ :: t => noDD t

/-- no `?>` inside -/
def noQG : List Char → Bool
  | [] => true
  | '?' :: '>' :: _ => false
  | _ :: t => noQG t

inductive MiscItem where
  | comment (body : List Char)
  | pi (target body : List Char)

/-- well-formedness of one comment / PI -/
def MiscItem.wf : MiscItem → Bool
  | .comment b => noDD b
  | .pi t b =>
    !t.isEmpty && t.all isNameChar && (t.map Char.toLower != "xml".toList) &&
    (match b with | [] => true | c :: _ => isWs c) && noQG (t ++ b)

def MiscItem.render : MiscItem → List Char
  | .comment b => '<' :: '!' :: '-' :: '-' :: (b ++ ['-', '-', '>'])
  | .pi t b => '<' :: '?' :: (t ++ b ++ ['?', '>'])

/-- `Misc*`: each comment / PI preceded by white space (possibly none) -/
def renderMisc : List (List Char × MiscItem) → List Char
  | [] => []
  | (w, it) :: r => w ++ it.render ++ renderMisc r

def miscWf (items : List (List Char × MiscItem)) : Bool :=
  items.all fun (w, it) => w.all isWs && it.wf

/-- the optional XML declaration: `<?xml` + one white space character + `body` + `?>`, where `body`
(after white space) starts with `version` and contains no `?>` -/
def renderXmlDecl : Option (Char × List Char) → List Char
  | none => []
  | some (w, body) => '<' :: '?' :: 'x' :: 'm' :: 'l' :: w :: (body ++ ['?', '>'])

def xmlDeclWf : Option (Char × List Char) → Bool
  | none => true
  | some (w, body) => isWs w && noQG body && (stripPrefix "version".toList (skipWs body)).isSome

/-- the construct after `XMLDecl? Misc* S?`: a DOCTYPE declaration … -/
def startsDoctype (tail : List Char) : Bool := (stripPrefix "<!DOCTYPE".toList tail).isSome

/-- … or the start tag of the root element (`<` followed by neither `!` nor `?`) -/
def startsRoot : List Char → Bool
  | '<' :: c :: _ => c != '!' && c != '?'
  | _ => false

end PrologGrammar

end EPV.GlobalsSpec

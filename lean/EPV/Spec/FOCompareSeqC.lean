/-
C07 (phase 5) — the sequence rules of the value comparison under a default collation.

XPath 3.1 §3.7.1 "Value Comparisons", rules 1-4, written out once more and independently of
`valueAllowedC` (FOCompare.lean), this time *through the pair rule* `pairSpecC` that the general
comparison uses:

  1. atomization is applied to each operand;
  2. "If the atomized operand is an empty sequence, the result of the value comparison is an empty
     sequence";
  3. "If the atomized operand is a sequence of length greater than one, a type error is raised
     [err:XPTY0004]";
  4. "If the atomized operand is of type xs:untypedAtomic, it is cast to xs:string", then rules 5-6 on
     the two atoms — for strings `fn:compare(A, B) op 0` under the default collation (F&O §5.3).

When an operand is empty AND the other one is too long, rules 2 and 3 both apply and the text fixes no
order: either outcome is permitted.
-/
import EPV.Spec.FOCompare
namespace EPV.CmpSpec
open EPV.Cmp

/-- which of the rules 2-4 decides a value comparison of the operand sequences -/
inductive SeqRule where
  /-- rule 2 only: an operand is empty, none is longer than one item -/
  | empty
  /-- rule 3 only: an operand is longer than one item, none is empty -/
  | long
  /-- rules 2 and 3 at once -/
  | emptyOrLong
  /-- rule 4: two single items; the two atoms after atomization, implicit timezone and the cast of
  xs:untypedAtomic to xs:string -/
  | pair (a b : Atom)

/-- classification of the operands of `L op R` (value comparison) under implicit timezone `itz` -/
def seqRule (itz : Option Int) (m : Mode) (L Rr : List Item) : SeqRule :=
  match L, Rr with
  | [x], [y] =>
    .pair (untypedToString (atomizeS m (withImplicitTz itz x))) (untypedToString (atomizeS m (withImplicitTz itz y)))
  | _, _ =>
    let emptyAny := L.isEmpty || Rr.isEmpty
    let longAny := decide (L.length > 1) || decide (Rr.length > 1)
    if emptyAny && longAny then .emptyOrLong else if emptyAny then .empty else .long

/-- canonical text of the rule, printed by the driver (`rule=`) and histogrammed by the harness -/
def SeqRule.tag : SeqRule → String
  | .empty => "empty" | .long => "long" | .emptyOrLong => "empty-or-long" | .pair .. => "pair"

/-- the outcomes §3.7.1 permits for `L op R` under default collation `c` and implicit timezone `itz`,
the singleton case through the pair rule `pairSpecC` of the general comparison (`none` = not applicable:
XPath 1.0 has no value comparison; lexical forms outside the modelled fragment) -/
def valueSeqAllowedC (c : Coll) (itz : Option Int) (m : Mode) (op : Op) (L Rr : List Item) : Option (List Out) :=
  if m = .v1 then none else
  match seqRule itz m L Rr with
  | .empty => some [Out.empty]
  | .long => some [Out.err .XPTY0004]
  | .emptyOrLong => some [Out.empty, Out.err .XPTY0004]
  | .pair a b =>
    (match pairSpecC c m op a b with
     | .ok v => some [Out.ofBool v]
     | .error .unsupported => none
     | .error e => some [.err e])

end EPV.CmpSpec

/-
C08 (phase 5) — specification of `fn:deep-equal` on sequences of atomic items, written from
XPath and XQuery Functions and Operators 3.1 §15.3.1 (fn:deep-equal) and XPath 3.1 §3.7.1 (value
comparisons), independent of the model in `Model/SeqDeepEq.lean`.

F&O §15.3.1: "If the two sequences are both empty, the function returns true.  If the two sequences are
of different lengths, the function returns false.  If the two sequences are of the same length, the
function returns true if and only if every item in the sequence $parameter1 is deep-equal to the item at
the same position in the sequence $parameter2. […]  If $i1 and $i2 are both atomic values, they are
deep-equal if and only if ($i1 eq $i2) is true, or if both values are NaN.  If the eq operator is not
defined for $i1 and $i2, the function returns false."

XPath 3.1 §3.7.1: an xs:untypedAtomic operand is cast to xs:string; xs:anyURI is promoted to xs:string;
numeric operands are promoted to their common type (xs:decimal with xs:double → xs:double:
op:numeric-equal on the doubles; xs:integer with xs:decimal: exact); strings are compared with the
default collation (`fn:compare(…) eq 0`); booleans by op:boolean-equal; no `eq` between different
primitive families.
-/
import EPV.Model.SeqDeepEq
namespace EPV.Seq.DSpec

/-- the primitive family an atomic operand of `eq` ends in after the casts / promotions of §3.7.1 -/
inductive Family where
  | numeric | string | boolean
  deriving DecidableEq, Repr

def family : DItem → Option Family
  | .int _ | .dec _ _ | .dbl _ => some .numeric
  | .str _ | .untyped _ | .uri _ => some .string
  | .bool _ => some .boolean
  | .node _ => none

def isDouble : DItem → Bool | .dbl _ => true | _ => false

/-- the string an operand of the string family is compared as -/
def asString : DItem → String
  | .str s | .untyped s | .uri s => s
  | _ => ""

/-- `$i1 eq $i2`; `none`: the operator is not defined for the two values -/
def valueEq (cl : Coll) (a b : DItem) : Option Bool :=
  match family a, family b with
  | some .numeric, some .numeric =>
    -- op:numeric-equal after numeric promotion
    if isDouble a || isDouble b then some (D.eqv a.toD b.toD) else some (XV.eqv a.xv b.xv)
  | some .string, some .string => some (collEq cl (asString a) (asString b))
  | some .boolean, some .boolean => some (decide (a = b))
  | _, _ => none

def isNaNItem : DItem → Bool | .dbl .nan => true | _ => false

/-- two atomic values are deep-equal -/
def deepEqItems (cl : Coll) (a b : DItem) : Bool :=
  (isNaNItem a && isNaNItem b) || valueEq cl a b == some true

/-- fn:deep-equal on two sequences of atomic values -/
def deepEqual (cl : Coll) (xs ys : List DItem) : Bool :=
  xs.length == ys.length && (xs.zip ys).all fun p => deepEqItems cl p.1 p.2

/-- all items are atomic values of the fragment -/
def atomic (xs : List DItem) : Bool := xs.all fun x => !x.isNode

end EPV.Seq.DSpec

/-
C01 — specification of location paths, written from XPath 1.0 (W3C Rec. 16 Nov 1999) §2
"Location Paths" (§2.1 steps, §2.2 axes, §2.3 node tests, §2.4 predicates, §2.5 abbreviated
syntax), §3.3 (filter expressions `(e)[p]`), §5 (data model: document order, parent/child),
and XPath 2.0 §3.2 for the result order ("the resulting node sequence is returned in document
order, without duplicates").

Independent of the model: it uses only the vocabulary (`Arr`, `Kind`, `Axis`, `Test`, `Expr`,
`Focus`, `Val`) and the three primitive observations `par` (parent), `kd` (node kind), index
order (document order) plus names — in particular it never reads the `size` field and calls no
iterator of `EPV/Model/Axes.lean`.  Every node-set is computed as "all indices of the document,
filtered by a predicate", hence in document order and duplicate free by construction.

Root forms (elementpath's documented API, not W3C): in `Mode.dummy` record 0 is a *virtual*
document `V` for absolute paths: its only child is the root element, its descendants are the whole
tree, but it is not the parent/ancestor of any node and no node test matches it (it never appears in
results of `select()`).  In `Mode.frag` an absolute path starts at the root element.  `/` alone
selects the document node when there is a real one, else nothing.
-/
import EPV.Model.Paths
namespace EPV.XP.Spec
open EPV.XP

/-- §5: the ancestors of `i` = transitive closure of parent (nearest first).  Parents have
smaller indices, so `i` steps suffice. -/
def ancUp (a : Arr) : Nat → Nat → List Nat
  | 0, _ => []
  | fuel + 1, i =>
    match par a i with
    | none => []
    | some p => p :: ancUp a fuel p

def ancOf (a : Arr) (i : Nat) : List Nat := ancUp a i i

/-- `q` is an ancestor of `i` -/
def isAnc (a : Arr) (q i : Nat) : Bool := (ancOf a i).contains q

/-- the virtual document of `Mode.dummy` -/
def isV (m : Mode) (n : Nat) : Bool := m == .dummy && n == 0

/-- §5.3/5.4: attribute and namespace nodes are not children of their element -/
def isAttrOrNs (a : Arr) (i : Nat) : Bool := kd a i == .attr || kd a i == .ns

/-- §2.2: is node `i` on axis `ax` of context node `n`? -/
def onAxis (m : Mode) (a : Arr) (ax : Axis) (n i : Nat) : Bool :=
  match ax with
  | .self => i == n
  | .child =>
    -- "the child axis contains the children of the context node"
    !(isAttrOrNs a i) && (par a i == some n || (isV m n && i == 1))
  | .descendant =>
    -- "a descendant is a child or a child of a child and so on; never attribute or namespace nodes"
    !(isAttrOrNs a i) && (isAnc a n i || (isV m n && decide (1 ≤ i)))
  | .descendantOrSelf => i == n || (!(isAttrOrNs a i) && (isAnc a n i || (isV m n && decide (1 ≤ i))))
  | .parent => par a n == some i
  | .ancestor => isAnc a i n
  | .ancestorOrSelf => i == n || isAnc a i n
  | .followingSibling =>
    -- "if the context node is an attribute node or namespace node, the axis is empty"
    !(isAttrOrNs a n) && !(isAttrOrNs a i) && (par a n).isSome && par a i == par a n && decide (n < i)
  | .precedingSibling =>
    !(isAttrOrNs a n) && !(isAttrOrNs a i) && (par a n).isSome && par a i == par a n && decide (i < n)
  | .following =>
    -- "all nodes in the same document that are after the context node in document order,
    --  excluding any descendants and excluding attribute nodes and namespace nodes"
    !(isV m n) && !(isV m i) && decide (n < i) && !(isAnc a n i) && !(isAttrOrNs a i)
  | .preceding =>
    -- "... before the context node in document order, excluding any ancestors and excluding
    --  attribute nodes and namespace nodes"
    !(isV m n) && !(isV m i) && decide (i < n) && !(isAnc a i n) && !(isAttrOrNs a i)
  | .attribute => kd a i == .attr && par a i == some n
  | .namespace => kd a i == .ns && par a i == some n

/-- §2.3: "Every axis has a principal node type.  For the attribute axis it is attribute, for the
namespace axis it is namespace, for other axes it is element." -/
def principalKind : Axis → Kind
  | .attribute => .attr
  | .namespace => .ns
  | _ => .elem

/-- §2.3 node tests.  QName test: principal node type and equal expanded-name; `*`: any node of
the principal node type; `NCName:*`: principal type and namespace URI; `text()`, `comment()`,
`processing-instruction()`, `processing-instruction('t')`, `node()`.  The virtual document is not
a node. -/
def testOK (m : Mode) (a : Arr) (ax : Axis) (t : Test) (i : Nat) : Bool :=
  !(isV m i) &&
  (match t with
   | .node => true
   | .text => kd a i == .text
   | .comment => kd a i == .comment
   | .pi none => kd a i == .pi
   | .pi (some tg) => kd a i == .pi && nameOf a i == tg
   | .any => kd a i == principalKind ax
   | .name u l => kd a i == principalKind ax && uriOf a i == u && nameOf a i == l
   | .nsAny u => kd a i == principalKind ax && uriOf a i == u)

/-- all nodes of the document in document order -/
def allNodes (a : Arr) : List Nat := List.range a.length

/-- §2.1: "The node-set selected by the location step is the node-set that results from
generating an initial node-set from the axis and node-test" -/
def stepSet (m : Mode) (a : Arr) (ax : Axis) (t : Test) (n : Nat) : List Nat :=
  (allNodes a).filter fun i => onAxis m a ax n i && testOK m a ax t i

/-- union of node-sets, in document order without duplicates -/
def unionSets (a : Arr) (ls : List (List Nat)) : List Nat :=
  (allNodes a).filter fun i => ls.any (·.contains i)

/-- §2.4: "The proximity position of a member of a node-set with respect to an axis is the
position of the node in the node-set ordered in document order if the axis is a forward axis and
ordered in reverse document order if the axis is a reverse axis.  The first position is 1." -/
def proximity (rev : Bool) (l : List Nat) (n : Nat) : Nat :=
  (if rev then l.reverse else l).idxOf n + 1

/-- the axis a predicate is evaluated with respect to: the axis of the step it belongs to
(all predicates of a step, §2.1/§2.4); a predicate of a filter expression `(e)[p]` uses the child
axis, i.e. document order (§3.3) -/
def predAxisReverse : Expr → Bool
  | .step ax _ _ => ax.isReverse
  | .pred e _ => predAxisReverse e
  | _ => false

/-- the context triples for a predicate over node-set `l` -/
def predContexts (rev : Bool) (l : List Nat) : List Focus :=
  l.map fun n => ⟨n, proximity rev l n, l.length⟩

/-- §3.2 / §2.4 truth of a predicate: "If the result is a number, the result will be converted to
true if the number is equal to the context position and will be converted to false otherwise; if
the result is not a number, then the result will be converted as if by a call to the boolean
function" (node-set: non-empty; number: non-zero). -/
def boolOf : Val → Option Bool
  | .nodes l => some (!l.isEmpty)
  | .bool b => some b
  | .num k => some (k != 0)
  | .dec _ t => some (t != 0)
  | .err => none

def predTruth (v : Val) (f : Focus) : Option Bool :=
  match v with
  | .num k => some (f.pos == k)
  | .dec neg t => some (!neg && f.pos * 10 == t)   -- equal to the context position: only +p.0
  | v => boolOf v

def selectBy : List Focus → List (Option Bool) → Option (List Nat)
  | f :: fs, some b :: bs => (selectBy fs bs).map (fun r => if b then f.item :: r else r)
  | [], [] => some []
  | _, _ => none

def nodeSets : List Val → Option (List (List Nat))
  | [] => some []
  | .nodes l :: vs => (nodeSets vs).map (l :: ·)
  | _ :: _ => none

def compare : Cmp → Nat → Nat → Bool
  | .eq, x, y => x == y
  | .ne, x, y => x != y
  | .lt, x, y => decide (x < y)
  | .le, x, y => decide (x ≤ y)
  | .gt, x, y => decide (x > y)
  | .ge, x, y => decide (x ≥ y)

def ofSets (a : Arr) : Option (List (List Nat)) → Val
  | some ls => .nodes (unionSets a ls)
  | none => .err

/-- The value of an expression for a context (node, position, size).  Node-sets are lists in
document order.  A step is evaluated for a context *node* only: the context position/size given to
the right operand of `/` are immaterial (1.0 has no way to observe them). -/
def sem (m : Mode) (a : Arr) : Expr → Focus → Val
  | .step ax t _, f => .nodes (stepSet m a ax t f.item)
  | .ctxItem, f => .nodes [f.item]                                    -- `.` = self::node()
  | .parentAbbr, f => .nodes (stepSet m a .parent .node f.item)       -- `..` = parent::node()
  | .pred e p, f =>
    match sem m a e f with
    | .nodes l =>
      let cs := predContexts (predAxisReverse e) l
      match selectBy cs (cs.map fun c => predTruth (sem m a p c) c) with
      | some r => .nodes r
      | none => .err
    | _ => .err
  | .slash l r, f =>
    -- "E1/E2: for each node of E1 ... the sets are unioned"
    match sem m a l f with
    | .nodes ls => ofSets a (nodeSets (ls.map fun n => sem m a r ⟨n, 1, 1⟩))
    | _ => .err
  | .dslash l r, f =>
    -- §2.5: `//` is short for `/descendant-or-self::node()/`
    match sem m a l f with
    | .nodes ls =>
      let ds := unionSets a (ls.map fun n => stepSet m a .descendantOrSelf .node n ++
                                             (if isV m n then [n] else []))
      ofSets a (nodeSets (ds.map fun d => sem m a r ⟨d, 1, 1⟩))
    | _ => .err
  | .rootOnly, _ => .nodes (if m == .doc then [0] else [])
  | .root e, f => sem m a e { f with item := 0 }
  | .droot e, f =>
    let ds := (allNodes a).filter fun i => onAxis m a .descendantOrSelf 0 i
    ofSets a (nodeSets (ds.map fun d => sem m a e { f with item := d }))
  | .paren e, f => sem m a e f
  | .union l r, f =>
    -- §3.3: "The | operator computes the union of its operands, which must be node-sets."
    match sem m a l f, sem m a r f with
    | .nodes x, .nodes y => .nodes (unionSets a [x, y])
    | _, _ => .err
  | .count e, f =>
    -- §4.1: "The count function returns the number of nodes in the argument node-set."
    match sem m a e f with
    | .nodes l => .num l.length
    | _ => .err
  | .num k, _ => .num k
  | .lit neg t, _ => .dec neg t
  | .position, f => .num f.pos
  | .last, f => .num f.size
  | .cmp op l r, f =>
    match sem m a l f, sem m a r f with
    | .num x, .num y => .bool (compare op x y)
    | _, _ => .err
  | .and l r, f =>
    match boolOf (sem m a l f) with
    | some true => (match boolOf (sem m a r f) with | some b => .bool b | none => .err)
    | some false => .bool false
    | none => .err
  | .or l r, f =>
    match boolOf (sem m a l f) with
    | some false => (match boolOf (sem m a r f) with | some b => .bool b | none => .err)
    | some true => .bool true
    | none => .err
  | .not e, f =>
    match boolOf (sem m a e f) with
    | some b => .bool (!b)
    | none => .err

end EPV.XP.Spec

/-
C10 — specification of the lexical layer, written from
  W3C XML Schema Definition Language (XSD) 1.1 Part 2: Datatypes (and XSD 1.0 Part 2 where it differs),
  XQuery and XPath Functions and Operators 3.1, section 19 (casting).
Independent of EPV/Model/Lexical.lean: the lexical spaces follow the *grammar productions* of the
recommendation (split a literal at its sign / point / exponent mark and check the parts), not the regular
expressions used by the implementation.  Core Lean only, executable (the driver prints these).
-/
namespace EPV.XSD

abbrev Str := List Char

/-! ## XSD 1.1 Part 2, 4.3.6 whiteSpace -/

/-- XML white space: #x20 | #x9 | #xA | #xD  (XML 1.0 production [3] S) -/
def isXsdWhite (c : Char) : Bool := c == ' ' || c == '\t' || c == '\n' || c == '\r'

/-- "replace: all occurrences of #x9 (tab), #xA (line feed) and #xD (carriage return) are replaced
with #x20 (space)" -/
def wsReplace (s : Str) : Str := s.map fun c => if isXsdWhite c then ' ' else c

/-- "contiguous sequences of #x20s are collapsed to a single #x20" -/
def squeeze : Str → Str
  | [] => []
  | [c] => [c]
  | c :: d :: r => if c == ' ' && d == ' ' then squeeze (d :: r) else c :: squeeze (d :: r)

/-- "and initial and/or final #x20s are deleted" -/
def trim (s : Str) : Str :=
  ((s.dropWhile (· == ' ')).reverse.dropWhile (· == ' ')).reverse

/-- whiteSpace = collapse (the value of the facet for every built-in atomic type other than
xs:string / xs:normalizedString) -/
def wsCollapse (s : Str) : Str := trim (squeeze (wsReplace s))

/-! ## numerals: XSD 1.1 Part 2, 3.3.3.1 / 3.3.5.2 / 3.4.13.1 productions -/

def isDigit (c : Char) : Bool := '0' ≤ c && c ≤ '9'

/-- [46] unsignedNoDecimalPtNumeral ::= digit+ -/
def unsignedNoDecimalPt (s : Str) : Bool := !s.isEmpty && s.all isDigit
/-- [53] fracFrag ::= digit+ -/
def fracFrag (s : Str) : Bool := !s.isEmpty && s.all isDigit

/-- split at the first occurrence of a mark character: (before, some after) or (all, none) -/
def splitAt (p : Char → Bool) (s : Str) : Str × Option Str :=
  match s.dropWhile (fun c => !p c) with
  | [] => (s, none)
  | _ :: r => (s.takeWhile (fun c => !p c), some r)

/-- [48] unsignedDecimalPtNumeral ::= (unsignedNoDecimalPtNumeral '.' fracFrag?) | ('.' fracFrag) -/
def unsignedDecimalPt (s : Str) : Bool :=
  match splitAt (· == '.') s with
  | (a, some f) => (unsignedNoDecimalPt a && (f.isEmpty || fracFrag f)) || (a.isEmpty && fracFrag f)
  | (_, none) => false

/-- ('+' | '-')? p -/
def signed (p : Str → Bool) : Str → Bool
  | '+' :: r => p r
  | '-' :: r => p r
  | s => p s

/-- [47] noDecimalPtNumeral ::= ('+' | '-')? unsignedNoDecimalPtNumeral   (= the lexical space of xs:integer, 3.4.13.1) -/
def noDecimalPtNumeral : Str → Bool := signed unsignedNoDecimalPt
/-- [49] decimalPtNumeral ::= ('+' | '-')? unsignedDecimalPtNumeral -/
def decimalPtNumeral : Str → Bool := signed unsignedDecimalPt

/-- 3.4.13.1 integer -/
def integerLex (s : Str) : Bool := noDecimalPtNumeral s

/-- [54] decimalLexicalRep ::= decimalPtNumeral | noDecimalPtNumeral -/
def decimalLex (s : Str) : Bool := decimalPtNumeral s || noDecimalPtNumeral s

/-- [50] unsignedScientificNotationNumeral ::=
      (unsignedNoDecimalPtNumeral | unsignedDecimalPtNumeral) ('e' | 'E') noDecimalPtNumeral -/
def unsignedSci (s : Str) : Bool :=
  match splitAt (fun c => c == 'e' || c == 'E') s with
  | (m, some x) => (unsignedNoDecimalPt m || unsignedDecimalPt m) && noDecimalPtNumeral x
  | (_, none) => false

/-- [51] scientificNotationNumeral ::= ('+' | '-')? unsignedScientificNotationNumeral -/
def sciNumeral : Str → Bool := signed unsignedSci

/-- [56] numericalSpecialRep ::= '+INF' | 'INF' | '-INF' | 'NaN'  (XSD 1.1);
XSD 1.0 Part 2, 3.2.5.1: "the special values positive and negative infinity and not-a-number have
lexical representations INF, -INF and NaN" — no '+INF'. -/
def specialRep (xsd11 : Bool) (s : Str) : Bool :=
  s == "INF".toList || s == "-INF".toList || s == "NaN".toList || (xsd11 && s == "+INF".toList)

/-- [57] doubleRep / floatRep ::= noDecimalPtNumeral | decimalPtNumeral | scientificNotationNumeral
      | numericalSpecialRep -/
def doubleLex (xsd11 : Bool) (s : Str) : Bool :=
  noDecimalPtNumeral s || decimalPtNumeral s || sciNumeral s || specialRep xsd11 s

/-- 3.3.2.1 boolean: booleanRep ::= 'true' | 'false' | '1' | '0' -/
def booleanLex (s : Str) : Bool :=
  s == "true".toList || s == "false".toList || s == "1".toList || s == "0".toList

/-- 3.3.2.2: 'true' and '1' denote true -/
def booleanVal (s : Str) : Bool := s == "true".toList || s == "1".toList

/-! ## values of numerals -/

/-- 3.3.3.1 digitSequenceValue -/
def digitSeqVal : Str → Nat → Nat
  | [], acc => acc
  | c :: r, acc => digitSeqVal r (acc * 10 + (c.toNat - 48))

/-- noDecimalMap -/
def integerVal : Str → Int
  | '-' :: r => - (digitSeqVal r 0 : Int)
  | '+' :: r => (digitSeqVal r 0 : Int)
  | r => (digitSeqVal r 0 : Int)

/-- a decimal value `num / 10^scale` (decimalLexicalMap: decimalPtMap / noDecimalMap).  Two pairs
denote the same number iff `num₁ * 10^scale₂ = num₂ * 10^scale₁` (`DecVal.same`). -/
structure DecVal where
  num : Int
  scale : Nat
deriving DecidableEq, Repr

def DecVal.same (a b : DecVal) : Prop := a.num * (10 : Int) ^ b.scale = b.num * (10 : Int) ^ a.scale

instance (a b : DecVal) : Decidable (a.same b) := by unfold DecVal.same; infer_instance

/-- integer and fraction digits of an unsigned decimal numeral -/
def decimalParts (body : Str) : Str × Str :=
  match splitAt (· == '.') body with
  | (a, some f) => (a, f)
  | (a, none) => (a, [])

def isNegative : Str → Bool
  | '-' :: _ => true
  | _ => false

def unsignedPart : Str → Str
  | '-' :: r => r
  | '+' :: r => r
  | r => r

def decimalVal (s : Str) : DecVal :=
  let p := decimalParts (unsignedPart s)
  let n : Int := digitSeqVal (p.1 ++ p.2) 0
  ⟨if isNegative s then -n else n, p.2.length⟩

/-! ## canonical representations -/

/-- 3.4.13.2 / F&O 19.1.1 integer: no sign for non-negative, no leading zeros -/
def natCanon (n : Nat) : Str := (toString n).toList
def integerCanon (v : Int) : Str := if v < 0 then '-' :: natCanon v.natAbs else natCanon v.natAbs

/-- 3.3.3.2 decimal canonical representation, as a *predicate on literals*:
no '+' sign; an integer value is written as an integer (no point); otherwise at least one digit on each
side of the point, no leading zero before the point other than a single '0', no trailing zero after it;
zero is "0" (F&O 19.1.2: cast to xs:integer first when the value is integral). -/
def stripMinus : Str → Str
  | '-' :: r => r
  | r => r

/-- a minus sign only in front of a non-zero number ("-0" is not canonical) -/
def minusOk : Str → Bool
  | '-' :: r => r.any (fun c => isDigit c && c != '0')
  | _ => true

def canonIntPart (a : Str) : Bool := unsignedNoDecimalPt a && (a == ['0'] || a.head? != some '0')

def canonUnsigned (body : Str) : Bool :=
  match splitAt (· == '.') body with
  | (a, none) => canonIntPart a
  | (a, some f) => canonIntPart a && fracFrag f && f.getLast? != some '0'

def isCanonicalDecimal (s : Str) : Bool := minusOk s && canonUnsigned (stripMinus s)

/-- the representative of a decimal value with the least scale -/
def normAux (n : Int) : Nat → DecVal
  | 0 => ⟨n, 0⟩
  | k + 1 => if n % 10 = 0 then normAux (n / 10) k else ⟨n, k + 1⟩

def DecVal.norm (v : DecVal) : DecVal := normAux v.num v.scale

/-- 3.3.3.2 decimalCanonicalMap / F&O 19.1.2 (cast to xs:string): the canonical literal of a value -/
def decimalCanon (v : DecVal) : Str :=
  let w := v.norm
  let ds := natCanon w.num.natAbs
  let padded := List.replicate (w.scale + 1 - ds.length) '0' ++ ds
  let ip := padded.take (padded.length - w.scale)
  let fp := padded.drop (padded.length - w.scale)
  let body := if fp.isEmpty then ip else ip ++ '.' :: fp
  if w.num < 0 then '-' :: body else body

/-! ## integer family facets: XSD 1.1 Part 2, 3.4.13 – 3.4.25 (minInclusive / maxInclusive) -/

/-- (type name, minInclusive, maxInclusive); `none` = unbounded -/
def integerFacets : List (String × Option Int × Option Int) := [
  ("integer", none, none),
  ("nonPositiveInteger", none, some 0),
  ("negativeInteger", none, some (-1)),
  ("long", some (-9223372036854775808), some 9223372036854775807),
  ("int", some (-2147483648), some 2147483647),
  ("short", some (-32768), some 32767),
  ("byte", some (-128), some 127),
  ("nonNegativeInteger", some 0, none),
  ("unsignedLong", some 0, some 18446744073709551615),
  ("unsignedInt", some 0, some 4294967295),
  ("unsignedShort", some 0, some 65535),
  ("unsignedByte", some 0, some 255),
  ("positiveInteger", some 1, none)]

/-- derivation (base type) of each integer type: XSD 1.1 Part 2, 3.4 diagram -/
def integerBase : List (String × String) := [
  ("nonPositiveInteger", "integer"), ("negativeInteger", "nonPositiveInteger"),
  ("long", "integer"), ("int", "long"), ("short", "int"), ("byte", "short"),
  ("nonNegativeInteger", "integer"), ("unsignedLong", "nonNegativeInteger"),
  ("unsignedInt", "unsignedLong"), ("unsignedShort", "unsignedInt"), ("unsignedByte", "unsignedShort"),
  ("positiveInteger", "nonNegativeInteger")]

def inFacets (lo hi : Option Int) (v : Int) : Bool :=
  (match lo with | some l => decide (l ≤ v) | none => true) &&
  (match hi with | some h => decide (v ≤ h) | none => true)

/-! ## binary: 3.3.15 hexBinary, 3.3.16 base64Binary -/

def isHexDigit (c : Char) : Bool :=
  isDigit c || ('a' ≤ c && c ≤ 'f') || ('A' ≤ c && c ≤ 'F')

/-- hexBinary ::= hexOctet* ; hexOctet ::= hexDigit hexDigit -/
def hexLex (s : Str) : Bool := s.length % 2 == 0 && s.all isHexDigit

def hexDigitVal (c : Char) : Nat :=
  if isDigit c then c.toNat - 48 else if 'a' ≤ c && c ≤ 'f' then c.toNat - 87 else c.toNat - 55

/-- hexBinaryMap: octets of the literal -/
def hexOctets : Str → List Nat
  | a :: b :: r => (hexDigitVal a * 16 + hexDigitVal b) :: hexOctets r
  | _ => []

def isB64Char (c : Char) : Bool :=
  isDigit c || ('a' ≤ c && c ≤ 'z') || ('A' ≤ c && c ≤ 'Z') || c == '+' || c == '/'

/-- 3.3.16.2: Base64Binary ::= (B64quad* B64final)? with optional single spaces after each character;
on a collapsed literal this is: remove the spaces, then length ≡ 0 (mod 4), all characters but the
padding are B64 characters, padding is "=" after a B16 character ([AEIMQUYcgkosw048]) or "==" after a
B04 character ([AQgw]), and only at the very end. -/
def base64Lex (s : Str) : Bool :=
  let t := s.filter (· != ' ')
  let n := t.length
  n % 4 == 0 &&
  (n == 0 ||
    let body := t.take (n - 2)
    let c := t.getD (n - 2) ' '
    let d := t.getD (n - 1) ' '
    body.all isB64Char &&
    ((isB64Char c && isB64Char d) ||
     (d == '=' && "AEIMQUYcgkosw048".toList.contains c) ||
     (d == '=' && c == '=' && "AQgw".toList.contains (t.getD (n - 3) ' '))))

def b64CharVal (c : Char) : Nat :=
  if 'A' ≤ c && c ≤ 'Z' then c.toNat - 65
  else if 'a' ≤ c && c ≤ 'z' then c.toNat - 71
  else if isDigit c then c.toNat + 4
  else if c == '+' then 62 else 63

/-- RFC 4648 section 4 decoding of a literal of the lexical space (spaces removed) into octets -/
def b64Octets (s : Str) : List Nat :=
  let t := (s.filter (fun c => c != ' ' && c != '=')).map b64CharVal
  let rec go : List Nat → List Nat
    | x :: y :: z :: w :: r =>
      (x * 4 + y / 16) :: (y % 16 * 16 + z / 4) :: (z % 4 * 64 + w) :: go r
    | [x, y, z] => [x * 4 + y / 16, y % 16 * 16 + z / 4]
    | [x, y] => [x * 4 + y / 16]
    | _ => []
  go t

/-! ## F&O 3.1 section 19 — casting, for the numeric / string / boolean / untypedAtomic corner -/

/-- canonical lexical form of a double for the cast to xs:string (F&O 19.1.1, "casting to xs:string"):
`ds` = the shortest decimal digits that identify the double (first digit non-zero, no trailing zero),
`e` = decimal exponent, value = d₁.d₂…dₙ × 10^e.
* |value| in [0.000001, 1000000): written as the canonical xs:decimal;
* otherwise: mantissa with one digit before the point and at least one after it, 'E', exponent without
  plus sign or leading zeros (XSD canonical representation of xs:double). -/
def doubleCanon (neg : Bool) (ds : Str) (e : Int) : Str :=
  let body : Str :=
    if -6 ≤ e && e < 6 then
      if 0 ≤ e then
        let k := e.toNat + 1
        let ip := ds.take k ++ List.replicate (k - ds.length) '0'
        let fp := ds.drop k
        if fp.isEmpty then ip else ip ++ '.' :: fp
      else
        '0' :: '.' :: (List.replicate ((-e).toNat - 1) '0' ++ ds)
    else
      let m := match ds with
        | [] => ['0', '.', '0']
        | [d] => [d, '.', '0']
        | d :: r => d :: '.' :: r
      m ++ 'E' :: integerCanon e
  if neg then '-' :: body else body

/-- an exact finite double `±n / 2^k`, or a special value -/
inductive SDbl
  | nan | pinf | ninf
  | fin (neg : Bool) (n k : Nat)
deriving DecidableEq, Repr

/-- operands; a double carries its shortest digits / exponent for the cast to string (zero: `ds = []`) -/
inductive SAtom
  | str (s : Str) | untyped (s : Str) | bool (b : Bool) | int (v : Int) | dec (v : DecVal)
  | dbl (x : SDbl) (ds : Str) (e : Int)
deriving Repr

inductive SType
  | string | untypedAtomic | boolean
  | integer (lo hi : Option Int)      -- minInclusive / maxInclusive
  | decimal
  | double (xsd11 : Bool)             -- also xs:float: same lexical space
deriving Repr

inductive DClass | nan | pinf | ninf | num
deriving DecidableEq, Repr

inductive SVal
  | str (s : Str) | untyped (s : Str) | bool (b : Bool) | int (v : Int) | dec (v : DecVal) | dbl (c : DClass)
deriving Repr

/-- F&O 19.1.1: the string of an atomic value -/
def castToString : SAtom → Str
  | .str s => s
  | .untyped s => s
  | .bool b => if b then "true".toList else "false".toList
  | .int v => integerCanon v
  | .dec v => decimalCanon v
  | .dbl x ds e =>
    match x with
    | .nan => "NaN".toList
    | .pinf => "INF".toList
    | .ninf => "-INF".toList
    | .fin neg n _ => if n == 0 then (if neg then "-0".toList else "0".toList) else doubleCanon neg ds e

/-- truncation toward zero of `num / den` -/
def truncDiv (num : Int) (den : Nat) : Int := Int.tdiv num den

def doubleClass (t : Str) : DClass :=
  if t == "NaN".toList then .nan
  else if t == "INF".toList || t == "+INF".toList then .pinf
  else if t == "-INF".toList then .ninf
  else .num

/-- F&O 19.1.2.? integer → double goes through the lexical form; XSD 1.1 §3.3.5 (double lexical mapping, rounding to nearest
with ties to even): an integer of magnitude ≥ 2^1024 − 2^970 denotes positive or negative infinity *according to its sign* -/
def integerDoubleClass (v : Int) : DClass :=
  if v ≥ 2 ^ 1024 - 2 ^ 970 then .pinf else if v ≤ -(2 ^ 1024 - 2 ^ 970) then .ninf else .num

/-- F&O 19.1 – 19.3 for this corner; `none` = a dynamic error (FORG0001 / FOCA0002) -/
def castSpec (a : SAtom) (t : SType) : Option SVal :=
  match t with
  | .string => some (.str (castToString a))
  | .untypedAtomic => some (.untyped (castToString a))
  | .boolean =>
    match a with
    | .str s | .untyped s => let c := wsCollapse s; if booleanLex c then some (.bool (booleanVal c)) else none
    | .bool b => some (.bool b)
    | .int v => some (.bool (v != 0))                       -- 19.1.? "false if 0, +0, -0, NaN; else true"
    | .dec v => some (.bool (v.num != 0))
    | .dbl x _ _ => some (.bool (match x with | .nan => false | .fin _ n _ => n != 0 | _ => true))
  | .integer lo hi =>
    let check (v : Int) : Option SVal := if inFacets lo hi v then some (.int v) else none   -- 19.3.? facets: FORG0001
    match a with
    | .str s | .untyped s => let c := wsCollapse s; if integerLex c then check (integerVal c) else none
    | .bool b => check (if b then 1 else 0)
    | .int v => check v
    | .dec v => check (truncDiv v.num (10 ^ v.scale))      -- 19.1.2.3: truncation toward zero
    | .dbl x _ _ =>
      match x with
      | .fin neg n k => check (truncDiv (if neg then -(n : Int) else n) (2 ^ k))
      | _ => none                                          -- NaN, INF: FOCA0002
  | .decimal =>
    match a with
    | .str s | .untyped s => let c := wsCollapse s; if decimalLex c then some (.dec (decimalVal c)) else none
    | .bool b => some (.dec ⟨if b then 1 else 0, 0⟩)
    | .int v => some (.dec ⟨v, 0⟩)
    | .dec v => some (.dec v)
    | .dbl x _ _ =>
      match x with
      | .fin neg n k => some (.dec ⟨(if neg then -(n : Int) else n) * 5 ^ k, k⟩)   -- n/2^k = n·5^k/10^k, exact
      | _ => none                                          -- FOCA0002
  | .double xsd11 =>
    match a with
    | .str s | .untyped s => let c := wsCollapse s; if doubleLex xsd11 c then some (.dbl (doubleClass c)) else none
    | .dbl x _ _ => some (.dbl (match x with | .nan => .nan | .pinf => .pinf | .ninf => .ninf | .fin _ _ _ => .num))
    | .int v => some (.dbl (integerDoubleClass v))
    | _ => some (.dbl .num)

/-! ## timezones: XSD 1.1 Part 2, 3.3.7.2 (dateTime lexical mapping), productions [63] timezoneFrag

timezoneFrag ::= 'Z' | ('+' | '-') (('0' digit | '1' [0-3]) ':' minuteFrag | '14:00'),
minuteFrag ::= [0-5] digit.  timezoneFragValue: 0 for 'Z'; otherwise hh × 60 + mm, *negated as a whole*
when the sign is '-' (so '-00:30' denotes −30 minutes). -/

/-- the literal read by its parts: sign, two digits of hours, colon, two digits of minutes, with the
range conditions of the production stated on the *numbers* -/
def timezoneVal? (s : Str) : Option Int :=
  if s == ['Z'] then some 0 else
  match s with
  | sg :: rest =>
    if !(sg == '+' || sg == '-') then none else
    match splitAt (· == ':') rest with
    | (hh, some mm) =>
      if hh.length == 2 && mm.length == 2 && hh.all isDigit && mm.all isDigit then
        let h := digitSeqVal hh 0
        let m := digitSeqVal mm 0
        if (h ≤ 13 && m ≤ 59) || (h == 14 && m == 0) then
          some (if sg == '-' then -((h * 60 + m : Nat) : Int) else ((h * 60 + m : Nat) : Int))
        else none
      else none
    | (_, none) => none
  | [] => none

/-- canonical timezone: 'Z' for UTC (so '+00:00' and '-00:00' print as 'Z'), else ±hh:mm -/
def timezoneCanon (m : Int) : Str :=
  let two (n : Nat) : Str := [Char.ofNat (48 + n / 10), Char.ofNat (48 + n % 10)]
  if m == 0 then ['Z']
  else (if m < 0 then '-' else '+') :: (two (m.natAbs / 60) ++ ':' :: two (m.natAbs % 60))

/-- the whole lexical space of timezoneFrag, generated from the numbers: 'Z', and for each sign every
hh:mm with 00 ≤ hh ≤ 13, 00 ≤ mm ≤ 59, and 14:00 — 1683 literals with their value in minutes -/
def timezoneLiterals : List (Str × Int) :=
  let two (n : Nat) : Str := [Char.ofNat (48 + n / 10), Char.ofNat (48 + n % 10)]
  let hm : List (Nat × Nat) :=
    ((List.range 14).flatMap fun h => (List.range 60).map fun m => (h, m)) ++ [(14, 0)]
  (['Z'], 0) ::
    (hm.map (fun (h, m) => ('+' :: (two h ++ ':' :: two m), ((h * 60 + m : Nat) : Int))) ++
     hm.map (fun (h, m) => ('-' :: (two h ++ ':' :: two m), -((h * 60 + m : Nat) : Int))))

/-! ## durations: XSD 1.1 Part 2, 3.3.6 (duration), 3.4.26 (yearMonthDuration), 3.4.27 (dayTimeDuration)

durationLexicalRep ::= '-'? 'P' ((duYearMonthFrag duDayTimeFrag?) | duDayTimeFrag) with
duYearFrag ::= unsignedNoDecimalPtNumeral 'Y', … duSecondFrag ::= ([0-9]+ ('.' [0-9]+)?) 'S' (the regular
expression of 3.3.6.2), the 'T' present exactly when a time fragment follows.  Written here as *rendering*:
a literal is the concatenation of its present fragments in the fixed order; `DurationLex` is "some well-formed
choice of fragments renders to the string". -/

def renderItem (des : Char) : Option Str → Str
  | some ds => ds ++ [des]
  | none => []

/-- the fragments with the given designators, in order -/
def renderItems : List Char → List (Option Str) → Str
  | des :: more, v :: vs => renderItem des v ++ renderItems more vs
  | _, _ => []

def renderSec : Option (Str × Option Str) → Str
  | some (a, some f) => a ++ '.' :: (f ++ ['S'])
  | some (a, none) => a ++ ['S']
  | none => []

def numeralOk : Option Str → Bool
  | some ds => unsignedNoDecimalPt ds
  | none => true

def secOk : Option (Str × Option Str) → Bool
  | some (a, some f) => unsignedNoDecimalPt a && fracFrag f
  | some (a, none) => unsignedNoDecimalPt a
  | none => true

/-- is a time fragment present -/
def hasTime (time : List (Option Str)) (sec : Option (Str × Option Str)) : Bool :=
  time.any Option.isSome || sec.isSome

def durationRender (neg : Bool) (date time : List (Option Str)) (sec : Option (Str × Option Str)) : Str :=
  (if neg then ['-'] else []) ++ 'P' ::
    (renderItems ['Y', 'M', 'D'] date ++
      (if hasTime time sec then 'T' :: (renderItems ['H', 'M'] time ++ renderSec sec) else []))

/-- well-formed choice of fragments: three date slots, two time slots, numerals are digit strings,
at least one fragment -/
def durationWF (date time : List (Option Str)) (sec : Option (Str × Option Str)) : Bool :=
  date.length == 3 && time.length == 2 && date.all numeralOk && time.all numeralOk && secOk sec &&
  (date.any Option.isSome || hasTime time sec)

/-- the lexical space of xs:duration -/
def DurationLex (s : Str) : Prop :=
  ∃ neg date time sec, durationWF date time sec = true ∧ durationRender neg date time sec = s

/-- durationMap: months = 12 × years + months, seconds = 86400 d + 3600 h + 60 m + s (exact decimal),
both negated for a leading '-' -/
def optVal : Option Str → Nat
  | some ds => digitSeqVal ds 0
  | none => 0

def durationValue (neg : Bool) (date time : List (Option Str)) (sec : Option (Str × Option Str)) : Int × DecVal :=
  let months : Nat := 12 * optVal (date.getD 0 none) + optVal (date.getD 1 none)
  let whole : Nat := 86400 * optVal (date.getD 2 none) + 3600 * optVal (time.getD 0 none) + 60 * optVal (time.getD 1 none)
  let (sw, sf) : Str × Str := match sec with
    | some (a, some f) => (a, f)
    | some (a, none) => (a, [])
    | none => ([], [])
  let num : Nat := digitSeqVal (sw ++ sf) 0 + whole * 10 ^ sf.length
  if neg then (-(months : Int), ⟨-(num : Int), sf.length⟩) else ((months : Int), ⟨(num : Int), sf.length⟩)

/-! executable reading of a duration literal in a different style (tokens), used by the driver -/

/-- one token: digits, optional '.' digits, one designator letter -/
def durToken (s : Str) : Option ((Str × Option Str × Char) × Str) :=
  let ds := s.takeWhile isDigit
  if ds.isEmpty then none else
  match s.dropWhile isDigit with
  | '.' :: f =>
    let fs := f.takeWhile isDigit
    if fs.isEmpty then none else
    (match f.dropWhile isDigit with
     | c :: r => some ((ds, some fs, c), r)
     | [] => none)
  | c :: r => some ((ds, none, c), r)
  | [] => none

def durTokens : Nat → Str → Option (List (Str × Option Str × Char))
  | _, [] => some []
  | 0, _ => none
  | fuel + 1, s =>
    match durToken s with
    | some (t, r) => (durTokens fuel r).map (t :: ·)
    | none => none

/-- the designators of the tokens form a strictly increasing selection from `order`; fractions only where allowed -/
def tokensInOrder (order : List Char) (fracOn : Char) : List (Str × Option Str × Char) → Bool
  | [] => true
  | (_, fr, c) :: rest =>
    match order.dropWhile (· != c) with
    | _ :: after => (fr.isNone || c == fracOn) && tokensInOrder after fracOn rest
    | [] => false

def tokenOf (c : Char) (ts : List (Str × Option Str × Char)) : Option (Str × Option Str) :=
  (ts.find? (·.2.2 == c)).map fun t => (t.1, t.2.1)

/-- (months, seconds) of a literal of the lexical space, `none` outside it -/
def durationVal? (s : Str) : Option (Int × DecVal) :=
  let (neg, s1) := match s with | '-' :: r => (true, r) | r => (false, r)
  match s1 with
  | 'P' :: body =>
    let (dpart, tpart) := splitAt (· == 'T') body
    match durTokens body.length dpart, (match tpart with | some t => (durTokens body.length t).map some | none => some none) with
    | some dts, some tts? =>
      let tts := tts?.getD []
      if !tokensInOrder ['Y', 'M', 'D'] ' ' dts then none
      else if !tokensInOrder ['H', 'M', 'S'] 'S' tts then none
      else if tts?.isSome && tts.isEmpty then none          -- 'T' must be followed by a time fragment
      else if dts.isEmpty && tts.isEmpty then none
      else
        let num (c : Char) (ts : List (Str × Option Str × Char)) : Option Str := (tokenOf c ts).map (·.1)
        some (durationValue neg [num 'Y' dts, num 'M' dts, num 'D' dts] [num 'H' tts, num 'M' tts] (tokenOf 'S' tts))
    | _, _ => none
  | _ => none

/-! ## xs:time, xs:gDay, xs:gMonth, xs:gMonthDay: XSD 1.1 Part 2, 3.3.8, 3.3.12 – 3.3.14

The character-class productions of the recommendation: dayFrag ::= ('0' [1-9]) | ([12] digit) | ('3' [01]),
monthFrag ::= ('0' [1-9]) | ('1' [0-2]), hourFrag ::= ([01] digit) | ('2' [0-3]), minuteFrag ::= [0-5] digit,
secondFrag ::= ([0-5] digit) ('.' digit+)?, endOfDayFrag ::= '24:00:00' ('.' '0'+)?, and the day-of-month
constraint of gMonthDay (--02 has 29 days, --04 --06 --09 --11 have 30). -/

def dayFragOk (a b : Char) : Bool :=
  (a == '0' && ('1' ≤ b && b ≤ '9')) || ((a == '1' || a == '2') && isDigit b) || (a == '3' && (b == '0' || b == '1'))
def monthFragOk (a b : Char) : Bool :=
  (a == '0' && ('1' ≤ b && b ≤ '9')) || (a == '1' && ('0' ≤ b && b ≤ '2'))
def hourFragOk (a b : Char) : Bool :=
  ((a == '0' || a == '1') && isDigit b) || (a == '2' && ('0' ≤ b && b ≤ '3'))
def minuteFragOk (a b : Char) : Bool := ('0' ≤ a && a ≤ '5') && isDigit b

def fragVal (a b : Char) : Nat := (a.toNat - 48) * 10 + (b.toNat - 48)

/-- the value of a timezone literal by table lookup in the enumerated lexical space -/
def tzLookup (r : Str) : Option Int := (timezoneLiterals.find? (·.1 == r)).map (·.2)

/-- optional timezone at the end of a literal -/
def tzSuffix? : Str → Option (Option Int)
  | [] => some none
  | r => (tzLookup r).map some

structure GVal where
  month : Nat := 1
  day : Nat := 1
  hour : Nat := 0
  minute : Nat := 0
  second : Nat := 0
  frac : Str := []          -- fraction digits of the seconds as written
  tz : Option Int := none
deriving DecidableEq, Repr

def maxDay (m : Nat) : Nat := if m == 2 then 29 else if m == 4 || m == 6 || m == 9 || m == 11 then 30 else 31

def gDayLex : Str → Option GVal
  | '-' :: '-' :: '-' :: a :: b :: r =>
    if dayFragOk a b then (tzSuffix? r).map fun tz => { day := fragVal a b, tz := tz } else none
  | _ => none

def gMonthLex : Str → Option GVal
  | '-' :: '-' :: a :: b :: r =>
    if monthFragOk a b then (tzSuffix? r).map fun tz => { month := fragVal a b, tz := tz } else none
  | _ => none

def gMonthDayLex : Str → Option GVal
  | '-' :: '-' :: a :: b :: '-' :: c :: d :: r =>
    if monthFragOk a b && dayFragOk c d && decide (fragVal c d ≤ maxDay (fragVal a b)) then
      (tzSuffix? r).map fun tz => { month := fragVal a b, day := fragVal c d, tz := tz }
    else none
  | _ => none

/-- ('.' digit+)? -/
def fraction? : Str → Option (Str × Str)
  | '.' :: rest =>
    let fs := rest.takeWhile isDigit
    if fs.isEmpty then none else some (fs, rest.dropWhile isDigit)
  | r => some ([], r)

def timeLex : Str → Option GVal
  | a :: b :: ':' :: c :: d :: ':' :: e :: f :: r =>
    match fraction? r with
    | none => none
    | some (fs, r') =>
      if a == '2' && b == '4' then
        -- endOfDayFrag: denotes 00:00:00 (of the following day)
        if c == '0' && d == '0' && e == '0' && f == '0' && fs.all (· == '0') then
          (tzSuffix? r').map fun tz => { tz := tz }
        else none
      else if hourFragOk a b && minuteFragOk c d && minuteFragOk e f then
        (tzSuffix? r').map fun tz =>
          { hour := fragVal a b, minute := fragVal c d, second := fragVal e f, frac := fs, tz := tz }
      else none
  | _ => none

/-! ## xs:language: XSD 1.1 Part 2, 3.4.3 — "[a-zA-Z]{1,8}(-[a-zA-Z0-9]{1,8})*": one to eight letters, then
any number of sub-tags of one to eight letters or digits, separated by single hyphens.  Written by splitting
at the hyphens. -/

/-- the pieces between the hyphens (always at least one piece) -/
def splitDash : Str → List Str
  | [] => [[]]
  | c :: r =>
    if c == '-' then [] :: splitDash r
    else match splitDash r with
      | p :: ps => (c :: p) :: ps
      | [] => [[c]]

def isLetter (c : Char) : Bool := ('a' ≤ c && c ≤ 'z') || ('A' ≤ c && c ≤ 'Z')

def primaryTag (p : Str) : Bool := decide (1 ≤ p.length) && decide (p.length ≤ 8) && p.all isLetter
def subTag (p : Str) : Bool := decide (1 ≤ p.length) && decide (p.length ≤ 8) && p.all (fun c => isLetter c || isDigit c)

def languageLex (s : Str) : Bool :=
  match splitDash s with
  | p :: ps => primaryTag p && ps.all subTag
  | [] => false

/-! ## XML names: XML 1.0 (Fifth Edition) productions [4] NameStartChar, [4a] NameChar, [5] Name, [7] Nmtoken;
Namespaces in XML [4] NCName (a Name without colon); XSD 1.1 Part 2 3.4.4 – 3.4.11 -/

/-- [4] NameStartChar without the colon -/
def nameStartNoColon : List (Nat × Nat) :=
  [(0x41, 0x5B), (0x5F, 0x60), (0x61, 0x7B), (0xC0, 0xD7), (0xD8, 0xF7), (0xF8, 0x300), (0x370, 0x37E), (0x37F, 0x2000),
   (0x200C, 0x200E), (0x2070, 0x2190), (0x2C00, 0x2FF0), (0x3001, 0xD800), (0xF900, 0xFDD0), (0xFDF0, 0xFFFE),
   (0x10000, 0xF0000)]

/-- [4a] NameChar without the colon: NameStartChar | "-" | "." | [0-9] | #xB7 | [#x0300-#x036F] | [#x203F-#x2040] -/
def nameCharNoColon : List (Nat × Nat) :=
  nameStartNoColon ++ [(0x2D, 0x2F), (0x30, 0x3A), (0xB7, 0xB8), (0x300, 0x370), (0x203F, 0x2041)]

def colon : List (Nat × Nat) := [(0x3A, 0x3B)]

def inSet (t : List (Nat × Nat)) (c : Char) : Bool := t.any fun r => decide (r.1 ≤ c.toNat) && decide (c.toNat < r.2)

/-- NCName ::= NameStartChar-without-colon (NameChar-without-colon)* -/
def ncNameLex : Str → Bool
  | [] => false
  | c :: r => inSet nameStartNoColon c && r.all (inSet nameCharNoColon)

/-- Name ::= NameStartChar (NameChar)* -/
def nameLex : Str → Bool
  | [] => false
  | c :: r => inSet (nameStartNoColon ++ colon) c && r.all (inSet (nameCharNoColon ++ colon))

/-- Nmtoken ::= (NameChar)+ -/
def nmtokenLex : Str → Bool
  | [] => false
  | c :: r => inSet (nameCharNoColon ++ colon) c && r.all (inSet (nameCharNoColon ++ colon))

/-- all ways of writing `t = p ++ ':' :: l` -/
def colonSplits : Str → List (Str × Str)
  | [] => []
  | c :: r => (if c == ':' then [([], r)] else []) ++ (colonSplits r).map fun pl => (c :: pl.1, pl.2)

/-- Namespaces in XML [7] QName ::= PrefixedName | UnprefixedName, PrefixedName ::= NCName ':' NCName -/
def qNameLex (t : Str) : Bool :=
  ncNameLex t || (colonSplits t).any fun pl => ncNameLex pl.1 && ncNameLex pl.2

end EPV.XSD

/-! ## xs:anyURI — XSD 1.1 Part 2 §3.3.17: the lexical space is every string (whiteSpace = collapse, identity mapping); RFC 3986
is what the value is meant to be.  Two syntactic facts of RFC 3986 that every URI reference satisfies:
`pct-encoded = "%" HEXDIG HEXDIG` is the only use of '%', and '#' occurs at most once (it starts the fragment, whose
characters exclude '#'). -/
namespace EPV.XSD

/-- every '%' is followed by two hexadecimal digits -/
def hexDigitPair : Str → Bool
  | a :: b :: _ => isHexDigit a && isHexDigit b
  | _ => false

def pctEncodedOk : Str → Bool
  | [] => true
  | c :: r => (c != '%' || hexDigitPair r) && pctEncodedOk r

def atMostOneHash (s : Str) : Bool := (s.filter (· == '#')).length ≤ 1

/-- RFC 3986 §3.1, §4.2: a URI reference does not begin with ':' (a scheme is not empty, and the first segment of a relative
path contains no colon) -/
def noLeadingColon (s : Str) : Bool := s.head? != some ':'

end EPV.XSD

/-! ## casting xs:string to xs:QName — F&O 3.1 §19.3.? / XPath 3.1 §3.18.?: the lexical form (whiteSpace = collapse) must be a
QName (else FORG0001); a prefix is resolved in the statically known namespaces (absent: FONS0004); **an unprefixed name is in
the default element/type namespace**.  `none` = an error. -/
namespace EPV.XSD

def castToQName (known : List (Str × Str)) (defaultElementNs : Str) (s : Str) : Option (Str × Str × Str) :=
  let c := wsCollapse s
  if !qNameLex c then none
  else if c.contains ':' then
    let p := c.takeWhile (· != ':')
    match known.find? (·.1 == p) with
    | some e => some (e.2, p, (c.dropWhile (· != ':')).drop 1)
    | none => none
  else some (defaultElementNs, [], c)

end EPV.XSD

/-
C10 — lexical spaces of the year-bearing date/time types: XSD 1.1 Part 2 §3.3.7 dateTime, §3.3.9 date,
§3.3.10 gYearMonth, §3.3.11 gYear, §3.4.28 dateTimeStamp, written from the productions

  yearFrag ::= '-'? (([1-9] digit digit digit+) | ('0' digit digit digit))
  dateTimeLexicalRep ::= yearFrag '-' monthFrag '-' dayFrag 'T'
                         ((hourFrag ':' minuteFrag ':' secondFrag) | endOfDayFrag) timezoneFrag?
  dateLexicalRep ::= yearFrag '-' monthFrag '-' dayFrag timezoneFrag?     (day-of-month constraint)
  gYearMonthLexicalRep ::= yearFrag '-' monthFrag timezoneFrag?     gYearLexicalRep ::= yearFrag timezoneFrag?

and the fragments of EPV/Spec/XSDLexical.lean (monthFrag, dayFrag, the time of day with endOfDayFrag, the
enumerated timezone literals).  The result is the record of the lexical fields; the year is translated to the
astronomical numbering of the XSD version by C11's `Timeline.astroOfLex10/11` (XSD 1.0 has no year 0000 and `-0001`
is 1 BCE; XSD 1.1 `0000` is 1 BCE), the day-of-month constraint is C11's `Timeline.monthLen` (= daysInMonth, §E.3.2).
Core Lean only; EPV/Spec/Timeline.lean is imported read-only.
-/
import EPV.Spec.XSDLexical
import EPV.Spec.Timeline
namespace EPV.XSD

/-- the lexical fields of a date/time literal; `year` is the astronomical year -/
structure DateFields where
  year : Int
  month : Nat := 1
  day : Nat := 1
  hour : Nat := 0
  minute : Nat := 0
  second : Nat := 0
  frac : Str := []
  tz : Option Int := none
deriving DecidableEq, Repr

/-- the fraction of the seconds in microseconds, cut (not rounded) after the sixth digit: the first six fraction digits,
padded with zeros on the right (XSD requires only milliseconds; finer digits are an implementation-defined precision) -/
def microTrunc (frac : Str) : Nat := digitSeqVal ((frac ++ List.replicate 6 '0').take 6) 0

/-- yearFrag at the head of the literal: its numeric value (noDecimalMap) and the rest -/
def yearFrag? (t : Str) : Option (Int × Str) :=
  let r := stripMinus t
  let ds := r.takeWhile isDigit
  if ds.length < 4 then none
  else if ds.length > 4 && ds.head? == some '0' then none
  else some (if t.head? == some '-' then -(digitSeqVal ds 0 : Int) else (digitSeqVal ds 0 : Int), r.dropWhile isDigit)

/-- the year property for a lexical year number under the XSD version -/
def astroOfLex (v11 : Bool) (n : Int) : Option Int :=
  if v11 then Timeline.astroOfLex11 n else Timeline.astroOfLex10 n

def gYearLex (v11 : Bool) (t : Str) : Option DateFields :=
  match yearFrag? t with
  | some (n, r) =>
    match astroOfLex v11 n, tzSuffix? r with
    | some y, some tz => some { year := y, tz := tz }
    | _, _ => none
  | none => none

def gYearMonthLex (v11 : Bool) (t : Str) : Option DateFields :=
  match yearFrag? t with
  | some (n, '-' :: a :: b :: r) =>
    match astroOfLex v11 n, tzSuffix? r with
    | some y, some tz => if monthFragOk a b then some { year := y, month := fragVal a b, tz := tz } else none
    | _, _ => none
  | _ => none

def dateLex (v11 : Bool) (t : Str) : Option DateFields :=
  match yearFrag? t with
  | some (n, '-' :: a :: b :: '-' :: c :: d :: r) =>
    match astroOfLex v11 n, tzSuffix? r with
    | some y, some tz =>
      if monthFragOk a b && dayFragOk c d && decide ((fragVal c d : Int) ≤ Timeline.monthLen y (fragVal a b)) then
        some { year := y, month := fragVal a b, day := fragVal c d, tz := tz }
      else none
    | _, _ => none
  | _ => none

/-- the hour of the time-of-day text `r` accepted by `timeLex` with result `g`: `timeLex` reports an endOfDayFrag as 00:00:00 -/
def hourOf (r : Str) (g : GVal) : Nat :=
  match r with
  | '2' :: '4' :: _ => 24
  | _ => g.hour

/-- the time of day and the timezone are `timeLex` (XSDLexical.lean: hourFrag ':' minuteFrag ':' secondFrag or
endOfDayFrag, then timezoneFrag?); an end-of-day literal is reported with hour 24 -/
def dateTimeLex (v11 : Bool) (t : Str) : Option DateFields :=
  match yearFrag? t with
  | some (n, '-' :: a :: b :: '-' :: c :: d :: 'T' :: r) =>
    match astroOfLex v11 n, timeLex r with
    | some y, some g =>
      if monthFragOk a b && dayFragOk c d && decide ((fragVal c d : Int) ≤ Timeline.monthLen y (fragVal a b)) then
        some { year := y, month := fragVal a b, day := fragVal c d,
               hour := hourOf r g, minute := g.minute, second := g.second,
               frac := g.frac, tz := g.tz }
      else none
    | _, _ => none
  | _ => none

/-- §3.4.28: dateTimeStamp is dateTime with the timezone required -/
def dateTimeStampLex (v11 : Bool) (t : Str) : Option DateFields :=
  match dateTimeLex v11 t with
  | some f => if f.tz.isSome then some f else none
  | none => none

end EPV.XSD

/-
Specification for C20, written from the standards, independently of the walk in `apply_schema`:

* XSD 1.1 Part 1 §3.3.4.6 "Schema-Validity Assessment (Element)", §3.3.4.3 "Element Locally Valid
  (Type)" and §3.9.4.2 "Element Sequence Locally Valid (Particle)": the *governing type definition*
  of an element information item is the instance-specified type (`xsi:type`) if there is one,
  otherwise the declared type of its *governing element declaration* — the declaration the item is
  attributed to by the content model of its parent's type (for the root / under a wildcard or as a
  substitution-group member: the global declaration with its name).                → `Governs`, `Typing`
* XDM 3.1 §6.2.2/§6.2.4 (type-name, typed-value, nilled of element nodes constructed from a PSVI),
  §6.3.4 (attribute nodes), XSD 1.1 Part 2 §4.3.6 (whiteSpace), §2.4.1 (list / union varieties:
  the value of a union literal is the value in the FIRST member type in which it is valid).
                                                                                     → `decode`, `specElemValue`
* XPath 3.1 §2.5.5.3/§2.5.5.5 `element(*, T)` / `attribute(*, T)`: the test matches when the
  type annotation of the node is `T` or derived from `T`.                           → `derivesFrom`

The instance/schema vocabulary (`Schema`, `Forest`, `SType`, builtin table `B`) is shared with the
model file; nothing here mentions `applyF`, the cache, or the decoder's prototype values.
-/
import EPV.Model.SchemaTyping
namespace EPV.Xsd.Spec
open EPV.Xsd

/-! ## governing declaration and type -/

/-- the declaration an element named `name` is attributed to by a particle that accepts it
(§3.9.4.2): an element particle with that very name → its own (possibly local) declaration;
a substitution-group member or an element wildcard → the global declaration with that name
(for a lax wildcard without such a declaration, and for a `processContents="skip"` wildcard: none,
the element is not assessed) -/
def declOf (s : Schema) (p : Particle) (name : String) : Option ElemDecl :=
  match p with
  | .elem d _ => if d.name = name then some d else s.elements.find? (fun g => g.name == name)
  | .any _ skip => if skip then none else s.elements.find? (fun g => g.name == name)

/-- the governing element declaration of a child named `name` under a parent whose governing type
is `ctx` (`none` = the validation root) -/
inductive GovDecl (s : Schema) : Option Ty → String → ElemDecl → Prop
  /-- the validation root: a global declaration with the element's name -/
  | root (name : String) (d : ElemDecl) :
      d ∈ s.elements → d.name = name → GovDecl s none name d
  /-- an element declaration of the content model of the parent's (complex, non-simple-content)
  type has this very name -/
  | declared (id : Nat) (ct : CType) (d : ElemDecl) (sub : List String) :
      s.ctypes[id]? = some ct → (∀ t, ct.content ≠ .simple t) →
      Particle.elem d sub ∈ ct.particles →
      GovDecl s (some (.complex id)) d.name d
  /-- no element declaration of the content model has this name, but it is a member of the
  substitution group of an element particle: its own global declaration -/
  | substitution (id : Nat) (ct : CType) (h : ElemDecl) (sub : List String) (name : String) (d : ElemDecl) :
      s.ctypes[id]? = some ct → (∀ t, ct.content ≠ .simple t) →
      (∀ d' sub', Particle.elem d' sub' ∈ ct.particles → d'.name ≠ name) →
      Particle.elem h sub ∈ ct.particles → name ∈ sub →
      declOf s (.elem h sub) name = some d →
      GovDecl s (some (.complex id)) name d
  /-- no element particle accepts the name, an element wildcard does: the global declaration with
  that name (none for `processContents="skip"`).  XSD 1.1 Part 1 §3.8.6.4 (Unique Particle
  Attribution): in a competition between an element particle and a wildcard the element particle
  takes precedence. -/
  | wildcard (id : Nat) (ct : CType) (ns : Option (List String)) (skip : Bool) (name : String) (d : ElemDecl) :
      s.ctypes[id]? = some ct → (∀ t, ct.content ≠ .simple t) →
      (∀ d' sub', Particle.elem d' sub' ∈ ct.particles → Particle.matches (.elem d' sub') name = false) →
      Particle.any ns skip ∈ ct.particles → Particle.matches (.any ns skip) name = true →
      declOf s (.any ns skip) name = some d →
      GovDecl s (some (.complex id)) name d

/-- governing type definition and governing declaration of an element -/
inductive Governs (s : Schema) : Option Ty → String → Xsi → Ty → Option ElemDecl → Prop
  /-- instance-specified type definition (`xsi:type`) overrides the declared type -/
  | xsi (ctx : Option Ty) (name tn : String) (ty : Ty) :
      s.getType tn = some ty → Governs s ctx name (.name tn) ty none
  | declared (ctx : Option Ty) (name : String) (d : ElemDecl) :
      GovDecl s ctx name d → Governs s ctx name .absent d.type (some d)

/-- type assignment to a whole forest of siblings whose parent has governing type `ctx`.
An element without governing type is not assessed, and neither is anything below it. -/
inductive Typing (s : Schema) : Option Ty → Forest Unit → Forest Ann → Prop
  | nil (ctx : Option Ty) : Typing s ctx .nil .nil
  | leaf (ctx : Option Ty) (k : LeafKind) (t : String) (r : Forest Unit) (r' : Forest Ann) :
      Typing s ctx r r' → Typing s ctx (.leaf k t r) (.leaf k t r')
  | typed (ctx : Option Ty) (n : String) (ats : List (String × String)) (x : Xsi) (ty : Ty)
      (d : Option ElemDecl) (kids rest : Forest Unit) (kids' rest' : Forest Ann) :
      Governs s ctx n x ty d → Typing s (some ty) kids kids' → Typing s ctx rest rest' →
      Typing s ctx (.elem () n ats x kids rest) (.elem ⟨some ty, d⟩ n ats x kids' rest')
  | untyped (ctx : Option Ty) (n : String) (ats : List (String × String)) (x : Xsi)
      (kids rest : Forest Unit) (rest' : Forest Ann) :
      (∀ ty d, ¬ Governs s ctx n x ty d) → Typing s ctx rest rest' →
      Typing s ctx (.elem () n ats x kids rest)
        (.elem ⟨none, none⟩ n ats x (kids.map fun _ => ⟨none, none⟩) rest')

/-- type assignment when assessment starts at an element with a declaration STIPULATED by the
processor (XSD 1.1 Part 1 §3.3.4.6 clause 1.1.1 "a declaration was stipulated by the processor"):
the element is governed by that declaration and its children by the content model of the
declaration's type.  For the evaluation of an assertion (§3.13.4.1 Assertion Satisfied) the tree
rooted at the element is the partial PSVI in which "the element itself is untyped": its annotation
is `xs:anyType`, while its attributes and descendants carry the types of the complex type that
holds the assertion. -/
inductive TypingB (s : Schema) : Option BaseElem → Forest Unit → Forest Ann → Prop
  | default (t : Forest Unit) (a : Forest Ann) : Typing s none t a → TypingB s none t a
  | stipulated (b : BaseElem) (n : String) (ats : List (String × String)) (x : Xsi)
      (kids rest : Forest Unit) (kids' : Forest Ann) :
      Typing s (some b.decl.type) kids kids' →
      TypingB s (some b) (.elem () n ats x kids rest)
        (.elem ⟨some (if b.assertion then .simple (.builtin .anyType) else b.decl.type), some b.decl⟩
          n ats x kids' (rest.map fun _ => ⟨none, none⟩))

/-- consistency of a schema, required by XSD itself: global element names are unique
(§3.3.6 / sch-props-correct) and a content model attributes every name to one declaration
(§3.8.6.3 "Element Declarations Consistent" together with unique particle attribution) -/
structure Consistent (s : Schema) : Prop where
  globalsUnique : ∀ d₁ ∈ s.elements, ∀ d₂ ∈ s.elements, d₁.name = d₂.name → d₁ = d₂
  /-- Element Declarations Consistent (§3.8.6.3): two element particles of one content model with
  the same name are the same declaration -/
  edc : ∀ (id : Nat) (ct : CType), s.ctypes[id]? = some ct →
        ∀ d₁ sub₁ d₂ sub₂, Particle.elem d₁ sub₁ ∈ ct.particles → Particle.elem d₂ sub₂ ∈ ct.particles →
        d₁.name = d₂.name → d₁ = d₂
  /-- a name that is accepted by several element particles (substitution-group heads) is attributed to one
  declaration by all of them -/
  substConsistent : ∀ (id : Nat) (ct : CType), s.ctypes[id]? = some ct →
        ∀ h₁ sub₁ h₂ sub₂ (name : String), Particle.elem h₁ sub₁ ∈ ct.particles →
        Particle.elem h₂ sub₂ ∈ ct.particles →
        Particle.matches (.elem h₁ sub₁) name = true → Particle.matches (.elem h₂ sub₂) name = true →
        declOf s (.elem h₁ sub₁) name = declOf s (.elem h₂ sub₂) name
  /-- … and so do all wildcards that accept a name (e.g. not one `skip` and one `lax`) -/
  wildConsistent : ∀ (id : Nat) (ct : CType), s.ctypes[id]? = some ct →
        ∀ ns₁ sk₁ ns₂ sk₂ (name : String), Particle.any ns₁ sk₁ ∈ ct.particles →
        Particle.any ns₂ sk₂ ∈ ct.particles →
        Particle.matches (.any ns₁ sk₁) name = true → Particle.matches (.any ns₂ sk₂) name = true →
        declOf s (.any ns₁ sk₁) name = declOf s (.any ns₂ sk₂) name

/-- reduced validity: every element of the forest has a governing type (content-model order and
occurrence, and the lexical validity of simple content, are not part of the reduction) -/
inductive Assessed (s : Schema) : Option Ty → Forest Unit → Prop
  | nil (ctx : Option Ty) : Assessed s ctx .nil
  | leaf (ctx : Option Ty) (k : LeafKind) (t : String) (r : Forest Unit) :
      Assessed s ctx r → Assessed s ctx (.leaf k t r)
  | elem (ctx : Option Ty) (n : String) (ats : List (String × String)) (x : Xsi) (ty : Ty)
      (d : Option ElemDecl) (kids rest : Forest Unit) :
      Governs s ctx n x ty d → Assessed s (some ty) kids → Assessed s ctx rest →
      Assessed s ctx (.elem () n ats x kids rest)

/-- every element carries a type -/
def allTyped : Forest Ann → Prop
  | .nil => True
  | .leaf _ _ r => allTyped r
  | .elem a _ _ _ k r => a.xsdType.isSome = true ∧ allTyped k ∧ allTyped r

/-! ## derivation between types (for `element(*, T)` / `attribute(*, T)`) -/

/-- the nearest builtin type a simple type is, or is derived from -/
def nearestB : SType → B
  | .builtin b => b
  | .restr _ base _ => nearestB base
  | .list _ _ => .anySimpleType
  | .union _ _ => .anySimpleType

/-- the builtin types a value of simple type `t` must be an instance of -/
def builtinAncestors (t : SType) : List B := (nearestB t).ancestors

/-- `T` (a builtin) is `t` or a base type of `t` -/
def derivesFromB (t : SType) (T : B) : Bool := (builtinAncestors t).contains T

/-- the datatype class of builtin `b`: values of the special types (`xs:anyType`,
`xs:anySimpleType`, `xs:anyAtomicType`) are `xs:untypedAtomic` values -/
def classOf (b : B) : B := if b.isSpecial then .untypedAtomic else b

/-- an atomic value is an instance of builtin `T` (XPath 3.1 §2.5.5.2: its type annotation is `T`
or derived from it) -/
def _root_.EPV.Xsd.Atom.instanceOf (a : Atom) (T : B) : Bool := a.cls.derives T

/-! ## operators on typed nodes (XPath 3.1 §3.5 arithmetic, §3.7.2 general comparison, on the
atomized operand: the operand of `+` / `=` is the node's typed value)

Only the fragment the check uses: `$v + 1`, `$v = 7`, `$v = true()`, `$v = 'abc'` for the integer
family, `xs:decimal`, `xs:boolean` and the string family.  Results: `integer=…`, `decimal=…`,
`true`/`false`, `err` (XPTY0004: the operand type does not admit the operator), `n/a` (outside the
fragment: empty, `xs:double`, `xs:untypedAtomic`, dates, `xs:anyURI`). -/

def isIntClsB (b : B) : Bool := b.intBounds.isSome
def isStrCls (b : B) : Bool := b == .string || b == .normalizedString || b == .token
def outsideOps (b : B) : Bool :=
  b == .double || b == .untypedAtomic || b.isDateLike || b == .anyURI || b.isSpecial

/-- canonical decimal text + 1 -/
def decPlus1 (c : String) : String :=
  let (neg, r) := splitSign c.toList
  let ip := r.takeWhile (· != '.')
  let fp := (r.dropWhile (· != '.')).drop 1
  -- implementations need only support 18 decimal digits (XSD 1.1 Part 2 §5.4): beyond → outside
  if (ip ++ fp).length > 18 then "n/a" else
  match natOfDigits? (ip ++ fp) with
  | none => "?"
  | some m =>
    let scale := fp.length
    let v : Int := (if neg then - (m : Int) else (m : Int)) + (10 ^ scale : Nat)
    let digits := (toString v.natAbs).toList
    let digits := List.replicate (scale + 1 - digits.length) '0' ++ digits
    canonDec (v < 0) (digits.take (digits.length - scale)) (digits.drop (digits.length - scale))

def opPlus1 (vs : List Atom) : String :=
  match vs with
  | [] => "n/a"
  | [a] =>
    if outsideOps a.cls then "n/a"
    else if isIntClsB a.cls then
      match intOfLex? a.val with
      | some v => "integer=" ++ toString (v + 1)
      | none => "?"
    else if a.cls == .decimal then (if a.val.startsWith "py:" || decPlus1 a.val == "n/a" then "n/a" else "decimal=" ++ decPlus1 a.val)
    else "err"
  | _ => if vs.any (fun a => outsideOps a.cls) then "n/a" else "err"

/-- the pairs of a general comparison are examined in order: an equal pair answers `true`, a pair
whose types do not admit the comparison raises XPTY0004 -/
def opEqSeq (ok eq : Atom → Bool) : List Atom → String
  | [] => "false"
  | a :: r => if !ok a then "err" else if eq a then "true" else opEqSeq ok eq r

/-- `$v = lit` where `ok a` says the atom's type admits the comparison and `eq a` that it is equal -/
def opEq (ok eq : Atom → Bool) (vs : List Atom) : String :=
  if vs.isEmpty then "n/a"      -- atomization of an empty typed value raises FOTY0012 in the engine: outside the fragment
  else if vs.any (fun a => outsideOps a.cls) then "n/a"
  else opEqSeq ok eq vs

def opEq7 (vs : List Atom) : String :=
  opEq (fun a => (isIntClsB a.cls || a.cls == .decimal) && !a.val.startsWith "py:") (fun a => a.val == "7") vs
def opEqTrue (vs : List Atom) : String := opEq (fun a => a.cls == .boolean) (fun a => a.val == "true") vs
def opEqStr (lit : String) (vs : List Atom) : String := opEq (fun a => isStrCls a.cls) (fun a => a.val == lit) vs

/-! ## typed values -/

inductive WS where | preserve | replace | collapse

/-- XSD 1.1 Part 2 §4.3.6: whiteSpace of the builtins -/
def wsOf : B → WS
  | .string | .anyType | .anySimpleType | .anyAtomicType | .untypedAtomic => .preserve
  | .normalizedString => .replace
  | _ => .collapse

def normalize (b : B) (s : String) : String :=
  match wsOf b with
  | .preserve => s
  | .replace => replaceWs s
  | .collapse => collapse s

/-- lexical mapping of the builtins on a whitespace-normalised literal (Part 2 §3.3, §3.4);
doubles and dates keep their lexical form (see `Atom`) -/
def xsdLex (b : B) (s : String) : Option Atom :=
  match b with
  | .anyType | .anySimpleType | .anyAtomicType | .untypedAtomic => some ⟨.untypedAtomic, s⟩
  | .string | .normalizedString | .token | .anyURI => some ⟨b, s⟩
  | .boolean =>
    if s == "true" || s == "1" then some ⟨.boolean, "true"⟩
    else if s == "false" || s == "0" then some ⟨.boolean, "false"⟩ else none
  | .decimal => (decOfLex? s).map fun c => ⟨.decimal, c⟩
  | .double => if isXsdDouble s then some ⟨.double, s⟩ else none
  | .date => if isDateLex s then some ⟨.date, s⟩ else none
  | .dateTime => if isDateTimeLex s then some ⟨.dateTime, s⟩ else none
  | .gYear => if isGYearLex s then some ⟨.gYear, s⟩ else none
  | .gYearMonth => if isGYearMonthLex s then some ⟨.gYearMonth, s⟩ else none
  | b => match intOfLex? s with
    | some v => if b.inBounds v then some ⟨b, toString v⟩ else none
    | none => none

def isIntCls (b : B) : Bool := b.intBounds.isSome

/-- the reduced facets: enumeration on the literal, bounds on integer values -/
def facetsOk (f : Facets) (lit : String) (a : Atom) : Bool :=
  (match f.enum with | none => true | some l => l.contains lit) &&
  (match intOfLex? a.val with
   | some v => (match f.minInc with | none => true | some m => decide (m ≤ v)) &&
               (match f.maxInc with | none => true | some m => decide (v ≤ m))
   | none => true)

/-- the items of a list literal, each decoded by `f` -/
def decodeItems (f : String → Option (List Atom)) : List String → Option (List Atom)
  | [] => some []
  | w :: ws => match f w, decodeItems f ws with
    | some a, some r => some (a ++ r)
    | _, _ => none

mutual
/-- the value of literal `s` in simple type `t` (`none` = not in the lexical space).  The type
label of each atom is the nearest builtin of the (member/item) type in which it was validated. -/
def decode : SType → String → Option (List Atom)
  | .builtin b, s => (xsdLex b (normalize b s)).map ([·])
  | .restr _ base f, s =>
    match decode base s with
    | some [a] => if facetsOk f (normalize a.cls s) a then some [a] else none
    | r => r
  | .list _ item, s => decodeItems (decode item) (splitWs s)
  | .union _ ms, s => decodeFirst ms s
def decodeFirst : List SType → String → Option (List Atom)
  | [], _ => none
  | m :: ms, s => match decode m s with
    | some v => some v
    | none => decodeFirst ms s
end

/-- `simple_type.is_valid(literal)` of the schema processor (TRUSTED; used by the decoder to choose a
union member): the literal is in the lexical space of the type and satisfies its facets -/
def isValid (t : SType) (s : String) : Bool := (decode t s).isSome

/-- expected typed value of an element (XDM 3.1 §6.2.4):
`none` = the typed value is undefined (element-only content, `fn:data` raises FOTY0012) or the
content is not valid -/
def specElemValue (s : Schema) (a : Ann) (attrs : List (String × String)) (kids : Forest Ann) :
    Option (List Atom) :=
  match a.xsdType with
  | none => some [⟨.untypedAtomic, allText kids⟩]
  | some ty =>
    match contentKind s ty with
    | .special | .mixed => some [⟨.untypedAtomic, allText kids⟩]
    | .elementOnly => none
    | .emptyC => some []
    | .simpleC t =>
      if nilled attrs then some []
      else
        let txt := allText kids
        -- §3.3.4.3 clause 5.1: the default/fixed value is used when the element has no content
        let txt := if txt.isEmpty then (a.xsdElem.bind (·.default)).getD "" else txt
        decode t txt

/-- XSD 1.1 Part 1 §3.4.4.2 clause 3 / XDM 3.1 §6.3.4: an attribute information item is attributed to
the attribute use with its name in the governing complex type of its element; its type is the
declared type of that use (`none`: no such use — the attribute is not assessed by declaration) -/
def specAttrType (s : Schema) (ty : Ty) (name : String) : Option SType :=
  match ty with
  | .simple _ => none
  | .complex id => (s.ctypes[id]?).bind fun ct => (ct.attrs.find? (fun d => d.name == name)).map (·.type)

/-- expected typed value of an attribute of declared type `t` (XDM 3.1 §6.3.4) -/
def specAttrValue (t : Option SType) (value : String) : Option (List Atom) :=
  match t with
  | none => some [⟨.untypedAtomic, value⟩]
  | some t => decode t value

end EPV.Xsd.Spec
